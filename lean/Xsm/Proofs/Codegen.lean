import Xsm.Model.Codegen
/-!
Lemmas about the naming model (`Xsm/Model/Codegen.lean`) used by `Xsm/Properties/C17.lean`.
-/
namespace XSM.Codegen

/-- every character is in `[0-9a-zA-Z_]` -/
def AllId (l : List Char) : Prop := ∀ x ∈ l, isIdChar x = true

/-- non-empty, first character an ASCII letter, the rest in `[0-9a-zA-Z_]` -/
def StartsLetter (l : List Char) : Prop :=
  ∃ c cs, l = c :: cs ∧ isAsciiLetter c = true ∧ AllId cs

/-- non-empty, first character an ASCII letter or digit, the rest in `[0-9a-zA-Z_]` -/
def GoodCand (l : List Char) : Prop :=
  ∃ c cs, l = c :: cs ∧ (isAsciiLetter c = true ∨ isAsciiDigit c = true) ∧ AllId cs

theorem allId_nil : AllId [] := by intro x hx; cases hx

theorem allId_cons {c : Char} {cs : List Char} (hc : isIdChar c = true) (h : AllId cs) : AllId (c :: cs) := by
  intro x hx
  rcases List.mem_cons.1 hx with rfl | hx
  · exact hc
  · exact h x hx

theorem allId_append {a b : List Char} (ha : AllId a) (hb : AllId b) : AllId (a ++ b) := by
  intro x hx
  rcases List.mem_append.1 hx with h | h
  · exact ha x h
  · exact hb x h

theorem isIdChar_of_letter {c : Char} (h : isAsciiLetter c = true) : isIdChar c = true := by
  simp [isIdChar, h]

theorem isIdChar_of_digit {c : Char} (h : isAsciiDigit c = true) : isIdChar c = true := by
  simp [isIdChar, h]

theorem isIdChar_underscore : isIdChar '_' = true := by decide

theorem letter_not_digit {c : Char} (h : isAsciiLetter c = true) : isAsciiDigit c = false := by
  simp only [isAsciiLetter, isAsciiDigit, Bool.or_eq_true, Bool.and_eq_true, decide_eq_true_eq] at h ⊢
  cases hd : (decide (48 ≤ c.toNat) && decide (c.toNat ≤ 57)) with
  | false => rfl
  | true =>
    simp only [Bool.and_eq_true, decide_eq_true_eq] at hd
    omega

theorem letter_ne_underscore {c : Char} (h : isAsciiLetter c = true) : c ≠ '_' := by
  intro hc; subst hc; revert h; decide

theorem digit_ne_underscore {c : Char} (h : isAsciiDigit c = true) : c ≠ '_' := by
  intro hc; subst hc; revert h; decide

-- subInvalid ------------------------------------------------------------------------------------
theorem subInvalidAux_allId (b : Bool) (l : List Char) : AllId (subInvalidAux b l) := by
  induction l generalizing b with
  | nil => simp [subInvalidAux, allId_nil]
  | cons c cs ih =>
    simp only [subInvalidAux]
    split
    · rename_i hc; exact allId_cons hc (ih false)
    · split
      · exact ih true
      · exact allId_cons isIdChar_underscore (ih true)

theorem subInvalid_allId (l : List Char) : AllId (subInvalid l) := subInvalidAux_allId false l

/-- on a string of valid characters the substitution is the identity -/
theorem subInvalidAux_of_allId (b : Bool) (l : List Char) (h : AllId l) : subInvalidAux b l = l := by
  induction l generalizing b with
  | nil => rfl
  | cons c cs ih =>
    have hc : isIdChar c = true := h c (List.mem_cons_self ..)
    have hcs : AllId cs := fun x hx => h x (List.mem_cons_of_mem _ hx)
    simp only [subInvalidAux, hc, if_true, ih false hcs]

-- strip -----------------------------------------------------------------------------------------
theorem stripR_mem {l : List Char} {x : Char} : x ∈ stripR l → x ∈ l := by
  induction l with
  | nil => simp [stripR]
  | cons c cs ih =>
    simp only [stripR]
    split
    · split
      · intro h; cases h
      · intro h; simp at h; subst h; exact List.mem_cons_self ..
    · rename_i r rs hr
      intro h
      rcases List.mem_cons.1 h with rfl | h
      · exact List.mem_cons_self ..
      · exact List.mem_cons_of_mem _ (ih (by rw [hr]; exact h))

theorem stripR_head {l : List Char} {c : Char} {cs : List Char} (h : stripR l = c :: cs) :
    ∃ t, l = c :: t := by
  cases l with
  | nil => simp [stripR] at h
  | cons a t =>
    simp only [stripR] at h
    split at h
    · split at h
      · cases h
      · simp at h; exact ⟨t, by rw [h.1]⟩
    · simp at h; exact ⟨t, by rw [h.1]⟩

theorem stripL_mem {l : List Char} {x : Char} : x ∈ stripL l → x ∈ l := by
  induction l with
  | nil => simp [stripL]
  | cons c cs ih =>
    simp only [stripL, List.dropWhile_cons]
    split
    · intro h; exact List.mem_cons_of_mem _ (ih h)
    · intro h; exact h

theorem stripL_head {l : List Char} {c : Char} {cs : List Char} (h : stripL l = c :: cs) : c ≠ '_' := by
  induction l with
  | nil => simp [stripL] at h
  | cons a t ih =>
    simp only [stripL, List.dropWhile_cons] at h
    split at h
    · exact ih h
    · rename_i hn
      simp at h
      rw [← h.1]
      intro ha; apply hn; simp [ha]

theorem strip_mem {l : List Char} {x : Char} (h : x ∈ strip l) : x ∈ l := stripL_mem (stripR_mem h)

theorem strip_head {l : List Char} {c : Char} {cs : List Char} (h : strip l = c :: cs) : c ≠ '_' := by
  obtain ⟨t, ht⟩ := stripR_head h
  exact stripL_head ht

/-- what `sanitize` returns is empty or a good candidate -/
theorem sanitize_good (tr : Char → List Char) (s : List Char) :
    sanitize tr s = [] ∨ GoodCand (sanitize tr s) := by
  cases hs : sanitize tr s with
  | nil => exact Or.inl rfl
  | cons c cs =>
    right
    have hall : AllId (c :: cs) := by
      intro x hx
      rw [← hs] at hx
      exact subInvalid_allId _ x (strip_mem hx)
    have hne : c ≠ '_' := strip_head hs
    refine ⟨c, cs, rfl, ?_, fun x hx => hall x (List.mem_cons_of_mem _ hx)⟩
    have hc := hall c (List.mem_cons_self ..)
    simp only [isIdChar, Bool.or_eq_true, beq_iff_eq] at hc
    rcases hc with (h | h) | h
    · exact Or.inl h
    · exact Or.inr h
    · exact absurd h hne

theorem stateWord_good : GoodCand stateWord :=
  ⟨'s', ['t', 'a', 't', 'e'], rfl, Or.inl (by decide), by
    intro x hx
    simp at hx
    rcases hx with rfl | rfl | rfl | rfl <;> decide⟩

theorem baseCandidate_good (tr : Char → List Char) (name fb : List Char) : GoodCand (baseCandidate tr name fb) := by
  unfold baseCandidate
  split
  · split
    · exact stateWord_good
    · rename_i c cs h
      rcases sanitize_good tr fb with h' | h'
      · rw [h] at h'; cases h'
      · rw [h] at h'; exact h'
  · rename_i c cs h
    rcases sanitize_good tr name with h' | h'
    · rw [h] at h'; cases h'
    · rw [h] at h'; exact h'

theorem prefixDigit_startsLetter {l : List Char} (h : GoodCand l) : StartsLetter (prefixDigit l) := by
  obtain ⟨c, cs, rfl, hc, hcs⟩ := h
  simp only [prefixDigit]
  split
  · rename_i hd
    exact ⟨'s', '_' :: c :: cs, rfl, by decide,
      allId_cons isIdChar_underscore (allId_cons (isIdChar_of_digit hd) hcs)⟩
  · rename_i hd
    rcases hc with hc | hc
    · exact ⟨c, cs, rfl, hc, hcs⟩
    · exact absurd hc hd

theorem startsLetter_append {l s : List Char} (h : StartsLetter l) (hs : AllId s) : StartsLetter (l ++ s) := by
  obtain ⟨c, cs, rfl, hc, hcs⟩ := h
  exact ⟨c, cs ++ s, rfl, hc, allId_append hcs hs⟩

theorem allId_underscore : AllId ['_'] := allId_cons isIdChar_underscore allId_nil

theorem finish_cases (T : NameTables) (c : List Char) :
    (finish T c = c ∧ c ∉ T.keywords ∧ c ∉ T.soft ∧ c ∉ T.shadow) ∨ finish T c = c ++ ['_'] := by
  unfold finish
  split
  · exact Or.inr rfl
  · rename_i h
    split
    · exact Or.inr rfl
    · rename_i h2
      exact Or.inl ⟨rfl, fun hk => h (Or.inl hk), fun hk => h (Or.inr hk), h2⟩

theorem finish_startsLetter (T : NameTables) {c : List Char} (h : StartsLetter c) : StartsLetter (finish T c) := by
  rcases finish_cases T c with ⟨h1, _⟩ | h1
  · rw [h1]; exact h
  · rw [h1]; exact startsLetter_append h allId_underscore

theorem toIdentifierWith_startsLetter (T : NameTables) (tr : Char → List Char) (name fb : List Char) :
    StartsLetter (toIdentifierWith T tr name fb) :=
  finish_startsLetter T (prefixDigit_startsLetter (baseCandidate_good tr name fb))

/-- every word of the list ends in an ASCII letter (so: not in `_`, not in a digit) -/
def EndsInLetter (ws : List (List Char)) : Prop :=
  ∀ k ∈ ws, ∃ d, k.getLast? = some d ∧ isAsciiLetter d = true

theorem not_mem_of_last_underscore {ws : List (List Char)} (h : EndsInLetter ws) (c : List Char) :
    c ++ ['_'] ∉ ws := by
  intro hm
  obtain ⟨d, hd, hl⟩ := h _ hm
  rw [List.getLast?_concat] at hd
  cases hd
  revert hl; decide

theorem toIdentifierWith_not_mem (T : NameTables) (tr : Char → List Char) (name fb : List Char)
    (ws : List (List Char)) (hws : EndsInLetter ws)
    (hsub : ∀ w ∈ ws, w ∈ T.keywords ∨ w ∈ T.soft ∨ w ∈ T.shadow) :
    toIdentifierWith T tr name fb ∉ ws := by
  unfold toIdentifierWith
  rcases finish_cases T (prefixDigit (baseCandidate tr name fb)) with ⟨h1, hk, hs, hsh⟩ | h1
  · rw [h1]
    intro hm
    rcases hsub _ hm with h | h | h
    · exact hk h
    · exact hs h
    · exact hsh h
  · rw [h1]; exact not_mem_of_last_underscore hws _

-- decimal suffixes ------------------------------------------------------------------------------
theorem toDigits_inj {n m : Nat} (h : Nat.toDigits 10 n = Nat.toDigits 10 m) : n = m := by
  have hn := @Nat.ofDigitChars_ten_toDigits n
  have hm := @Nat.ofDigitChars_ten_toDigits m
  rw [h] at hn
  omega

theorem toDigits_digit {n : Nat} {c : Char} (h : c ∈ Nat.toDigits 10 n) : isAsciiDigit c = true := by
  have := Nat.isDigit_of_mem_toDigits (b := 10) (by omega) (by omega) h
  simp only [Char.isDigit, Bool.and_eq_true, decide_eq_true_eq] at this
  simp only [isAsciiDigit, Bool.and_eq_true, decide_eq_true_eq]
  have h1 : (48 : UInt32).toNat ≤ c.val.toNat := UInt32.le_iff_toNat_le.1 this.1
  have h2 : c.val.toNat ≤ (57 : UInt32).toNat := UInt32.le_iff_toNat_le.1 this.2
  exact ⟨h1, h2⟩

theorem suffixed_inj {base : List Char} {n m : Nat} (h : suffixed base n = suffixed base m) : n = m := by
  unfold suffixed at h
  have := List.append_cancel_left h
  simp at this
  exact toDigits_inj this

theorem suffixed_ne_base (base : List Char) (n : Nat) : suffixed base n ≠ base := by
  intro h
  have := congrArg List.length h
  simp [suffixed] at this

theorem suffixed_startsLetter {base : List Char} (h : StartsLetter base) (n : Nat) : StartsLetter (suffixed base n) := by
  unfold suffixed
  exact startsLetter_append h (allId_cons isIdChar_underscore (fun x hx => isIdChar_of_digit (toDigits_digit hx)))

theorem suffixed_last_digit (base : List Char) (n : Nat) :
    ∃ d, (suffixed base n).getLast? = some d ∧ isAsciiDigit d = true := by
  have hne : Nat.toDigits 10 n ≠ [] := Nat.toDigits_ne_nil
  obtain ⟨d, hd⟩ : ∃ d, (Nat.toDigits 10 n).getLast? = some d := by
    cases hl : (Nat.toDigits 10 n).getLast? with
    | none => exact absurd (List.getLast?_eq_none_iff.1 hl) hne
    | some d => exact ⟨d, rfl⟩
  refine ⟨d, ?_, toDigits_digit (List.mem_of_getLast? hd)⟩
  unfold suffixed
  cases hl : Nat.toDigits 10 n with
  | nil => exact absurd hl hne
  | cons x xs =>
    rw [hl] at hd
    rw [List.getLast?_append, List.getLast?_cons_cons, hd]
    rfl

theorem suffixed_not_mem {ws : List (List Char)} (h : EndsInLetter ws) (base : List Char) (n : Nat) :
    suffixed base n ∉ ws := by
  intro hm
  obtain ⟨d, hd, hl⟩ := h _ hm
  obtain ⟨d', hd', hdig⟩ := suffixed_last_digit base n
  rw [hd] at hd'
  cases hd'
  rw [letter_not_digit hl] at hdig
  cases hdig

-- pigeonhole --------------------------------------------------------------------------------------
theorem length_le_of_nodup_subset {α : Type} [DecidableEq α] :
    ∀ (xs ys : List α), xs.Nodup → (∀ x ∈ xs, x ∈ ys) → xs.length ≤ ys.length
  | [], _, _, _ => Nat.zero_le _
  | x :: xs, ys, hn, hs => by
    have hx : x ∈ ys := hs x (List.mem_cons_self ..)
    have hn' := List.nodup_cons.1 hn
    have ih := length_le_of_nodup_subset xs (ys.erase x) hn'.2 (by
      intro y hy
      have hne : y ≠ x := by intro h; subst h; exact hn'.1 hy
      exact (List.mem_erase_of_ne hne).2 (hs y (List.mem_cons_of_mem _ hy)))
    rw [List.length_erase_of_mem hx] at ih
    have : 0 < ys.length := List.length_pos_of_mem hx
    simp only [List.length_cons]
    omega

/-- the candidates `base_n, …, base_(n+k-1)` -/
def cands (base : List Char) (n : Nat) : Nat → List (List Char)
  | 0 => []
  | k + 1 => suffixed base n :: cands base (n + 1) k

theorem mem_cands {base : List Char} {n k : Nat} {x : List Char} :
    x ∈ cands base n k → ∃ i, n ≤ i ∧ i < n + k ∧ x = suffixed base i := by
  induction k generalizing n with
  | zero => intro h; cases h
  | succ k ih =>
    intro h
    simp only [cands] at h
    rcases List.mem_cons.1 h with rfl | h
    · exact ⟨n, Nat.le_refl _, by omega, rfl⟩
    · obtain ⟨i, h1, h2, h3⟩ := ih h
      exact ⟨i, by omega, by omega, h3⟩

theorem cands_nodup (base : List Char) (n k : Nat) : (cands base n k).Nodup := by
  induction k generalizing n with
  | zero => exact List.nodup_nil
  | succ k ih =>
    simp only [cands]
    refine List.nodup_cons.2 ⟨?_, ih (n + 1)⟩
    intro h
    obtain ⟨i, h1, _, h3⟩ := mem_cands h
    have := suffixed_inj h3
    omega

theorem cands_length (base : List Char) (n k : Nat) : (cands base n k).length = k := by
  induction k generalizing n with
  | zero => rfl
  | succ k ih => simp [cands, ih]

/-- the loop either stops at a free name or has seen `fuel + 1` taken candidates (the last one is
    the name it returns) -/
theorem search_spec (taken : List (List Char)) (base : List Char) (fuel n : Nat) :
    search taken base fuel n ∉ taken ∨ ∀ x ∈ cands base n (fuel + 1), x ∈ taken := by
  induction fuel generalizing n with
  | zero =>
    simp only [search]
    by_cases h : suffixed base n ∈ taken
    · right
      intro x hx
      simp [cands] at hx
      subst hx; exact h
    · exact Or.inl h
  | succ f ih =>
    simp only [search]
    split
    · rename_i h
      rcases ih (n + 1) with h' | h'
      · exact Or.inl h'
      · right
        intro x hx
        rw [cands] at hx
        rcases List.mem_cons.1 hx with rfl | hx
        · exact h
        · exact h' x hx
    · rename_i h; exact Or.inl h

theorem search_is_suffixed (taken : List (List Char)) (base : List Char) (fuel n : Nat) :
    ∃ i, n ≤ i ∧ search taken base fuel n = suffixed base i := by
  induction fuel generalizing n with
  | zero => exact ⟨n, Nat.le_refl _, rfl⟩
  | succ f ih =>
    simp only [search]
    split
    · obtain ⟨i, h1, h2⟩ := ih (n + 1)
      exact ⟨i, by omega, h2⟩
    · exact ⟨n, Nat.le_refl _, rfl⟩

/-- **the name handed out is never one that is already taken** -/
theorem fresh_not_taken (taken : List (List Char)) (base : List Char) : fresh taken base ∉ taken := by
  unfold fresh
  split
  · rename_i hb
    rcases search_spec taken base taken.length 2 with h | h
    · exact h
    · exfalso
      have hnd : (base :: cands base 2 (taken.length + 1)).Nodup := by
        refine List.nodup_cons.2 ⟨?_, cands_nodup _ _ _⟩
        intro hm
        obtain ⟨i, _, _, h3⟩ := mem_cands hm
        exact suffixed_ne_base base i h3.symm
      have := length_le_of_nodup_subset _ taken hnd (by
        intro x hx
        rcases List.mem_cons.1 hx with rfl | hx
        · exact hb
        · exact h x hx)
      simp [cands_length] at this
      omega
  · rename_i hb; exact hb

theorem fresh_cases (taken : List (List Char)) (base : List Char) :
    fresh taken base = base ∨ ∃ i, 2 ≤ i ∧ fresh taken base = suffixed base i := by
  unfold fresh
  split
  · right; exact search_is_suffixed taken base taken.length 2
  · exact Or.inl rfl

-- allocator invariant ---------------------------------------------------------------------------
/-- `_by_key` is injective and every binding it holds is in `_taken` -/
structure Inv (a : Alloc) : Prop where
  inj : ∀ k1 v1 k2 v2, lookup k1 a.byKey = some v1 → lookup k2 a.byKey = some v2 → v1 = v2 → k1 = k2
  taken : ∀ k v, lookup k a.byKey = some v → v ∈ a.taken

theorem inv_init (reserved : List (List Char)) : Inv (Alloc.init reserved) :=
  ⟨by intro k1 v1 k2 v2 h; simp [Alloc.init, lookup] at h, by intro k v h; simp [Alloc.init, lookup] at h⟩

theorem lookup_cons (k name c : List Char) (rest : List (List Char × List Char)) :
    lookup k ((name, c) :: rest) = if name = k then some c else lookup k rest := rfl

theorem allocate_inv (T : NameTables) (tr : Char → List Char) (a : Alloc) (name fb : List Char) (h : Inv a) :
    Inv (allocate T tr a name fb).1 := by
  unfold allocate
  split
  · exact h
  · rename_i hnone
    have hfresh := fresh_not_taken a.taken (toIdentifierWith T tr name fb)
    constructor
    · intro k1 v1 k2 v2 h1 h2 hv
      simp only [lookup_cons] at h1 h2
      split at h1 <;> split at h2
      · rename_i e1 e2; rw [← e1, ← e2]
      · rename_i e1 e2
        cases h1; exfalso
        exact hfresh (hv ▸ h.taken k2 v2 h2)
      · rename_i e1 e2
        cases h2; exfalso
        exact hfresh (hv ▸ h.taken k1 v1 h1)
      · exact h.inj k1 v1 k2 v2 h1 h2 hv
    · intro k v hk
      simp only [lookup_cons] at hk
      split at hk
      · cases hk; exact List.mem_cons_self ..
      · exact List.mem_cons_of_mem _ (h.taken k v hk)

/-- bindings are never changed or forgotten -/
theorem allocate_mono (T : NameTables) (tr : Char → List Char) (a : Alloc) (name fb : List Char)
    (k v : List Char) (hk : lookup k a.byKey = some v) : lookup k (allocate T tr a name fb).1.byKey = some v := by
  unfold allocate
  split
  · exact hk
  · rename_i hnone
    simp only [lookup_cons]
    split
    · rename_i e; subst e; rw [hnone] at hk; cases hk
    · exact hk

theorem allocate_hit (T : NameTables) (tr : Char → List Char) (a : Alloc) (name fb v : List Char)
    (h : lookup name a.byKey = some v) : allocate T tr a name fb = (a, v) := by
  unfold allocate
  rw [h]

/-- what a request returns is what `_by_key` holds for it afterwards -/
theorem allocate_lookup (T : NameTables) (tr : Char → List Char) (a : Alloc) (name fb : List Char) :
    lookup name (allocate T tr a name fb).1.byKey = some (allocate T tr a name fb).2 := by
  unfold allocate
  split
  · rename_i v hv; exact hv
  · simp [lookup_cons]

theorem allocate_taken_mono (T : NameTables) (tr : Char → List Char) (a : Alloc) (name fb : List Char)
    (x : List Char) (hx : x ∈ a.taken) : x ∈ (allocate T tr a name fb).1.taken := by
  unfold allocate
  split
  · exact hx
  · exact List.mem_cons_of_mem _ hx

theorem allocateAll_inv (T : NameTables) (tr : Char → List Char) (a : Alloc) (reqs : List (List Char × List Char))
    (h : Inv a) : Inv (allocateAll T tr a reqs).1 := by
  induction reqs generalizing a with
  | nil => exact h
  | cons r rest ih =>
    obtain ⟨name, fb⟩ := r
    simp only [allocateAll]
    exact ih _ (allocate_inv T tr a name fb h)

theorem allocateAll_mono (T : NameTables) (tr : Char → List Char) (a : Alloc) (reqs : List (List Char × List Char))
    (k v : List Char) (hk : lookup k a.byKey = some v) : lookup k (allocateAll T tr a reqs).1.byKey = some v := by
  induction reqs generalizing a with
  | nil => exact hk
  | cons r rest ih =>
    obtain ⟨name, fb⟩ := r
    simp only [allocateAll]
    exact ih _ (allocate_mono T tr a name fb k v hk)

theorem allocateAll_taken_mono (T : NameTables) (tr : Char → List Char) (a : Alloc) (reqs : List (List Char × List Char))
    (x : List Char) (hx : x ∈ a.taken) : x ∈ (allocateAll T tr a reqs).1.taken := by
  induction reqs generalizing a with
  | nil => exact hx
  | cons r rest ih =>
    obtain ⟨name, fb⟩ := r
    simp only [allocateAll]
    exact ih _ (allocate_taken_mono T tr a name fb x hx)

/-- every logged `(name, binding)` is what the final `_by_key` holds -/
theorem allocateAll_log (T : NameTables) (tr : Char → List Char) (a : Alloc) (reqs : List (List Char × List Char))
    (n o : List Char) (h : (n, o) ∈ (allocateAll T tr a reqs).2) :
    lookup n (allocateAll T tr a reqs).1.byKey = some o := by
  induction reqs generalizing a with
  | nil => simp [allocateAll] at h
  | cons r rest ih =>
    obtain ⟨name, fb⟩ := r
    simp only [allocateAll] at h ⊢
    rcases List.mem_cons.1 h with h | h
    · have h1 := Prod.mk.inj h
      rw [h1.1, h1.2]
      exact allocateAll_mono T tr _ rest _ _ (allocate_lookup T tr a name fb)
    · exact ih _ h

theorem allocateAll_log_names (T : NameTables) (tr : Char → List Char) (a : Alloc) (reqs : List (List Char × List Char)) :
    (allocateAll T tr a reqs).2.map (·.1) = reqs.map (·.1) := by
  induction reqs generalizing a with
  | nil => rfl
  | cons r rest ih =>
    obtain ⟨name, fb⟩ := r
    simp only [allocateAll, List.map_cons, ih]

/-- a binding is the sanitised name or the sanitised name with a decimal suffix -/
theorem allocate_shape (T : NameTables) (tr : Char → List Char) (a : Alloc) (name fb : List Char)
    (P : List Char → Prop) (hold : ∀ k v, lookup k a.byKey = some v → P v)
    (hbase : ∀ n f, P (toIdentifierWith T tr n f)) (hsuf : ∀ n f i, P (suffixed (toIdentifierWith T tr n f) i)) :
    P (allocate T tr a name fb).2 ∧ ∀ k v, lookup k (allocate T tr a name fb).1.byKey = some v → P v := by
  unfold allocate
  split
  · rename_i v hv
    exact ⟨hold _ _ hv, hold⟩
  · have hc : P (fresh a.taken (toIdentifierWith T tr name fb)) := by
      rcases fresh_cases a.taken (toIdentifierWith T tr name fb) with h | ⟨i, _, h⟩
      · rw [h]; exact hbase _ _
      · rw [h]; exact hsuf _ _ _
    refine ⟨hc, ?_⟩
    intro k v hk
    simp only [lookup_cons] at hk
    split at hk
    · cases hk; exact hc
    · exact hold k v hk

theorem allocateAll_shape (T : NameTables) (tr : Char → List Char) (a : Alloc) (reqs : List (List Char × List Char))
    (P : List Char → Prop) (hold : ∀ k v, lookup k a.byKey = some v → P v)
    (hbase : ∀ n f, P (toIdentifierWith T tr n f)) (hsuf : ∀ n f i, P (suffixed (toIdentifierWith T tr n f) i)) :
    ∀ n o, (n, o) ∈ (allocateAll T tr a reqs).2 → P o := by
  induction reqs generalizing a with
  | nil => intro n o h; simp [allocateAll] at h
  | cons r rest ih =>
    obtain ⟨name, fb⟩ := r
    intro n o h
    simp only [allocateAll] at h
    have := allocate_shape T tr a name fb P hold hbase hsuf
    rcases List.mem_cons.1 h with h | h
    · cases h; exact this.1
    · exact ih _ this.2 n o h

-- reserved names ---------------------------------------------------------------------------------
/-- the reserved names stay taken and no binding is one of them -/
structure AvoidsReserved (reserved : List (List Char)) (a : Alloc) : Prop where
  kept : ∀ x ∈ reserved, x ∈ a.taken
  none : ∀ k v, lookup k a.byKey = some v → v ∉ reserved

theorem avoids_init (reserved : List (List Char)) : AvoidsReserved reserved (Alloc.init reserved) :=
  ⟨fun _ hx => hx, by intro k v h; simp [Alloc.init, lookup] at h⟩

theorem allocate_avoids (T : NameTables) (tr : Char → List Char) (reserved : List (List Char)) (a : Alloc)
    (name fb : List Char) (h : AvoidsReserved reserved a) : AvoidsReserved reserved (allocate T tr a name fb).1 := by
  unfold allocate
  split
  · exact h
  · have hfresh := fresh_not_taken a.taken (toIdentifierWith T tr name fb)
    constructor
    · intro x hx; exact List.mem_cons_of_mem _ (h.kept x hx)
    · intro k v hk
      simp only [lookup_cons] at hk
      split at hk
      · cases hk; intro hr; exact hfresh (h.kept _ hr)
      · exact h.none k v hk

theorem allocateAll_avoids (T : NameTables) (tr : Char → List Char) (reserved : List (List Char)) (a : Alloc)
    (reqs : List (List Char × List Char)) (h : AvoidsReserved reserved a) :
    AvoidsReserved reserved (allocateAll T tr a reqs).1 := by
  induction reqs generalizing a with
  | nil => exact h
  | cons r rest ih =>
    obtain ⟨name, fb⟩ := r
    simp only [allocateAll]
    exact ih _ (allocate_avoids T tr reserved a name fb h)

-- decidable form of `EndsInLetter` (for the regenerated tables) ---------------------------------
def endsInLetterB (ws : List (List Char)) : Bool :=
  ws.all (fun k => match k.getLast? with | some d => isAsciiLetter d | none => false)

theorem endsInLetter_of_B {ws : List (List Char)} (h : endsInLetterB ws = true) : EndsInLetter ws := by
  intro k hk
  have := List.all_eq_true.1 h k hk
  cases hl : k.getLast? with
  | none => rw [hl] at this; cases this
  | some d => rw [hl] at this; exact ⟨d, rfl, this⟩

-- when the name itself yields something, the fallback is never consulted -------------------------
theorem baseCandidate_fallback_irrelevant (tr : Char → List Char) (name fb fb' : List Char)
    (h : sanitize tr name ≠ []) : baseCandidate tr name fb = baseCandidate tr name fb' := by
  unfold baseCandidate
  cases hs : sanitize tr name with
  | nil => exact absurd hs h
  | cons c cs => rfl

end XSM.Codegen
