import Xsm.Proofs.ActorsMisc
/-!
The system registry never holds a stopped actor (`RegLive`).  Every `stop()` drops the systemIds of the
actor in the same breath as it sets the status, and nothing else sets a status to `stopped`, so the
relation `Reg s s'` — every entry of the new registry that points to a stopped actor was already there and
already pointed to a stopped actor — holds for every primitive of the model; it is a preorder, hence
`RegLive` is an invariant of `step` (no other hypothesis, also in runs that leave the fragment).
-/
namespace XSM.Actors

/-- no registry entry points to a stopped actor -/
def RegLive (s : Sys) : Prop := ∀ kv ∈ s.registry, (s.get kv.2).status ≠ .stopped

def Reg (s s' : Sys) : Prop :=
  ∀ kv ∈ s'.registry, (s'.get kv.2).status = .stopped → kv ∈ s.registry ∧ (s.get kv.2).status = .stopped

theorem Reg.refl (s : Sys) : Reg s s := fun _ h1 h2 => ⟨h1, h2⟩

theorem Reg.trans {a b c : Sys} (h1 : Reg a b) (h2 : Reg b c) : Reg a c := fun kv hm hs =>
  have ⟨m, st⟩ := h2 kv hm hs
  h1 kv m st

theorem RegLive.step {s s' : Sys} (h : RegLive s) (r : Reg s s') : RegLive s' := fun kv hm hs =>
  have ⟨m, st⟩ := r kv hm hs
  h kv m st

/-- the registry does not grow and no status becomes `stopped` -/
theorem reg_of_sub {s s' : Sys} (hr : ∀ kv ∈ s'.registry, kv ∈ s.registry)
    (hs : ∀ u, (s'.get u).status = .stopped → (s.get u).status = .stopped) : Reg s s' :=
  fun kv hm hst => ⟨hr kv hm, hs kv.2 hst⟩

theorem reg_of_eq {s s' : Sys} (hr : s'.registry = s.registry) (ha : s'.actors = s.actors) : Reg s s' :=
  reg_of_sub (fun kv h => hr ▸ h) (fun u h => by rw [← get_congr ha u]; exact h)

theorem reg_upd (s : Sys) (u : Nat) (f : Actor → Actor) (h : ∀ a, (f a).status = a.status) : Reg s (s.upd u f) :=
  reg_of_sub (fun _ h => h) (fun v hv => by rw [← get_upd_proj (·.status) s u v f h]; exact hv)

theorem reg_foldl {β : Type} (F : Sys → β → Sys) (hF : ∀ s x, Reg s (F s x)) (l : List β) (s : Sys) :
    Reg s (l.foldl F s) := by
  induction l generalizing s with
  | nil => exact Reg.refl s
  | cons x r ih => exact (hF s x).trans (ih (F s x))

theorem reg_warn (s : Sys) (w : String) : Reg s (s.warn w) := reg_of_eq rfl rfl

theorem reg_drainAll (busy : Option Nat) (s : Sys) : Reg s (drainAll busy s) :=
  reg_of_sub (fun _ h => h) (fun u h => by rw [← sameStatus_drainAll busy s u]; exact h)

theorem reg_addActor (s : Sys) (c : Actor) (fr : Nat) (hc : c.status ≠ .stopped) : Reg s (addActor s c fr) := by
  refine reg_of_sub (fun _ h => h) (fun u h => ?_)
  by_cases hlt : u < s.actors.length
  · have hg : (addActor s c fr).get u = s.get u := get_append_lt s c hlt
    rw [← hg]; exact h
  · by_cases he : u = s.actors.length
    · subst he
      have hg : (addActor s c fr).get s.actors.length = c := get_append_new s c
      rw [hg] at h; exact absurd h hc
    · have : (addActor s c fr).get u = default := by
        apply get_oob; simp [addActor]; omega
      rw [this] at h; exact absurd h (by decide)

/-- a new registration of an actor that is not stopped -/
theorem reg_register (s : Sys) (sid : Option String) (u : Nat) (hu : (s.get u).status ≠ .stopped) :
    Reg s (register s sid u) := by
  have ha : (register s sid u).actors = s.actors := by
    unfold register
    cases sid with
    | none => rfl
    | some x =>
      simp only
      cases dlookup x s.registry with
      | none => rfl
      | some v => simp only; split <;> rfl
  have hr : ∀ kv ∈ (register s sid u).registry, kv.2 = u ∨ kv ∈ s.registry := by
    intro kv hkv
    unfold register at hkv
    cases sid with
    | none => exact Or.inr hkv
    | some x =>
      simp only at hkv
      have key : kv ∈ dinsert x u s.registry → kv.2 = u ∨ kv ∈ s.registry := fun h => by
        rcases mem_dinsert h with e | e
        · left; rw [e]
        · right; exact e
      cases hd : dlookup x s.registry with
      | none => rw [hd] at hkv; exact key hkv
      | some v =>
        rw [hd] at hkv
        simp only at hkv
        split at hkv <;> exact key hkv
  intro kv hm hst
  rw [get_congr ha] at hst
  rcases hr kv hm with e | e
  · rw [e] at hst; exact absurd hst hu
  · exact ⟨e, hst⟩

theorem reg_linkChild (s : Sys) (p : Nat) (cid key : String) (u : Nat) : Reg s (linkChild s p cid key u) :=
  reg_upd s p _ (by intro _; rfl)

theorem reg_addWatch (s : Sys) (w : Watch) : Reg s (addWatch s w) := reg_of_eq rfl rfl

theorem newActor_not_stopped (s : Sys) (p : Nat) (cid key : String) (b : Bool) : (newActor s p cid key b).status ≠ .stopped := by
  unfold newActor; cases b <;> simp

theorem reg_spawnCore (s : Sys) (p : Nat) (key : String) (eid sid : Option String) (b : Bool) :
    Reg s (spawnCore s p key eid sid b) := by
  unfold spawnCore
  refine ((reg_addActor s _ _ (newActor_not_stopped s p _ key _)).trans (reg_register _ sid _ ?_)).trans (reg_linkChild _ p _ key _)
  have : (addActor s (newActor s p (mkId (s.get p).id key eid s.fresh) key (startedAtSpawn s b)) (freshAfter s eid)).get s.actors.length
      = newActor s p (mkId (s.get p).id key eid s.fresh) key (startedAtSpawn s b) := get_append_new s _
  rw [this]; exact newActor_not_stopped s p _ key _

theorem reg_spawnFresh (s : Sys) (p : Nat) (key : String) (eid sid : Option String) (b : Bool) :
    Reg s (spawnFresh s p key eid sid b) := by
  unfold spawnFresh
  split
  · exact (reg_spawnCore s p key eid sid _).trans (reg_addWatch _ _)
  · exact reg_spawnCore s p key eid sid _

theorem reg_spawnInvokeAsync (s : Sys) (p : Nat) (key : String) : Reg s (spawnInvokeAsync s p key) := by
  unfold spawnInvokeAsync
  refine Reg.trans ?_ (reg_addWatch _ _)
  exact (reg_addActor s _ _ (newActor_not_stopped s p _ key true)).trans (reg_upd _ p _ (by intro _; rfl))

/-! ### stop -/

theorem reg_killTimer (s : Sys) (i : Nat) : Reg s (killTimer s i) := reg_of_eq rfl rfl
theorem reg_killTasks (s : Sys) (x : Nat) : Reg s (killTasks s x) := reg_of_eq rfl rfl

theorem reg_stopTasks (busy : Option Nat) (s : Sys) (x : Nat) : Reg s (stopTasks busy s x) := by
  unfold stopTasks
  split
  · exact (reg_killTasks s x).trans (reg_drainAll busy _)
  · exact Reg.refl s

theorem reg_stopLoop (busy : Option Nat) (s : Sys) (x : Nat) : Reg s (stopLoop busy s x) := by
  unfold stopLoop
  split
  · exact (reg_upd s x (fun a => { a with alive := false }) (fun _ => rfl)).trans (reg_drainAll busy _)
  · exact Reg.refl s

theorem reg_stopTail (busy : Option Nat) (s : Sys) (x : Nat) : Reg s (stopTail busy s x) := by
  unfold stopTail
  split
  · exact (reg_upd s x (fun a => { a with sends := [] }) (fun _ => rfl)).trans (reg_killTasks _ x)
  · exact (reg_stopTasks busy s x).trans (reg_stopLoop busy _ x)

/-- F14: the status is set and the systemIds are dropped together -/
theorem reg_markStopped_unregister (s : Sys) (x : Nat) : Reg s (unregister (markStopped s x) x) := by
  intro kv hm hst
  have hm' : kv ∈ s.registry ∧ kv.2 ≠ x := by
    have : kv ∈ s.registry.filter (fun kv => kv.2 ≠ x) := hm
    simpa using List.mem_filter.mp this
  have hg : (unregister (markStopped s x) x).get kv.2 = s.get kv.2 := by
    show (markStopped s x).get kv.2 = _
    unfold markStopped; exact get_upd_ne s _ hm'.2
  rw [hg] at hst
  exact ⟨hm'.1, hst⟩

theorem reg_unregister (s : Sys) (x : Nat) : Reg s (unregister s x) :=
  reg_of_sub (fun kv h => (List.mem_filter.mp h).1) (fun _ h => h)

theorem reg_clearKids (s : Sys) (x : Nat) : Reg s (clearKids s x) := reg_upd s x _ (by intro _; rfl)

theorem reg_stopA (busy : Option Nat) (fuel : Nat) (s : Sys) (x : Nat) : Reg s (stopA busy fuel s x) := by
  induction fuel generalizing s x with
  | zero => exact Reg.refl s
  | succ fuel ih =>
    unfold stopA
    split
    · have h2 := reg_foldl (fun acc (kv : String × Nat) => stopA busy fuel acc kv.2) (fun acc kv => ih acc kv.2)
        (s.get x).kids (unregister (markStopped s x) x)
      exact (((reg_markStopped_unregister s x).trans h2).trans (reg_clearKids _ x)).trans (reg_stopTail busy _ x)
    · exact Reg.refl s

theorem reg_stop (busy : Option Nat) (s : Sys) (x : Nat) : Reg s (stop busy s x) := reg_stopA busy _ s x

theorem reg_popKid (s : Sys) (p : Nat) (cid : String) : Reg s (popKid s p cid) := reg_upd s p _ (by intro _; rfl)

theorem reg_evict (busy : Option Nat) (s : Sys) (p : Nat) (cid : String) : Reg s (evict busy s p cid) := by
  unfold evict
  split
  · exact (reg_popKid s p cid).trans (reg_stop busy _ _)
  · exact Reg.refl s

theorem reg_spawn (busy : Option Nat) (s : Sys) (p : Nat) (key : String) (eid sid : Option String) (b : Bool) :
    Reg s (spawn busy s p key eid sid b) :=
  (reg_evict busy s p _).trans (reg_spawnFresh _ p key eid sid b)

theorem reg_unlinkChild (s : Sys) (p x : Nat) : Reg s (unlinkChild s p x) := by
  unfold unlinkChild
  split
  · exact reg_upd s p _ (by intro _; rfl)
  · exact Reg.refl s

theorem reg_markOos (s : Sys) (b : Bool) : Reg s (markOos s b) := by
  unfold markOos
  split
  · exact reg_of_eq rfl rfl
  · exact Reg.refl s

theorem reg_stopChildTo (busy : Option Nat) (s : Sys) (p x : Nat) : Reg s (stopChildTo busy s p x) :=
  (((reg_unlinkChild s p x).trans (reg_unregister _ x)).trans (reg_markOos _ _)).trans (reg_stop busy _ x)

/-! ### delivery, timers -/

theorem reg_deliverNow (s : Sys) (t : Nat) (ev : String) : Reg s (deliverNow s t ev) := by
  unfold deliverNow
  split
  · split
    · split <;> exact reg_upd s t _ (by intro _; rfl)
    · exact reg_warn s _
  · split
    · exact reg_warn s _
    · exact reg_upd s t _ (by intro _; rfl)

theorem reg_addTimer (s : Sys) (t : Timer) : Reg s (addTimer s t) := reg_of_eq rfl rfl

theorem reg_schedule (s : Sys) (p : Nat) (k : String) (i : Nat) : Reg s (schedule s p k i) := by
  unfold schedule setSend
  split
  · exact (reg_killTimer s _).trans (reg_upd _ p _ (by intro _; rfl))
  · exact reg_upd s p _ (by intro _; rfl)

theorem reg_deliver (s : Sys) (p t : Nat) (ev : String) (delay : Nat) (sid : Option String) :
    Reg s (deliver s p t ev delay sid) := by
  unfold deliver
  split
  · exact reg_deliverNow s t ev
  · split
    · exact reg_addTimer s _
    · exact (reg_addTimer s _).trans (reg_schedule _ p _ _)

theorem reg_cancelSend (s : Sys) (p : Nat) (k : String) : Reg s (cancelSend s p k) := by
  unfold cancelSend
  split
  · exact (reg_upd s p _ (by intro _; rfl)).trans (reg_killTimer _ _)
  · exact Reg.refl s

theorem reg_runAction (busy : Option Nat) (cur : String) (p : Nat) (s : Sys) (a : Action) :
    Reg s (runAction busy cur p s a) := by
  cases a with
  | spawn key eid sid b => exact reg_spawn busy s p key eid sid b
  | sendTo target ev delay sid =>
    simp only [runAction]
    split
    · exact reg_deliver s p _ ev delay sid
    · exact (reg_warn s _).trans (reg_warn _ _)
    · exact reg_warn s _
  | sendParent ev delay sid =>
    simp only [runAction]
    split
    · exact reg_deliver s p _ ev delay sid
    · exact reg_warn s _
  | forwardTo target =>
    simp only [runAction]
    split
    · exact reg_deliverNow s _ cur
    · exact (reg_warn s _).trans (reg_warn _ _)
    · exact reg_warn s _
  | escalate =>
    simp only [runAction]
    split
    · exact reg_deliverNow s _ _
    · exact reg_warn s _
  | cancel sid => exact reg_cancelSend s p sid
  | stopChild target =>
    simp only [runAction]
    split
    · exact reg_stopChildTo busy s p _
    · exact (reg_warn s _).trans (reg_warn _ _)
    · exact reg_warn s _

theorem reg_runActions (busy : Option Nat) (cur : String) (p : Nat) (s : Sys) (acts : List Action) :
    Reg s (runActions busy cur p s acts) :=
  reg_foldl (runAction busy cur p) (fun s a => reg_runAction busy cur p s a) acts s

/-! ### observation points and operations -/

theorem reg_settle (s : Sys) : Reg s (settle s) := by
  unfold settle
  split
  · refine reg_of_sub (fun _ h => h) (fun u h => ?_)
    unfold Sys.get at h ⊢
    simp only [List.getElem?_map] at h
    cases ha : s.actors[u]? with
    | none => rw [ha] at h; exact h
    | some a =>
      rw [ha] at h
      simp only [Option.map_some, Option.getD_some] at h ⊢
      split at h
      · cases h
      · exact h
  · exact reg_drainAll none s

theorem reg_syncFinish (s : Sys) (p : Nat) : Reg s (syncFinish s p) := by
  unfold syncFinish
  exact reg_upd s p _ (fun a => by split <;> rfl)

theorem reg_handle (s : Sys) (p : Nat) (name : String) (body : Option Nat → Sys → Sys)
    (hb : ∀ busy s1, Reg s1 (body busy s1)) : Reg s (handle s p name body) := by
  unfold handle
  split
  · split
    · exact (((reg_upd s p _ (by intro _; rfl)).trans (hb _ _)).trans (reg_syncFinish _ p)).trans (reg_settle _)
    · exact reg_warn s _
  · split
    · exact reg_warn s _
    · exact ((reg_upd s p _ (by intro _; rfl)).trans (hb _ _)).trans (reg_settle _)

theorem reg_setInv (s : Sys) (p : Nat) (b : Bool) : Reg s (setInv s p b) := reg_upd s p _ (by intro _; rfl)

theorem reg_invokeBody (p : Nat) (s : Sys) : Reg s (invokeBody p s) := by
  unfold invokeBody
  split
  · exact Reg.refl s
  · split
    · exact reg_setInv s p true
    · split
      · exact (reg_setInv s p true).trans (reg_spawn none _ p _ _ _ _)
      · exact (reg_setInv s p true).trans (reg_spawnInvokeAsync _ p _)

theorem reg_killWatch (s : Sys) (i : Nat) : Reg s (killWatch s i) := reg_of_eq rfl rfl

theorem reg_leaveWatch (busy : Option Nat) (p : Nat) (s : Sys) (iw : Nat × Watch) : Reg s (leaveWatch busy p s iw) := by
  unfold leaveWatch
  split
  · exact (((reg_killWatch s _).trans (reg_drainAll busy _)).trans (reg_stop busy _ _)).trans (reg_popKid _ p _)
  · exact Reg.refl s

theorem reg_leaveBody (busy : Option Nat) (p : Nat) (s : Sys) : Reg s (leaveBody busy p s) := by
  unfold leaveBody
  split
  · split
    · exact reg_setInv s p false
    · exact (reg_setInv s p false).trans (reg_foldl (leaveWatch busy p) (fun t x => reg_leaveWatch busy p t x) _ _)
  · exact Reg.refl s

theorem reg_fireTimer (s : Sys) (i : Nat) : Reg s (fireTimer s i) := by
  unfold fireTimer dropSend
  exact (((reg_killTimer s i).trans (reg_upd _ _ _ (by intro _; rfl))).trans (reg_deliverNow _ _ _)).trans (reg_settle _)

theorem reg_notifyDone (s : Sys) (w : Watch) : Reg s (notifyDone s w) := by
  unfold notifyDone
  split
  · exact reg_deliverNow _ _ _
  · exact Reg.refl _

theorem reg_popOwnKid (s : Sys) (w : Watch) : Reg s (popOwnKid s w) := by
  unfold popOwnKid
  split
  · exact reg_popKid _ _ _
  · exact Reg.refl _

theorem reg_runWatch (s : Sys) (iw : Nat × Watch) : Reg s (runWatch s iw) := by
  unfold runWatch
  split
  · exact ((reg_killWatch s _).trans (reg_notifyDone _ _)).trans (reg_popOwnKid _ _)
  · exact Reg.refl s

theorem reg_advance (s : Sys) (dt : Nat) : Reg s (advance s dt) := by
  unfold advance
  have h1 : Reg s (runWatches s) := reg_foldl runWatch reg_runWatch _ s
  have h2 := reg_settle (runWatches s)
  have h3 : Reg (settle (runWatches s)) (fireDue (settle (runWatches s)) dt) := reg_foldl fireTimer reg_fireTimer _ _
  have h4 : Reg (fireDue (settle (runWatches s)) dt) (tick (fireDue (settle (runWatches s)) dt) dt) := reg_of_eq rfl rfl
  exact (((h1.trans h2).trans h3).trans h4).trans (reg_settle _)

theorem reg_stepOn (cmds : List (String × List Action)) (s : Sys) (op : Op) : Reg s (stepOn cmds s op) := by
  cases op with
  | cmd aid name =>
    simp only [stepOn]
    split
    · exact Reg.refl s
    · split
      · exact reg_handle s _ _ _ (fun _ s1 => reg_invokeBody _ s1)
      · split
        · exact reg_handle s _ _ _ (fun busy s1 => reg_leaveBody busy _ s1)
        · exact reg_handle s _ name _ (fun busy s1 => reg_runActions busy name _ s1 _)
  | adv dt => exact reg_advance s dt
  | stop aid =>
    simp only [stepOn]
    split
    · exact Reg.refl s
    · exact (reg_stop none s _).trans (reg_settle _)

theorem reg_step (cmds : List (String × List Action)) (s : Sys) (op : Op) : Reg s (step cmds s op) :=
  (reg_of_eq (s := s) (s' := clearWarns s) rfl rfl).trans (reg_stepOn cmds _ op)

theorem reg_run (cmds : List (String × List Action)) (s : Sys) (ops : List Op) : Reg s (run cmds s ops) :=
  reg_foldl (step cmds) (reg_step cmds) ops s

theorem regLive_init (fl : Flavor) (eager : Bool) (invoke : List (String × String)) : RegLive (init fl eager invoke) :=
  fun _ h => by cases h

end XSM.Actors
