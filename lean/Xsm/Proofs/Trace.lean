import Xsm.Proofs.Run
/-
Helper lemmas for C03 (action order, event identity, accounting, frame).

* `Adds P s s'` — `s'.trace` is `s.trace` with some records satisfying `P` prepended; every step
  function of the executor only prepends (`trace_suffix` family);
* `St.chron` — the trace oldest first; `delta s s'` — what was appended between `s` and `s'`;
  `actRecords`, `exitRecords`, `entryRecords`, `exitsRecords`, `entriesRecords` — what an action
  list / one exit / one entry / a list of exits / a list of entries appends;
* order lemmas for `sortExit`, `enterDefault`, `enterStates` over a chain;
* the plan of a plain-target transition (`planTransition_plain`) and its frame.
-/
namespace XSM
open Spec

/-- the send hooks leave the trace and the recorded history alone (they only enqueue / count) -/
structure HooksTraceOK (h : Hooks) : Prop where
  snd_trace : ∀ e s, (h.snd e s).trace = s.trace
  raise_trace : ∀ e s, (h.sndRaise e s).trace = s.trace
  snd_hist : ∀ e s, (h.snd e s).hist = s.hist
  raise_hist : ∀ e s, (h.sndRaise e s).hist = s.hist

theorem enqueueQ_trace (b : Bool) (e : Ev) (s : St) : (enqueueQ b e s).trace = s.trace := by
  unfold enqueueQ; split <;> rfl
theorem enqueueQ_hist (b : Bool) (e : Ev) (s : St) : (enqueueQ b e s).hist = s.hist := by
  unfold enqueueQ; split <;> rfl

theorem hooksFlagged_traceOK (u : UEnv) (m : Machine) : HooksTraceOK (hooksFlagged u m) :=
  ⟨enqueueQ_trace true, enqueueQ_trace true, enqueueQ_hist true, enqueueQ_hist true⟩
theorem hooksAsyncStart_traceOK (u : UEnv) (m : Machine) : HooksTraceOK (hooksAsyncStart u m) :=
  ⟨enqueueQ_trace false, enqueueQ_trace false, enqueueQ_hist false, enqueueQ_hist false⟩
theorem hooksAsync_traceOK (u : UEnv) (m : Machine) : HooksTraceOK (hooksAsync u m) :=
  ⟨fun e s => by simp [hooksAsync, mkHooks, enqueueQ_trace],
   fun e s => by simp [hooksAsync, mkHooks, enqueueQ_trace],
   fun e s => by simp [hooksAsync, mkHooks, enqueueQ_hist],
   fun e s => by simp [hooksAsync, mkHooks, enqueueQ_hist]⟩

-- "only prepends" -----------------------------------------------------------------------------------
/-- `s'` has the trace of `s` with some records, all satisfying `P`, prepended -/
def Adds (P : String → Prop) (s s' : St) : Prop := ∃ t, s'.trace = t ++ s.trace ∧ ∀ r ∈ t, P r

theorem Adds.refl (P : String → Prop) (s : St) : Adds P s s := ⟨[], rfl, by simp⟩
theorem Adds.of_eq {P : String → Prop} {s s' : St} (h : s'.trace = s.trace) : Adds P s s' :=
  ⟨[], by simpa using h, by simp⟩
theorem Adds.trans {P : String → Prop} {s1 s2 s3 : St} (h12 : Adds P s1 s2) (h23 : Adds P s2 s3) :
    Adds P s1 s3 := by
  obtain ⟨t1, e1, p1⟩ := h12
  obtain ⟨t2, e2, p2⟩ := h23
  refine ⟨t2 ++ t1, by rw [e2, e1, List.append_assoc], ?_⟩
  intro r hr
  rcases List.mem_append.1 hr with h | h
  · exact p2 r h
  · exact p1 r h
theorem Adds.emit {P : String → Prop} {s s' : St} (r : String) (hr : P r) (h : Adds P s s') :
    Adds P s (emit r s') := by
  obtain ⟨t, e, p⟩ := h
  refine ⟨r :: t, by simp [XSM.emit, e], ?_⟩
  intro x hx
  rcases List.mem_cons.1 hx with rfl | hx
  · exact hr
  · exact p x hx
theorem Adds.mono {P Q : String → Prop} {s s' : St} (hpq : ∀ r, P r → Q r) (h : Adds P s s') :
    Adds Q s s' := by
  obtain ⟨t, e, p⟩ := h
  exact ⟨t, e, fun r hr => hpq r (p r hr)⟩
theorem Adds.suffix {P : String → Prop} {s s' : St} (h : Adds P s s') : s.trace <:+ s'.trace := by
  obtain ⟨t, e, _⟩ := h
  exact ⟨t, e.symm⟩

theorem fail_trace (s : St) (e : EErr) : (s.fail e).trace = s.trace := by
  unfold St.fail; split <;> rfl
theorem fail_hist (s : St) (e : EErr) : (s.fail e).hist = s.hist := by
  unfold St.fail; split <;> rfl

/-- the shape of a record written by the action executor when called with event name `evType`:
    `name@evType` for an action that was run, `#aerr:name` for one that raised (and was contained) -/
def ActRec (evType : String) (r : String) : Prop :=
  (∃ a, r = a ++ "@" ++ evType) ∨ (∃ a, r = "#aerr:" ++ a)

theorem assignStep_trace (canon : String) (cut : Bool) (a : ActionRef) (s : St) :
    (assignStep canon cut a s).trace = s.trace := by
  unfold assignStep; (repeat' split) <;> rfl

theorem finishBuiltin_adds (h : Hooks) (htr : HooksTraceOK h) (evType canon : String) (a : ActionRef)
    (s2 : St) : Adds (ActRec evType) s2 (finishBuiltin h canon a s2).1 := by
  unfold finishBuiltin
  split
  · exact Adds.emit _ (Or.inr ⟨a.type, rfl⟩) (Adds.of_eq rfl)
  · split
    · split
      · exact Adds.of_eq (htr.raise_trace _ _)
      · exact Adds.refl _ _
    · exact Adds.refl _ _

theorem builtinStep_adds (h : Hooks) (htr : HooksTraceOK h) (nested : List ActionRef → String → St → St)
    (evType : String) (hn : ∀ as s, Adds (ActRec evType) s (nested as evType s)) (cut : Bool)
    (canon : String) (a : ActionRef) (s : St) :
    Adds (ActRec evType) s (builtinStep h nested cut evType canon a s).1 := by
  unfold builtinStep
  simp only
  split
  · exact Adds.emit _ (Or.inr ⟨a.type, rfl⟩) (Adds.refl _ _)
  · refine Adds.trans ?_ (finishBuiltin_adds h htr evType canon a _)
    split
    · exact Adds.of_eq (assignStep_trace _ _ _ _)
    · exact Adds.trans (Adds.of_eq (assignStep_trace _ _ _ _)) (hn _ _)

/-- one action only prepends records, each carrying the event name the executor was called with -/
theorem actStep_adds (h : Hooks) (htr : HooksTraceOK h) (nested : List ActionRef → String → St → St)
    (evType : String) (hn : ∀ as s, Adds (ActRec evType) s (nested as evType s)) (cut : Bool)
    (acc : St × Bool) (a : ActionRef) :
    Adds (ActRec evType) acc.1 (actStep h nested cut evType acc a).1 := by
  unfold actStep
  split
  · exact Adds.refl _ _
  · split
    · exact Adds.emit _ (Or.inl ⟨a.type, rfl⟩) (Adds.of_eq rfl)
    · split
      · exact Adds.of_eq (fail_trace _ _)
      · exact Adds.emit _ (Or.inl ⟨a.type, rfl⟩) (Adds.of_eq rfl)
    · exact Adds.emit _ (Or.inr ⟨a.type, rfl⟩) (Adds.emit _ (Or.inl ⟨a.type, rfl⟩) (Adds.refl _ _))
    · split
      · exact Adds.of_eq (fail_trace _ _)
      · exact builtinStep_adds h htr nested evType hn cut _ a acc.1

theorem foldl_actStep_adds (h : Hooks) (htr : HooksTraceOK h) (nested : List ActionRef → String → St → St)
    (evType : String) (hn : ∀ as s, Adds (ActRec evType) s (nested as evType s)) (cut : Bool) :
    ∀ (as : List ActionRef) (acc : St × Bool),
      Adds (ActRec evType) acc.1 (as.foldl (actStep h nested cut evType) acc).1 := by
  intro as
  induction as with
  | nil => intro acc; exact Adds.refl _ _
  | cons a as ih =>
    intro acc
    simp only [List.foldl_cons]
    exact Adds.trans (actStep_adds h htr nested evType hn cut acc a) (ih _)

theorem execActionsF_adds (h : Hooks) (htr : HooksTraceOK h) :
    ∀ (fuel : Nat) (as : List ActionRef) (evType : String) (s : St),
      Adds (ActRec evType) s (execActionsF h fuel as evType s) := by
  intro fuel
  induction fuel with
  | zero =>
    intro as evType s
    unfold execActionsF
    exact foldl_actStep_adds h htr _ evType (fun _ s => Adds.refl _ s) true as (s, false)
  | succ f ih =>
    intro as evType s
    unfold execActionsF
    exact foldl_actStep_adds h htr _ evType (fun as s => Adds.trans (ih as evType s) (Adds.of_eq (endExpansion_trace _ _))) false as (s, false)

theorem execActions_adds (h : Hooks) (htr : HooksTraceOK h) (as : List ActionRef) (evType : String) (s : St) :
    Adds (ActRec evType) s (execActions h as evType s) := execActionsF_adds h htr _ as evType s

-- chronological view ---------------------------------------------------------------------------------
/-- the trace oldest first -/
def St.chron (s : St) : List String := s.trace.reverse

/-- the records appended between `s` and a later state `s'`, oldest first -/
def delta (s s' : St) : List String := (s'.trace.take (s'.trace.length - s.trace.length)).reverse

theorem chron_of_trace {s s' : St} {t : List String} (h : s'.trace = t ++ s.trace) :
    s'.chron = s.chron ++ t.reverse ∧ delta s s' = t.reverse := by
  unfold St.chron delta
  rw [h]
  simp

theorem Adds.chron {P : String → Prop} {s s' : St} (h : Adds P s s') :
    s'.chron = s.chron ++ delta s s' ∧ ∀ r ∈ delta s s', P r := by
  obtain ⟨t, e, p⟩ := h
  obtain ⟨h1, h2⟩ := chron_of_trace e
  rw [h2]
  exact ⟨h1, fun r hr => p r (List.mem_reverse.1 hr)⟩

theorem delta_self (s : St) : delta s s = [] := by simp [delta]
theorem delta_of_trace_eq {s s' : St} (h : s'.trace = s.trace) : delta s s' = [] := by simp [delta, h]
theorem chron_of_trace_eq {s s' : St} (h : s'.trace = s.trace) : s'.chron = s.chron := by simp [St.chron, h]
theorem chron_emit (r : String) (s : St) : (emit r s).chron = s.chron ++ [r] := by
  simp [St.chron, emit]

/-- **what an action list appends to the trace** when run from state `s` with event name `evType`
    (it depends on the state: `choose` looks at the context, user actions may raise or be missing) -/
def actRecords (h : Hooks) (as : List ActionRef) (evType : String) (s : St) : List String :=
  delta s (execActions h as evType s)

theorem execActions_chron (h : Hooks) (htr : HooksTraceOK h) (as : List ActionRef) (evType : String) (s : St) :
    (execActions h as evType s).chron = s.chron ++ actRecords h as evType s :=
  (execActions_adds h htr as evType s).chron.1

/-- every record of an action list carries the event name the list was run with -/
theorem actRecords_event (h : Hooks) (htr : HooksTraceOK h) (as : List ActionRef) (evType : String) (s : St) :
    ∀ r ∈ actRecords h as evType s, ActRec evType r :=
  (execActions_adds h htr as evType s).chron.2

theorem actRecords_sticky (h : Hooks) (as : List ActionRef) (evType : String) (s : St)
    (he : s.err.isSome = true) : actRecords h as evType s = [] := by
  unfold actRecords
  rw [execActions_sticky h evType as s he]
  exact delta_self s

-- event names -----------------------------------------------------------------------------------------
/-- an exit action is handed the triggering event's name, in both engines -/
theorem exitEvName_some (fl : Flavor) (m : Machine) (p : Path) (t : String) :
    exitEvName fl m p (some t) = t := by
  cases fl <;> rfl
/-- an entry action is handed the triggering event's name, in both engines, whether the state is on
    the explicit path or reached by default descent (`e.nested`) -/
theorem entryEvName_some (fl : Flavor) (m : Machine) (e : Entry) (t : String) :
    entryEvName fl m e (some t) = t := by
  cases fl <;> rfl

-- one exit / one entry ----------------------------------------------------------------------------------
/-- what exiting `p` from state `s` appends: the records of `p`'s exit actions under event `evn` -/
def exitRecords (h : Hooks) (m : Machine) (evn : String) (p : Path) (s : St) : List String :=
  if s.err.isSome then [] else
  match m.defAt p with
  | none => []
  | some d => actRecords h d.exit evn s

/-- what entering `e` from state `s` appends: the records of its entry actions under event `evn` -/
def entryRecords (h : Hooks) (m : Machine) (evn : String) (e : Entry) (s : St) : List String :=
  if s.err.isSome then [] else
  match m.defAt e.path with
  | none => []
  | some d => actRecords h d.entry evn (addActive e.path s)

theorem addActive_trace (p : Path) (s : St) : (addActive p s).trace = s.trace := by
  unfold addActive; split <;> rfl
theorem delActive_trace (p : Path) (s : St) : (delActive p s).trace = s.trace := rfl
theorem complete_trace (s : St) : (complete s).trace = s.trace := by
  unfold complete; split <;> rfl
theorem checkDone_trace (h : Hooks) (htr : HooksTraceOK h) (m : Machine) (fin : Path) (s : St) :
    (checkAndFireOnDone h m fin s).trace = s.trace := by
  unfold checkAndFireOnDone
  simp only
  split
  · exact htr.snd_trace _ _
  · split
    · exact complete_trace s
    · rfl
theorem recordHistory_trace (m : Machine) (ex : List Path) (s : St) :
    (recordHistory m ex s).trace = s.trace := rfl

theorem exitOne_chron (h : Hooks) (htr : HooksTraceOK h) (fl : Flavor) (m : Machine) (evn : String)
    (s : St) (p : Path) :
    (exitOne h fl m (some evn) s p).chron = s.chron ++ exitRecords h m evn p s := by
  unfold exitOne exitRecords
  split
  · simp
  · cases hd : m.defAt p with
    | none => simp
    | some d =>
      simp only [exitEvName_some]
      rw [chron_of_trace_eq (delActive_trace p _)]
      exact execActions_chron h htr _ _ _

theorem enterOne_chron (h : Hooks) (htr : HooksTraceOK h) (fl : Flavor) (m : Machine) (evn : String)
    (s : St) (e : Entry) :
    (enterOne h fl m (some evn) s e).chron = s.chron ++ entryRecords h m evn e s := by
  unfold enterOne entryRecords
  split
  · simp
  · cases hd : m.defAt e.path with
    | none => simp
    | some d =>
      simp only [entryEvName_some]
      have hc := execActions_chron h htr d.entry evn (addActive e.path s)
      rw [chron_of_trace_eq (addActive_trace e.path s)] at hc
      split
      · exact hc
      · split
        · rw [chron_of_trace_eq (checkDone_trace h htr m e.path _)]; exact hc
        · exact hc

/-- records of an exit satisfy `ActRec` for the triggering event -/
theorem exitRecords_event (h : Hooks) (htr : HooksTraceOK h) (m : Machine) (evn : String) (p : Path) (s : St) :
    ∀ r ∈ exitRecords h m evn p s, ActRec evn r := by
  unfold exitRecords
  split
  · simp
  · split
    · simp
    · exact actRecords_event h htr _ _ _
theorem entryRecords_event (h : Hooks) (htr : HooksTraceOK h) (m : Machine) (evn : String) (e : Entry) (s : St) :
    ∀ r ∈ entryRecords h m evn e s, ActRec evn r := by
  unfold entryRecords
  split
  · simp
  · split
    · simp
    · exact actRecords_event h htr _ _ _

-- lists of exits / entries --------------------------------------------------------------------------------
/-- what exiting the list `ps` in order appends: the exit records of each state, in list order -/
def exitsRecords (h : Hooks) (fl : Flavor) (m : Machine) (evn : String) : List Path → St → List String
  | [], _ => []
  | p :: ps, s => exitRecords h m evn p s ++ exitsRecords h fl m evn ps (exitOne h fl m (some evn) s p)

/-- what entering the list `es` in order appends: the entry records of each state, in list order -/
def entriesRecords (h : Hooks) (fl : Flavor) (m : Machine) (evn : String) : List Entry → St → List String
  | [], _ => []
  | e :: es, s => entryRecords h m evn e s ++ entriesRecords h fl m evn es (enterOne h fl m (some evn) s e)

theorem exitFold_chron (h : Hooks) (htr : HooksTraceOK h) (fl : Flavor) (m : Machine) (evn : String) :
    ∀ (ps : List Path) (s : St),
      (ps.foldl (exitOne h fl m (some evn)) s).chron = s.chron ++ exitsRecords h fl m evn ps s := by
  intro ps
  induction ps with
  | nil => intro s; simp [exitsRecords]
  | cons p ps ih =>
    intro s
    simp only [List.foldl_cons, exitsRecords]
    rw [ih, exitOne_chron h htr, List.append_assoc]

theorem enterFold_chron (h : Hooks) (htr : HooksTraceOK h) (fl : Flavor) (m : Machine) (evn : String) :
    ∀ (es : List Entry) (s : St),
      (es.foldl (enterOne h fl m (some evn)) s).chron = s.chron ++ entriesRecords h fl m evn es s := by
  intro es
  induction es with
  | nil => intro s; simp [entriesRecords]
  | cons e es ih =>
    intro s
    simp only [List.foldl_cons, entriesRecords]
    rw [ih, enterOne_chron h htr, List.append_assoc]

theorem exitsRecords_event (h : Hooks) (htr : HooksTraceOK h) (fl : Flavor) (m : Machine) (evn : String) :
    ∀ (ps : List Path) (s : St), ∀ r ∈ exitsRecords h fl m evn ps s, ActRec evn r := by
  intro ps
  induction ps with
  | nil => intro s r hr; simp [exitsRecords] at hr
  | cons p ps ih =>
    intro s r hr
    simp only [exitsRecords, List.mem_append] at hr
    rcases hr with hr | hr
    · exact exitRecords_event h htr m evn p s r hr
    · exact ih _ r hr
theorem entriesRecords_event (h : Hooks) (htr : HooksTraceOK h) (fl : Flavor) (m : Machine) (evn : String) :
    ∀ (es : List Entry) (s : St), ∀ r ∈ entriesRecords h fl m evn es s, ActRec evn r := by
  intro es
  induction es with
  | nil => intro s r hr; simp [entriesRecords] at hr
  | cons e es ih =>
    intro s r hr
    simp only [entriesRecords, List.mem_append] at hr
    rcases hr with hr | hr
    · exact entryRecords_event h htr m evn e s r hr
    · exact ih _ r hr

/-- the records of a list of exits are the concatenation of one segment per state, in list order,
    each segment being the records of that state's exit actions run from some intermediate state -/
theorem exitsRecords_segments (h : Hooks) (fl : Flavor) (m : Machine) (evn : String) :
    ∀ (ps : List Path) (s : St), ∃ segs : List (Path × List String),
      segs.map (·.1) = ps ∧ exitsRecords h fl m evn ps s = segs.flatMap (·.2) ∧
      ∀ x ∈ segs, ∃ s0, x.2 = exitRecords h m evn x.1 s0 := by
  intro ps
  induction ps with
  | nil => intro s; exact ⟨[], rfl, rfl, by simp⟩
  | cons p ps ih =>
    intro s
    obtain ⟨segs, h1, h2, h3⟩ := ih (exitOne h fl m (some evn) s p)
    refine ⟨(p, exitRecords h m evn p s) :: segs, by simp [h1], by simp [exitsRecords, h2], ?_⟩
    intro x hx
    rcases List.mem_cons.1 hx with rfl | hx
    · exact ⟨s, rfl⟩
    · exact h3 x hx
theorem entriesRecords_segments (h : Hooks) (fl : Flavor) (m : Machine) (evn : String) :
    ∀ (es : List Entry) (s : St), ∃ segs : List (Entry × List String),
      segs.map (·.1) = es ∧ entriesRecords h fl m evn es s = segs.flatMap (·.2) ∧
      ∀ x ∈ segs, ∃ s0, x.2 = entryRecords h m evn x.1 s0 := by
  intro es
  induction es with
  | nil => intro s; exact ⟨[], rfl, rfl, by simp⟩
  | cons e es ih =>
    intro s
    obtain ⟨segs, h1, h2, h3⟩ := ih (enterOne h fl m (some evn) s e)
    refine ⟨(e, entryRecords h m evn e s) :: segs, by simp [h1], by simp [entriesRecords, h2], ?_⟩
    intro x hx
    rcases List.mem_cons.1 hx with rfl | hx
    · exact ⟨s, rfl⟩
    · exact h3 x hx

-- the three phases of a plan --------------------------------------------------------------------------------
/-- state after the exit phase -/
def afterExits (h : Hooks) (fl : Flavor) (m : Machine) (ev : Ev) (pl : Plan) (s : St) : St :=
  pl.exits.foldl (exitOne h fl m (some ev.type)) (recordHistory m pl.exits s)
/-- state after the transition's own actions -/
def afterActions (h : Hooks) (fl : Flavor) (m : Machine) (ev : Ev) (pl : Plan) (s : St) : St :=
  let s2 := afterExits h fl m ev pl s
  if s2.err.isSome then s2 else execActions h pl.actions ev.type s2

/-- records of the exit phase, of the transition-action phase, of the entry phase -/
def exitPhase (h : Hooks) (fl : Flavor) (m : Machine) (ev : Ev) (pl : Plan) (s : St) : List String :=
  exitsRecords h fl m ev.type pl.exits (recordHistory m pl.exits s)
def actionPhase (h : Hooks) (fl : Flavor) (m : Machine) (ev : Ev) (pl : Plan) (s : St) : List String :=
  actRecords h pl.actions ev.type (afterExits h fl m ev pl s)
def entryPhase (h : Hooks) (fl : Flavor) (m : Machine) (ev : Ev) (pl : Plan) (s : St) : List String :=
  entriesRecords h fl m ev.type pl.entries (afterActions h fl m ev pl s)

theorem runPlan_chron (h : Hooks) (htr : HooksTraceOK h) (fl : Flavor) (m : Machine) (ev : Ev) (pl : Plan)
    (s : St) :
    (runPlan h fl m ev pl s).chron =
      s.chron ++ exitPhase h fl m ev pl s ++ actionPhase h fl m ev pl s ++ entryPhase h fl m ev pl s := by
  have h4 : (runPlan h fl m ev pl s).trace =
      (pl.entries.foldl (enterOne h fl m (some ev.type)) (afterActions h fl m ev pl s)).trace := by
    unfold runPlan afterActions afterExits
    simp only
    split
    · exact fail_trace _ _
    · rfl
  rw [chron_of_trace_eq h4, enterFold_chron h htr]
  have h3 : (afterActions h fl m ev pl s).chron =
      (afterExits h fl m ev pl s).chron ++ actionPhase h fl m ev pl s := by
    unfold afterActions actionPhase
    simp only
    split
    · rename_i he; rw [actRecords_sticky h _ _ _ he]; simp
    · exact execActions_chron h htr _ _ _
  have h2 : (afterExits h fl m ev pl s).chron = s.chron ++ exitPhase h fl m ev pl s := by
    unfold afterExits exitPhase
    rw [exitFold_chron h htr, chron_of_trace_eq (recordHistory_trace m pl.exits s)]
  rw [h3, h2]
  rfl

-- the explicit trace when every action is implemented and returns -------------------------------------------
/-- every action name has a (non-coroutine) implementation that returns normally -/
def AllActionsOK (h : Hooks) : Prop := ∀ n c e, ∃ c', h.act n c e = .ok c'

/-- the record of one successful action -/
def recOf (evn : String) (a : ActionRef) : String := a.type ++ "@" ++ evn

theorem foldl_actStep_ok (h : Hooks) (hall : AllActionsOK h) (nested : List ActionRef → String → St → St)
    (cut : Bool) (evType : String) :
    ∀ (as : List ActionRef) (acc : St × Bool), acc.2 = false → acc.1.err = none →
      (as.foldl (actStep h nested cut evType) acc).2 = false ∧
      (as.foldl (actStep h nested cut evType) acc).1.err = none ∧
      (as.foldl (actStep h nested cut evType) acc).1.trace = (as.map (recOf evType)).reverse ++ acc.1.trace := by
  intro as
  induction as with
  | nil => intro acc h2 he; exact ⟨h2, he, by simp⟩
  | cons a as ih =>
    intro acc h2 he
    simp only [List.foldl_cons]
    obtain ⟨c', hc'⟩ := hall a.type acc.1.ctx evType
    have hstep : actStep h nested cut evType acc a = (emit (recOf evType a) { acc.1 with ctx := c' }, false) := by
      unfold actStep
      simp only [h2, he, Option.isSome_none, Bool.or_self, Bool.false_eq_true, if_false, hc']
      rfl
    rw [hstep]
    obtain ⟨r1, r2, r3⟩ := ih (emit (recOf evType a) { acc.1 with ctx := c' }, false) rfl he
    refine ⟨r1, r2, ?_⟩
    rw [r3]
    simp [emit]

theorem execActions_ok (h : Hooks) (hall : AllActionsOK h) (as : List ActionRef) (evType : String) (s : St)
    (he : s.err = none) :
    (execActions h as evType s).err = none ∧
      (execActions h as evType s).trace = (as.map (recOf evType)).reverse ++ s.trace := by
  unfold execActions execActionsF
  obtain ⟨_, r2, r3⟩ := foldl_actStep_ok h hall _ false evType as (s, false) rfl he
  exact ⟨r2, r3⟩

theorem actRecords_ok (h : Hooks) (hall : AllActionsOK h) (as : List ActionRef) (evType : String) (s : St)
    (he : s.err = none) : actRecords h as evType s = as.map (recOf evType) := by
  unfold actRecords
  rw [(chron_of_trace (execActions_ok h hall as evType s he).2).2]
  simp

/-- the exit (entry) records of a state when every action succeeds: one per declared action, in order -/
def exitNames (m : Machine) (evn : String) (p : Path) : List String :=
  match m.defAt p with
  | some d => d.exit.map (recOf evn)
  | none => []
def entryNames (m : Machine) (evn : String) (p : Path) : List String :=
  match m.defAt p with
  | some d => d.entry.map (recOf evn)
  | none => []

theorem exitOne_ok (h : Hooks) (hall : AllActionsOK h) (fl : Flavor) (m : Machine) (evn : String)
    (s : St) (p : Path) (he : s.err = none) :
    (exitOne h fl m (some evn) s p).err = none ∧ exitRecords h m evn p s = exitNames m evn p := by
  unfold exitOne exitRecords exitNames
  simp only [he, Option.isSome_none, Bool.false_eq_true, if_false]
  cases hd : m.defAt p with
  | none => exact ⟨he, rfl⟩
  | some d =>
    simp only
    exact ⟨by rw [delActive_err]; exact (execActions_ok h hall _ _ s he).1, actRecords_ok h hall _ _ s he⟩

theorem enterOne_ok (h : Hooks) (hok : HooksOK h) (hall : AllActionsOK h) (fl : Flavor) (m : Machine)
    (evn : String) (s : St) (e : Entry) (he : s.err = none) :
    (enterOne h fl m (some evn) s e).err = none ∧ entryRecords h m evn e s = entryNames m evn e.path := by
  unfold enterOne entryRecords entryNames
  simp only [he, Option.isSome_none, Bool.false_eq_true, if_false]
  cases hd : m.defAt e.path with
  | none => exact ⟨he, rfl⟩
  | some d =>
    simp only
    have ha : (addActive e.path s).err = none := by rw [addActive_err]; exact he
    have hx := execActions_ok h hall d.entry (entryEvName fl m e (some evn)) (addActive e.path s) ha
    refine ⟨?_, actRecords_ok h hall _ _ _ ha⟩
    simp only [hx.1, Option.isSome_none, Bool.false_eq_true, if_false]
    split
    · rw [(checkDone_cfg_err h hok m e.path _).2]; exact hx.1
    · exact hx.1

theorem exitsRecords_ok (h : Hooks) (hall : AllActionsOK h) (fl : Flavor) (m : Machine) (evn : String) :
    ∀ (ps : List Path) (s : St), s.err = none →
      (ps.foldl (exitOne h fl m (some evn)) s).err = none ∧
        exitsRecords h fl m evn ps s = ps.flatMap (exitNames m evn) := by
  intro ps
  induction ps with
  | nil => intro s he; exact ⟨he, rfl⟩
  | cons p ps ih =>
    intro s he
    obtain ⟨h1, h2⟩ := exitOne_ok h hall fl m evn s p he
    obtain ⟨h3, h4⟩ := ih _ h1
    simp only [List.foldl_cons, exitsRecords, List.flatMap_cons]
    exact ⟨h3, by rw [h2, h4]⟩

theorem entriesRecords_ok (h : Hooks) (hok : HooksOK h) (hall : AllActionsOK h) (fl : Flavor) (m : Machine)
    (evn : String) :
    ∀ (es : List Entry) (s : St), s.err = none →
      (es.foldl (enterOne h fl m (some evn)) s).err = none ∧
        entriesRecords h fl m evn es s = es.flatMap (fun e => entryNames m evn e.path) := by
  intro es
  induction es with
  | nil => intro s he; exact ⟨he, rfl⟩
  | cons e es ih =>
    intro s he
    obtain ⟨h1, h2⟩ := enterOne_ok h hok hall fl m evn s e he
    obtain ⟨h3, h4⟩ := ih _ h1
    simp only [List.foldl_cons, entriesRecords, List.flatMap_cons]
    exact ⟨h3, by rw [h2, h4]⟩

theorem runPlan_chron_ok (h : Hooks) (hok : HooksOK h) (htr : HooksTraceOK h) (hall : AllActionsOK h)
    (fl : Flavor) (m : Machine) (ev : Ev) (pl : Plan) (s : St) (he : s.err = none) :
    (runPlan h fl m ev pl s).chron =
      s.chron ++ pl.exits.flatMap (exitNames m ev.type) ++ pl.actions.map (recOf ev.type)
        ++ pl.entries.flatMap (fun e => entryNames m ev.type e.path) := by
  rw [runPlan_chron h htr]
  obtain ⟨x1, x2⟩ := exitsRecords_ok h hall fl m ev.type pl.exits (recordHistory m pl.exits s) he
  have a0 : (afterExits h fl m ev pl s).err = none := x1
  have a1 : afterActions h fl m ev pl s = execActions h pl.actions ev.type (afterExits h fl m ev pl s) := by
    unfold afterActions; simp [a0]
  have a2 := execActions_ok h hall pl.actions ev.type _ a0
  obtain ⟨_, e2⟩ := entriesRecords_ok h hok hall fl m ev.type pl.entries (afterActions h fl m ev pl s)
    (by rw [a1]; exact a2.1)
  unfold exitPhase actionPhase entryPhase
  rw [x2, e2, actRecords_ok h hall _ _ _ a0]

-- actions never touch the recorded history -------------------------------------------------------------------
theorem assignStep_hist (canon : String) (cut : Bool) (a : ActionRef) (s : St) :
    (assignStep canon cut a s).hist = s.hist := by
  unfold assignStep; (repeat' split) <;> rfl

theorem finishBuiltin_hist (h : Hooks) (htr : HooksTraceOK h) (canon : String) (a : ActionRef) (s2 : St) :
    (finishBuiltin h canon a s2).1.hist = s2.hist := by
  unfold finishBuiltin
  split
  · rfl
  · split
    · split
      · exact htr.raise_hist _ _
      · rfl
    · rfl

theorem builtinStep_hist (h : Hooks) (htr : HooksTraceOK h) (nested : List ActionRef → String → St → St)
    (hn : ∀ as ev s, (nested as ev s).hist = s.hist) (cut : Bool) (evType canon : String)
    (a : ActionRef) (s : St) : (builtinStep h nested cut evType canon a s).1.hist = s.hist := by
  unfold builtinStep
  simp only
  split
  · rfl
  · rw [finishBuiltin_hist h htr]
    split
    · exact assignStep_hist _ _ _ _
    · rw [hn]; exact assignStep_hist _ _ _ _

theorem actStep_hist (h : Hooks) (htr : HooksTraceOK h) (nested : List ActionRef → String → St → St)
    (hn : ∀ as ev s, (nested as ev s).hist = s.hist) (cut : Bool) (evType : String)
    (acc : St × Bool) (a : ActionRef) : (actStep h nested cut evType acc a).1.hist = acc.1.hist := by
  unfold actStep
  split
  · rfl
  · split
    · rfl
    · split
      · exact fail_hist _ _
      · rfl
    · rfl
    · split
      · exact fail_hist _ _
      · exact builtinStep_hist h htr nested hn cut evType _ a acc.1

theorem foldl_actStep_hist (h : Hooks) (htr : HooksTraceOK h) (nested : List ActionRef → String → St → St)
    (hn : ∀ as ev s, (nested as ev s).hist = s.hist) (cut : Bool) (evType : String) :
    ∀ (as : List ActionRef) (acc : St × Bool),
      (as.foldl (actStep h nested cut evType) acc).1.hist = acc.1.hist := by
  intro as
  induction as with
  | nil => intro acc; rfl
  | cons a as ih =>
    intro acc
    simp only [List.foldl_cons]
    rw [ih, actStep_hist h htr nested hn]

theorem execActionsF_hist (h : Hooks) (htr : HooksTraceOK h) :
    ∀ (fuel : Nat) (as : List ActionRef) (evType : String) (s : St),
      (execActionsF h fuel as evType s).hist = s.hist := by
  intro fuel
  induction fuel with
  | zero =>
    intro as evType s
    unfold execActionsF
    exact foldl_actStep_hist h htr _ (fun _ _ _ => rfl) true evType as (s, false)
  | succ f ih =>
    intro as evType s
    unfold execActionsF
    exact foldl_actStep_hist h htr _ (fun as ev s => by rw [endExpansion_hist]; exact ih as ev s) false evType as (s, false)

/-- actions never touch the recorded history -/
theorem execActions_hist (h : Hooks) (htr : HooksTraceOK h) (evType : String) (as : List ActionRef) (s : St) :
    (execActions h as evType s).hist = s.hist := execActionsF_hist h htr _ as evType s

-- an internal (target-less) transition ------------------------------------------------------------------------
theorem execute_hist_eq (h : Hooks) (fl : Flavor) (m : Machine) (ev : Ev) (pl : Plan) (s : St) :
    (execute h fl m ev pl s).hist = (executeCore h fl m ev pl s).hist := by
  unfold execute; simp only; split <;> rfl

theorem execute_internal_hist (h : Hooks) (htr : HooksTraceOK h) (fl : Flavor) (m : Machine) (ev : Ev)
    (pl : Plan) (s : St) (hint : pl.internal = true) : (execute h fl m ev pl s).hist = s.hist := by
  rw [execute_hist_eq]
  unfold executeCore
  simp only [hint, if_true]
  split
  · exact fail_hist _ _
  · exact execActions_hist h htr _ _ _

theorem obsRecord_congr (m : Machine) {s s' : St} (h : s'.cfg = s.cfg) : obsRecord m s' = obsRecord m s := by
  unfold obsRecord; rw [h]

/-- the observer record of `execute` -/
def obsPart (h : Hooks) (fl : Flavor) (m : Machine) (ev : Ev) (pl : Plan) (s : St) : List String :=
  if (execute h fl m ev pl s).err.isSome then [] else [obsRecord m (execute h fl m ev pl s)]

theorem execute_chron_core (h : Hooks) (fl : Flavor) (m : Machine) (ev : Ev) (pl : Plan) (s : St) :
    (execute h fl m ev pl s).chron = (executeCore h fl m ev pl s).chron ++ obsPart h fl m ev pl s := by
  have he := execute_err_eq h fl m ev pl s
  have hc := execute_cfg_eq h fl m ev pl s
  unfold obsPart
  rw [he, obsRecord_congr m hc]
  unfold execute
  simp only
  split
  · simp
  · exact chron_emit _ _

theorem execute_internal_chron (h : Hooks) (htr : HooksTraceOK h) (fl : Flavor) (m : Machine) (ev : Ev)
    (pl : Plan) (s : St) (hint : pl.internal = true) :
    (execute h fl m ev pl s).chron =
      s.chron ++ (match pl.err with | some _ => [] | none => actRecords h pl.actions ev.type s)
        ++ obsPart h fl m ev pl s := by
  rw [execute_chron_core]
  congr 1
  unfold executeCore
  simp only [hint, if_true]
  cases hp : pl.err with
  | some e => simp only; rw [chron_of_trace_eq (fail_trace _ _)]; simp
  | none => exact execActions_chron h htr _ _ _

theorem execute_external_chron (h : Hooks) (htr : HooksTraceOK h) (fl : Flavor) (m : Machine) (ev : Ev)
    (pl : Plan) (s : St) (hint : pl.internal = false) :
    (execute h fl m ev pl s).chron =
      s.chron ++ exitPhase h fl m ev pl s ++ actionPhase h fl m ev pl s ++ entryPhase h fl m ev pl s
        ++ obsPart h fl m ev pl s := by
  rw [execute_chron_core]
  congr 1
  rw [← runPlan_chron h htr]
  unfold executeCore
  simp only [hint, Bool.false_eq_true, if_false]
  split
  · rfl
  · rfl

-- exit order ----------------------------------------------------------------------------------------------------
theorem insertBy_perm_cons {α} (le : α → α → Bool) (x : α) (ys : List α) : (insertBy le x ys).Perm (x :: ys) := by
  induction ys with
  | nil => simp [insertBy]
  | cons y ys ih =>
    simp only [insertBy]
    split
    · exact List.Perm.refl _
    · exact (List.Perm.cons y ih).trans (List.Perm.swap x y ys)

theorem sortBy_perm_self {α} (le : α → α → Bool) (xs : List α) : (sortBy le xs).Perm xs := by
  induction xs with
  | nil => simp [sortBy]
  | cons x xs ih =>
    simp only [sortBy, List.foldr_cons] at ih ⊢
    exact (insertBy_perm_cons le x _).trans (List.Perm.cons x ih)

theorem sortExit_perm_self (m : Machine) (xs : List Path) : (sortExit m xs).Perm xs := by
  unfold sortExit
  exact (List.reverse_perm _).trans (sortBy_perm_self _ xs)

/-- the exit list has no duplicates when the set it sorts has none -/
theorem sortExit_nodup (m : Machine) (xs : List Path) (h : xs.Nodup) : (sortExit m xs).Nodup :=
  (sortExit_perm_self m xs).nodup_iff.2 h

/-- the comparison used for exits and for the recorded history -/
def depthLe (m : Machine) (a b : Path) : Bool :=
  a.length < b.length || (a.length == b.length && decide (m.idOf a ≤ m.idOf b))

theorem depthLe_length {m : Machine} {a b : Path} (h : depthLe m a b = true) : a.length ≤ b.length := by
  unfold depthLe at h
  simp only [Bool.or_eq_true, decide_eq_true_eq, Bool.and_eq_true, beq_iff_eq] at h
  rcases h with h | h
  · omega
  · omega
theorem depthLe_false_length {m : Machine} {a b : Path} (h : ¬ depthLe m a b = true) : b.length ≤ a.length := by
  unfold depthLe at h
  simp only [Bool.or_eq_true, decide_eq_true_eq, Bool.and_eq_true, beq_iff_eq, not_or] at h
  omega

theorem insertBy_depth_sorted (m : Machine) (x : Path) (ys : List Path)
    (h : ys.Pairwise (fun a b => a.length ≤ b.length)) :
    (insertBy (depthLe m) x ys).Pairwise (fun a b => a.length ≤ b.length) := by
  induction ys with
  | nil => simp [insertBy]
  | cons y ys ih =>
    simp only [insertBy]
    obtain ⟨hy, hys⟩ := List.pairwise_cons.1 h
    split
    · rename_i hle
      have hxy := depthLe_length hle
      refine List.pairwise_cons.2 ⟨?_, h⟩
      intro z hz
      rcases List.mem_cons.1 hz with rfl | hz
      · exact hxy
      · exact Nat.le_trans hxy (hy z hz)
    · rename_i hle
      have hyx := depthLe_false_length hle
      refine List.pairwise_cons.2 ⟨?_, ih hys⟩
      intro z hz
      rcases (mem_insertBy _ _ _ _).1 hz with rfl | hz
      · exact hyx
      · exact hy z hz

theorem sortBy_depth_sorted (m : Machine) (xs : List Path) :
    (sortBy (depthLe m) xs).Pairwise (fun a b => a.length ≤ b.length) := by
  induction xs with
  | nil => simp [sortBy]
  | cons x xs ih =>
    simp only [sortBy, List.foldr_cons] at ih ⊢
    exact insertBy_depth_sorted m x _ ih

/-- exits are ordered by non-increasing depth -/
theorem sortExit_depth (m : Machine) (xs : List Path) :
    (sortExit m xs).Pairwise (fun a b => b.length ≤ a.length) := by
  have : sortExit m xs = (sortBy (depthLe m) xs).reverse := rfl
  rw [this, List.pairwise_reverse]
  exact sortBy_depth_sorted m xs

theorem strict_prefix_length {a b : Path} (h : a <+: b) (hne : a ≠ b) : a.length < b.length := by
  rcases Nat.lt_or_ge a.length b.length with hl | hl
  · exact hl
  · exact absurd (h.eq_of_length (Nat.le_antisymm h.length_le hl)) hne

/-- in the exit list a state never comes before one of its strict descendants -/
theorem sortExit_children_first (m : Machine) (xs : List Path) :
    (sortExit m xs).Pairwise (fun a b => ¬ (a <+: b ∧ a ≠ b)) := by
  refine List.Pairwise.imp ?_ (sortExit_depth m xs)
  intro a b hle ⟨hp, hne⟩
  have := strict_prefix_length hp hne
  omega

theorem pairwise_split {α} {R : α → α → Prop} {l l1 l2 : List α} {a b : α} (h : l.Pairwise R)
    (hl : l = l1 ++ a :: l2) (hb : b ∈ l2) : R a b := by
  subst hl
  have h2 := (List.pairwise_append.1 h).2.1
  exact (List.pairwise_cons.1 h2).1 b hb

-- entry order ---------------------------------------------------------------------------------------------------
/-- "later is not an ancestor-or-self of earlier": gives both parents-first and no duplicates -/
def NoLaterPrefix (l : List Path) : Prop := l.Pairwise (fun x y => ¬ y <+: x)

theorem NoLaterPrefix.nodup {l : List Path} (h : NoLaterPrefix l) : l.Nodup :=
  List.Pairwise.imp (fun {a b} hab heq => hab (by rw [heq]; exact List.prefix_refl _)) h

mutual
theorem enterDefault_parents_first (p : Path) (n : SNode) (hwf : WF n) : NoLaterPrefix (enterDefault p n) := by
  match n with
  | .mk d kids =>
    simp only [WF] at hwf
    simp only [enterDefault]
    refine List.pairwise_cons.2 ⟨?_, ?_⟩
    · intro q hq hqp
      have hk : ∃ k, (p ++ [k]) <+: q := by
        cases hkd : d.kind <;> simp only [hkd] at hq
        · simp at hq
        · cases hi : d.initial <;> simp only [hi] at hq
          · simp at hq
          · obtain ⟨k', _, hp⟩ := enterInit_prefix p _ kids q hq
            exact ⟨k', hp⟩
        · obtain ⟨k', _, hp⟩ := enterRegions_prefix p kids q hq
          exact ⟨k', hp⟩
        · simp at hq
        · simp at hq
      obtain ⟨k, hk⟩ := hk
      exact not_snoc_prefix_self p k (List.IsPrefix.trans hk hqp)
    · cases hkd : d.kind <;> simp only
      · exact List.Pairwise.nil
      · cases hi : d.initial <;> simp only
        · exact List.Pairwise.nil
        · exact enterInit_parents_first p _ kids hwf.1
      · exact enterRegions_parents_first p kids hwf.1 hwf.2.1
      · exact List.Pairwise.nil
      · exact List.Pairwise.nil
theorem enterInit_parents_first (p : Path) (k : String) (ks : List (String × SNode)) (hwf : WFKids ks) :
    NoLaterPrefix (enterInit p k ks) := by
  match ks with
  | [] => exact List.Pairwise.nil
  | (k', c) :: rest =>
    simp only [WFKids] at hwf
    simp only [enterInit]
    split
    · exact enterDefault_parents_first (p ++ [k']) c hwf.1
    · exact enterInit_parents_first p k rest hwf.2
theorem enterRegions_parents_first (p : Path) (ks : List (String × SNode)) (hwf : WFKids ks)
    (hnd : (ks.map (·.1)).Nodup) : NoLaterPrefix (enterRegions p ks) := by
  match ks with
  | [] => exact List.Pairwise.nil
  | (k', c) :: rest =>
    simp only [WFKids] at hwf
    simp only [List.map_cons, List.nodup_cons] at hnd
    simp only [enterRegions]
    refine List.pairwise_append.2 ⟨?_, enterRegions_parents_first p rest hwf.2 hnd.2, ?_⟩
    · split
      · exact List.Pairwise.nil
      · exact enterDefault_parents_first (p ++ [k']) c hwf.1
    · intro x hx y hy hyx
      have hx' : (p ++ [k']) <+: x := by
        split at hx
        · simp at hx
        · exact enterDefault_prefix _ _ x hx
      obtain ⟨k2, hk2, hp2⟩ := enterRegions_prefix p rest y hy
      have : k2 = k' := snoc_prefix_inj (List.IsPrefix.trans hp2 hyx) hx'
      subst this
      exact hnd.1 hk2
end

theorem regionsNotIn_parents_first (L : List Path) (p : Path) (ks : List (String × SNode)) (hwf : WFKids ks)
    (hnd : (ks.map (·.1)).Nodup) : NoLaterPrefix (regionsNotIn L p ks) := by
  induction ks with
  | nil => exact List.Pairwise.nil
  | cons hd rest ih =>
    obtain ⟨k', c⟩ := hd
    simp only [WFKids] at hwf
    simp only [List.map_cons, List.nodup_cons] at hnd
    simp only [regionsNotIn]
    refine List.pairwise_append.2 ⟨?_, ih hwf.2 hnd.2, ?_⟩
    · split
      · exact List.Pairwise.nil
      · exact enterDefault_parents_first (p ++ [k']) c hwf.1
    · intro x hx y hy hyx
      have hx' : (p ++ [k']) <+: x := by
        split at hx
        · simp at hx
        · exact enterDefault_prefix _ _ x hx
      obtain ⟨k2, c2, hm, _, _, hq⟩ := mem_regionsNotIn.1 hy
      have hp2 := enterDefault_prefix _ _ y hq
      have : k2 = k' := snoc_prefix_inj (List.IsPrefix.trans hp2 hyx) hx'
      subst this
      exact hnd.1 (List.mem_map_of_mem (f := (·.1)) hm)

/-- the extras of one element of the entry list: parents first, no duplicates -/
theorem extra_parents_first (root : SNode) (hwf : WF root) (L : List Path) (p : Path) :
    NoLaterPrefix (extra root L p) := by
  unfold extra
  cases hat : root.at p with
  | none => exact List.Pairwise.nil
  | some n =>
    match n, hat with
    | .mk d kids, hat =>
      have hwfn := wf_at hwf p _ hat
      simp only [WF] at hwfn
      simp only
      cases hkd : d.kind <;> simp only
      · exact List.Pairwise.nil
      · split
        · exact List.Pairwise.nil
        · cases hi : d.initial <;> simp only
          · exact List.Pairwise.nil
          · exact enterInit_parents_first p _ kids hwfn.1
      · exact regionsNotIn_parents_first L p kids hwfn.1 hwfn.2.1
      · exact List.Pairwise.nil
      · exact List.Pairwise.nil

theorem extra_strictly_below {root : SNode} {L : List Path} {p q : Path} (h : q ∈ extra root L p) :
    p <+: q ∧ p ≠ q := by
  obtain ⟨k, hk, _⟩ := extra_below_nonmember h
  refine ⟨prefix_snoc_of_prefix_snoc hk, ?_⟩
  intro heq
  subst heq
  exact not_snoc_prefix_self p k hk

theorem pathToEnter_sorted (dom tgt : Path) :
    (pathToEnter dom tgt).Pairwise (fun a b => a <+: b ∧ a ≠ b) := by
  unfold pathToEnter
  rw [List.pairwise_map]
  refine List.Pairwise.imp_of_mem ?_ (List.pairwise_lt_range (n := tgt.length - dom.length))
  intro i j hi hj hij
  rw [List.mem_range] at hi hj
  refine ⟨(List.prefix_take_le_iff (by omega)).2 (by omega), ?_⟩
  intro h
  have := congrArg List.length h
  simp only [List.length_take] at this
  omega

/-- **entry order, general form**: if the explicit list `L` is itself parents-first and convex (with two
    comparable members it contains everything between them) then so is everything `_enter_states(L)` enters -/
theorem enterStates_parents_first (root : SNode) (hwf : WF root) (L : List Path) (hL : NoLaterPrefix L)
    (hconv : ∀ a ∈ L, ∀ q ∈ L, a <+: q → ∀ p', a <+: p' → p' <+: q → p' ∈ L) :
    NoLaterPrefix (enterStates root L) := by
  unfold NoLaterPrefix enterStates
  rw [List.pairwise_flatMap]
  constructor
  · intro p _
    refine List.pairwise_cons.2 ⟨?_, extra_parents_first root hwf _ p⟩
    intro q hq hqp
    obtain ⟨h1, h2⟩ := extra_strictly_below hq
    exact h2 (h1.eq_of_length (Nat.le_antisymm h1.length_le hqp.length_le))
  · refine List.Pairwise.imp_of_mem ?_ hL
    intro a1 a2 ha1 ha2 hnot x hx y hy hyx
    have ha2y : a2 <+: y := by
      rcases List.mem_cons.1 hy with rfl | hy
      · exact List.prefix_refl _
      · exact (extra_strictly_below hy).1
    have ha2x : a2 <+: x := List.IsPrefix.trans ha2y hyx
    have ha1x : a1 <+: x := by
      rcases List.mem_cons.1 hx with rfl | hx
      · exact List.prefix_refl _
      · exact (extra_strictly_below hx).1
    -- a1 and a2 are comparable; a2 is not above a1, so a1 is strictly above a2
    have h12 : a1 <+: a2 := by
      rcases List.prefix_or_prefix_of_prefix ha1x ha2x with h | h
      · exact h
      · exact absurd h hnot
    have hne : a1 ≠ a2 := fun e => hnot (by rw [e]; exact List.prefix_refl _)
    rcases List.mem_cons.1 hx with rfl | hx
    · exact hne (h12.eq_of_length (Nat.le_antisymm h12.length_le ha2x.length_le))
    · obtain ⟨k, hk, hkL⟩ := extra_below_nonmember hx
      obtain ⟨k', hk'⟩ := strict_prefix_snoc h12 hne
      have hk'L : (a1 ++ [k']) ∈ L := hconv a1 ha1 a2 ha2 h12 _ (List.prefix_append _ _) hk'
      have : k = k' := snoc_prefix_inj hk (List.IsPrefix.trans hk' ha2x)
      subst this
      exact hkL hk'L

/-- **entry order over a chain**: in `_enter_states(path from the domain down to the target)` no state
    comes before one of its ancestors, and no state is listed twice -/
theorem enterStates_chain_parents_first (root : SNode) (hwf : WF root) (dom tgt : Path) (hd : dom <+: tgt) :
    NoLaterPrefix (enterStates root (pathToEnter dom tgt)) := by
  refine enterStates_parents_first root hwf _ ?_ ?_
  · refine List.Pairwise.imp ?_ (pathToEnter_sorted dom tgt)
    intro a b ⟨hab, hne⟩ hba
    exact hne (hab.eq_of_length (Nat.le_antisymm hab.length_le hba.length_le))
  · intro a ha q hq _ p' hap' hp'q
    obtain ⟨ha1, ha2, _⟩ := (mem_pathToEnter hd).1 ha
    obtain ⟨_, _, hq3⟩ := (mem_pathToEnter hd).1 hq
    refine (mem_pathToEnter hd).2 ⟨List.IsPrefix.trans ha1 hap', ?_, List.IsPrefix.trans hp'q hq3⟩
    intro h
    subst h
    exact ha2 (hap'.eq_of_length (Nat.le_antisymm hap'.length_le ha1.length_le))

-- the plan of a plain-target transition ----------------------------------------------------------------------
/-- candidate `c` declares a target that resolves to `tgt`, an existing state that is neither a history
    pseudo-state nor the machine root, and the transition is external (the hypotheses of
    `legal_microstep_plain`) -/
structure PlainTarget (m : Machine) (c : Cand) (tgt : Path) : Prop where
  declared : ∃ tstr, c.t.target = some tstr ∧ tstr ≠ "" ∧ resolveRobust m c.src tstr = some tgt
  ext : ¬ (tgt = c.src ∧ c.t.reenter = false)
  exists_ : ∃ nt, m.root.at tgt = some nt ∧ nt.kind ≠ .history
  nonroot : tgt ≠ []

theorem planTransition_plain (m : Machine) (cfg : List Path) (hist : List (Path × List Path)) (c : Cand)
    (tgt : Path) (hp : PlainTarget m c tgt) :
    planTransition m cfg hist c =
      { exits := sortExit m (Spec.exitSet m.root cfg (Spec.domain c.src tgt) tgt), actions := c.t.actions,
        entries := (planEnter m (pathToEnter (Spec.domain c.src tgt) tgt)).1,
        err := (planEnter m (pathToEnter (Spec.domain c.src tgt) tgt)).2 } := by
  obtain ⟨tstr, ht, hne, hres⟩ := hp.declared
  obtain ⟨nt, htgt, hnh⟩ := hp.exists_
  have hdp : Spec.domain c.src tgt <+: tgt := domain_prefix_tgt c.src tgt
  have hpf : pathFrom (Spec.domain c.src tgt) tgt = pathToEnter (Spec.domain c.src tgt) tgt := by
    simp only [pathFrom, List.isPrefixOf_iff_prefix.2 hdp, if_true, pathToEnter]
  have hnotint : (tgt = c.src && !c.t.reenter) = false := by
    cases hr : c.t.reenter with
    | true => simp
    | false =>
      by_cases he : tgt = c.src
      · exact absurd ⟨he, hr⟩ hp.ext
      · simp [he]
  have hkh : ¬ (m.kindAt tgt = some Kind.history) := by
    simp only [Machine.kindAt, htgt, Option.map_some, Option.some.injEq]
    exact hnh
  unfold planTransition
  simp only [ht, hne, if_false, hres, hnotint, Bool.false_eq_true, hkh, domainO_plain m c.src tgt hp.nonroot hkh,
    pathFromO]
  rw [hpf]
  rfl

theorem plain_chain_valid (m : Machine) (c : Cand) (tgt : Path) (hp : PlainTarget m c tgt) :
    ∀ p ∈ pathToEnter (Spec.domain c.src tgt) tgt, ∃ n, m.root.at p = some n := by
  obtain ⟨nt, htgt, _⟩ := hp.exists_
  intro p hpm
  obtain ⟨_, _, h3⟩ := (mem_pathToEnter (domain_prefix_tgt c.src tgt)).1 hpm
  obtain ⟨t, ht'⟩ := h3
  rw [← ht'] at htgt
  exact at_prefix_some htgt

/-- the plan of a plain-target transition, field by field -/
theorem plain_plan (m : Machine) (cfg : List Path) (hist : List (Path × List Path)) (c : Cand) (tgt : Path)
    (hwf : WF m.root) (hi : InitOK m.root) (hp : PlainTarget m c tgt) :
    (planTransition m cfg hist c).internal = false ∧
    (planTransition m cfg hist c).err = none ∧
    (planTransition m cfg hist c).actions = c.t.actions ∧
    (planTransition m cfg hist c).exits = sortExit m (Spec.exitSet m.root cfg (Spec.domain c.src tgt) tgt) ∧
    (planTransition m cfg hist c).entries.map (·.path) =
      enterStates m.root (pathToEnter (Spec.domain c.src tgt) tgt) := by
  obtain ⟨h1, h2⟩ := planEnter_eq m _ hwf hi (plain_chain_valid m c tgt hp)
  rw [planTransition_plain m cfg hist c tgt hp]
  exact ⟨rfl, h1, rfl, rfl, h2⟩

-- set-level facts about what is exited and entered ----------------------------------------------------------------
/-- the child of the domain on the way to the target -/
def regionOf (dom tgt : Path) : Path := tgt.take (dom.length + 1)

theorem exited_below {root : SNode} {c : List Path} {dom tgt q : Path} (h : q ∈ Spec.exitSet root c dom tgt) :
    q ∈ c ∧ dom <+: q ∧ q ≠ dom := by
  obtain ⟨h1, h2, h3, _⟩ := mem_exitSet.1 h
  exact ⟨h1, h2, h3⟩

/-- every entered state lies below the child of the domain that leads to the target -/
theorem entered_below {root : SNode} {dom tgt q : Path} (hd : dom <+: tgt)
    (h : q ∈ enterStates root (pathToEnter dom tgt)) : regionOf dom tgt <+: q ∧ dom <+: q ∧ q ≠ dom := by
  obtain ⟨p, hp, hor⟩ := mem_enterStates.1 h
  obtain ⟨h1, h2, h3⟩ := (mem_pathToEnter hd).1 hp
  have hpq : p <+: q := by
    rcases hor with rfl | hex
    · exact List.prefix_refl _
    · exact (extra_strictly_below hex).1
  have hlen : dom.length < p.length := strict_prefix_length h1 (fun e => h2 e.symm)
  have hrp : regionOf dom tgt <+: p := by
    refine List.prefix_of_prefix_length_le (List.take_prefix _ _) h3 ?_
    simp only [regionOf, List.length_take]
    omega
  refine ⟨List.IsPrefix.trans hrp hpq, List.IsPrefix.trans h1 hpq, ?_⟩
  intro heq
  have := hpq.length_le
  rw [heq] at this
  omega

/-- **a state is never entered while active**: an entered state that is active is in the exit set -/
theorem entered_active_is_exited {root : SNode} {c : List Path} {dom tgt q : Path} (hd : dom <+: tgt)
    (h : q ∈ enterStates root (pathToEnter dom tgt)) (hq : q ∈ c) : q ∈ Spec.exitSet root c dom tgt := by
  obtain ⟨h1, h2, h3⟩ := entered_below hd h
  exact mem_exitSet.2 ⟨hq, h2, h3, fun _ => h1⟩

theorem lcp_of_prefix_right : ∀ (a b : Path), b <+: a → lcp a b = b
  | _, [], _ => by cases ‹Path› <;> simp [lcp]
  | [], y :: bs, h => by simp at h
  | x :: as, y :: bs, h => by
    have hxy : y = x ∧ bs <+: as := by
      obtain ⟨t, ht⟩ := h
      simp only [List.cons_append, List.cons.injEq] at ht
      exact ⟨ht.1, ⟨t, ht.2⟩⟩
    obtain ⟨rfl, hbs⟩ := hxy
    simp only [lcp, if_true]
    rw [lcp_of_prefix_right as bs hbs]

theorem lcp_self (a : Path) : lcp a a = a := lcp_of_prefix_right a a (List.prefix_refl _)

/-- `domain` is the parent of the target when the target is the source or one of its ancestors, and the
    longest common prefix otherwise -/
theorem domain_cases (src tgt : Path) :
    (tgt <+: src ∧ Spec.domain src tgt = tgt.dropLast ∧ lcp src tgt = tgt) ∨
    (¬ tgt <+: src ∧ Spec.domain src tgt = lcp src tgt) := by
  by_cases h : tgt <+: src
  · left
    refine ⟨h, ?_, lcp_of_prefix_right _ _ h⟩
    unfold Spec.domain
    split
    · rename_i he; rw [he]
    · simp
  · right
    refine ⟨h, ?_⟩
    unfold Spec.domain
    have : tgt ≠ src := fun e => h (by rw [e]; exact List.prefix_refl _)
    simp [this, h]

/-- **frame**: in a legal configuration with the source active, every exited and every entered state
    lies in the inclusive subtree of the least common ancestor of source and target -/
theorem frame_lca (root : SNode) (hwf : WF root) (c : List Path) (hL : Legal root c) (src tgt : Path)
    (hsrc : src ∈ c) (q : Path)
    (hq : q ∈ Spec.exitSet root c (Spec.domain src tgt) tgt ∨
          q ∈ enterStates root (pathToEnter (Spec.domain src tgt) tgt)) :
    lcp src tgt <+: q := by
  have hdp := domain_prefix_tgt src tgt
  rcases domain_cases src tgt with ⟨hts, hdom, hl⟩ | ⟨_, hdom⟩
  · rw [hl]
    by_cases hne : tgt = []
    · rw [hne]; exact List.nil_prefix
    · -- tgt = dom ++ [k0]
      have htl : tgt.length = (Spec.domain src tgt).length + 1 := by
        rw [hdom, List.length_dropLast]
        have : tgt.length ≠ 0 := by simpa using hne
        omega
      have hreg : regionOf (Spec.domain src tgt) tgt = tgt := by
        unfold regionOf; rw [← htl]; exact List.take_length
      rcases hq with hx | he
      · obtain ⟨hqc, hdq, hqne, hpar⟩ := mem_exitSet.1 hx
        have htc : tgt ∈ c := prefix_closed hL.parent_active hts hsrc
        have hdc : Spec.domain src tgt ∈ c := prefix_closed hL.parent_active hdp htc
        obtain ⟨nd, hnd, _⟩ := hL.states _ hdc
        obtain ⟨nt, hnt, _⟩ := hL.states _ htc
        obtain ⟨k0, hk0⟩ : ∃ k0, tgt = Spec.domain src tgt ++ [k0] :=
          ⟨tgt.getLast hne, by rw [hdom]; exact (List.dropLast_concat_getLast hne).symm⟩
        match nd, hnd with
        | .mk d kids, hnd =>
          have hkid : (SNode.mk d kids).at [k0] = some nt := by
            rw [← at_append root _ [k0] _ hnd, ← hk0]; exact hnt
          rcases kind_of_has_kid (wf_at hwf _ _ hnd) hkid with hk | hk
          · -- compound: one active child
            have hkids : kids ≠ [] := by
              intro h0; subst h0; simp [SNode.at, findKid] at hkid
            obtain ⟨k1, _, huniq⟩ := hL.compound_one _ hdc d kids hnd hk hkids
            obtain ⟨k, hkq⟩ := strict_prefix_snoc hdq (fun e => hqne e.symm)
            have hkc : (Spec.domain src tgt ++ [k]) ∈ c := prefix_closed hL.parent_active hkq hqc
            have e1 : k = k1 := huniq k hkc
            have e2 : k0 = k1 := huniq k0 (by rw [← hk0]; exact htc)
            rw [hk0, e2, ← e1]; exact hkq
          · -- parallel: the exit set is scoped to the target's region
            have := hpar ⟨by simp only [Spec.kindAt, hnd, Option.map_some]; exact congrArg some hk, by omega⟩
            rw [← hreg]; exact this
      · rw [← hreg]; exact (entered_below hdp he).1
  · rw [← hdom]
    rcases hq with hx | he
    · exact (exited_below hx).2.1
    · exact (entered_below hdp he).2.1

/-- **sibling regions**: when the domain is a parallel state, everything exited or entered lies in the
    region (child of the domain) that leads to the target -/
theorem frame_region (root : SNode) (c : List Path) (dom tgt : Path) (hd : dom <+: tgt) (hne : dom ≠ tgt)
    (hpar : Spec.kindAt root dom = some .parallel) (q : Path)
    (hq : q ∈ Spec.exitSet root c dom tgt ∨ q ∈ enterStates root (pathToEnter dom tgt)) :
    regionOf dom tgt <+: q := by
  rcases hq with hx | he
  · exact (mem_exitSet.1 hx).2.2.2 ⟨hpar, strict_prefix_length hd hne⟩
  · exact (entered_below hd he).1

theorem regionOf_snoc (dom tgt : Path) (hd : dom <+: tgt) (hne : dom ≠ tgt) :
    ∃ k, regionOf dom tgt = dom ++ [k] := by
  obtain ⟨k, t, hk⟩ : ∃ k t, tgt = dom ++ [k] ++ t := by
    obtain ⟨t, rfl⟩ := hd
    cases t with
    | nil => simp at hne
    | cons k t => exact ⟨k, t, by simp⟩
  refine ⟨k, ?_⟩
  unfold regionOf
  rw [hk, List.take_left' (by simp)]

-- accounting --------------------------------------------------------------------------------------------------------
/-- activity of state `q` in configuration `c`: 1 when active, 0 otherwise -/
def activity (c : List Path) (q : Path) : Int := if q ∈ c then 1 else 0

/-- the counting form of "`cfg' = (cfg \ X) ∪ E`": for every state, entries minus exits is the change in
    activity, provided nothing is exited that is not active, nothing is exited or entered twice, and
    nothing active is entered without being exited -/
theorem accounting_count (cfg cfg' X E : List Path)
    (hmem : ∀ q, q ∈ cfg' ↔ (q ∈ cfg ∧ q ∉ X) ∨ q ∈ E)
    (hX : ∀ q ∈ X, q ∈ cfg) (hXn : X.Nodup) (hEn : E.Nodup) (hnea : ∀ q ∈ E, q ∈ cfg → q ∈ X) (q : Path) :
    activity cfg' q - activity cfg q = (E.count q : Int) - (X.count q : Int) := by
  unfold activity
  rw [hXn.count, hEn.count]
  have hm := hmem q
  by_cases h1 : q ∈ cfg <;> by_cases h2 : q ∈ X <;> by_cases h3 : q ∈ E
  · have : q ∈ cfg' := hm.2 (Or.inr h3)
    simp [h1, h2, h3, this]
  · have : q ∉ cfg' := fun h => by rcases hm.1 h with ⟨_, h⟩ | h <;> contradiction
    simp [h1, h2, h3, this]
  · exact absurd (hnea q h3 h1) h2
  · have : q ∈ cfg' := hm.2 (Or.inl ⟨h1, h2⟩)
    simp [h1, h2, h3, this]
  · exact absurd (hX q h2) h1
  · exact absurd (hX q h2) h1
  · have : q ∈ cfg' := hm.2 (Or.inr h3)
    simp [h1, h2, h3, this]
  · have : q ∉ cfg' := fun h => by
      rcases hm.1 h with ⟨h, _⟩ | h <;> contradiction
    simp [h1, h2, h3, this]

theorem exitSet_nodup (root : SNode) (c : List Path) (dom tgt : Path) (h : c.Nodup) :
    (Spec.exitSet root c dom tgt).Nodup := by
  unfold Spec.exitSet
  simp only
  split
  · exact List.Pairwise.filter _ (List.Pairwise.filter _ h)
  · exact List.Pairwise.filter _ h

-- the configuration stays duplicate-free ---------------------------------------------------------------------------
theorem addActive_nodup (p : Path) (s : St) (h : s.cfg.Nodup) : (addActive p s).cfg.Nodup := by
  unfold addActive
  split
  · exact h
  · rename_i hc
    have hp : p ∉ s.cfg := by simpa using hc
    simp only
    refine List.nodup_append.2 ⟨h, by simp, ?_⟩
    intro a ha b hb
    simp only [List.mem_singleton] at hb
    subst hb
    intro e; subst e; exact hp ha
theorem delActive_nodup (p : Path) (s : St) (h : s.cfg.Nodup) : (delActive p s).cfg.Nodup :=
  List.Pairwise.filter _ h

theorem enterOne_nodup (h : Hooks) (hok : HooksOK h) (fl : Flavor) (m : Machine) (ev : Option String)
    (s : St) (e : Entry) (hn : s.cfg.Nodup) : (enterOne h fl m ev s e).cfg.Nodup := by
  unfold enterOne
  split
  · exact hn
  · cases hd : m.defAt e.path with
    | none => exact hn
    | some d =>
      simp only
      have hc := execActions_cfg h hok (entryEvName fl m e ev) d.entry (addActive e.path s)
      have hn' := addActive_nodup e.path s hn
      split
      · rw [hc]; exact hn'
      · split
        · rw [(checkDone_cfg_err h hok m e.path _).1, hc]; exact hn'
        · rw [hc]; exact hn'
theorem exitOne_nodup (h : Hooks) (hok : HooksOK h) (fl : Flavor) (m : Machine) (ev : Option String)
    (s : St) (p : Path) (hn : s.cfg.Nodup) : (exitOne h fl m ev s p).cfg.Nodup := by
  unfold exitOne
  split
  · exact hn
  · cases hd : m.defAt p with
    | none => exact hn
    | some d =>
      simp only
      refine delActive_nodup p _ ?_
      rw [execActions_cfg h hok]; exact hn

theorem foldl_inv {α : Type} (P : St → Prop) (f : St → α → St) (hf : ∀ s a, P s → P (f s a)) :
    ∀ (l : List α) (s : St), P s → P (l.foldl f s) := by
  intro l
  induction l with
  | nil => intro s hs; exact hs
  | cons a l ih => intro s hs; exact ih _ (hf s a hs)

/-- one transition keeps the configuration free of duplicates -/
theorem execute_nodup (h : Hooks) (hok : HooksOK h) (fl : Flavor) (m : Machine) (ev : Ev) (pl : Plan) (s : St)
    (hn : s.cfg.Nodup) : (execute h fl m ev pl s).cfg.Nodup := by
  rw [execute_cfg_eq]
  unfold executeCore
  split
  · split
    · rw [fail_cfg']; exact hn
    · rw [execActions_cfg h hok]; exact hn
  · simp only
    split
    · exact hn
    · unfold runPlan
      simp only
      have h2 : (pl.exits.foldl (exitOne h fl m (some ev.type)) (recordHistory m pl.exits s)).cfg.Nodup :=
        foldl_inv (fun s => s.cfg.Nodup) _ (fun s p hs => exitOne_nodup h hok fl m _ s p hs) _ _ hn
      generalize pl.exits.foldl (exitOne h fl m (some ev.type)) (recordHistory m pl.exits s) = s2 at h2 ⊢
      have h3 : (if s2.err.isSome = true then s2 else execActions h pl.actions ev.type s2).cfg.Nodup := by
        split
        · exact h2
        · rw [execActions_cfg h hok]; exact h2
      generalize (if s2.err.isSome = true then s2 else execActions h pl.actions ev.type s2) = s3 at h3 ⊢
      have h4 : (pl.entries.foldl (enterOne h fl m (some ev.type)) s3).cfg.Nodup :=
        foldl_inv (fun s => s.cfg.Nodup) _ (fun s e hs => enterOne_nodup h hok fl m _ s e hs) _ _ h3
      split
      · rw [fail_cfg']; exact h4
      · exact h4

-- the phases of a successful external transition ----------------------------------------------------------------------
theorem runPlan_eq_fold (h : Hooks) (fl : Flavor) (m : Machine) (ev : Ev) (pl : Plan) (s : St)
    (hp : pl.err = none) :
    runPlan h fl m ev pl s = pl.entries.foldl (enterOne h fl m (some ev.type)) (afterActions h fl m ev pl s) := by
  unfold runPlan afterActions afterExits
  simp only [hp]

/-- a successful external transition: no phase flagged an error, the transition's actions really ran
    after the exits, and the configuration between the phases is what it should be -/
theorem phases_ok (h : Hooks) (hok : HooksOK h) (fl : Flavor) (m : Machine) (ev : Ev) (pl : Plan) (s : St)
    (hint : pl.internal = false)
    (hvx : ∀ p ∈ pl.exits, (m.defAt p).isSome) (hve : ∀ e ∈ pl.entries, (m.defAt e.path).isSome)
    (hr : (execute h fl m ev pl s).err = none) :
    pl.err = none ∧ s.err = none ∧ (afterExits h fl m ev pl s).err = none ∧
    (afterActions h fl m ev pl s).err = none ∧
    afterActions h fl m ev pl s = execActions h pl.actions ev.type (afterExits h fl m ev pl s) ∧
    (pl.entries.foldl (enterOne h fl m (some ev.type)) (afterActions h fl m ev pl s)).err = none ∧
    (∀ q, q ∈ (afterExits h fl m ev pl s).cfg ↔ q ∈ s.cfg ∧ q ∉ pl.exits) ∧
    (∀ q, q ∈ (afterActions h fl m ev pl s).cfg ↔ q ∈ s.cfg ∧ q ∉ pl.exits) := by
  rw [execute_err_eq] at hr
  unfold executeCore at hr
  simp only [hint, Bool.false_eq_true, if_false] at hr
  have hrun : (runPlan h fl m ev pl s).err = none := by
    split at hr
    · rename_i hh; simp at hr; rw [hr] at hh; simp at hh
    · exact hr
  have hperr : pl.err = none := by
    cases hp : pl.err with
    | none => rfl
    | some e =>
      unfold runPlan at hrun
      simp only [hp] at hrun
      exact absurd hrun (fail_err_ne _ _)
  rw [runPlan_eq_fold h fl m ev pl s hperr] at hrun
  obtain ⟨h3none, _⟩ := enterFold_spec h hok fl m (some ev.type) pl.entries _ hve hrun
  have h2none : (afterExits h fl m ev pl s).err = none := by
    cases h2e : (afterExits h fl m ev pl s).err with
    | none => rfl
    | some e =>
      unfold afterActions at h3none
      simp [h2e] at h3none
  have hs3 : afterActions h fl m ev pl s = execActions h pl.actions ev.type (afterExits h fl m ev pl s) := by
    unfold afterActions; simp [h2none]
  obtain ⟨h0, x2⟩ := exitFold_spec h hok fl m (some ev.type) pl.exits (recordHistory m pl.exits s) hvx h2none
  have x2' : ∀ q, q ∈ (afterExits h fl m ev pl s).cfg ↔ q ∈ s.cfg ∧ q ∉ pl.exits := x2
  refine ⟨hperr, h0, h2none, h3none, hs3, hrun, x2', ?_⟩
  intro q
  rw [hs3, execActions_cfg h hok, x2' q]

/-- **never entered while active, dynamically**: in a successful external transition whose entry list
    has no duplicates and enters nothing active that it does not exit, every `enterOne` is applied in a
    state where the entered path is not in the configuration -/
theorem enter_fresh (h : Hooks) (hok : HooksOK h) (fl : Flavor) (m : Machine) (ev : Ev) (pl : Plan) (s : St)
    (hint : pl.internal = false)
    (hvx : ∀ p ∈ pl.exits, (m.defAt p).isSome) (hve : ∀ e ∈ pl.entries, (m.defAt e.path).isSome)
    (hr : (execute h fl m ev pl s).err = none)
    (hEn : (pl.entries.map (·.path)).Nodup)
    (hnea : ∀ e ∈ pl.entries, e.path ∈ s.cfg → e.path ∈ pl.exits)
    (l1 l2 : List Entry) (e : Entry) (hsplit : pl.entries = l1 ++ e :: l2) :
    e.path ∉ (l1.foldl (enterOne h fl m (some ev.type)) (afterActions h fl m ev pl s)).cfg := by
  obtain ⟨_, _, _, _, _, h4, _, c3⟩ := phases_ok h hok fl m ev pl s hint hvx hve hr
  rw [hsplit, List.foldl_append] at h4
  have hve2 : ∀ e' ∈ e :: l2, (m.defAt e'.path).isSome := fun e' he' => hve e' (by rw [hsplit]; simp [he'])
  have hve1 : ∀ e' ∈ l1, (m.defAt e'.path).isSome := fun e' he' => hve e' (by rw [hsplit]; simp [he'])
  obtain ⟨hmid, _⟩ := enterFold_spec h hok fl m (some ev.type) (e :: l2) _ hve2 h4
  obtain ⟨_, c4⟩ := enterFold_spec h hok fl m (some ev.type) l1 _ hve1 hmid
  intro hin
  rcases (c4 e.path).1 hin with h3 | h1
  · obtain ⟨hc, hx⟩ := (c3 e.path).1 h3
    exact hx (hnea e (by rw [hsplit]; simp) hc)
  · rw [hsplit] at hEn
    simp only [List.map_append, List.map_cons] at hEn
    have := (List.nodup_append.1 hEn).2.2 e.path h1 e.path (by simp)
    exact this rfl

-- whole transitions and whole events only prepend -----------------------------------------------------------------------
theorem Adds.of_chron {P : String → Prop} {s s' : St} {T : List String} (h : s'.chron = s.chron ++ T)
    (hP : ∀ r ∈ T, P r) : Adds P s s' := by
  refine ⟨T.reverse, ?_, fun r hr => hP r (List.mem_reverse.1 hr)⟩
  have := congrArg List.reverse h
  simpa [St.chron] using this

/-- a record written while a transition for event `evn` executes: an action record carrying `evn`, a
    contained-failure marker, or the observer record `#t:…` -/
def TransRec (evn : String) (r : String) : Prop := ActRec evn r ∨ ∃ x, r = "#t:" ++ x

theorem phases_event (h : Hooks) (htr : HooksTraceOK h) (fl : Flavor) (m : Machine) (ev : Ev) (pl : Plan) (s : St) :
    (∀ r ∈ exitPhase h fl m ev pl s, ActRec ev.type r) ∧ (∀ r ∈ actionPhase h fl m ev pl s, ActRec ev.type r) ∧
    (∀ r ∈ entryPhase h fl m ev pl s, ActRec ev.type r) :=
  ⟨exitsRecords_event h htr fl m ev.type _ _, actRecords_event h htr _ _ _, entriesRecords_event h htr fl m ev.type _ _⟩

theorem obsPart_rec (h : Hooks) (fl : Flavor) (m : Machine) (ev : Ev) (pl : Plan) (s : St) :
    ∀ r ∈ obsPart h fl m ev pl s, ∃ x, r = "#t:" ++ x := by
  unfold obsPart
  split
  · simp
  · intro r hr
    simp only [List.mem_singleton] at hr
    exact ⟨_, hr⟩

theorem execute_adds (h : Hooks) (htr : HooksTraceOK h) (fl : Flavor) (m : Machine) (ev : Ev) (pl : Plan) (s : St) :
    Adds (TransRec ev.type) s (execute h fl m ev pl s) := by
  cases hint : pl.internal with
  | true =>
    refine Adds.of_chron (by rw [execute_internal_chron h htr fl m ev pl s hint, List.append_assoc]) ?_
    intro r hr
    rcases List.mem_append.1 hr with hr | hr
    · left
      cases hp : pl.err with
      | some e => simp [hp] at hr
      | none => simp only [hp] at hr; exact actRecords_event h htr _ _ _ r hr
    · exact Or.inr (obsPart_rec h fl m ev pl s r hr)
  | false =>
    obtain ⟨p1, p2, p3⟩ := phases_event h htr fl m ev pl s
    refine Adds.of_chron (T := exitPhase h fl m ev pl s ++ (actionPhase h fl m ev pl s ++
        (entryPhase h fl m ev pl s ++ obsPart h fl m ev pl s))) (by
      rw [execute_external_chron h htr fl m ev pl s hint]
      simp only [List.append_assoc]) ?_
    intro r hr
    simp only [List.mem_append] at hr
    rcases hr with hr | hr | hr | hr
    · exact Or.inl (p1 r hr)
    · exact Or.inl (p2 r hr)
    · exact Or.inl (p3 r hr)
    · exact Or.inr (obsPart_rec h fl m ev pl s r hr)

theorem foldl_adds {α : Type} (P : String → Prop) (f : St → α → St) (hf : ∀ s a, Adds P s (f s a)) :
    ∀ (l : List α) (s : St), Adds P s (l.foldl f s) := by
  intro l
  induction l with
  | nil => intro s; exact Adds.refl _ _
  | cons a l ih => intro s; exact Adds.trans (hf s a) (ih _)

/-- a whole event: only prepends, and every record carries that event's name -/
theorem processEvent_adds (h : Hooks) (htr : HooksTraceOK h) (fl : Flavor) (m : Machine) (u : UEnv) (ev : Ev)
    (s : St) : Adds (TransRec ev.type) s (processEvent h fl m u ev s) := by
  unfold processEvent
  split
  · exact Adds.of_eq (fail_trace _ _)
  · rename_i sel _
    refine foldl_adds _ _ ?_ sel s
    intro s c
    split
    · exact Adds.refl _ _
    · split
      · exact Adds.refl _ _
      · split
        · exact Adds.refl _ _
        · exact execute_adds h htr fl m ev _ s

/-- every plan's exit list is deepest-first: whatever the transition (history targets included) -/
theorem planTransition_exits_sorted (m : Machine) (cfg : List Path) (hist : List (Path × List Path)) (c : Cand) :
    (planTransition m cfg hist c).exits = [] ∨ ∃ xs, (planTransition m cfg hist c).exits = sortExit m xs := by
  unfold planTransition
  simp only
  split
  · exact Or.inl rfl
  · split
    · exact Or.inl rfl
    · split
      · exact Or.inl rfl
      · split
        · exact Or.inl rfl
        · split
          · exact Or.inr ⟨_, rfl⟩
          · exact Or.inr ⟨_, rfl⟩

-- plain-target transitions: plan-level corollaries ------------------------------------------------------------------------
section plain
variable (m : Machine) (cfg : List Path) (hist : List (Path × List Path)) (c : Cand) (tgt : Path)

theorem plain_exits_active (hwf : WF m.root) (hi : InitOK m.root) (hp : PlainTarget m c tgt) :
    ∀ p ∈ (planTransition m cfg hist c).exits, p ∈ cfg := by
  intro p hpm
  rw [(plain_plan m cfg hist c tgt hwf hi hp).2.2.2.1, mem_sortExit] at hpm
  exact (exited_below hpm).1

theorem plain_exits_nodup (hwf : WF m.root) (hi : InitOK m.root) (hp : PlainTarget m c tgt) (hn : cfg.Nodup) :
    (planTransition m cfg hist c).exits.Nodup := by
  rw [(plain_plan m cfg hist c tgt hwf hi hp).2.2.2.1]
  exact sortExit_nodup m _ (exitSet_nodup _ _ _ _ hn)

theorem plain_entries_order (hwf : WF m.root) (hi : InitOK m.root) (hp : PlainTarget m c tgt) :
    NoLaterPrefix ((planTransition m cfg hist c).entries.map (·.path)) := by
  rw [(plain_plan m cfg hist c tgt hwf hi hp).2.2.2.2]
  exact enterStates_chain_parents_first m.root hwf _ _ (domain_prefix_tgt c.src tgt)

theorem plain_never_enter_active (hwf : WF m.root) (hi : InitOK m.root) (hp : PlainTarget m c tgt) :
    ∀ e ∈ (planTransition m cfg hist c).entries, e.path ∈ cfg → e.path ∈ (planTransition m cfg hist c).exits := by
  intro e he hc
  obtain ⟨_, _, _, hx, hE⟩ := plain_plan m cfg hist c tgt hwf hi hp
  rw [hx, mem_sortExit]
  refine entered_active_is_exited (domain_prefix_tgt c.src tgt) ?_ hc
  rw [← hE]; exact List.mem_map_of_mem he

theorem plain_valid (hwf : WF m.root) (hi : InitOK m.root) (hp : PlainTarget m c tgt)
    (hst : ∀ q ∈ cfg, ∃ n, m.root.at q = some n) :
    (∀ p ∈ (planTransition m cfg hist c).exits, (m.defAt p).isSome) ∧
    (∀ e ∈ (planTransition m cfg hist c).entries, (m.defAt e.path).isSome) := by
  obtain ⟨_, _, _, _, hE⟩ := plain_plan m cfg hist c tgt hwf hi hp
  constructor
  · intro p hpm
    obtain ⟨n, hn⟩ := hst p (plain_exits_active m cfg hist c tgt hwf hi hp p hpm)
    exact defAt_isSome_of_at hn
  · intro e he
    have : e.path ∈ enterStates m.root (pathToEnter (Spec.domain c.src tgt) tgt) := by
      rw [← hE]; exact List.mem_map_of_mem he
    obtain ⟨n, hn⟩ := enterStates_at m.root hwf _ (plain_chain_valid m c tgt hp) e.path this
    exact defAt_isSome_of_at hn

theorem plain_frame (hwf : WF m.root) (hi : InitOK m.root) (hp : PlainTarget m c tgt)
    (hL : Legal m.root cfg) (hsrc : c.src ∈ cfg) (q : Path)
    (hq : q ∈ (planTransition m cfg hist c).exits ∨ q ∈ (planTransition m cfg hist c).entries.map (·.path)) :
    lcp c.src tgt <+: q := by
  obtain ⟨_, _, _, hx, hE⟩ := plain_plan m cfg hist c tgt hwf hi hp
  rw [hx, hE, mem_sortExit] at hq
  exact frame_lca m.root hwf cfg hL c.src tgt hsrc q hq

theorem plain_region (hwf : WF m.root) (hi : InitOK m.root) (hp : PlainTarget m c tgt)
    (hpar : m.kindAt (Spec.domain c.src tgt) = some .parallel) (q : Path)
    (hq : q ∈ (planTransition m cfg hist c).exits ∨ q ∈ (planTransition m cfg hist c).entries.map (·.path)) :
    regionOf (Spec.domain c.src tgt) tgt <+: q := by
  obtain ⟨_, _, _, hx, hE⟩ := plain_plan m cfg hist c tgt hwf hi hp
  rw [hx, hE, mem_sortExit] at hq
  exact frame_region m.root cfg _ tgt (domain_prefix_tgt c.src tgt) (domain_ne_tgt c.src tgt hp.nonroot) hpar q hq
end plain

/-- **accounting for one plain-target transition that completed** -/
theorem plain_accounting (h : Hooks) (hok : HooksOK h) (fl : Flavor) (m : Machine) (ev : Ev) (c : Cand) (s : St)
    (tgt : Path) (hwf : WF m.root) (hi : InitOK m.root) (hp : PlainTarget m c tgt)
    (hst : ∀ q ∈ s.cfg, ∃ n, m.root.at q = some n) (hn : s.cfg.Nodup)
    (hr : (execute h fl m ev (planTransition m s.cfg s.hist c) s).err = none) (q : Path) :
    activity (execute h fl m ev (planTransition m s.cfg s.hist c) s).cfg q - activity s.cfg q =
      (((planTransition m s.cfg s.hist c).entries.map (·.path)).count q : Int) -
        ((planTransition m s.cfg s.hist c).exits.count q : Int) := by
  obtain ⟨hvx, hve⟩ := plain_valid m s.cfg s.hist c tgt hwf hi hp hst
  obtain ⟨_, hmem⟩ := execute_cfg h hok fl m ev _ s (plain_plan m s.cfg s.hist c tgt hwf hi hp).1 hvx hve hr
  refine accounting_count s.cfg _ _ _ hmem (plain_exits_active m s.cfg s.hist c tgt hwf hi hp)
    (plain_exits_nodup m s.cfg s.hist c tgt hwf hi hp hn)
    (plain_entries_order m s.cfg s.hist c tgt hwf hi hp).nodup ?_ q
  intro q' hq' hc
  obtain ⟨e, he, rfl⟩ := List.mem_map.1 hq'
  exact plain_never_enter_active m s.cfg s.hist c tgt hwf hi hp e he hc

/-- **frame on the configuration**: whatever the outcome of a plain-target transition (completed or
    rolled back), a state outside the subtree of the least common ancestor of source and target is
    neither exited nor entered, and its activity is unchanged -/
theorem plain_untouched (h : Hooks) (hok : HooksOK h) (fl : Flavor) (m : Machine) (ev : Ev) (c : Cand) (s : St)
    (tgt : Path) (hwf : WF m.root) (hi : InitOK m.root) (hp : PlainTarget m c tgt)
    (hL : Legal m.root s.cfg) (hsrc : c.src ∈ s.cfg) (q : Path) (hq : ¬ lcp c.src tgt <+: q) :
    q ∉ (planTransition m s.cfg s.hist c).exits ∧
    q ∉ (planTransition m s.cfg s.hist c).entries.map (·.path) ∧
    (q ∈ (execute h fl m ev (planTransition m s.cfg s.hist c) s).cfg ↔ q ∈ s.cfg) := by
  have hfr := plain_frame m s.cfg s.hist c tgt hwf hi hp hL hsrc q
  have h1 : q ∉ (planTransition m s.cfg s.hist c).exits := fun hx => hq (hfr (Or.inl hx))
  have h2 : q ∉ (planTransition m s.cfg s.hist c).entries.map (·.path) := fun hx => hq (hfr (Or.inr hx))
  refine ⟨h1, h2, ?_⟩
  have hint := (plain_plan m s.cfg s.hist c tgt hwf hi hp).1
  cases herr : (execute h fl m ev (planTransition m s.cfg s.hist c) s).err with
  | some e => rw [execute_rollback h fl m ev _ s hint (by rw [herr]; simp)]
  | none =>
    have hst : ∀ q ∈ s.cfg, ∃ n, m.root.at q = some n := fun q hq => by
      obtain ⟨n, hn, _⟩ := hL.states q hq; exact ⟨n, hn⟩
    obtain ⟨hvx, hve⟩ := plain_valid m s.cfg s.hist c tgt hwf hi hp hst
    obtain ⟨_, hmem⟩ := execute_cfg h hok fl m ev _ s hint hvx hve herr
    rw [hmem q]
    constructor
    · rintro (⟨hc, _⟩ | hE)
      · exact hc
      · exact absurd hE h2
    · intro hc; exact Or.inl ⟨hc, h1⟩

-- a whole event ------------------------------------------------------------------------------------------------------------
/-- one step of `processEvent`'s fold (`multi`: several transitions were selected, so stale ones are skipped) -/
def stepEv (h : Hooks) (fl : Flavor) (m : Machine) (ev : Ev) (multi : Bool) (s : St) (c : Cand) : St :=
  if s.err.isSome then s
  else if finished s.status then s
  else if multi && !(s.cfg.contains c.src) then s
  else execute h fl m ev (planTransition m s.cfg s.hist c) s

theorem processEvent_eq_fold (h : Hooks) (fl : Flavor) (m : Machine) (u : UEnv) (ev : Ev) (s : St) (sel : List Cand)
    (hs : selectTransitions m s.cfg (u.genv s.ctx ev.type) ev = .ok sel) :
    processEvent h fl m u ev s = sel.foldl (stepEv h fl m ev (decide (sel.length > 1))) s := by
  unfold processEvent
  rw [hs]
  rfl

/-- over the transitions an event really fires, from state `s`: (times `q` is in an entry list) minus
    (times it is in an exit list) -/
def evNet (h : Hooks) (fl : Flavor) (m : Machine) (ev : Ev) (multi : Bool) : List Cand → St → Path → Int
  | [], _, _ => 0
  | c :: cs, s, q =>
    if s.err.isSome then 0
    -- the machine has completed: the remaining selected transitions do not fire (`break`)
    else if finished s.status then 0
    else if multi && !(s.cfg.contains c.src) then evNet h fl m ev multi cs s q
    else
      (((planTransition m s.cfg s.hist c).entries.map (·.path)).count q : Int)
        - ((planTransition m s.cfg s.hist c).exits.count q : Int)
        + evNet h fl m ev multi cs (execute h fl m ev (planTransition m s.cfg s.hist c) s) q

theorem stepEv_sticky (h : Hooks) (fl : Flavor) (m : Machine) (ev : Ev) (multi : Bool) (s : St) (c : Cand)
    (he : s.err.isSome = true) : stepEv h fl m ev multi s c = s := by
  unfold stepEv; simp [he]

/-- a candidate that is target-less, internal, or plain -/
theorem candPlain_cases (m : Machine) (cfg : List Path) (hist : List (Path × List Path)) (c : Cand) (hc : CandPlain m c) :
    planTransition m cfg hist c = { actions := c.t.actions, internal := true } ∨ ∃ tgt, PlainTarget m c tgt := by
  rcases hc with hn | he | ⟨tstr, tgt, nt, ht, hne, hres, htgt, hnh, htne⟩
  · left; unfold planTransition; simp only [hn]
  · left; unfold planTransition; simp only [he, if_true]
  · by_cases hself : tgt = c.src ∧ c.t.reenter = false
    · left
      unfold planTransition
      simp only [ht, hne, if_false, hres, hself.1, hself.2, Bool.not_false, Bool.and_true,
        decide_true, if_true]
    · right
      exact ⟨tgt, ⟨⟨tstr, ht, hne, hres⟩, hself, ⟨nt, htgt, hnh⟩, htne⟩⟩

/-- accounting for one transition of any `CandPlain` candidate that completed -/
theorem cand_accounting (h : Hooks) (hok : HooksOK h) (fl : Flavor) (m : Machine) (ev : Ev) (c : Cand) (s : St)
    (hwf : WF m.root) (hi : InitOK m.root) (hc : CandPlain m c)
    (hst : ∀ q ∈ s.cfg, ∃ n, m.root.at q = some n) (hn : s.cfg.Nodup)
    (hr : (execute h fl m ev (planTransition m s.cfg s.hist c) s).err = none) (q : Path) :
    activity (execute h fl m ev (planTransition m s.cfg s.hist c) s).cfg q - activity s.cfg q =
      (((planTransition m s.cfg s.hist c).entries.map (·.path)).count q : Int) -
        ((planTransition m s.cfg s.hist c).exits.count q : Int) := by
  rcases candPlain_cases m s.cfg s.hist c hc with hint | ⟨tgt, hp⟩
  · rw [hint, execute_internal_cfg h hok fl m ev _ s rfl]
    simp
  · exact plain_accounting h hok fl m ev c s tgt hwf hi hp hst hn hr q

theorem event_accounting_fold (h : Hooks) (hok : HooksOK h) (fl : Flavor) (m : Machine) (ev : Ev)
    (hwf : WF m.root) (hi : InitOK m.root) (multi : Bool) (q : Path) :
    ∀ (cs : List Cand) (s' : St), Legal m.root s'.cfg → s'.cfg.Nodup →
      (∀ c ∈ cs, CandPlain m c) →
      (∀ c ∈ cs, multi = false → c.src ∈ s'.cfg) →
      (multi = false → cs.length ≤ 1) →
      (cs.foldl (stepEv h fl m ev multi) s').err = none →
      activity (cs.foldl (stepEv h fl m ev multi) s').cfg q - activity s'.cfg q = evNet h fl m ev multi cs s' q := by
  intro cs
  induction cs with
  | nil => intro s' _ _ _ _ _ _; simp [evNet]
  | cons c cs ih =>
    intro s' hl hn hok' hsrc hlen hre
    rw [List.foldl_cons] at hre ⊢
    have hs'err : s'.err = none := by
      cases hx : s'.err with
      | none => rfl
      | some e =>
        have hsome : s'.err.isSome = true := by simp [hx]
        rw [stepEv_sticky h fl m ev multi s' c hsome,
          foldl_sticky _ (fun s a he => stepEv_sticky h fl m ev multi s a he) cs s' hsome, hx] at hre
        exact absurd hre (by simp)
    have htail : multi = false → cs = [] := by
      intro hm
      have := hlen hm
      cases cs with
      | nil => rfl
      | cons _ _ => simp at this
    by_cases hfin : finished s'.status = true
    · have hstep : ∀ c, stepEv h fl m ev multi s' c = s' := by
        intro c; unfold stepEv; simp only [hfin, if_true]; split <;> rfl
      have hfold : ∀ (l : List Cand), l.foldl (stepEv h fl m ev multi) s' = s' := by
        intro l
        induction l with
        | nil => rfl
        | cons a l ihl => rw [List.foldl_cons, hstep a]; exact ihl
      rw [hstep c, hfold cs]
      simp only [evNet, hs'err, Option.isSome_none, Bool.false_eq_true, if_false, hfin, if_true]
      omega
    by_cases hstale : (multi && !(s'.cfg.contains c.src)) = true
    · have hfc : stepEv h fl m ev multi s' c = s' := by
        unfold stepEv; simp only [hs'err, Option.isSome_none, Bool.false_eq_true, if_false, hfin, hstale, if_true]
      have hm : multi = true := by
        cases multi <;> simp at hstale ⊢
      rw [hfc] at hre ⊢
      simp only [evNet, hs'err, Option.isSome_none, Bool.false_eq_true, if_false, hfin, hstale, if_true]
      exact ih s' hl hn (fun c' hc' => hok' c' (List.mem_cons_of_mem _ hc'))
        (fun c' _ hf' => by rw [hm] at hf'; exact absurd hf' (by simp))
        (fun hf' => by rw [hm] at hf'; exact absurd hf' (by simp)) hre
    · have hfc : stepEv h fl m ev multi s' c = execute h fl m ev (planTransition m s'.cfg s'.hist c) s' := by
        unfold stepEv; simp only [hs'err, Option.isSome_none, Bool.false_eq_true, if_false, hfin, hstale]
      have hmem : c.src ∈ s'.cfg := by
        cases hm : multi with
        | false => exact hsrc c (by simp) hm
        | true =>
          rw [hm] at hstale
          simpa using hstale
      rw [hfc] at hre ⊢
      have hexe : (execute h fl m ev (planTransition m s'.cfg s'.hist c) s').err = none := by
        cases hx : (execute h fl m ev (planTransition m s'.cfg s'.hist c) s').err with
        | none => rfl
        | some e =>
          have hsome : (execute h fl m ev (planTransition m s'.cfg s'.hist c) s').err.isSome = true := by
            simp [hx]
          rw [foldl_sticky _ (fun s a he => stepEv_sticky h fl m ev multi s a he) cs _ hsome, hx] at hre
          exact absurd hre (by simp)
      have hst : ∀ q ∈ s'.cfg, ∃ n, m.root.at q = some n := fun q hq => by
        obtain ⟨n, hn, _⟩ := hl.states q hq; exact ⟨n, hn⟩
      have hacc := cand_accounting h hok fl m ev c s' hwf hi (hok' c (by simp)) hst hn hexe q
      have hstep := legal_microstep h hok fl m ev c s' hwf hi hl (Or.inl (hok' c (by simp))) hmem
      have hnstep := execute_nodup h hok fl m ev (planTransition m s'.cfg s'.hist c) s' hn
      simp only [evNet, hs'err, Option.isSome_none, Bool.false_eq_true, if_false, hfin, hstale]
      have hrest := ih _ hstep hnstep (fun c' hc' => hok' c' (List.mem_cons_of_mem _ hc'))
        (fun c' hc' hm => by rw [htail hm] at hc'; simp at hc')
        (fun hm => by rw [htail hm]; simp) hre
      omega

/-- **accounting over a processed event**: if the event was processed without error, then for every
    state the change in activity is the number of times it was entered minus the number of times it was
    exited, summed over the transitions the event fired -/
theorem event_accounting (h : Hooks) (hok : HooksOK h) (fl : Flavor) (m : Machine) (u : UEnv) (ev : Ev)
    (hwf : WF m.root) (hi : InitOK m.root) (hsel : SelSoundPlain m) (s : St) (hl0 : Legal m.root s.cfg)
    (hn0 : s.cfg.Nodup) (sel : List Cand)
    (hs : selectTransitions m s.cfg (u.genv s.ctx ev.type) ev = .ok sel)
    (hr : (processEvent h fl m u ev s).err = none) (q : Path) :
    activity (processEvent h fl m u ev s).cfg q - activity s.cfg q =
      evNet h fl m ev (decide (sel.length > 1)) sel s q := by
  rw [processEvent_eq_fold h fl m u ev s sel hs] at hr ⊢
  have hall := hsel s.cfg (u.genv s.ctx ev.type) ev sel hl0 hs
  apply event_accounting_fold h hok fl m ev hwf hi _ q sel s hl0 hn0 (fun c hc => (hall c hc).1)
  · intro c hc _
    obtain ⟨q', hq', hp⟩ := (hall c hc).2
    exact src_active hl0 hq' hp
  · intro hm
    have := of_decide_eq_false hm
    omega
  · exact hr

end XSM
