import Xsm.Model.Lifecycle
import Xsm.Proofs.Faults
import Xsm.Proofs.Done
import Xsm.Proofs.Trace
/-
Helper lemmas for C14 (lifecycle) and C04 (run-to-completion, lossless ordered processing).
-/
namespace XSM
open XSM.Done

-- the status tests read from the source ---------------------------------------------------------------
/-- `SyncInterpreter.send/send_events`: `if self.status != "running": return` -/
theorem syncSendGate_spec (st : String) : refuses Tables.syncSendGate st = true ↔ st ≠ "running" := by
  simp [refuses, gateClause, Tables.syncSendGate]

/-- `Interpreter.send/send_events`: `if self.status in ("stopped", "done", "error"): return` -/
theorem asyncSendGate_spec (st : String) :
    refuses Tables.asyncSendGate st = true ↔ (st = "stopped" ∨ st = "done" ∨ st = "error") := by
  simp [refuses, gateClause, Tables.asyncSendGate]

/-- both `stop()`s: `if self.status in ("uninitialized", "stopped"): return` -/
theorem stopGate_spec (fl : Flavor) (st : String) :
    refuses (stopGate fl) st = true ↔ (st = "uninitialized" ∨ st = "stopped") := by
  cases fl <;> simp [stopGate, refuses, gateClause, Tables.syncStopGate, Tables.asyncStopGate]

/-- `_fail`: `if self.status not in ("running", "uninitialized"): return` -/
theorem failGate_spec (st : String) :
    refuses Tables.failGate st = true ↔ ¬ (st = "running" ∨ st = "uninitialized") := by
  simp [refuses, gateClause, Tables.failGate]


-- the loops, one iteration at a time ---------------------------------------------------------------------
theorem syncMacro_eq (m : Machine) (u : UEnv) (e : Ev) (s : St) : syncMacro m u e s = syncProcessed m u e s := rfl

theorem syncMacro_eq_drainMacro (m : Machine) (u : UEnv) (e : Ev) (s : St) : syncMacro m u e s = drainMacro m u e s := rfl

/-- `drainLoop` pops the HEAD of the queue (unless it is a marked event that trips the bound:
    `drainLoop_trip`), runs one macrostep on the rest, and goes on unless it failed -/
theorem drainLoop_cons (m : Machine) (u : UEnv) (fuel c : Nat) (s : St) (q : QEv) (rest : List QEv)
    (hq : s.queue = q :: rest) (hrun : s.status = "running") (ht : syncTrips m c q = false) :
    drainLoop m u (fuel + 1) c s =
      if (syncMacro m u q.ev { s with queue := rest }).err.isSome = true then syncMacro m u q.ev { s with queue := rest }
      else drainLoop m u fuel (chainedNext c q) (syncMacro m u q.ev { s with queue := rest }) :=
  drainLoop_step m u fuel c s q rest hq hrun ht

/-- the run loop: not running -> stop; empty queue -> stop; else pop the head and run `asyncStep` on the rest -/
theorem asyncDrain_cons (m : Machine) (u : UEnv) (fuel : Nat) (s : St) (q : QEv) (rest : List QEv)
    (hq : s.queue = q :: rest) (hrun : s.status = "running") :
    asyncDrain m u (fuel + 1) s = asyncDrain m u fuel (asyncStep m u q { s with queue := rest }) := by
  cases s with
  | mk cfg hist queue status trace err ctx rd errors =>
    simp only at hq hrun
    subst hq; subst hrun
    simp only [asyncDrain, ne_eq, not_true_eq_false, if_false]

theorem asyncDrain_nil (m : Machine) (u : UEnv) (fuel : Nat) (s : St) (hq : s.queue = []) :
    asyncDrain m u (fuel + 1) s = s := by
  cases s with
  | mk cfg hist queue status trace err ctx rd errors =>
    simp only at hq
    subst hq
    simp only [asyncDrain]
    split <;> rfl

-- status through the loops ------------------------------------------------------------------------------
theorem StatusStep.refl (a : String) : StatusStep a a := Or.inl rfl
theorem StatusStep.trans {a b c : String} (h1 : StatusStep a b) (h2 : StatusStep b c) : StatusStep a c := by
  unfold StatusStep at *
  rcases h1 with h1 | ⟨h1, h1'⟩
  · rw [h1] at h2; exact h2
  · rcases h2 with h2 | ⟨h2, _⟩
    · right; exact ⟨h1, by rw [h2, h1']⟩
    · rw [h1'] at h2; exact absurd h2 (by decide)

theorem syncMacro_status (m : Machine) (u : UEnv) (e : Ev) (s : St) :
    StatusStep s.status (syncMacro m u e s).status := syncProcessed_status m u e s

/-- the sync drain: status stays, or goes from "running" to "done" -/
theorem drainLoop_status (m : Machine) (u : UEnv) (fuel c : Nat) (s : St) :
    StatusStep s.status (drainLoop m u fuel c s).status := by
  apply drainLoop_ind m u (fun s' => StatusStep s.status s'.status)
  · intro s' q h; exact h
  · intro s' e h; exact StatusStep.trans h (syncProcessed_status m u e s')
  · exact Or.inl rfl

/-- the async run loop: the same, or the model's own marker `HANG` (fuel of the MODEL exhausted) -/
theorem asyncDrain_status (m : Machine) (u : UEnv) : ∀ (fuel : Nat) (s : St),
    StatusStep s.status (asyncDrain m u fuel s).status ∨ (asyncDrain m u fuel s).status = "HANG" := by
  intro fuel
  induction fuel with
  | zero =>
    intro s
    simp only [asyncDrain]
    split
    · exact Or.inl (Or.inl rfl)
    · exact Or.inr rfl
  | succ n ih =>
    intro s
    by_cases hrun : s.status = "running"
    · cases hq : s.queue with
      | nil => rw [asyncDrain_nil m u n s hq]; exact Or.inl (Or.inl rfl)
      | cons q rest =>
        rw [asyncDrain_cons m u n s q rest hq hrun]
        have h1 : StatusStep s.status (asyncStep m u q { s with queue := rest }).status :=
          asyncStep_status m u q { s with queue := rest }
        rcases ih (asyncStep m u q { s with queue := rest }) with h2 | h2
        · exact Or.inl (StatusStep.trans h1 h2)
        · exact Or.inr h2
    · rw [asyncDrain_not_running m u (n + 1) hrun]; exact Or.inl (Or.inl rfl)

theorem enterFold_status (h : Hooks) (hh : HooksRel statusRel h) (fl : Flavor) (m : Machine) (ev : Option String)
    (es : List Entry) (s : St) : StatusStep s.status (es.foldl (enterOne h fl m ev) s).status :=
  foldl_rel statusRel_eng.toActRel _ (enterOne_rel statusRel_eng h hh fl m ev) es s

theorem hooksAsyncStart_status (u : UEnv) (m : Machine) : HooksRel statusRel (hooksAsyncStart u m) :=
  ⟨_root_.XSM.enqueueQ_status false, _root_.XSM.enqueueQ_status false⟩


-- `start()` ----------------------------------------------------------------------------------------------
/-- the state after the initial entry (`_enter_states([machine])`), before settling -/
def syncEntered (m : Machine) (u : UEnv) (s : St) : St :=
  let s1 := (startEntries m).1.foldl (enterOne (hooksFlagged u m) .sync m none) { s with status := "running", ctx := m.ctx0 }
  match (startEntries m).2 with | some err => s1.fail err | none => s1
def asyncEntered (m : Machine) (u : UEnv) (s : St) : St :=
  let s1 := (startEntries m).1.foldl (enterOne (hooksAsyncStart u m) .async m (some "___xstate_statemachine_init___"))
    { s with status := "running", ctx := m.ctx0 }
  match (startEntries m).2 with | some err => s1.fail err | none => s1

theorem syncStart_eq (m : Machine) (u : UEnv) (s : St) :
    syncStart m u s =
      if (syncEntered m u s).err.isSome = true then syncEntered m u s
      else if (transientLoop (hooksFlagged u m) .sync m u m.maxIterations (syncEntered m u s)).err.isSome = true then
        transientLoop (hooksFlagged u m) .sync m u m.maxIterations (syncEntered m u s)
      else drainFlagged m u (transientLoop (hooksFlagged u m) .sync m u m.maxIterations (syncEntered m u s)) := rfl

theorem asyncStart_eq (m : Machine) (u : UEnv) (s : St) :
    asyncStart m u s =
      if (asyncEntered m u s).err.isSome = true then { asyncEntered m u s with status := "stopped" }
      else if (transientLoop (hooksAsyncStart u m) .async m u m.maxIterations (asyncEntered m u s)).err.isSome = true then
        { transientLoop (hooksAsyncStart u m) .async m u m.maxIterations (asyncEntered m u s) with status := "stopped" }
      else asyncDrain m u (asyncFuel m) (transientLoop (hooksAsyncStart u m) .async m u m.maxIterations (asyncEntered m u s)) :=
  asyncStart_phases m u s

theorem syncEntered_status (m : Machine) (u : UEnv) (s : St) : StatusStep "running" (syncEntered m u s).status := by
  unfold syncEntered
  have h := enterFold_status (hooksFlagged u m) (hooksFlagged_status u m) .sync m none (startEntries m).1
    { s with status := "running", ctx := m.ctx0 }
  simp only
  split
  · rw [fail_status]; exact h
  · exact h

theorem asyncEntered_status (m : Machine) (u : UEnv) (s : St) : StatusStep "running" (asyncEntered m u s).status := by
  unfold asyncEntered
  have h := enterFold_status (hooksAsyncStart u m) (hooksAsyncStart_status u m) .async m
    (some "___xstate_statemachine_init___") (startEntries m).1 { s with status := "running", ctx := m.ctx0 }
  simp only
  split
  · rw [fail_status]; exact h
  · exact h

/-- sync `start()` of an uninitialized interpreter leaves it running, or done (a top-level final state was
    reached at once) -/
theorem syncStart_status (m : Machine) (u : UEnv) (s : St) : StatusStep "running" (syncStart m u s).status := by
  rw [syncStart_eq]
  have h1 := syncEntered_status m u s
  have h2 : StatusStep "running" (transientLoop (hooksFlagged u m) .sync m u m.maxIterations (syncEntered m u s)).status :=
    StatusStep.trans h1 (transientLoop_rel statusRel_eng (hooksFlagged u m) (hooksFlagged_status u m) .sync m u _ _)
  split
  · exact h1
  · split
    · exact h2
    · exact StatusStep.trans h2 (drainLoop_status m u _ _ _)

/-- async `start()`: running, done, "stopped" (the start failed and raised), or the model's `HANG` -/
theorem asyncStart_status (m : Machine) (u : UEnv) (s : St) :
    StatusStep "running" (asyncStart m u s).status ∨ (asyncStart m u s).status = "stopped" ∨
      (asyncStart m u s).status = "HANG" := by
  rw [asyncStart_eq]
  have h1 := asyncEntered_status m u s
  have h2 : StatusStep "running" (transientLoop (hooksAsyncStart u m) .async m u m.maxIterations (asyncEntered m u s)).status :=
    StatusStep.trans h1 (transientLoop_rel statusRel_eng (hooksAsyncStart u m) (hooksAsyncStart_status u m) .async m u _ _)
  split
  · exact Or.inr (Or.inl rfl)
  · split
    · exact Or.inr (Or.inl rfl)
    · rcases asyncDrain_status m u (asyncFuel m) _ with h | h
      · exact Or.inl (StatusStep.trans h2 h)
      · exact Or.inr (Or.inr h)


-- the status automaton ------------------------------------------------------------------------------------
/-- one edge of the property's automaton: uninitialized → running → (done | error) → stopped, running → stopped -/
def Edge (a b : String) : Prop :=
  (a = "uninitialized" ∧ b = "running") ∨ (a = "running" ∧ (b = "done" ∨ b = "error" ∨ b = "stopped")) ∨
  ((a = "done" ∨ a = "error") ∧ b = "stopped")

/-- `b` is reachable from `a` along edges of the automaton (written out: zero or more edges) -/
def Reach (a b : String) : Prop :=
  b = a ∨ (a = "uninitialized" ∧ (b = "running" ∨ b = "done" ∨ b = "error" ∨ b = "stopped")) ∨
  (a = "running" ∧ (b = "done" ∨ b = "error" ∨ b = "stopped")) ∨ ((a = "done" ∨ a = "error") ∧ b = "stopped")

theorem Reach.refl (a : String) : Reach a a := Or.inl rfl
theorem Reach.of_edge {a b : String} (h : Edge a b) : Reach a b := by
  rcases h with ⟨h1, h2⟩ | ⟨h1, h2⟩ | ⟨h1, h2⟩
  · exact Or.inr (Or.inl ⟨h1, Or.inl h2⟩)
  · exact Or.inr (Or.inr (Or.inl ⟨h1, h2⟩))
  · exact Or.inr (Or.inr (Or.inr ⟨h1, h2⟩))
/-- `Reach` is exactly "a path of edges": closed under appending an edge … -/
theorem Reach.step {a b c : String} (h1 : Reach a b) (h2 : Edge b c) : Reach a c := by
  unfold Reach Edge at *
  rcases h2 with ⟨hb, hc⟩ | ⟨hb, hc⟩ | ⟨hb, hc⟩
  · subst hb; subst hc
    rcases h1 with h | ⟨_, h⟩ | ⟨_, h⟩ | ⟨_, h⟩
    · rw [← h]; simp
    all_goals exact absurd h (by decide)
  · subst hb
    rcases h1 with h | ⟨ha, h⟩ | ⟨_, h⟩ | ⟨_, h⟩
    · rw [← h]; right; right; left; exact ⟨rfl, hc⟩
    · right; left; refine ⟨ha, ?_⟩; rcases hc with hc | hc | hc <;> simp [hc]
    all_goals exact absurd h (by decide)
  · subst hc
    rcases h1 with h | ⟨ha, _⟩ | ⟨ha, _⟩ | ⟨_, h⟩
    · rw [h] at hb; right; right; right; exact ⟨hb, rfl⟩
    · right; left; exact ⟨ha, by simp⟩
    · right; right; left; exact ⟨ha, by simp⟩
    · exact Or.inr (Or.inr (Or.inr ⟨by rcases hb with hb | hb <;> simp [hb, h] at *, rfl⟩))

/-- … hence transitive -/
theorem Reach.trans {a b c : String} (h1 : Reach a b) (h2 : Reach b c) : Reach a c := by
  rcases h2 with h | ⟨hb, h⟩ | ⟨hb, h⟩ | ⟨hb, h⟩
  · rw [h]; exact h1
  · have e1 : Edge b "running" := Or.inl ⟨hb, rfl⟩
    rcases h with h | h | h | h
    · rw [h]; exact h1.step e1
    · rw [h]; exact (h1.step e1).step (Or.inr (Or.inl ⟨rfl, Or.inl rfl⟩))
    · rw [h]; exact (h1.step e1).step (Or.inr (Or.inl ⟨rfl, Or.inr (Or.inl rfl)⟩))
    · rw [h]; exact (h1.step e1).step (Or.inr (Or.inl ⟨rfl, Or.inr (Or.inr rfl)⟩))
  · exact h1.step (Or.inr (Or.inl ⟨hb, h⟩))
  · exact h1.step (Or.inr (Or.inr ⟨hb, h⟩))

/-- the five statuses of the library -/
def Known5 (st : String) : Prop :=
  st = "uninitialized" ∨ st = "running" ∨ st = "done" ∨ st = "error" ∨ st = "stopped"

theorem Reach.known {a b : String} (h : Reach a b) (ha : Known5 a) : Known5 b := by
  unfold Known5
  rcases h with h | ⟨_, h⟩ | ⟨_, h⟩ | ⟨_, h⟩
  · rw [h]; exact ha
  · rcases h with h | h | h | h <;> simp [h]
  · rcases h with h | h | h <;> simp [h]
  · simp [h]

theorem Reach.of_statusStep {a b : String} (h : StatusStep a b) : Reach a b := by
  rcases h with h | ⟨h1, h2⟩
  · exact Or.inl h
  · exact Or.inr (Or.inr (Or.inl ⟨h1, Or.inl h2⟩))

end XSM
