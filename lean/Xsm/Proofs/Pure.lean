import Xsm.Model.Pure
import Xsm.Proofs.SnapshotRun
import Xsm.Proofs.Fifo
/-
The pure transition API (C05): helper lemmas for `Xsm/Properties/C05.lean`, section "the pure functions".

1. the probe's user environment `pureEnv u` depends on `u.a` only through WHICH names are registered
   (`pureEnv_congr`), and is `u` itself when every action is a registered no-op or an unregistered built-in
   (`pureEnv_of_quiet`);
2. re-sorting a remembered list that `_record_history` produced is the identity (`restoreHist_id`; no
   injectivity of ids needed: an insertion sort leaves a list alone whose every element is ≤ all later ones);
3. `Quiescent`: what every state between two calls of the sync engine satisfies when the previous call did
   not raise — empty queue, chain counter 0, status running/done, remembered lists in (depth, id) order —
   and `restorePure m (capture s) = obsReset s` on such a state that is running (`restore_capture`);
4. the chain: `pureChain` from `capture s` is `syncChain` from `s` (`pureChain_eq_syncChain`).
-/
namespace XSM
namespace Pure
open Snap XSM.Done

/-! ### 1. the probe's user environment -/

/-- two user environments register the same action names (at every context and event) -/
def SameRegistered (u1 u2 : UEnv) : Prop := ∀ n c e, u1.a n c e = .missing ↔ u2.a n c e = .missing

theorem pureAct_of_registered (u : UEnv) (n : String) (c : Ctx) (e : String) (h : u.a n c e ≠ .missing) :
    pureAct u n c e = .ok c := by
  unfold pureAct
  cases hh : u.a n c e with
  | missing => exact absurd hh h
  | ok c' => rfl
  | raises => rfl
  | isAsync c' => rfl

theorem pureAct_of_missing (u : UEnv) (n : String) (c : Ctx) (e : String) (h : u.a n c e = .missing) :
    pureAct u n c e = if (canonicalBuiltin n).isSome then .missing else .ok c := by
  unfold pureAct; rw [h]

/-- the only outcomes the probe ever sees: "recorded, context as it was" or "not a user action" -/
theorem pureAct_cases (u : UEnv) (n : String) (c : Ctx) (e : String) :
    pureAct u n c e = .ok c ∨
      (pureAct u n c e = .missing ∧ u.a n c e = .missing ∧ (canonicalBuiltin n).isSome = true) := by
  by_cases h : u.a n c e = .missing
  · rw [pureAct_of_missing u n c e h]
    by_cases hb : (canonicalBuiltin n).isSome = true
    · right; rw [if_pos hb]; exact ⟨rfl, h, hb⟩
    · left; rw [if_neg hb]
  · left; exact pureAct_of_registered u n c e h

theorem pureAct_congr {u1 u2 : UEnv} (h : SameRegistered u1 u2) : pureAct u1 = pureAct u2 := by
  funext n c e
  by_cases h1 : u1.a n c e = .missing
  · rw [pureAct_of_missing u1 n c e h1, pureAct_of_missing u2 n c e ((h n c e).1 h1)]
  · rw [pureAct_of_registered u1 n c e h1, pureAct_of_registered u2 n c e (fun h2 => h1 ((h n c e).2 h2))]

theorem pureEnv_congr {u1 u2 : UEnv} (hg : u1.g = u2.g) (h : SameRegistered u1 u2) : pureEnv u1 = pureEnv u2 := by
  unfold pureEnv; rw [hg, pureAct_congr h]

/-- the API's own premise: context changes only through `assign` — every action is either a registered
    function that returns normally and leaves the context alone, or a built-in the user did not override -/
def ActsQuiet (u : UEnv) : Prop :=
  ∀ n c e, u.a n c e = .ok c ∨ (u.a n c e = .missing ∧ (canonicalBuiltin n).isSome = true)

theorem pureAct_of_quiet {u : UEnv} (h : ActsQuiet u) : pureAct u = u.a := by
  funext n c e
  rcases h n c e with h1 | ⟨h1, h2⟩
  · rw [pureAct_of_registered u n c e (by rw [h1]; exact fun hh => by cases hh), h1]
  · rw [pureAct_of_missing u n c e h1, if_pos h2, h1]

theorem pureEnv_of_quiet {u : UEnv} (h : ActsQuiet u) : pureEnv u = u := by
  unfold pureEnv; rw [pureAct_of_quiet h]

/-! ### 2. re-sorting a recorded list -/

theorem insertBy_head {α} (le : α → α → Bool) (x : α) (xs : List α) (h : ∀ y ∈ xs, le x y = true) :
    insertBy le x xs = x :: xs := by
  cases xs with
  | nil => rfl
  | cons y ys =>
    simp only [insertBy]
    rw [if_pos (h y (List.mem_cons_self ..))]

theorem sortBy_of_pairwise {α} (le : α → α → Bool) :
    ∀ xs : List α, xs.Pairwise (fun a b => le a b = true) → sortBy le xs = xs
  | [], _ => rfl
  | x :: xs, h => by
    have h' := List.pairwise_cons.1 h
    show insertBy le x (sortBy le xs) = x :: xs
    rw [sortBy_of_pairwise le xs h'.2, insertBy_head le x xs h'.1]

theorem sortDI_of_diSorted (m : Machine) (hist : List (Path × List Path)) (h : DISorted m hist)
    (kv : Path × List Path) (hkv : kv ∈ hist) : sortDI m kv.2 = kv.2 :=
  sortBy_of_pairwise (depthIdLeM m) kv.2 (h kv hkv)

/-- what `transition()` does to the remembered history of a snapshot whose lists are in recorded order -/
theorem restoreHist_id (m : Machine) (hist : List (Path × List Path)) (h : DISorted m hist) :
    hist.map (fun kv => (kv.1, sortDI m kv.2)) = hist := by
  conv => rhs; rw [← List.map_id hist]
  apply List.map_congr_left
  intro kv hkv
  rw [sortDI_of_diSorted m hist h kv hkv]
  rfl

/-! ### 3. the states between two calls -/

/-- a state of the sync engine between two calls, the previous call not having raised -/
structure Quiescent (m : Machine) (s : St) : Prop where
  queue : s.queue = []
  rd : s.raiseDepth = 0
  status : s.status = "running" ∨ s.status = "done"
  hist : DISorted m s.hist

theorem Quiescent.obsReset {m : Machine} {s : St} (h : Quiescent m s) : Quiescent m (obsReset s) :=
  ⟨h.queue, h.rd, h.status, h.hist⟩

theorem capture_obsReset (s : St) : capture (obsReset s) = capture s := rfl

/-- **restore ∘ capture** on a running quiescent state is the state itself with the observation cleared -/
theorem restore_capture (m : Machine) (s : St) (hq : Quiescent m s) (hrun : s.status = "running") :
    restorePure m (capture s) = obsReset s := by
  cases s with
  | mk cfg hist queue status trace err ctx rd errors =>
    have h1 := hq.queue; have h2 := hq.rd; have h3 := hq.hist
    simp only at h1 h2 h3 hrun
    subst h1; subst h2; subst hrun
    simp only [restorePure, capture, Snap.obsReset, restoreHist_id m hist h3]

/-- **capture ∘ restore** on an active snapshot whose lists are in recorded order -/
theorem capture_restore (m : Machine) (p : PureSnap) (hs : p.status = "active") (hd : DISorted m p.hist) :
    capture (restorePure m p) = p := by
  cases p with
  | mk cfg ctx status hist =>
    simp only at hs hd
    subst hs
    simp only [restorePure, capture, restoreHist_id m hist hd]
    rfl

-- the chain-breaker counter is an async affair: the sync engine never touches it
def rdRel (s s' : St) : Prop := s'.raiseDepth = s.raiseDepth
theorem rdRel_eng : EngRel rdRel where
  refl := fun _ => rfl
  trans := fun h1 h2 => Eq.trans h2 h1
  ctx := fun _ _ => rfl
  trace := fun _ _ => rfl
  err := fun _ _ => rfl
  expCut := fun _ _ => rfl
  cfg := fun _ _ => rfl
  hist := fun _ _ => rfl
  complete := by intro s; unfold complete rdRel; split <;> rfl

theorem enqueueQ_rd (b : Bool) (e : Ev) (s : St) : rdRel s (enqueueQ b e s) := by
  unfold enqueueQ rdRel; split <;> rfl
theorem hooksFlagged_rd (u : UEnv) (m : Machine) : HooksRel rdRel (hooksFlagged u m) :=
  ⟨enqueueQ_rd true, enqueueQ_rd true⟩

theorem syncMacro_rd (m : Machine) (u : UEnv) (e : Ev) (s : St) : (syncMacro m u e s).raiseDepth = s.raiseDepth := by
  have h1 := processEvent_rel rdRel_eng (hooksFlagged u m) (hooksFlagged_rd u m) .sync m u e
    (emit ("#recv:" ++ e.type) s)
  have h2 := transientLoop_rel rdRel_eng (hooksFlagged u m) (hooksFlagged_rd u m) .sync m u m.maxIterations
    (processEvent (hooksFlagged u m) .sync m u e (emit ("#recv:" ++ e.type) s))
  exact rdRel_eng.trans (a := emit ("#recv:" ++ e.type) s) h1 h2

theorem drainLoop_rd (m : Machine) (u : UEnv) (fuel c : Nat) (s : St) :
    (drainLoop m u fuel c s).raiseDepth = s.raiseDepth := by
  apply drainLoop_ind m u (fun s' => s'.raiseDepth = s.raiseDepth)
  · intro s' q h; exact h
  · intro s' e h; exact (syncMacro_rd m u e s').trans h
  · rfl

theorem syncSend_running (m : Machine) (u : UEnv) (e : Ev) (s : St) (hrun : s.status = "running") :
    syncSend m u e s = drainLoop m u (drainFuel m { s with queue := s.queue ++ [⟨e, false⟩] }) 0
      { s with queue := s.queue ++ [⟨e, false⟩] } := by
  unfold syncSend sndUnflagged drainFlagged
  rw [if_pos hrun]

/-- a call of the sync engine that does not raise ends in a quiescent state again -/
theorem syncSend_quiescent (m : Machine) (u : UEnv) (e : Ev) (s : St) (hq : Quiescent m s)
    (he : (syncSend m u e s).err = none) : Quiescent m (syncSend m u e s) := by
  by_cases hrun : s.status = "running"
  · have hh := syncSend_histQ (diSorted_recClosed m) u e s hq.hist
    rw [syncSend_running m u e s hrun] at he hh ⊢
    refine ⟨drainLoop_queue_nil m u _ _ _ he, ?_, ?_, hh⟩
    · rw [drainLoop_rd]; exact hq.rd
    · have h := drainLoop_status m u (drainFuel m { s with queue := s.queue ++ [⟨e, false⟩] }) 0
        { s with queue := s.queue ++ [⟨e, false⟩] }
      rcases h with h | ⟨_, h⟩
      · left; rw [h]; exact hrun
      · right; exact h
  · rw [syncSend_not_running m u e hrun]; exact hq

theorem syncEntered_rd (m : Machine) (u : UEnv) (s : St) : (syncEntered m u s).raiseDepth = s.raiseDepth := by
  unfold syncEntered
  have h : rdRel { s with status := "running", ctx := m.ctx0 }
      ((startEntries m).1.foldl (enterOne (hooksFlagged u m) .sync m none) { s with status := "running", ctx := m.ctx0 }) :=
    foldl_rel rdRel_eng.toActRel _ (enterOne_rel rdRel_eng (hooksFlagged u m) (hooksFlagged_rd u m) .sync m none) _ _
  simp only
  split
  · exact Eq.trans (rdRel_eng.toActRel.fail _ _) h
  · exact h

/-- `start()` that does not raise ends in a quiescent state -/
theorem syncStart_quiescent (m : Machine) (u : UEnv) (he : (syncStart m u {}).err = none) :
    Quiescent m (syncStart m u {}) := by
  have hst := syncStart_status m u {}
  have hh : DISorted m (syncStart m u {}).hist :=
    start_histQ (diSorted_recClosed m) .sync u {} (fun _ h => by cases h)
  have hrd1 : (transientLoop (hooksFlagged u m) .sync m u m.maxIterations (syncEntered m u {})).raiseDepth = 0 := by
    have := transientLoop_rel rdRel_eng (hooksFlagged u m) (hooksFlagged_rd u m) .sync m u m.maxIterations
      (syncEntered m u {})
    exact Eq.trans this (syncEntered_rd m u {})
  refine ⟨?_, ?_, ?_, hh⟩
  · rw [syncStart_eq] at he ⊢
    split
    · rename_i h1; rw [if_pos h1] at he; rw [he] at h1; exact absurd h1 (by simp)
    · rename_i h1
      rw [if_neg h1] at he
      split
      · rename_i h2; rw [if_pos h2] at he; rw [he] at h2; exact absurd h2 (by simp)
      · rename_i h2; rw [if_neg h2] at he
        exact drainLoop_queue_nil m u _ _ _ he
  · rw [syncStart_eq]
    split
    · exact syncEntered_rd m u {}
    · split
      · exact hrd1
      · unfold drainFlagged; rw [drainLoop_rd]; exact hrd1
  · rcases hst with h | ⟨_, h⟩
    · left; exact h
    · right; exact h

/-! ### 4. the chain -/

/-- the sync engine driven as the harness drives it (each `send` from a cleared observation: `cmdO`),
    observed through `capture` / `reported`; the chain ends at the first call that raises -/
def syncChain (m : Machine) (u : UEnv) : St → List Ev → List (Except EErr (PureSnap × List String))
  | _, [] => []
  | s, e :: es =>
    match observe (cmdO .sync m u s e) with
    | .ok r => .ok r :: syncChain m u (cmdO .sync m u s e) es
    | .error x => [.error x]

/-- the states the sync engine goes through: after each `send` -/
def syncStates (m : Machine) (u : UEnv) : St → List Ev → List St
  | _, [] => []
  | s, e :: es => cmdO .sync m u s e :: syncStates m u (cmdO .sync m u s e) es

theorem observe_ok {s : St} {r : PureSnap × List String} (h : observe s = .ok r) :
    s.err = none ∧ r = (capture s, reported s) := by
  unfold observe at h
  cases he : s.err with
  | none => rw [he] at h; simp only at h; exact ⟨rfl, (Except.ok.inj h).symm⟩
  | some x => rw [he] at h; simp only at h; cases h

theorem observe_of_ok {s : St} (h : s.err = none) : observe s = .ok (capture s, reported s) := by
  unfold observe; rw [h]

theorem cmdO_sync (m : Machine) (u : UEnv) (s : St) (e : Ev) : cmdO .sync m u s e = syncSend m u e (obsReset s) := rfl

/-- **one call**: `transition()` on the snapshot captured from a quiescent state of the sync engine returns
    what the engine's own `send` returns from that state -/
theorem pureTransition_capture (m : Machine) (u : UEnv) (hu : ActsQuiet u) (s : St) (hq : Quiescent m s) (e : Ev) :
    pureTransition m u (capture s) e = observe (cmdO .sync m u s e) := by
  rcases hq.status with hrun | hdone
  · have hact : (capture s).status = "active" := by
      unfold capture; simp only [hrun]; decide
    unfold pureTransition
    rw [if_pos hact, pureEnv_of_quiet hu, restore_capture m s hq hrun, cmdO_sync]
  · have hact : ¬ (capture s).status = "active" := by
      unfold capture; simp only [hdone]; decide
    have hnr : (obsReset s).status ≠ "running" := by
      show s.status ≠ "running"; rw [hdone]; decide
    unfold pureTransition
    rw [if_neg hact, cmdO_sync, syncSend_not_running m u e hnr]
    rfl

theorem pureChain_eq_syncChain (m : Machine) (u : UEnv) (hu : ActsQuiet u) :
    ∀ (evs : List Ev) (s : St), Quiescent m s → pureChain m u (capture s) evs = syncChain m u s evs
  | [], _, _ => rfl
  | e :: es, s, hq => by
    simp only [pureChain, syncChain, pureTransition_capture m u hu s hq e]
    cases hobs : observe (cmdO .sync m u s e) with
    | error x => rfl
    | ok r =>
      obtain ⟨herr, hr⟩ := observe_ok hobs
      have hq' : Quiescent m (cmdO .sync m u s e) := syncSend_quiescent m u e _ hq.obsReset herr
      simp only [hr]
      rw [pureChain_eq_syncChain m u hu es _ hq']

/-- when no call raises, the chain is the list of the engine's states, observed -/
theorem syncChain_of_ok (m : Machine) (u : UEnv) :
    ∀ (evs : List Ev) (s : St), (∀ x ∈ syncStates m u s evs, x.err = none) →
      syncChain m u s evs = (syncStates m u s evs).map (fun x => .ok (capture x, reported x))
  | [], _, _ => rfl
  | e :: es, s, h => by
    have h1 : (cmdO .sync m u s e).err = none := h _ (List.mem_cons_self ..)
    simp only [syncChain, syncStates, observe_of_ok h1, List.map_cons]
    rw [syncChain_of_ok m u es _ (fun x hx => h x (List.mem_cons_of_mem _ hx))]

end Pure
end XSM
