import Xsm.Model.SnapshotTree
/-!
Helper lemmas for the persisted actor trees (`Xsm/Model/SnapshotTree.lean`); statements in
`Xsm/Properties/C12.lean` §6.
-/
namespace XSM.SnapTree
variable {σ : Type}

-- dict helpers -------------------------------------------------------------------------------------------
theorem hasKey_nil {β : Type} (k : String) : hasKey k ([] : List (String × β)) = false := rfl

theorem hasKey_cons {β : Type} (k : String) (e : String × β) (l : List (String × β)) :
    hasKey k (e :: l) = (e.1 == k || hasKey k l) := by
  simp [hasKey]

theorem hasKey_false_iff {β : Type} (k : String) (l : List (String × β)) :
    hasKey k l = false ↔ ∀ e ∈ l, e.1 ≠ k := by
  simp [hasKey]

theorem hasKey_true_iff {β : Type} (k : String) (l : List (String × β)) :
    hasKey k l = true ↔ ∃ e ∈ l, e.1 = k := by
  simp [hasKey]

theorem mergeSys_nil_left (live : List (String × String)) : mergeSys [] live = live := by
  simp [mergeSys, hasKey]

theorem mergeSys_nil_right (pend : List (String × String)) : mergeSys pend [] = pend := by
  simp [mergeSys]

/-- no systemId is both pending and live: `{**pend, **live}` is the concatenation -/
theorem mergeSys_disjoint (pend live : List (String × String)) (h : ∀ e ∈ live, hasKey e.1 pend = false) :
    mergeSys pend live = pend ++ live := by
  unfold mergeSys
  congr 1
  · conv => rhs; rw [← List.map_id pend]
    apply List.map_congr_left
    intro e he
    have : live.find? (fun x => x.1 == e.1) = none := by
      rw [List.find?_eq_none]
      intro x hx hxe
      have := (hasKey_false_iff x.1 pend).1 (h x hx) e he
      have hxe' : x.1 = e.1 := by simpa using hxe
      exact this hxe'.symm
    simp [this]
  · rw [List.filter_eq_self]
    intro e he
    simp [h e he]

-- restore ∘ snap -----------------------------------------------------------------------------------------
theorem avail_some {svc : String → Bool} {k : String} (h : svc k = true) : avail svc (some k) = true := h

theorem recSrc_some {k : String} (h : k ≠ "") : recSrc (some k) = some k := by
  simp [recSrc, h]

theorem snapKids_ids (kids : List (LKid σ)) : (snapKids kids).map (·.1) = kids.map (·.1) := by
  induction kids with
  | nil => simp [snapKids]
  | cons k rest ih =>
    obtain ⟨id, src, c⟩ := k
    simp [snapKids, ih]

theorem hasKey_snapKids (k : String) (kids : List (LKid σ)) : hasKey k (snapKids kids) = hasKey k kids := by
  induction kids with
  | nil => simp [snapKids, hasKey]
  | cons x rest ih =>
    obtain ⟨id, src, c⟩ := x
    simp only [snapKids, hasKey_cons, ih]

theorem restoreKids_append (v : Variant) (svc : String → Bool) (a b : List (SRec σ)) :
    restoreKids v svc (a ++ b) = restoreKids v svc a ++ restoreKids v svc b := by
  induction a with
  | nil => simp [restoreKids]
  | cons r rest ih =>
    obtain ⟨id, src, s⟩ := r
    simp only [List.cons_append, restoreKids]
    split <;> simp [ih]

theorem restoreKids_unavail (v : Variant) (svc : String → Bool) (l : List (SRec σ))
    (h : ∀ r ∈ l, avail svc r.2.1 = false) : restoreKids v svc l = [] := by
  induction l with
  | nil => simp [restoreKids]
  | cons r rest ih =>
    obtain ⟨id, src, s⟩ := r
    have h1 : avail svc src = false := h (id, src, s) (List.mem_cons_self ..)
    simp only [restoreKids, h1]
    exact ih (fun r hr => h r (List.mem_cons_of_mem _ hr))

theorem parkedOf_append (svc : String → Bool) (a b : List (SRec σ)) :
    parkedOf svc (a ++ b) = parkedOf svc a ++ parkedOf svc b := by
  simp [parkedOf]

theorem parkedOf_unavail (svc : String → Bool) (l : List (SRec σ)) (h : ∀ r ∈ l, avail svc r.2.1 = false) :
    parkedOf svc l = l := by
  unfold parkedOf
  rw [List.filter_eq_self]
  intro r hr
  simp [h r hr]

theorem parkedOf_snapKids (svc : String → Bool) (kids : List (LKid σ)) (h : WFKids svc kids) :
    parkedOf svc (snapKids kids) = [] := by
  induction kids with
  | nil => simp [snapKids, parkedOf]
  | cons k rest ih =>
    obtain ⟨id, src, c⟩ := k
    simp only [WFKids] at h
    obtain ⟨⟨k, rfl, _, hk⟩, _, hrest⟩ := h
    have := ih hrest
    simp only [parkedOf] at this ⊢
    simp only [snapKids]
    rw [List.filter_cons]
    simp only [avail, hk, Bool.not_true, Bool.false_eq_true, if_false]
    exact this

mutual
/-- **restore ∘ snap = id** on well-formed live hierarchies (any depth, any width) -/
theorem restore_snapTree (svc : String → Bool) (t : Live σ) (h : WFLive svc t) :
    restoreTree svc (snapTree t) = t := by
  match t with
  | .mk own kids parked sys pend =>
    simp only [WFLive] at h
    obtain ⟨hk, hp, hs, hpe, hd⟩ := h
    have hfil : parked.filter (fun r => !hasKey r.1 kids) = parked := by
      rw [List.filter_eq_self]
      intro r hr
      simp [(hp r hr).2]
    have hkids : restoreKids repaired svc (snapKids kids ++ parked) = kids := by
      rw [restoreKids_append, restore_snapKids svc kids hk, restoreKids_unavail repaired svc parked (fun r hr => (hp r hr).1)]
      simp
    have hpark : parkedOf svc (snapKids kids ++ parked) = parked := by
      rw [parkedOf_append, parkedOf_snapKids svc kids hk, parkedOf_unavail svc parked (fun r hr => (hp r hr).1)]
      simp
    simp only [restoreTree, snapTree, restoreV, hfil, hkids, hpark, mergeSys_disjoint pend sys hd]
    have hsys : (pend ++ sys).filter (fun e => found repaired kids e.2) = sys := by
      rw [List.filter_append]
      have h1 : pend.filter (fun e => found repaired kids e.2) = [] := by
        rw [List.filter_eq_nil_iff]
        intro e he
        simp [found, repaired, (hpe e he).1]
      have h2 : sys.filter (fun e => found repaired kids e.2) = sys := by
        rw [List.filter_eq_self]
        intro e he
        simp [found, repaired, hs e he]
      rw [h1, h2]; rfl
    have hpend : (pend ++ sys).filter (fun e => !found repaired kids e.2 &&
          (parked.any (fun r => under r.1 e.2) || parkedInKids kids e.2)) = pend := by
      rw [List.filter_append]
      have h1 : pend.filter (fun e => !found repaired kids e.2 &&
          (parked.any (fun r => under r.1 e.2) || parkedInKids kids e.2)) = pend := by
        rw [List.filter_eq_self]
        intro e he
        have := hpe e he
        simp only [found, repaired, if_true, this.1, Bool.not_false, Bool.true_and]
        exact this.2
      have h2 : sys.filter (fun e => !found repaired kids e.2 &&
          (parked.any (fun r => under r.1 e.2) || parkedInKids kids e.2)) = [] := by
        rw [List.filter_eq_nil_iff]
        intro e he
        simp [found, repaired, hs e he]
      rw [h1, h2]; simp
    have hkp : repaired.keepPend = true := rfl
    rw [hsys, if_pos hkp, hpend]
theorem restore_snapKids (svc : String → Bool) (kids : List (LKid σ)) (h : WFKids svc kids) :
    restoreKids repaired svc (snapKids kids) = kids := by
  match kids with
  | [] => simp [snapKids, restoreKids]
  | (id, src, c) :: rest =>
    simp only [WFKids] at h
    obtain ⟨⟨k, rfl, hk0, hk⟩, hc, hrest⟩ := h
    have h1 := restore_snapTree svc c hc
    have h2 := restore_snapKids svc rest hrest
    simp only [restoreTree] at h1
    simp only [snapKids, restoreKids, avail, hk, if_true, recSrc_some hk0, h1, h2]
end

-- what comes back alive, what is parked (any variant: `v` only decides which systemIds are registered) -----------
mutual
theorem has_restoreV (v : Variant) (svc : String → Bool) (s : Snap σ) (aid : String) :
    (restoreV v svc s).has aid = liveInSnap svc s aid := by
  match s with
  | .mk own actors system =>
    simp only [restoreV, Live.has, liveInSnap]
    exact hasIn_restoreKids v svc actors aid
theorem hasIn_restoreKids (v : Variant) (svc : String → Bool) (recs : List (SRec σ)) (aid : String) :
    hasIn (restoreKids v svc recs) aid = liveIn svc recs aid := by
  match recs with
  | [] => simp [restoreKids, hasIn, liveIn]
  | (id, src, s) :: rest =>
    have h1 := has_restoreV v svc s aid
    have h2 := hasIn_restoreKids v svc rest aid
    simp only [restoreKids, liveIn]
    by_cases ha : avail svc src = true
    · simp only [ha, if_true, hasIn, h1, h2, Bool.true_and, Bool.or_assoc]
    · simp only [Bool.not_eq_true] at ha
      simp only [ha, Bool.false_and, Bool.false_or]
      exact h2
end

mutual
theorem isParked_restoreV (v : Variant) (svc : String → Bool) (s : Snap σ) (aid : String) :
    (restoreV v svc s).isParked aid = parkedInSnap svc s aid := by
  match s with
  | .mk own actors system =>
    simp only [restoreV, Live.isParked, parkedInSnap]
    exact parked_restoreKids v svc actors aid
theorem parked_restoreKids (v : Variant) (svc : String → Bool) (recs : List (SRec σ)) (aid : String) :
    ((parkedOf svc recs).any (fun r => under r.1 aid) || parkedInKids (restoreKids v svc recs) aid) = parkedIn svc recs aid := by
  match recs with
  | [] => simp [parkedOf, restoreKids, parkedInKids, parkedIn]
  | (id, src, s) :: rest =>
    have h1 := isParked_restoreV v svc s aid
    have h2 := parked_restoreKids v svc rest aid
    simp only [parkedOf] at h2 ⊢
    simp only [restoreKids, parkedIn, List.filter_cons]
    by_cases ha : avail svc src = true
    · simp only [ha, if_true, Bool.not_true, Bool.false_eq_true, if_false, parkedInKids, h1, ← h2]
      cases (List.filter (fun r => !avail svc r.2.1) rest).any (fun r => under r.1 aid) <;>
        cases parkedInSnap svc s aid <;> simp
    · simp only [Bool.not_eq_true] at ha
      simp only [ha, Bool.not_false, if_true, Bool.false_eq_true, if_false, List.any_cons, ← h2]
      cases under id aid <;> simp
end

-- `restore` yields a well-formed hierarchy ------------------------------------------------------------------
theorem fst_inj_of_nodup {β : Type} (l : List (String × β)) (h : (l.map (·.1)).Nodup) (a b : String × β)
    (ha : a ∈ l) (hb : b ∈ l) (hab : a.1 = b.1) : a = b := by
  induction l with
  | nil => cases ha
  | cons x rest ih =>
    simp only [List.map_cons, List.nodup_cons, List.mem_map, not_exists, not_and] at h
    rcases List.mem_cons.1 ha with rfl | ha'
    · rcases List.mem_cons.1 hb with rfl | hb'
      · rfl
      · exact absurd hab.symm (h.1 b hb')
    · rcases List.mem_cons.1 hb with rfl | hb'
      · exact absurd hab (h.1 a ha')
      · exact ih h.2 ha' hb'

theorem hasKey_restoreKids (v : Variant) (svc : String → Bool) (recs : List (SRec σ)) (k : String)
    (h : hasKey k (restoreKids v svc recs) = true) : ∃ r ∈ recs, r.1 = k ∧ avail svc r.2.1 = true := by
  induction recs with
  | nil => simp [restoreKids, hasKey] at h
  | cons r rest ih =>
    obtain ⟨id, src, s⟩ := r
    simp only [restoreKids] at h
    by_cases ha : avail svc src = true
    · simp only [ha, if_true, hasKey_cons, Bool.or_eq_true, beq_iff_eq] at h
      rcases h with h | h
      · exact ⟨(id, src, s), List.mem_cons_self .., h, ha⟩
      · obtain ⟨r, hr, h1, h2⟩ := ih h
        exact ⟨r, List.mem_cons_of_mem _ hr, h1, h2⟩
    · simp only [ha] at h
      obtain ⟨r, hr, h1, h2⟩ := ih h
      exact ⟨r, List.mem_cons_of_mem _ hr, h1, h2⟩

mutual
theorem wfLive_restore (svc : String → Bool) (s : Snap σ) (h : WFSnap s) : WFLive svc (restoreTree svc s) := by
  match s with
  | .mk own actors system =>
    simp only [WFSnap] at h
    obtain ⟨hr, hn, hs⟩ := h
    simp only [restoreTree, restoreV, WFLive]
    refine ⟨wfKids_restore svc actors hr, ?_, ?_, ?_, ?_⟩
    · intro r hrm
      simp only [parkedOf, List.mem_filter, Bool.not_eq_true'] at hrm
      refine ⟨hrm.2, ?_⟩
      cases hk : hasKey r.1 (restoreKids repaired svc actors) with
      | false => rfl
      | true =>
        obtain ⟨r', hr', h1, h2⟩ := hasKey_restoreKids repaired svc actors r.1 hk
        have := fst_inj_of_nodup actors hn r' r hr' hrm.1 h1
        rw [this, hrm.2] at h2
        cases h2
    · intro e he
      simp only [List.mem_filter, found, repaired, if_true] at he
      exact he.2
    · intro e he
      have hkp : repaired.keepPend = true := rfl
      rw [if_pos hkp] at he
      simp only [List.mem_filter, found, repaired, if_true, Bool.and_eq_true, Bool.not_eq_true'] at he
      exact ⟨he.2.1, he.2.2⟩
    · intro e he
      have hkp : repaired.keepPend = true := rfl
      rw [if_pos hkp]
      rw [hasKey_false_iff]
      intro e' he' hk
      simp only [List.mem_filter, found, repaired, if_true, Bool.and_eq_true, Bool.not_eq_true'] at he he'
      have := fst_inj_of_nodup system hs e' e he'.1 he.1 hk
      rw [this, he.2] at he'
      cases he'.2.1
theorem wfKids_restore (svc : String → Bool) (recs : List (SRec σ)) (h : WFRecs recs) :
    WFKids svc (restoreKids repaired svc recs) := by
  match recs with
  | [] => simp [restoreKids, WFKids]
  | (id, src, s) :: rest =>
    simp only [WFRecs] at h
    obtain ⟨h0, hs, hrest⟩ := h
    have h1 := wfLive_restore svc s hs
    have h2 := wfKids_restore svc rest hrest
    simp only [restoreTree] at h1
    simp only [restoreKids]
    by_cases ha : avail svc src = true
    · simp only [ha, if_true, WFKids]
      refine ⟨?_, h1, h2⟩
      cases src with
      | none => simp [avail] at ha
      | some k =>
        have hk0 : k ≠ "" := fun hk => h0 (by rw [hk])
        exact ⟨k, recSrc_some hk0, hk0, ha⟩
    · simp only [ha]
      exact h2
end

-- snap ∘ restore = id when every record resolves ---------------------------------------------------------------
theorem parkedOf_allAvail (svc : String → Bool) (recs : List (SRec σ)) (h : AllAvailRecs svc recs) :
    parkedOf svc recs = [] := by
  induction recs with
  | nil => simp [parkedOf]
  | cons r rest ih =>
    obtain ⟨id, src, s⟩ := r
    simp only [AllAvailRecs] at h
    have := ih h.2.2
    simp only [parkedOf] at this ⊢
    rw [List.filter_cons]
    simp only [h.1, Bool.not_true, Bool.false_eq_true, if_false]
    exact this

mutual
theorem snap_restoreTree (svc : String → Bool) (s : Snap σ) (hw : WFSnap s) (ha : AllAvail svc s) (hl : SysLive svc s) :
    snapTree (restoreTree svc s) = s := by
  match s with
  | .mk own actors system =>
    simp only [WFSnap] at hw
    simp only [AllAvail] at ha
    simp only [SysLive] at hl
    have hk := snapKids_restoreKids svc actors hw.1 ha hl.2
    have hp := parkedOf_allAvail svc actors ha
    have hkp : repaired.keepPend = true := rfl
    simp only [restoreTree, restoreV, snapTree, hp, if_pos hkp, List.filter_nil, List.append_nil, hk]
    have hsys : system.filter (fun e => found repaired (restoreKids repaired svc actors) e.2) = system := by
      rw [List.filter_eq_self]
      intro e he
      simp only [found, repaired, if_true, hasIn_restoreKids]
      exact hl.1 e he
    have hpend : system.filter (fun e => !found repaired (restoreKids repaired svc actors) e.2 &&
        (([] : List (SRec σ)).any (fun r => under r.1 e.2) || parkedInKids (restoreKids repaired svc actors) e.2)) = [] := by
      rw [List.filter_eq_nil_iff]
      intro e he
      have : hasIn (restoreKids { deep := true, keepPend := true } svc actors) e.2 = true := by
        rw [hasIn_restoreKids]; exact hl.1 e he
      simp [found, repaired, this]
    rw [hsys, hpend, mergeSys_nil_left]
theorem snapKids_restoreKids (svc : String → Bool) (recs : List (SRec σ)) (hw : WFRecs recs) (ha : AllAvailRecs svc recs)
    (hl : SysLiveRecs svc recs) : snapKids (restoreKids repaired svc recs) = recs := by
  match recs with
  | [] => simp [restoreKids, snapKids]
  | (id, src, s) :: rest =>
    simp only [WFRecs] at hw
    simp only [AllAvailRecs] at ha
    simp only [SysLiveRecs] at hl
    have h1 := snap_restoreTree svc s hw.2.1 ha.2.1 hl.1
    have h2 := snapKids_restoreKids svc rest hw.2.2 ha.2.2 hl.2
    simp only [restoreTree] at h1
    cases src with
    | none => simp [avail] at ha
    | some k =>
      have hk0 : k ≠ "" := fun hk => hw.1 (by rw [hk])
      simp only [restoreKids, ha.1, if_true, snapKids, recSrc_some hk0, h1, h2]
end

-- one cycle in general: nothing is lost, nothing is invented ------------------------------------------------------
theorem filter_or_perm {α : Type} (p q : α → Bool) (l : List α) :
    (l.filter (fun x => !p x && q x) ++ l.filter p).Perm (l.filter (fun x => p x || q x)) := by
  induction l with
  | nil => simp
  | cons x rest ih =>
    simp only [List.filter_cons]
    cases hp : p x <;> cases hq : q x <;> simp only [Bool.not_false, Bool.not_true, Bool.true_and, Bool.false_and,
      Bool.or_false, Bool.or_true, if_true, if_false, Bool.false_eq_true]
    · exact ih
    · exact List.Perm.cons x ih
    · exact List.perm_middle.trans (List.Perm.cons x ih)
    · exact List.perm_middle.trans (List.Perm.cons x ih)

theorem restoreKids_ids (v : Variant) (svc : String → Bool) (recs : List (SRec σ)) :
    (restoreKids v svc recs).map (·.1) = (recs.filter (fun r => avail svc r.2.1)).map (·.1) := by
  induction recs with
  | nil => simp [restoreKids]
  | cons r rest ih =>
    obtain ⟨id, src, s⟩ := r
    simp only [restoreKids, List.filter_cons]
    by_cases ha : avail svc src = true
    · simp [ha, ih]
    · simp [ha, ih]

/-- `n` save/restore cycles seen from the persisted side -/
def cycles (svc : String → Bool) : Nat → Snap σ → Snap σ
  | 0, s => s
  | n + 1, s => cycle svc (cycles svc n s)

theorem sys_restoreTree (svc : String → Bool) (s : Snap σ) :
    (restoreTree svc s).sys = s.system.filter (fun e => liveIn svc s.actors e.2) := by
  match s with
  | .mk own actors system =>
    simp only [restoreTree, restoreV, Live.sys, Snap.system, Snap.actors]
    apply List.filter_congr
    intro e _
    simp only [found, repaired, if_true, hasIn_restoreKids]

theorem pend_restoreTree (svc : String → Bool) (s : Snap σ) :
    (restoreTree svc s).pend = s.system.filter (fun e => !liveIn svc s.actors e.2 && parkedIn svc s.actors e.2) := by
  match s with
  | .mk own actors system =>
    have hkp : repaired.keepPend = true := rfl
    simp only [restoreTree, restoreV, Live.pend, Snap.system, Snap.actors, if_pos hkp]
    apply List.filter_congr
    intro e _
    simp only [found, repaired, if_true, hasIn_restoreKids, parked_restoreKids]

theorem cycle_parts (svc : String → Bool) (s : Snap σ) (h : WFSnap s) :
    (cycle svc s).own = s.own ∧
    (cycle svc s).actors = snapKids (restoreKids repaired svc s.actors) ++ parkedOf svc s.actors ∧
    (cycle svc s).system = (restoreTree svc s).pend ++ (restoreTree svc s).sys := by
  have hwf := wfLive_restore svc s h
  match s with
  | .mk own actors system =>
    simp only [restoreTree, restoreV] at hwf
    simp only [WFLive] at hwf
    obtain ⟨_, hp, _, _, hd⟩ := hwf
    simp only [cycle, restoreTree, restoreV, snapTree, Snap.own, Snap.actors, Snap.system, Live.pend, Live.sys]
    refine ⟨trivial, ?_, mergeSys_disjoint _ _ hd⟩
    congr 1
    rw [List.filter_eq_self]
    intro r hr
    simp [(hp r hr).2]

end XSM.SnapTree
