import Xsm.Model.Snapshot
import Xsm.Proofs.Perm
import Xsm.Proofs.History
/-
C12, helper lemmas.
  1. ids round-trip: `stateById m (m.idOf p) = some p` (keys and machine id without '.')
  2. `restore m (snap m s)`: what comes back (`restore_snap_core`)
  3. re-snapshot, rejection
  4. the equivalence `St.equiv` (C16) lifted from one event to `send`/`cmd` for both engines, for any
     invariant of the run that provides the side conditions at the transitions actually executed
-/
namespace XSM
namespace Snap
open Hist Spec

-- ---------------------------------------------------------------------------------------------
-- 1. ids
-- ---------------------------------------------------------------------------------------------

theorem splitDotL_ne_nil : ∀ cs : List Char, splitDotL cs ≠ []
  | [] => by simp [splitDotL]
  | c :: cs => by
    simp only [splitDotL]
    split
    · simp
    · split <;> simp

theorem splitDotL_nodot : ∀ a : List Char, '.' ∉ a → splitDotL a = [a]
  | [], _ => by simp [splitDotL]
  | c :: cs, h => by
    have hc : c ≠ '.' := fun e => h (by simp [e])
    have hcs : '.' ∉ cs := fun e => h (List.mem_cons_of_mem _ e)
    simp only [splitDotL, splitDotL_nodot cs hcs, hc, if_false]

theorem splitDotL_append : ∀ (a r : List Char), '.' ∉ a → splitDotL (a ++ '.' :: r) = a :: splitDotL r
  | [], r, _ => by
    simp only [List.nil_append, splitDotL]
    cases h : splitDotL r with
    | nil => exact absurd h (splitDotL_ne_nil r)
    | cons seg rest => simp
  | c :: cs, r, h => by
    have hc : c ≠ '.' := fun e => h (by simp [e])
    have hcs : '.' ∉ cs := fun e => h (List.mem_cons_of_mem _ e)
    simp only [List.cons_append, splitDotL, splitDotL_append cs r hcs, hc, if_false]

theorem splitDotL_enc : ∀ (p : Path) (a : List Char), '.' ∉ a → (∀ k ∈ p, '.' ∉ k.toList) →
    splitDotL (a ++ encPath p) = a :: p.map String.toList
  | [], a, ha, _ => by simp [encPath, splitDotL_nodot a ha]
  | k :: p, a, ha, hp => by
    have hk : '.' ∉ k.toList := hp k (by simp)
    have hp' : ∀ k' ∈ p, '.' ∉ k'.toList := fun k' hk' => hp k' (List.mem_cons_of_mem _ hk')
    have : encPath (k :: p) = '.' :: (k.toList ++ encPath p) := by
      simp [encPath, List.flatMap_cons]
    rw [this, splitDotL_append a _ ha, splitDotL_enc p k.toList hk hp']
    simp

/-- Python's `id.split(".")` gives back the machine id and the keys -/
theorem splitDot_idOf (m : Machine) (p : Path) (hid : '.' ∉ m.id.toList) (hp : ∀ k ∈ p, '.' ∉ k.toList) :
    splitDot (m.idOf p) = m.id :: p := by
  unfold splitDot
  rw [idOf_toList, splitDotL_enc p _ hid hp]
  simp [String.ofList_toList]

/-- a machine whose id and keys contain no '.' (ids are then injective and `get_state_by_id` inverts `id`) -/
structure MDot (m : Machine) : Prop where
  id : '.' ∉ m.id.toList
  keys : ∀ p, (m.root.at p).isSome → ∀ k ∈ p, '.' ∉ k.toList

theorem stateById_idOf (m : Machine) (hd : MDot m) (p : Path) (hv : (m.root.at p).isSome) :
    stateById m (m.idOf p) = some p := by
  unfold stateById
  rw [splitDot_idOf m p hd.id (hd.keys p hv)]
  simp only [if_true]
  cases h : m.root.at p with
  | none => rw [h] at hv; cases hv
  | some n => rfl

theorem strList_map (f : Path → String) : ∀ ps : List Path, strList (ps.map (fun p => J.str (f p))) = some (ps.map f)
  | [] => rfl
  | p :: ps => by simp [strList, strList_map f ps]

theorem restoreIds_idOf (m : Machine) (hd : MDot m) : ∀ ps : List Path, (∀ p ∈ ps, (m.root.at p).isSome) →
    restoreIds m (ps.map m.idOf) = .ok ps
  | [], _ => rfl
  | p :: ps, h => by
    simp only [List.map_cons, restoreIds, stateById_idOf m hd p (h p (by simp)),
      restoreIds_idOf m hd ps (fun q hq => h q (List.mem_cons_of_mem _ hq))]

theorem filterMap_stateById (m : Machine) (hd : MDot m) : ∀ ps : List Path, (∀ p ∈ ps, (m.root.at p).isSome) →
    (ps.map m.idOf).filterMap (stateById m) = ps
  | [], _ => rfl
  | p :: ps, h => by
    simp only [List.map_cons, List.filterMap_cons, stateById_idOf m hd p (h p (by simp)),
      filterMap_stateById m hd ps (fun q hq => h q (List.mem_cons_of_mem _ hq))]

theorem restoreCtx_snap : ∀ c : Ctx, restoreCtx (c.map (fun kv => (kv.1, J.num kv.2))) = c
  | [] => rfl
  | kv :: c => by
    have := restoreCtx_snap c
    simp only [restoreCtx] at this ⊢
    simp [List.filterMap_cons, this]

-- sorting by id ---------------------------------------------------------------------------------------
theorem idLe_total (m : Machine) (a b : Path) : idLe m a b = true ∨ idLe m b a = true := by
  simp only [idLe, decide_eq_true_eq]; exact String.le_total _ _
theorem idLe_trans (m : Machine) (a b c : Path) (h1 : idLe m a b = true) (h2 : idLe m b c = true) :
    idLe m a c = true := by
  simp only [idLe, decide_eq_true_eq] at *; exact String.le_trans h1 h2
theorem idLe_antisymm (m : Machine) (a b : Path) (h1 : idLe m a b = true) (h2 : idLe m b a = true) :
    m.idOf a = m.idOf b := by
  simp only [idLe, decide_eq_true_eq] at *; exact String.le_antisymm h1 h2

theorem mem_sortIds (m : Machine) (q : Path) (ps : List Path) : q ∈ sortIds m ps ↔ q ∈ ps := mem_sortBy _ _ _
theorem sortIds_perm (m : Machine) (ps : List Path) : (sortIds m ps).Perm ps := sortBy_perm _ _

/-- sorting by id does not depend on the order of the input (ids injective on the elements) -/
theorem sortIds_perm_eq (m : Machine) {xs ys : List Path} (hp : xs.Perm ys) (hinj : IdInj m xs) :
    sortIds m xs = sortIds m ys :=
  sortBy_perm_eq (idLe m) hp (fun a _ b _ => idLe_total m a b) (fun a _ b _ c _ => idLe_trans m a b c)
    (fun a ha b hb h1 h2 => hinj a ha b hb (idLe_antisymm m a b h1 h2))

theorem sortIds_idem (m : Machine) (xs : List Path) (hinj : IdInj m xs) : sortIds m (sortIds m xs) = sortIds m xs :=
  (sortIds_perm_eq m (sortIds_perm m xs).symm hinj).symm

-- sorting by (depth, id) -----------------------------------------------------------------------------
theorem depthIdLeM_eq (m : Machine) : depthIdLeM m = depthIdLe m := rfl

theorem mem_sortDI (m : Machine) (q : Path) (ps : List Path) : q ∈ sortDI m ps ↔ q ∈ ps := mem_sortBy _ _ _
theorem sortDI_perm (m : Machine) (ps : List Path) : (sortDI m ps).Perm ps := sortBy_perm _ _

/-- sorting by (depth, id) does not depend on the order of the input (ids injective on the elements) -/
theorem sortDI_perm_eq (m : Machine) {xs ys : List Path} (hp : xs.Perm ys) (hinj : IdInj m xs) :
    sortDI m xs = sortDI m ys :=
  sortBy_eq_of_perm (depthIdLeM m) (depthIdLe_total m) (fun _ _ _ => depthIdLe_trans m) xs ys hp
    (fun a b ha hb h1 h2 => hinj a ha b hb (depthIdLe_antisymm m h1 h2))

/-- a list that already is in (depth, id) order is left alone -/
theorem sortDI_of_sorted (m : Machine) (xs : List Path) (hinj : IdInj m xs)
    (hs : xs.Pairwise (fun a b => depthIdLe m a b = true)) : sortDI m xs = xs := by
  apply List.Perm.eq_of_pairwise (le := fun a b => depthIdLe m a b = true)
  · intro a b ha hb h1 h2
    exact hinj a ((mem_sortDI m a xs).1 ha) b hb (depthIdLe_antisymm m h1 h2)
  · exact Hist.sortBy_pairwise _ (depthIdLe_total m) (fun _ _ _ => depthIdLe_trans m) xs
  · exact hs
  · exact sortDI_perm m xs

-- ---------------------------------------------------------------------------------------------
-- 2. restore ∘ snap
-- ---------------------------------------------------------------------------------------------

/-- what a snapshot needs of the state it is taken from (every state a run reaches has it: the
    configuration is `Legal` — C01 — and `_record_history` only stores non-empty lists of active states) -/
structure SnapOK (m : Machine) (s : St) : Prop where
  cfgValid : ∀ p ∈ s.cfg, (m.root.at p).isSome
  cfgClosed : ∀ p ∈ s.cfg, p.dropLast ∈ s.cfg
  cfgNodup : s.cfg.Nodup
  histValid : ∀ kv ∈ s.hist, (m.root.at kv.1).isSome ∧ kv.2 ≠ [] ∧ ∀ q ∈ kv.2, (m.root.at q).isSome

/-- the history as it comes back: same owners in the same order, every remembered list sorted by id
    (the snapshot) and then ordered by `ord` (`from_snapshot`) -/
def histOrd (m : Machine) (ord : List Path → List Path) (h : List (Path × List Path)) : List (Path × List Path) :=
  h.map (fun kv => (kv.1, ord (sortIds m kv.2)))

/-- the state `restoreWith m ord` rebuilds from the snapshot of `s` -/
def restoredWith (m : Machine) (ord : List Path → List Path) (s : St) : St :=
  { cfg := closeUp (sortIds m s.cfg), hist := histOrd m ord s.hist, queue := [], status := s.status,
    trace := [], err := none, ctx := s.ctx, raiseDepth := 0, errors := 0 }

/-- the state `from_snapshot` rebuilds from the snapshot of `s`: remembered lists in (depth, id) order -/
def restored (m : Machine) (s : St) : St := restoredWith m (sortDI m) s

theorem get_context (m : Machine) (s : St) : (snap m s).get? "context" = some (snapCtx s.ctx) := by
  simp [snap, J.get?, List.find?]
theorem get_status (m : Machine) (s : St) : (snap m s).get? "status" = some (.str s.status) := by
  simp [snap, J.get?, List.find?]
theorem get_configuration (m : Machine) (s : St) :
    (snap m s).get? "configuration" = some (jIds m (sortIds m s.cfg)) := by
  simp [snap, J.get?, List.find?]
theorem get_state_ids (m : Machine) (s : St) :
    (snap m s).get? "state_ids" = some (jIds m (sortIds m (s.cfg.filter (isLeafState m)))) := by
  simp [snap, J.get?, List.find?]
theorem get_history (m : Machine) (s : St) : (snap m s).get? "history" = some (snapHist m s.hist) := by
  simp [snap, J.get?, List.find?]
theorem get_actors (m : Machine) (s : St) : (snap m s).get? "actors" = some (.obj []) := by
  simp [snap, J.get?, List.find?]
theorem get_system (m : Machine) (s : St) : (snap m s).get? "system" = some (.obj []) := by
  simp [snap, J.get?, List.find?]

theorem isIds_jIds (m : Machine) (ps : List Path) : isIds (jIds m ps) = true := by
  simp [isIds, jIds, strList_map]

/-- the snapshot of any state passes `_validate_snapshot_shape` -/
theorem shapeErr_snap (m : Machine) (s : St) : shapeErr (snap m s) = none := by
  have hh : isMapOf isIds (snapHist m s.hist) = true := by
    simp only [isMapOf, snapHist, List.all_map, List.all_eq_true]
    intro kv _
    exact isIds_jIds m _
  unfold shapeErr shapeRowOk stateIdsRequired
  rw [get_status, get_context, get_configuration, get_state_ids, get_history, get_actors, get_system]
  simp only [snapCtx, snapHist, jIds] at hh ⊢
  have h1 := isIds_jIds m (sortIds m s.cfg)
  have h2 := isIds_jIds m (sortIds m (s.cfg.filter (isLeafState m)))
  simp only [jIds] at h1 h2
  have ha : isMapOf isActorRec (.obj []) = true := rfl
  have hs : isMapOf isStr (.obj []) = true := rfl
  simp [isStr, isObj, h1, h2, hh, ha, hs]

theorem sortIds_nil_iff (m : Machine) (ps : List Path) : sortIds m ps = [] ↔ ps = [] := by
  constructor
  · intro h
    have := (sortIds_perm m ps).length_eq
    rw [h] at this
    exact List.length_eq_zero_iff.1 this.symm
  · intro h; subst h; rfl

theorem restoreIdsJ_snap (m : Machine) (s : St) :
    restoreIdsJ (snap m s) = .ok ((sortIds m s.cfg).map m.idOf) := by
  unfold restoreIdsJ
  rw [get_configuration, get_state_ids]
  cases hc : sortIds m s.cfg with
  | nil =>
    have : s.cfg = [] := (sortIds_nil_iff m _).1 hc
    simp [jIds, this, sortIds, sortBy, strList]
  | cons x xs =>
    simp only [jIds, List.map_cons]
    have := strList_map m.idOf (x :: xs)
    simp only [List.map_cons] at this
    rw [this]

theorem restoreHist_snap (m : Machine) (hd : MDot m) (ord : List Path → List Path) : ∀ h : List (Path × List Path),
    (∀ kv ∈ h, (m.root.at kv.1).isSome ∧ kv.2 ≠ [] ∧ ∀ q ∈ kv.2, (m.root.at q).isSome) →
    restoreHist m ord (h.map (fun kv => (m.idOf kv.1, jIds m (sortIds m kv.2)))) = .ok (histOrd m ord h)
  | [], _ => rfl
  | kv :: h, hv => by
    obtain ⟨hP, hne, hR⟩ := hv kv (by simp)
    have ih := restoreHist_snap m hd ord h (fun x hx => hv x (List.mem_cons_of_mem _ hx))
    have hfm : ((sortIds m kv.2).map m.idOf).filterMap (stateById m) = sortIds m kv.2 :=
      filterMap_stateById m hd _ (fun q hq => hR q ((mem_sortIds m q kv.2).1 hq))
    have hne' : (sortIds m kv.2).isEmpty = false := by
      cases h' : sortIds m kv.2 with
      | nil => exact absurd ((sortIds_nil_iff m _).1 h') hne
      | cons _ _ => rfl
    have hent : restoreHistEntry m ord (m.idOf kv.1, jIds m (sortIds m kv.2)) =
        .ok (some (kv.1, ord (sortIds m kv.2))) := by
      simp only [restoreHistEntry, jIds, strList_map, hfm, hne', stateById_idOf m hd kv.1 hP]
      simp
    simp only [List.map_cons, restoreHist, hent, ih, histOrd]

theorem restoreHistJ_snap (m : Machine) (hd : MDot m) (ord : List Path → List Path) (s : St) (hs : SnapOK m s) :
    restoreHistJ m ord (snap m s) = .ok (histOrd m ord s.hist) := by
  unfold restoreHistJ
  rw [get_history]
  simp only [snapHist]
  exact restoreHist_snap m hd ord s.hist hs.histValid

theorem restoreWith_obj (m : Machine) (ord : List Path → List Path) (kvs : List (String × J)) :
    restoreWith m ord (.obj kvs) =
      (match shapeErr (.obj kvs) with
       | some e => .error e
       | none => restoreCore m ord (.obj kvs)) := rfl

/-- **restore ∘ snap**, exactly, for any ordering of the remembered lists -/
theorem restoreWith_snap_core (m : Machine) (hd : MDot m) (ord : List Path → List Path) (s : St) (hs : SnapOK m s) :
    restoreWith m ord (snap m s) = .ok (restoredWith m ord s) := by
  have hcore : restoreCore m ord (snap m s) = .ok (restoredWith m ord s) := by
    unfold restoreCore
    rw [get_context, get_status, restoreIdsJ_snap, restoreHistJ_snap m hd ord s hs]
    simp only [snapCtx]
    rw [restoreIds_idOf m hd _ (fun p hp => hs.cfgValid p ((mem_sortIds m p s.cfg).1 hp))]
    simp only [restoreCtx_snap, restoredWith]
  obtain ⟨kvs, hk⟩ : ∃ kvs, snap m s = .obj kvs := ⟨_, rfl⟩
  rw [hk, restoreWith_obj, ← hk, shapeErr_snap, hcore]

theorem restore_snap_core (m : Machine) (hd : MDot m) (s : St) (hs : SnapOK m s) :
    restore m (snap m s) = .ok (restored m s) := restoreWith_snap_core m hd (sortDI m) s hs

-- the restored configuration ----------------------------------------------------------------------------
theorem mem_closeUp {ps : List Path} {q : Path} : q ∈ closeUp ps ↔ ∃ p ∈ ps, q <+: p := by
  simp only [closeUp, List.mem_eraseDups, List.mem_flatMap, mem_chainUp_iff]

theorem closeUp_nodup (ps : List Path) : (closeUp ps).Nodup := nodup_eraseDups _ _ (Nat.le_refl _)

theorem perm_of_nodup {l l' : List Path} (h : l.Nodup) (h' : l'.Nodup) (hm : ∀ a, a ∈ l ↔ a ∈ l') : l.Perm l' := by
  rw [List.perm_iff_count]
  intro a
  rw [h.count, h'.count]
  by_cases ha : a ∈ l
  · rw [if_pos ha, if_pos ((hm a).1 ha)]
  · rw [if_neg ha, if_neg (fun x => ha ((hm a).2 x))]

/-- the listed configuration with its ancestor closure is the configuration again (as a set) -/
theorem closeUp_perm (m : Machine) (cfg : List Path) (hcl : ∀ p ∈ cfg, p.dropLast ∈ cfg) (hnd : cfg.Nodup) :
    (closeUp (sortIds m cfg)).Perm cfg := by
  apply perm_of_nodup (closeUp_nodup _) hnd
  intro q
  rw [mem_closeUp]
  constructor
  · rintro ⟨p, hp, hq⟩
    exact prefix_closed hcl hq ((mem_sortIds m p cfg).1 hp)
  · intro hq
    exact ⟨q, (mem_sortIds m q cfg).2 hq, List.prefix_refl q⟩

-- ---------------------------------------------------------------------------------------------
-- 3. re-snapshot; rejection
-- ---------------------------------------------------------------------------------------------

theorem idInj_of_valid (m : Machine) (hd : MDot m) (c : List Path) (hv : ∀ p ∈ c, (m.root.at p).isSome) :
    IdInj m c :=
  fun a ha b hb h => idOf_injective m a b (hd.keys a (hv a ha)) (hd.keys b (hv b hb)) h

theorem snapHist_ord (m : Machine) (hd : MDot m) (ord : List Path → List Path) (hord : ∀ l, (ord l).Perm l) :
    ∀ h : List (Path × List Path),
    (∀ kv ∈ h, ∀ q ∈ kv.2, (m.root.at q).isSome) → snapHist m (histOrd m ord h) = snapHist m h := by
  intro h hv
  simp only [snapHist, histOrd, List.map_map]
  congr 1
  apply List.map_congr_left
  intro kv hkv
  simp only [Function.comp]
  have hinj := idInj_of_valid m hd kv.2 (hv kv hkv)
  rw [← sortIds_perm_eq m (((hord _).trans (sortIds_perm m kv.2)).symm) hinj]

/-- **re-snapshot**: the snapshot of the restored state is the snapshot it was restored from (whatever
    order the remembered lists were given: the snapshot sorts them) -/
theorem snap_restoredWith (m : Machine) (hd : MDot m) (ord : List Path → List Path) (hord : ∀ l, (ord l).Perm l)
    (s : St) (hs : SnapOK m s) : snap m (restoredWith m ord s) = snap m s := by
  have hp : (closeUp (sortIds m s.cfg)).Perm s.cfg := closeUp_perm m s.cfg hs.cfgClosed hs.cfgNodup
  have hinj : IdInj m s.cfg := idInj_of_valid m hd s.cfg hs.cfgValid
  have h1 : sortIds m (closeUp (sortIds m s.cfg)) = sortIds m s.cfg :=
    (sortIds_perm_eq m hp.symm hinj).symm
  have h2 : sortIds m ((closeUp (sortIds m s.cfg)).filter (isLeafState m)) =
      sortIds m (s.cfg.filter (isLeafState m)) :=
    (sortIds_perm_eq m (hp.symm.filter _) (hinj.sub (fun q hq => (List.mem_filter.1 hq).1))).symm
  have h3 := snapHist_ord m hd ord hord s.hist (fun kv hkv => (hs.histValid kv hkv).2.2)
  simp only [snap, restoredWith, h1, h2, h3]

theorem snap_restored (m : Machine) (hd : MDot m) (s : St) (hs : SnapOK m s) :
    snap m (restored m s) = snap m s := snap_restoredWith m hd (sortDI m) (sortDI_perm m) s hs

/-- everything `restore` checks before it accepts a snapshot (the contrapositive of every rejection) -/
theorem restoreWith_ok_inv (m : Machine) (ord : List Path → List Path) (j : J) (s : St)
    (h : restoreWith m ord j = .ok s) :
    (∃ kvs, j = .obj kvs) ∧ (∃ c, j.get? "context" = some (.obj c) ∧ s.ctx = restoreCtx c) ∧
    j.get? "status" = some (.str s.status) ∧
    (∃ ids ps, restoreIdsJ j = .ok ids ∧ restoreIds m ids = .ok ps ∧ s.cfg = closeUp ps) ∧
    restoreHistJ m ord j = .ok s.hist ∧ s.queue = [] ∧ s.raiseDepth = 0 ∧ s.err = none := by
  unfold restoreWith at h
  split at h
  · rename_i kvs
    split at h
    · cases h
    · unfold restoreCore at h
      split at h
      · rename_i c hc
        split at h
        · rename_i st hst
          split at h
          · cases h
          · rename_i ids hids
            split at h
            · cases h
            · rename_i ps hps
              split at h
              · cases h
              · rename_i hh hhist
                cases h
                exact ⟨⟨kvs, rfl⟩, ⟨c, hc, rfl⟩, hst, ⟨ids, ps, hids, hps, rfl⟩, hhist, rfl, rfl, rfl⟩
        · cases h
      · cases h
  · cases h

/-- an accepted snapshot passed `_validate_snapshot_shape` -/
theorem restoreWith_ok_shape (m : Machine) (ord : List Path → List Path) (j : J) (s : St)
    (h : restoreWith m ord j = .ok s) : shapeErr j = none := by
  unfold restoreWith at h
  split at h
  · split at h
    · cases h
    · assumption
  · cases h

/-- the validation comes first: a wrongly shaped object is refused with the first offending key, whatever
    else is wrong with it (unknown state ids included) -/
theorem restoreWith_shape_first (m : Machine) (ord : List Path → List Path) (kvs : List (String × J)) (e : RErr)
    (h : shapeErr (.obj kvs) = some e) : restoreWith m ord (.obj kvs) = .error e := by
  rw [restoreWith_obj, h]

/-- every row of the table holds of a snapshot that passed the validation -/
theorem shapeErr_none (j : J) (h : shapeErr j = none) :
    shapeRowOk j "status" true isStr = true ∧ shapeRowOk j "context" true isObj = true ∧
    shapeRowOk j "configuration" false isIds = true ∧
    shapeRowOk j "state_ids" (stateIdsRequired j) isIds = true ∧
    shapeRowOk j "history" false (isMapOf isIds) = true ∧
    shapeRowOk j "actors" false (isMapOf isActorRec) = true ∧
    shapeRowOk j "system" false (isMapOf isStr) = true := by
  unfold shapeErr at h
  split at h
  · cases h
  rename_i h1
  split at h
  · cases h
  rename_i h2
  split at h
  · cases h
  rename_i h3
  split at h
  · cases h
  rename_i h4
  split at h
  · cases h
  rename_i h5
  split at h
  · cases h
  rename_i h6
  split at h
  · cases h
  rename_i h7
  exact ⟨by simpa using h1, by simpa using h2, by simpa using h3, by simpa using h4, by simpa using h5,
    by simpa using h6, by simpa using h7⟩

/-- a row that fails makes the validation fail (with that key or an earlier one) -/
theorem shapeErr_of_row {j : J} {key : String} {req : Bool} {check : J → Bool}
    (hrow : shapeRowOk j key req check = false)
    (hmem : (key, req, check) = ("status", true, isStr) ∨ (key, req, check) = ("context", true, isObj) ∨
      (key, req, check) = ("configuration", false, isIds) ∨
      (key, req, check) = ("state_ids", stateIdsRequired j, isIds) ∨
      (key, req, check) = ("history", false, isMapOf isIds) ∨
      (key, req, check) = ("actors", false, isMapOf isActorRec) ∨
      (key, req, check) = ("system", false, isMapOf isStr)) :
    shapeErr j ≠ none := by
  intro hn
  obtain ⟨h1, h2, h3, h4, h5, h6, h7⟩ := shapeErr_none j hn
  rcases hmem with h | h | h | h | h | h | h <;> cases h <;> simp_all

/-- a required row: the key is present with a value that passes the check -/
theorem shapeRowOk_required {j : J} {key : String} {check : J → Bool} (h : shapeRowOk j key true check = true) :
    ∃ v, j.get? key = some v ∧ v ≠ .null ∧ check v = true := by
  unfold shapeRowOk at h
  split at h
  · cases h
  · cases h
  · rename_i v hn hv
    exact ⟨v, hv, fun hc => hn hc, h⟩

theorem isIds_inv {v : J} (h : isIds v = true) : ∃ xs ids, v = .arr xs ∧ strList xs = some ids := by
  cases v with
  | arr xs =>
    simp only [isIds] at h
    obtain ⟨ids, hi⟩ := Option.isSome_iff_exists.1 h
    exact ⟨xs, ids, rfl, hi⟩
  | _ => simp [isIds] at h

/-- on a validated snapshot the list of ids to restore is readable -/
theorem restoreIdsJ_of_shape (j : J) (h : shapeErr j = none) : ∃ ids, restoreIdsJ j = .ok ids := by
  obtain ⟨_, _, h3, h4, _⟩ := shapeErr_none j h
  have hst : stateIdsRequired j = true → ∃ ids,
      (match j.get? "state_ids" with
       | some (.arr ys) =>
         (match strList ys with
          | some ids => .ok ids
          | none => .error (.shape "state_ids"))
       | _ => .error (.shape "state_ids") : Except RErr (List String)) = .ok ids := by
    intro hr
    rw [hr] at h4
    obtain ⟨v, hv, _, hc⟩ := shapeRowOk_required h4
    obtain ⟨xs, ids, rfl, hi⟩ := isIds_inv hc
    exact ⟨ids, by rw [hv]; simp only [hi]⟩
  unfold restoreIdsJ
  unfold shapeRowOk at h3
  unfold stateIdsRequired at hst
  cases hc : j.get? "configuration" with
  | none => rw [hc] at hst; exact hst rfl
  | some v =>
    rw [hc] at hst h3
    cases v with
    | null => exact hst rfl
    | arr xs =>
      cases xs with
      | nil => exact hst rfl
      | cons x xs =>
        obtain ⟨_, ids, hx, hi⟩ := isIds_inv h3
        cases hx
        exact ⟨ids, by simp only [hi]⟩
    | _ => simp [isIds] at h3

theorem restoreHist_of_shape (m : Machine) (ord : List Path → List Path) : ∀ kvs : List (String × J),
    kvs.all (fun kv => isIds kv.2) = true → ∃ h, restoreHist m ord kvs = .ok h
  | [], _ => ⟨[], rfl⟩
  | kv :: kvs, hall => by
    simp only [List.all_cons, Bool.and_eq_true] at hall
    obtain ⟨h', ih⟩ := restoreHist_of_shape m ord kvs hall.2
    obtain ⟨xs, ids, hx, hi⟩ := isIds_inv hall.1
    have hent : ∃ o, restoreHistEntry m ord kv = .ok o := by
      unfold restoreHistEntry
      rw [hx]
      simp only [hi]
      split
      · exact ⟨_, rfl⟩
      · split <;> exact ⟨_, rfl⟩
    obtain ⟨o, ho⟩ := hent
    simp only [restoreHist, ho, ih]
    cases o <;> exact ⟨_, rfl⟩

/-- on a validated snapshot the history is readable (unknown ids are dropped, not reported) -/
theorem restoreHistJ_of_shape (m : Machine) (ord : List Path → List Path) (j : J) (h : shapeErr j = none) :
    ∃ hh, restoreHistJ m ord j = .ok hh := by
  obtain ⟨_, _, _, _, h5, _⟩ := shapeErr_none j h
  unfold restoreHistJ
  unfold shapeRowOk at h5
  cases hc : j.get? "history" with
  | none => exact ⟨[], rfl⟩
  | some v =>
    rw [hc] at h5
    cases v with
    | null => exact ⟨[], rfl⟩
    | obj kvs => exact restoreHist_of_shape m ord kvs (by simpa [isMapOf] using h5)
    | _ => simp [isMapOf] at h5

theorem restoreIds_error (m : Machine) : ∀ (ids : List String) (e : RErr), restoreIds m ids = .error e →
    ∃ id ∈ ids, stateById m id = none ∧ e = .stateNotFound id
  | [], e, h => by cases h
  | i :: ids, e, h => by
    simp only [restoreIds] at h
    split at h
    · rename_i hn
      cases h
      exact ⟨i, by simp, hn, rfl⟩
    · split at h
      · cases h
      · rename_i e' he
        cases h
        obtain ⟨id, hid, hn, rfl⟩ := restoreIds_error m ids _ he
        exact ⟨id, List.mem_cons_of_mem _ hid, hn, rfl⟩

/-- **after the validation only an unknown state id can fail**: a snapshot object that passed
    `_validate_snapshot_shape` is accepted, or one of the ids it lists names no state and the first such id
    is reported (`StateNotFoundError`); none of the `shape` branches of `restoreCore` is taken -/
theorem restoreWith_wellshaped (m : Machine) (ord : List Path → List Path) (kvs : List (String × J))
    (h : shapeErr (.obj kvs) = none) :
    (∃ s, restoreWith m ord (.obj kvs) = .ok s) ∨
    ∃ ids id, restoreIdsJ (.obj kvs) = .ok ids ∧ id ∈ ids ∧ stateById m id = none ∧
      restoreWith m ord (.obj kvs) = .error (.stateNotFound id) := by
  obtain ⟨h1, h2, _⟩ := shapeErr_none _ h
  obtain ⟨v1, hv1, _, hc1⟩ := shapeRowOk_required h1
  obtain ⟨v2, hv2, _, hc2⟩ := shapeRowOk_required h2
  obtain ⟨ids, hids⟩ := restoreIdsJ_of_shape _ h
  obtain ⟨hh, hhist⟩ := restoreHistJ_of_shape m ord _ h
  rw [restoreWith_obj, h]
  simp only
  unfold restoreCore
  rw [hv1, hv2, hids, hhist]
  cases v1 <;> simp [isStr] at hc1
  cases v2 <;> simp [isObj] at hc2
  dsimp only
  cases hps : restoreIds m ids with
  | ok ps => exact Or.inl ⟨_, rfl⟩
  | error e =>
    obtain ⟨id, hid, hn, rfl⟩ := restoreIds_error m ids e hps
    exact Or.inr ⟨ids, id, rfl, hid, hn, rfl⟩

theorem restore_ok_inv (m : Machine) (j : J) (s : St) (h : restore m j = .ok s) :
    (∃ kvs, j = .obj kvs) ∧ (∃ c, j.get? "context" = some (.obj c) ∧ s.ctx = restoreCtx c) ∧
    j.get? "status" = some (.str s.status) ∧
    (∃ ids ps, restoreIdsJ j = .ok ids ∧ restoreIds m ids = .ok ps ∧ s.cfg = closeUp ps) ∧
    restoreHistJ m (sortDI m) j = .ok s.hist ∧ s.queue = [] ∧ s.raiseDepth = 0 ∧ s.err = none :=
  restoreWith_ok_inv m (sortDI m) j s h

theorem restoreIds_ok_mem (m : Machine) : ∀ (ids : List String) (ps : List Path), restoreIds m ids = .ok ps →
    ∀ id ∈ ids, ∃ p ∈ ps, stateById m id = some p
  | [], _, _, id, hid => by cases hid
  | i :: ids, ps, h, id, hid => by
    simp only [restoreIds] at h
    split at h
    · cases h
    · rename_i p hp
      split at h
      · rename_i ps' hps
        cases h
        rcases List.mem_cons.1 hid with rfl | hmem
        · exact ⟨p, by simp, hp⟩
        · obtain ⟨q, hq, hs⟩ := restoreIds_ok_mem m ids ps' hps id hmem
          exact ⟨q, List.mem_cons_of_mem _ hq, hs⟩
      · cases h

/-- an id that names no state of the machine is never accepted: the first one is reported -/
theorem restoreIds_unknown (m : Machine) : ∀ (ids : List String), (∃ id ∈ ids, stateById m id = none) →
    ∃ id ∈ ids, stateById m id = none ∧ restoreIds m ids = .error (.stateNotFound id)
  | [], h => by obtain ⟨_, hid, _⟩ := h; cases hid
  | i :: ids, h => by
    cases hi : stateById m i with
    | none => exact ⟨i, by simp, hi, by simp [restoreIds, hi]⟩
    | some p =>
      have : ∃ id ∈ ids, stateById m id = none := by
        obtain ⟨id, hid, hn⟩ := h
        rcases List.mem_cons.1 hid with rfl | hmem
        · rw [hi] at hn; cases hn
        · exact ⟨id, hmem, hn⟩
      obtain ⟨id, hid, hn, he⟩ := restoreIds_unknown m ids this
      exact ⟨id, List.mem_cons_of_mem _ hid, hn, by simp [restoreIds, hi, he]⟩

-- ---------------------------------------------------------------------------------------------
-- 4. the equivalence of C16 (`St.equiv`: same state up to the order of `cfg`) through whole commands
-- ---------------------------------------------------------------------------------------------

/-- An invariant `P` of a run that provides the side conditions of `microstep_equiv` at every
    transition the run actually executes.  Selected candidates have an active source, and either all of
    them satisfy a static predicate `C`, or exactly one is selected and it satisfies a predicate `E` of
    the state it is selected in; from a `P`-state such a transition keeps `P`, and the configuration it
    builds has at most one active child per compound state.  `P` looks at the configuration and the
    history only.  (`SnapshotRun.lean` instantiates it from C01/C11: `P` = "`cfg` is `Legal` and every
    remembered list is a legal selection", `C` = plain or root target, `E` = history target whose owner
    is inactive.) -/
structure RunInv (m : Machine) (u : UEnv) (h : Hooks) (fl : Flavor) (P : St → Prop) (C : Cand → Prop)
    (E : St → Cand → Prop) : Prop where
  inj : ∀ s, P s → IdInj m s.cfg
  sel : ∀ s ev sel, P s → selectTransitions m s.cfg (u.genv s.ctx ev.type) ev = .ok sel →
    (∀ c ∈ sel, c.src ∈ s.cfg) ∧ ((∀ c ∈ sel, C c) ∨ ∃ c, sel = [c] ∧ E s c)
  uniq : ∀ s ev c, P s → (C c ∨ E s c) → c.src ∈ s.cfg → (planTransition m s.cfg s.hist c).internal = false →
    CompUniq (runPlan h fl m ev (planTransition m s.cfg s.hist c) s).cfg [] m.root
  step : ∀ s ev c, P s → (C c ∨ E s c) → c.src ∈ s.cfg →
    P (execute h fl m ev (planTransition m s.cfg s.hist c) s)
  frame : ∀ s t, s.cfg = t.cfg → s.hist = t.hist → P s → P t

section lift
variable {m : Machine} {u : UEnv} {h : Hooks} {fl : Flavor} {P : St → Prop} {C : Cand → Prop}
  {E : St → Cand → Prop}

theorem fail_hist' (s : St) (e : EErr) : (s.fail e).hist = s.hist := by
  unfold St.fail; split <;> rfl

theorem RunInv.fail (hP : RunInv m u h fl P C E) (s : St) (e : EErr) (hs : P s) : P (s.fail e) :=
  hP.frame s _ (fail_cfg s e).symm (fail_hist' s e).symm hs

theorem selFold_equiv' (hok : HooksOK h) (hh : HooksPerm m h) (ev : Ev) (hP : RunInv m u h fl P C E) (b : Bool) :
    ∀ (l : List Cand) {s s' : St}, St.equiv m s s' → P s → ((∀ c ∈ l, C c) ∨ ∃ c, l = [c] ∧ E s c) →
      (b = false → l.length ≤ 1 ∧ ∀ c ∈ l, c.src ∈ s.cfg) →
      St.equiv m
        (l.foldl (fun s c => if s.err.isSome then s else if finished s.status then s
          else if b && !(s.cfg.contains c.src) then s
          else execute h fl m ev (planTransition m s.cfg s.hist c) s) s)
        (l.foldl (fun s c => if s.err.isSome then s else if finished s.status then s
          else if b && !(s.cfg.contains c.src) then s
          else execute h fl m ev (planTransition m s.cfg s.hist c) s) s') ∧
      P (l.foldl (fun s c => if s.err.isSome then s else if finished s.status then s
          else if b && !(s.cfg.contains c.src) then s
          else execute h fl m ev (planTransition m s.cfg s.hist c) s) s) := by
  intro l
  induction l with
  | nil => intro s s' he hs _ _; exact ⟨he, hs⟩
  | cons c l ih =>
    intro s s' he hs hC hb
    simp only [List.foldl_cons]
    -- whatever happens to `c`, the candidates after it are covered by the static predicate
    have hCl : ∀ (t : St), (∀ c' ∈ l, C c') ∨ ∃ c', l = [c'] ∧ E t c' := by
      intro t
      left
      rcases hC with hC | ⟨c0, h0, _⟩
      · exact fun c' hc' => hC c' (List.mem_cons_of_mem _ hc')
      · have : l = [] := (List.cons.inj h0).2
        subst this; intro c' hc'; cases hc'
    have hCc : C c ∨ E s c := by
      rcases hC with hC | ⟨c0, h0, hE⟩
      · exact Or.inl (hC c (by simp))
      · have : c = c0 := (List.cons.inj h0).1
        subst this; exact Or.inr hE
    have hbl : b = false → l.length ≤ 1 ∧ ∀ c' ∈ l, c'.src ∈ s.cfg := by
      intro hbf
      obtain ⟨h1, h2⟩ := hb hbf
      refine ⟨?_, fun c' hc' => h2 c' (List.mem_cons_of_mem _ hc')⟩
      simp only [List.length_cons] at h1; omega
    by_cases h1 : s.err.isSome = true
    · have h1' : s'.err.isSome = true := he.err ▸ h1
      rw [if_pos h1, if_pos h1']; exact ih he hs (hCl s) hbl
    · have h1' : ¬ s'.err.isSome = true := he.err ▸ h1
      rw [if_neg h1, if_neg h1']
      by_cases h3 : finished s.status = true
      · have h3' : finished s'.status = true := he.status ▸ h3
        rw [if_pos h3, if_pos h3']; exact ih he hs (hCl s) hbl
      have h3' : ¬ finished s'.status = true := he.status ▸ h3
      rw [if_neg h3, if_neg h3']
      by_cases h2 : (b && !(s.cfg.contains c.src)) = true
      · have h2' : (b && !(s'.cfg.contains c.src)) = true := he.cfg.contains_eq ▸ h2
        rw [if_pos h2, if_pos h2']; exact ih he hs (hCl s) hbl
      · have h2' : ¬ (b && !(s'.cfg.contains c.src)) = true := he.cfg.contains_eq ▸ h2
        rw [if_neg h2, if_neg h2']
        have hsrc : c.src ∈ s.cfg := by
          cases hbv : b with
          | false => exact (hb hbv).2 c (by simp)
          | true =>
            rw [hbv] at h2
            simp only [Bool.true_and, Bool.not_eq_true', Bool.not_eq_false] at h2
            simpa using h2
        refine ih (microstep_equiv hok hh fl ev c he (hP.inj s hs) (hP.uniq s ev c hs hCc hsrc))
          (hP.step s ev c hs hCc hsrc) (hCl _) ?_
        intro hbf
        obtain ⟨h3, _⟩ := hb hbf
        have : l = [] := by
          cases l with
          | nil => rfl
          | cons _ _ => simp at h3
        subst this
        exact ⟨by simp, fun _ hx => by cases hx⟩

/-- **one event** -/
theorem processEvent_equiv' (hok : HooksOK h) (hh : HooksPerm m h) (ev : Ev) (hP : RunInv m u h fl P C E)
    {s s' : St} (he : St.equiv m s s') (hs : P s) :
    St.equiv m (processEvent h fl m u ev s) (processEvent h fl m u ev s') ∧ P (processEvent h fl m u ev s) := by
  unfold processEvent
  rw [← select_equiv m u ev ev.type he (hP.inj s hs)]
  split
  · exact ⟨he.fail _, hP.fail _ _ hs⟩
  · rename_i sel hsel
    obtain ⟨hS1, hS2⟩ := hP.sel s ev sel hs hsel
    refine selFold_equiv' hok hh ev hP _ sel he hs hS2 ?_
    intro hb
    refine ⟨?_, hS1⟩
    simp only [decide_eq_false_iff_not, Nat.not_lt] at hb
    exact hb

/-- **the eventless loop** -/
theorem transientLoop_equiv' (hok : HooksOK h) (hh : HooksPerm m h) (hP : RunInv m u h fl P C E) :
    ∀ (fuel : Nat) {s s' : St}, St.equiv m s s' → P s →
      St.equiv m (transientLoop h fl m u fuel s) (transientLoop h fl m u fuel s') ∧
        P (transientLoop h fl m u fuel s) := by
  intro fuel
  induction fuel with
  | zero => intro s s' he hs; exact ⟨he, hs⟩
  | succ f ih =>
    intro s s' he hs
    unfold transientLoop
    by_cases h1 : s.err.isSome = true
    · have h1' : s'.err.isSome = true := he.err ▸ h1
      rw [if_pos h1, if_pos h1']; exact ⟨he, hs⟩
    · have h1' : ¬ s'.err.isSome = true := he.err ▸ h1
      rw [if_neg h1, if_neg h1', ← select_equiv m u (.user "") "" he (hP.inj s hs)]
      split
      · exact ⟨he.fail _, hP.fail _ _ hs⟩
      · split
        · obtain ⟨h2, h3⟩ := processEvent_equiv' hok hh (.user "") hP he hs
          exact ih h2 h3
        · exact ⟨he, hs⟩
end lift

-- SYNC ----------------------------------------------------------------------------------------------
section sync
variable {m : Machine} {u : UEnv} {P : St → Prop} {C : Cand → Prop} {E : St → Cand → Prop}

theorem drainLoop_equiv (hP : RunInv m u (hooksFlagged u m) .sync P C E) :
    ∀ (fuel c : Nat) {s s' : St}, St.equiv m s s' → P s →
      St.equiv m (drainLoop m u fuel c s) (drainLoop m u fuel c s') ∧ P (drainLoop m u fuel c s) := by
  intro fuel
  induction fuel with
  | zero =>
    intro c s s' he hs
    rw [drainLoop_zero, drainLoop_zero, ← he.queue]
    split
    · exact ⟨he, hs⟩
    · exact ⟨he.setQueue _, hP.frame s _ rfl rfl hs⟩
  | succ b ih =>
    intro c s s' he hs
    cases hq : s.queue with
    | nil =>
      have hq' : s'.queue = [] := he.queue ▸ hq
      rw [drainLoop_nil m u b c s hq, drainLoop_nil m u b c s' hq']
      exact ⟨he, hs⟩
    | cons q rest =>
      have hq' : s'.queue = q :: rest := he.queue ▸ hq
      by_cases hst : s.status = "running"
      · have hst' : s'.status = "running" := he.status ▸ hst
        cases ht : syncTrips m c q with
        | true =>
          rw [drainLoop_trip m u b c s q rest hq hst ht, drainLoop_trip m u b c s' q rest hq' hst' ht]
          have e1 : St.equiv m (syncPurge s) (syncPurge s') := by
            unfold syncPurge; rw [← he.queue]; exact he.setQueue _
          exact ih 0 e1 (hP.frame s _ rfl rfl hs)
        | false =>
          rw [drainLoop_step m u b c s q rest hq hst ht, drainLoop_step m u b c s' q rest hq' hst' ht]
          have e1 : St.equiv m (emit ("#recv:" ++ q.ev.type) { s with queue := rest })
              (emit ("#recv:" ++ q.ev.type) { s' with queue := rest }) := (he.setQueue rest).emit _
          have p1 : P (emit ("#recv:" ++ q.ev.type) { s with queue := rest }) := hP.frame s _ rfl rfl hs
          obtain ⟨e2, p2⟩ := processEvent_equiv' (hooksFlagged_ok u m) (hooksFlagged_perm u m) q.ev hP e1 p1
          obtain ⟨e3, p3⟩ := transientLoop_equiv' (hooksFlagged_ok u m) (hooksFlagged_perm u m) hP m.maxIterations e2 p2
          have e3' : St.equiv m (drainMacro m u q.ev { s with queue := rest }) (drainMacro m u q.ev { s' with queue := rest }) := e3
          have p3' : P (drainMacro m u q.ev { s with queue := rest }) := p3
          by_cases herr : (drainMacro m u q.ev { s with queue := rest }).err.isSome = true
          · have herr' := e3'.err ▸ herr
            rw [if_pos herr, if_pos herr']; exact ⟨e3', p3'⟩
          · have herr' := e3'.err ▸ herr
            rw [if_neg herr, if_neg herr']; exact ih _ e3' p3'
      · have hst' : ¬ s'.status = "running" := he.status ▸ hst
        rw [drainLoop_not_running m u b c hst, drainLoop_not_running m u b c hst', ← he.queue]
        split
        · exact ⟨he, hs⟩
        · exact ⟨he.setQueue _, hP.frame s _ rfl rfl hs⟩

theorem drainFuel_congr (m : Machine) {s s' : St} (h : s.queue = s'.queue) : drainFuel m s = drainFuel m s' := by
  unfold drainFuel; rw [h]

theorem syncSend_equiv (hP : RunInv m u (hooksFlagged u m) .sync P C E) (e : Ev) {s s' : St}
    (he : St.equiv m s s') (hs : P s) :
    St.equiv m (syncSend m u e s) (syncSend m u e s') ∧ P (syncSend m u e s) := by
  unfold syncSend sndUnflagged drainFlagged
  by_cases hst : s.status = "running"
  · have hst' : s'.status = "running" := he.status ▸ hst
    rw [if_pos hst, if_pos hst', ← he.queue,
      drainFuel_congr m (s := { s' with queue := s.queue ++ [⟨e, false⟩] }) (s' := { s with queue := s.queue ++ [⟨e, false⟩] }) rfl]
    exact drainLoop_equiv hP _ _ (he.setQueue _) (hP.frame s _ rfl rfl hs)
  · have hst' : ¬ s'.status = "running" := he.status ▸ hst
    rw [if_neg hst, if_neg hst']; exact ⟨he, hs⟩
end sync

-- ASYNC ---------------------------------------------------------------------------------------------
section async
variable {m : Machine} {u : UEnv} {P : St → Prop} {C : Cand → Prop} {E : St → Cand → Prop}

theorem asyncChainEnd_equiv (hP : RunInv m u (hooksAsync u m) .async P C E) (b : Nat) {s s' : St}
    (he : St.equiv m s s') (hs : P s) :
    St.equiv m (asyncChainEnd b s) (asyncChainEnd b s') ∧ P (asyncChainEnd b s) := by
  unfold asyncChainEnd
  rw [← he.raiseDepth, ← he.queue]
  split
  · exact ⟨(he.setRaiseDepth 0).setQueue s.queue, hP.frame s _ rfl rfl hs⟩
  · exact ⟨he, hs⟩

theorem asyncPurge_equiv (hP : RunInv m u (hooksAsync u m) .async P C E) {s s' : St}
    (he : St.equiv m s s') (hs : P s) :
    St.equiv m (asyncPurge s) (asyncPurge s') ∧ P (asyncPurge s) := by
  unfold asyncPurge
  rw [← he.queue]
  exact ⟨(he.setRaiseDepth 0).setQueue _, hP.frame s _ rfl rfl hs⟩

theorem asyncProcess_equiv (hP : RunInv m u (hooksAsync u m) .async P C E) (e : Ev) {s s' : St}
    (he : St.equiv m s s') (hs : P s) :
    St.equiv m (asyncProcess m u e s) (asyncProcess m u e s') ∧ P (asyncProcess m u e s) := by
  unfold asyncProcess
  rw [← he.raiseDepth]
  have e1 : St.equiv m (emit ("#recv:" ++ e.type) s) (emit ("#recv:" ++ e.type) s') := he.emit _
  have p1 : P (emit ("#recv:" ++ e.type) s) := hP.frame s _ rfl rfl hs
  obtain ⟨e2, p2⟩ := processEvent_equiv' (hooksAsync_ok u m) (hooksAsync_perm u m) e hP e1 p1
  obtain ⟨e3, p3⟩ := transientLoop_equiv' (hooksAsync_ok u m) (hooksAsync_perm u m) hP m.maxIterations e2 p2
  simp only
  generalize transientLoop (hooksAsync u m) .async m u m.maxIterations
    (processEvent (hooksAsync u m) .async m u e (emit ("#recv:" ++ e.type) s)) = r at e3 p3
  generalize transientLoop (hooksAsync u m) .async m u m.maxIterations
    (processEvent (hooksAsync u m) .async m u e (emit ("#recv:" ++ e.type) s')) = r' at e3
  apply asyncChainEnd_equiv hP
  · by_cases herr : r.err.isSome = true
    · have herr' : r'.err.isSome = true := e3.err ▸ herr
      rw [if_pos herr, if_pos herr', ← e3.errors]
      exact ⟨e3.cfg, e3.hist, e3.queue, e3.status, e3.trace, rfl, e3.ctx, e3.raiseDepth, rfl, e3.expCut⟩
    · have herr' : ¬ r'.err.isSome = true := e3.err ▸ herr
      rw [if_neg herr, if_neg herr']
      exact e3
  · split
    · exact hP.frame r _ rfl rfl p3
    · exact p3

theorem asyncStep_equiv (hP : RunInv m u (hooksAsync u m) .async P C E) (q : QEv) {s s' : St}
    (he : St.equiv m s s') (hs : P s) :
    St.equiv m (asyncStep m u q s) (asyncStep m u q s') ∧ P (asyncStep m u q s) := by
  unfold asyncStep
  rw [← he.raiseDepth]
  obtain ⟨e0, p0⟩ := asyncPurge_equiv hP he hs
  by_cases hcut : s.raiseDepth > m.maxIterations
  · rw [if_pos hcut, if_pos hcut]
    split
    · exact ⟨e0, p0⟩
    · exact asyncProcess_equiv hP q.ev e0 p0
  · rw [if_neg hcut, if_neg hcut]
    exact asyncProcess_equiv hP q.ev he hs

theorem asyncDrain_equiv (hP : RunInv m u (hooksAsync u m) .async P C E) :
    ∀ (fuel : Nat) {s s' : St}, St.equiv m s s' → P s →
      St.equiv m (asyncDrain m u fuel s) (asyncDrain m u fuel s') ∧ P (asyncDrain m u fuel s) := by
  intro fuel
  induction fuel with
  | zero =>
    intro s s' he hs
    simp only [asyncDrain]
    rw [← he.queue, ← he.status]
    split
    · exact ⟨he, hs⟩
    · exact ⟨(he.setStatus "HANG").setQueue s.queue, hP.frame s _ rfl rfl hs⟩
  | succ f ih =>
    intro s s' he hs
    by_cases hst : s.status = "running"
    · have hst' : s'.status = "running" := he.status ▸ hst
      cases hq : s.queue with
      | nil =>
        have hq' : s'.queue = [] := he.queue ▸ hq
        simp only [asyncDrain, hst, hst', hq, hq', ne_eq, not_true_eq_false, if_false]
        exact ⟨he, hs⟩
      | cons q rest =>
        have hq' : s'.queue = q :: rest := he.queue ▸ hq
        simp only [asyncDrain, hst, hst', hq, hq', ne_eq, not_true_eq_false, if_false]
        obtain ⟨e2, p2⟩ := asyncStep_equiv hP q ((he.setQueue rest).setStatus "running") (hP.frame s _ rfl rfl hs)
        exact ih e2 p2
    · have hst' : ¬ s'.status = "running" := he.status ▸ hst
      simp only [asyncDrain, hst, hst', ne_eq, not_false_eq_true, if_true]
      exact ⟨he, hs⟩

theorem asyncSend_equiv (hP : RunInv m u (hooksAsync u m) .async P C E) (e : Ev) {s s' : St}
    (he : St.equiv m s s') (hs : P s) :
    St.equiv m (asyncSend m u e s) (asyncSend m u e s') ∧ P (asyncSend m u e s) := by
  unfold asyncSend
  by_cases hst : s.status = "running"
  · have hst' : s'.status = "running" := he.status ▸ hst
    rw [if_pos hst, if_pos hst', ← he.queue]
    exact asyncDrain_equiv hP _ (he.setQueue _) (hP.frame s _ rfl rfl hs)
  · have hst' : ¬ s'.status = "running" := he.status ▸ hst
    rw [if_neg hst, if_neg hst']; exact ⟨he, hs⟩
end async

-- both engines ------------------------------------------------------------------------------------
/-- the hooks the engine of flavour `fl` processes a sent event with -/
def hooksOf (fl : Flavor) (u : UEnv) (m : Machine) : Hooks :=
  match fl with
  | .sync => hooksFlagged u m
  | .async => hooksAsync u m

theorem send_equiv {m : Machine} {u : UEnv} {P : St → Prop} {C : Cand → Prop} {E : St → Cand → Prop} (fl : Flavor)
    (hP : RunInv m u (hooksOf fl u m) fl P C E) (e : Ev) {s s' : St} (he : St.equiv m s s') (hs : P s) :
    St.equiv m (send fl m u e s) (send fl m u e s') ∧ P (send fl m u e s) := by
  cases fl with
  | sync => exact syncSend_equiv hP e he hs
  | async => exact asyncSend_equiv hP e he hs

/-- what the observer forgets between two commands: the trace, the error flag and the failure count of
    the previous command (the driver's `runCmd`, the harness's `log.clear()`) — and `_expansion_cut`,
    which is dead between commands (the code resets it at the next top-level built-in before any read) -/
def obsReset (s : St) : St := { s with trace := [], err := none, errors := 0, expCut := false }

/-- one command as observed: `send`, from a cleared observation -/
def cmdO (fl : Flavor) (m : Machine) (u : UEnv) (s : St) (e : Ev) : St := send fl m u e (obsReset s)

/-- **snapshot equivalence**: same configuration as a set, same history, context, status, queue and
    chain-breaker counter; nothing is said about what the previous command logged -/
def SnapEquiv (m : Machine) (s s' : St) : Prop := St.equiv m (obsReset s) (obsReset s')

theorem SnapEquiv.of_equiv {m : Machine} {s s' : St} (h : St.equiv m s s') : SnapEquiv m s s' :=
  ⟨h.cfg, h.hist, h.queue, h.status, TraceEq.nil, rfl, h.ctx, h.raiseDepth, rfl, rfl⟩

/-- **the bisimulation step**: one more command keeps equivalent states equivalent — now including
    everything that command logged (trace records in order, error flag, failure count) -/
theorem cmdO_equiv {m : Machine} {u : UEnv} {P : St → Prop} {C : Cand → Prop} {E : St → Cand → Prop} (fl : Flavor)
    (hP : RunInv m u (hooksOf fl u m) fl P C E) (e : Ev) {s s' : St} (he : SnapEquiv m s s') (hs : P s) :
    St.equiv m (cmdO fl m u s e) (cmdO fl m u s' e) ∧ P (cmdO fl m u s e) :=
  send_equiv fl hP e he (hP.frame s _ rfl rfl hs)

/-- **every continuation**: after any sequence of further commands the two runs are equivalent -/
theorem run_equiv {m : Machine} {u : UEnv} {P : St → Prop} {C : Cand → Prop} {E : St → Cand → Prop} (fl : Flavor)
    (hP : RunInv m u (hooksOf fl u m) fl P C E) : ∀ (evs : List Ev) {s s' : St}, SnapEquiv m s s' → P s →
      SnapEquiv m (evs.foldl (cmdO fl m u) s) (evs.foldl (cmdO fl m u) s') ∧ P (evs.foldl (cmdO fl m u) s)
  | [], _, _, he, hs => ⟨he, hs⟩
  | e :: evs, _, _, he, hs => by
    simp only [List.foldl_cons]
    obtain ⟨e1, p1⟩ := cmdO_equiv fl hP e he hs
    exact run_equiv fl hP evs (SnapEquiv.of_equiv e1) p1

end Snap
end XSM
