import Xsm.Model.Lifecycle
/-
The `_is_processing` protocol of `SyncInterpreter.send` executed by two threads (`XSM.SyncFlag`):
test-then-set is not mutual exclusion; test-and-set is.
-/
namespace XSM.SyncFlag

/-- invariant of the ATOMIC protocol: the flag is set exactly while a thread is inside the region, at most
    one thread is, and no thread is ever at the separate "set the flag" statement -/
def Inv (s : S) : Prop :=
  (s.flag = true ↔ (s.pcA.inRegion = true ∨ s.pcB.inRegion = true)) ∧
  ¬ (s.pcA.inRegion = true ∧ s.pcB.inRegion = true) ∧ s.pcA ≠ .setFlag ∧ s.pcB ≠ .setFlag

theorem inv_init : Inv {} := by
  unfold Inv; decide

theorem inv_step (s : S) (a : Bool) (h : Inv s) : Inv (step stmtAtomic s a) := by
  cases s with
  | mk pcA pcB flag queue processed =>
    cases a <;> cases pcA <;> cases pcB <;> cases flag <;>
      simp [Inv, step, stmtAtomic, stmt, PC.inRegion] at h ⊢ <;>
      (try (split <;> simp))

theorem inv_run : ∀ (sched : List Bool) (s : S), Inv s → Inv (run stmtAtomic sched s) := by
  intro sched
  induction sched with
  | nil => intro s h; exact h
  | cons a rest ih => intro s h; exact ih _ (inv_step s a h)

end XSM.SyncFlag
