import Xsm.Model.Runtime
/-
Concrete machines for the counter-example theorems of C08 / C09 (findings F6, F7, F55, F72-F74).
-/
namespace XSM.RTEx
open XSM

def mkSd (on aft : List (String × List Trans)) (inv : List Invoke := []) : StateDef :=
  { kind := .atomic, initial := none, entry := [], exit := [], on := on, onDone := none, after := aft,
    invoke := inv, deep := false, historyTarget := none, customId := none, tags := [] }

def tr (tid : Nat) (ev : String) (tgt : Option String) (acts : List String) (re : Bool := false) : Trans :=
  { tid, event := ev, target := tgt, guard := none, actions := acts.map (fun a => { type := a }), reenter := re, forbidden := false }

def rootSd : StateDef := { mkSd [] [] with kind := .compound, initial := some "s" }

/-- user code: the action `slow` is a coroutine (it takes 50 ms, see `exR`), every other action a marker -/
def exU : UEnv := { g := fun _ _ _ => .missing, a := fun n c _ => if n = "slow" then .isAsync c else .ok c }
def exR : REnv :=
  { delays := fun _ => none
    svc := fun n => if n = "svc" then some { coro := true, dur := 100, ok := true } else none
    dur := fun n => if n = "slow" then 50 else 0 }

/-- F6: `s` times out to `u` after 100 ms; `R` re-enters `s`; `X` runs a slow action without leaving `s` -/
def mAfter : Machine :=
  { id := "m", maxIterations := 1000, customIds := [],
    root := .mk rootSd
      [("s", .mk (mkSd [("R", [tr 0 "R" (some "s") [] true]), ("X", [tr 1 "X" none ["slow"]])]
                      [("100", [tr 2 "after.100.m.s" (some "u") []])]) []),
       ("u", .mk (mkSd [] []) [])] }

/-- X at 60 ms (busy until 110), R at 70 ms: the expiry of t = 100 is queued behind R -/
def runAfter : RT := runRT .async mAfter exU exR [(60, .send "X"), (70, .send "R")] 400 100

/-- the same inputs without the slow action in the way: R at 70 ms restarts the delay -/
def runAfterIdle : RT := runRT .async mAfter exU exR [(70, .send "R")] 150 100

/-- F7: `s` invokes a 100 ms service whose `onDone` leads to `d` -/
def mInvoke : Machine :=
  { id := "m", maxIterations := 1000, customIds := [],
    root := .mk rootSd
      [("s", .mk (mkSd [("R", [tr 0 "R" (some "s") [] true]), ("X", [tr 1 "X" none ["slow"]])] []
                      [{ id := "i", src := some "svc", onDone := [tr 2 "done.invoke.i" (some "d") ["handled"]], onError := [] }]) []),
       ("d", .mk (mkSd [] []) [])] }

def runInvoke : RT := runRT .async mInvoke exU exR [(60, .send "X"), (70, .send "R")] 400 100

/-- F55: one delay with two alternatives, the first one (targetless) always wins -/
def mAlts : Machine :=
  { id := "m", maxIterations := 1000, customIds := [],
    root := .mk rootSd
      [("s", .mk (mkSd [] [("100", [tr 0 "after.100.m.s" none ["tick"], tr 1 "after.100.m.s" (some "u") []])]) []),
       ("u", .mk (mkSd [] []) [])] }

def runAlts : RT := runRT .async mAlts exU exR [] 300 100

/-! F72 / F73 / F74: `stop()` arriving INSIDE a macrostep (the interpreter's own task is suspended in it) -/

def mk (a : String) : ActionRef := { type := a }

/-- F73 (async, no slow action): `s` (entry / exit markers) times out to `u` after 300 ms; `R` re-enters `s`. Since `s` owns a
    timer, the exit of `s` awaits its cancellation (`cancel_by_owner`): a suspension window inside the macrostep -/
def mStop : Machine :=
  { id := "m", maxIterations := 1000, customIds := [],
    root := .mk rootSd
      [("s", .mk { mkSd [("R", [tr 0 "R" (some "s") ["t:s:R"] true])] [("300", [tr 1 "after.300.m.s" (some "u") ["af:s:0"]])] with
                   entry := [mk "en:s"], exit := [mk "ex:s"] } []),
       ("u", .mk (mkSd [] []) [])] }

/-- `R` and `stop` in the same instant t = 50 (the input first): the stop lands inside the `await` of the exit of `s`.
    Horizon 200: before the re-armed timer (due at 350) expires -/
def runStopInside : RT := runRT .async mStop exU exR [(50, .send "R"), (50, .stop)] 200 100
/-- the same run up to t = 400: the timer armed behind the stop has expired meanwhile (its `send` is refused) -/
def runStopInsideLate : RT := runRT .async mStop exU exR [(50, .send "R"), (50, .stop)] 400 100
/-- the same `stop` one millisecond later, BETWEEN macrosteps: nothing is left -/
def runStopBetween : RT := runRT .async mStop exU exR [(50, .send "R"), (51, .stop)] 200 100

/-- F74 (async): `s` owns a (long) timer and leaves for `b` on `GO`; `b` invokes the 100 ms coroutine service `svc` -/
def mStopSvc : Machine :=
  { id := "m", maxIterations := 1000, customIds := [],
    root := .mk rootSd
      [("s", .mk { mkSd [("GO", [tr 0 "GO" (some "b") ["t:s:GO"]])] [("5000", [tr 1 "after.5000.m.s" none ["af:s:0"]])] with
                   entry := [mk "en:s"], exit := [mk "ex:s"] } []),
       ("b", .mk { mkSd [] [] [{ id := "i", src := some "svc", onDone := [tr 2 "done.invoke.i" (some "s") ["od:b:0"]], onError := [] }] with
                   entry := [mk "en:b"], exit := [mk "ex:b"] } [])] }

/-- `GO` and `stop` in the same instant t = 50: the stop lands inside the `await` of the exit of `s` -/
def runStopSvc : RT := runRT .async mStopSvc exU exR [(50, .send "GO"), (50, .stop)] 400 100

/-- F73s / F74s (sync): `a` --GO--> `b`; the exit of `a` begins with the blocking action `slow` (50 ms); `b` declares a
    300 ms timer and invokes the plain service `psvc` -/
def exUs : UEnv := { g := fun _ _ _ => .missing, a := fun _ c _ => .ok c }
def exRs : REnv :=
  { delays := fun _ => none
    svc := fun n => if n = "psvc" then some { coro := false, dur := 0, ok := true } else none
    dur := fun n => if n = "slow" then 50 else 0 }
def rootSdA : StateDef := { mkSd [] [] with kind := .compound, initial := some "a" }
def mStopSync : Machine :=
  { id := "m", maxIterations := 1000, customIds := [],
    root := .mk rootSdA
      [("a", .mk { mkSd [("GO", [tr 0 "GO" (some "b") ["t:a:GO"]])] [] with entry := [mk "en:a"], exit := [mk "slow", mk "ex:a"] } []),
       ("b", .mk { mkSd [] [("300", [tr 1 "after.300.m.b" (some "a") ["af:b:0"]])]
                     [{ id := "ib0", src := some "psvc", onDone := [tr 2 "done.invoke.ib0" none ["od:b:0"]], onError := [] }] with
                   entry := [mk "en:b"], exit := [mk "ex:b"] } [])] }

/-- `GO` at t = 100 (the exit of `a` blocks until 150), `stop` from another thread at t = 120 -/
def runStopSync : RT := runRT .sync mStopSync exUs exRs [(100, .send "GO"), (120, .stop)] 300 100

end XSM.RTEx
