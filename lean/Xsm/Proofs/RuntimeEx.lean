import Xsm.Model.Runtime
/-
Concrete machines for the counter-example theorems of C08 / C09 (findings F6, F7, F55).
-/
namespace XSM.RTEx
open XSM

def mkSd (on aft : List (String × List Trans)) (inv : List Invoke := []) : StateDef :=
  { kind := .atomic, initial := none, entry := [], exit := [], on := on, onDone := none, after := aft,
    invoke := inv, deep := false, historyTarget := none, customId := none, tags := [] }

def tr (tid : Nat) (ev : String) (tgt : Option String) (acts : List String) (re : Bool := false) : Trans :=
  { tid, event := ev, target := tgt, guard := none, actions := acts.map (fun a => { type := a }), reenter := re, forbidden := false }

def rootSd : StateDef := { mkSd [] [] with kind := .compound, initial := some "s" }

/-- user code: the action `slow` is a coroutine (it takes 50 ms, see `exR`), every other action a marker -/
def exU : UEnv := { g := fun _ _ _ => .missing, a := fun n c _ => if n = "slow" then .isAsync c else .ok c }
def exR : REnv :=
  { delays := fun _ => none
    svc := fun n => if n = "svc" then some { coro := true, dur := 100, ok := true } else none
    dur := fun n => if n = "slow" then 50 else 0 }

/-- F6: `s` times out to `u` after 100 ms; `R` re-enters `s`; `X` runs a slow action without leaving `s` -/
def mAfter : Machine :=
  { id := "m", maxIterations := 1000, customIds := [],
    root := .mk rootSd
      [("s", .mk (mkSd [("R", [tr 0 "R" (some "s") [] true]), ("X", [tr 1 "X" none ["slow"]])]
                      [("100", [tr 2 "after.100.m.s" (some "u") []])]) []),
       ("u", .mk (mkSd [] []) [])] }

/-- X at 60 ms (busy until 110), R at 70 ms: the expiry of t = 100 is queued behind R -/
def runAfter : RT := runRT .async mAfter exU exR [(60, .send "X"), (70, .send "R")] 400 100

/-- the same inputs without the slow action in the way: R at 70 ms restarts the delay -/
def runAfterIdle : RT := runRT .async mAfter exU exR [(70, .send "R")] 150 100

/-- F7: `s` invokes a 100 ms service whose `onDone` leads to `d` -/
def mInvoke : Machine :=
  { id := "m", maxIterations := 1000, customIds := [],
    root := .mk rootSd
      [("s", .mk (mkSd [("R", [tr 0 "R" (some "s") [] true]), ("X", [tr 1 "X" none ["slow"]])] []
                      [{ id := "i", src := some "svc", onDone := [tr 2 "done.invoke.i" (some "d") ["handled"]], onError := [] }]) []),
       ("d", .mk (mkSd [] []) [])] }

def runInvoke : RT := runRT .async mInvoke exU exR [(60, .send "X"), (70, .send "R")] 400 100

/-- F55: one delay with two alternatives, the first one (targetless) always wins -/
def mAlts : Machine :=
  { id := "m", maxIterations := 1000, customIds := [],
    root := .mk rootSd
      [("s", .mk (mkSd [] [("100", [tr 0 "after.100.m.s" none ["tick"], tr 1 "after.100.m.s" (some "u") []])]) []),
       ("u", .mk (mkSd [] []) [])] }

def runAlts : RT := runRT .async mAlts exU exR [] 300 100

end XSM.RTEx
