import Xsm.Proofs.Run
/-
Helper lemmas for C10 (done-ness, `onDone`, completion).  Everything is about the executable model
(`Xsm/Model/Engine.lean`); nothing here changes it.
-/
namespace XSM.Done
open XSM XSM.Spec

/-! ## 1. done-ness (`_is_state_done`) -/

theorem doneNode_final (cfg : List Path) (p : Path) (d : StateDef) (kids : List (String × SNode))
    (h : d.kind = .final) : doneNode cfg p (.mk d kids) = true := by
  simp [doneNode, h]

theorem doneNode_atomic (cfg : List Path) (p : Path) (d : StateDef) (kids : List (String × SNode))
    (h : d.kind = .atomic) : doneNode cfg p (.mk d kids) = false := by
  simp [doneNode, h]

theorem doneNode_history (cfg : List Path) (p : Path) (d : StateDef) (kids : List (String × SNode))
    (h : d.kind = .history) : doneNode cfg p (.mk d kids) = false := by
  simp [doneNode, h]

theorem doneNode_parallel (cfg : List Path) (p : Path) (d : StateDef) (kids : List (String × SNode))
    (h : d.kind = .parallel) : doneNode cfg p (.mk d kids) = doneRegions cfg p kids := by
  simp [doneNode, h]

/-- the first active child of `p` in the order of the configuration
    (`next(s for s in self._active_state_nodes if s.parent == state_node)`) -/
def firstChild (cfg : List Path) (p : Path) : Option Path :=
  cfg.find? (fun q => q != [] && q.dropLast == p)

theorem doneNode_compound_raw (cfg : List Path) (p : Path) (d : StateDef) (kids : List (String × SNode))
    (h : d.kind = .compound) :
    doneNode cfg p (.mk d kids) =
      match firstChild cfg p with
      | some ch => doneKid cfg p (ch.getLast?.getD "") kids
      | none => false := by
  simp only [doneNode, h, firstChild]
  rfl

/-- looking a child up by key, then asking whether it is done -/
theorem doneKid_eq (cfg : List Path) (p : Path) (k : String) :
    ∀ kids : List (String × SNode),
      doneKid cfg p k kids =
        match findKid k kids with
        | some c => doneNode cfg (p ++ [k]) c
        | none => false := by
  intro kids
  induction kids with
  | nil => simp [doneKid, findKid]
  | cons kc rest ih =>
    obtain ⟨k', c⟩ := kc
    by_cases hk : k' = k
    · subst hk; simp [doneKid, findKid]
    · simp only [doneKid, findKid, hk, if_false]; exact ih

theorem isChild_iff (p q : Path) :
    (q != [] && q.dropLast == p) = true ↔ ∃ k, q = p ++ [k] := by
  constructor
  · intro h
    simp only [Bool.and_eq_true, bne_iff_ne, ne_eq, beq_iff_eq] at h
    obtain ⟨hne, hd⟩ := h
    refine ⟨q.getLast hne, ?_⟩
    rw [← hd]; exact (List.dropLast_concat_getLast hne).symm
  · rintro ⟨k, rfl⟩
    simp

theorem firstChild_some {cfg : List Path} {p ch : Path} (h : firstChild cfg p = some ch) :
    ch ∈ cfg ∧ ∃ k, ch = p ++ [k] ∧ ch.getLast?.getD "" = k := by
  unfold firstChild at h
  have h1 := List.mem_of_find?_eq_some h
  have h2 := List.find?_some h
  obtain ⟨k, rfl⟩ := (isChild_iff p ch).1 h2
  exact ⟨h1, k, rfl, by simp⟩

theorem firstChild_none {cfg : List Path} {p : Path} (h : firstChild cfg p = none) (k : String) :
    (p ++ [k]) ∉ cfg := by
  unfold firstChild at h
  intro hm
  have := List.find?_eq_none.1 h _ hm
  exact this ((isChild_iff p _).2 ⟨k, rfl⟩)

/-- with exactly one active child, that child is the one found -/
theorem firstChild_unique {cfg : List Path} {p : Path} {k : String} (hk : (p ++ [k]) ∈ cfg)
    (hu : ∀ k', (p ++ [k']) ∈ cfg → k' = k) : firstChild cfg p = some (p ++ [k]) := by
  cases hf : firstChild cfg p with
  | none => exact absurd hk (firstChild_none hf k)
  | some ch =>
    obtain ⟨hm, k', rfl, _⟩ := firstChild_some hf
    rw [hu k' hm]

/-- **compound, in general**: the done-ness of the first active child found (false when there is
    none, or when the active path names no child of the state) -/
theorem doneNode_compound_first (cfg : List Path) (p : Path) (d : StateDef) (kids : List (String × SNode))
    (h : d.kind = .compound) :
    doneNode cfg p (.mk d kids) =
      match firstChild cfg p with
      | some ch =>
        (match findKid (ch.getLast?.getD "") kids with
         | some c => doneNode cfg ch c
         | none => false)
      | none => false := by
  rw [doneNode_compound_raw cfg p d kids h]
  cases hf : firstChild cfg p with
  | none => rfl
  | some ch =>
    obtain ⟨_, k, rfl, hk⟩ := firstChild_some hf
    simp only [hk, doneKid_eq]

/-- **compound, legal configuration**: exactly one child key `k` is active -/
theorem doneNode_compound (cfg : List Path) (p : Path) (d : StateDef) (kids : List (String × SNode))
    (h : d.kind = .compound) (k : String) (child : SNode) (hc : findKid k kids = some child)
    (hk : (p ++ [k]) ∈ cfg) (hu : ∀ k', (p ++ [k']) ∈ cfg → k' = k) :
    doneNode cfg p (.mk d kids) = doneNode cfg (p ++ [k]) child := by
  rw [doneNode_compound_first cfg p d kids h, firstChild_unique hk hu]
  simp [hc]

/-- a compound state none of whose children is active is not done -/
theorem doneNode_compound_no_child (cfg : List Path) (p : Path) (d : StateDef) (kids : List (String × SNode))
    (h : d.kind = .compound) (hn : ∀ k, (p ++ [k]) ∉ cfg) : doneNode cfg p (.mk d kids) = false := by
  rw [doneNode_compound_first cfg p d kids h]
  cases hf : firstChild cfg p with
  | none => rfl
  | some ch =>
    obtain ⟨hm, k, rfl, _⟩ := firstChild_some hf
    exact absurd hm (hn k)

/-- a region is active when some active state lies in it -/
def regionActive (cfg : List Path) (r : Path) : Prop := ∃ q ∈ cfg, r <+: q

theorem any_prefix_iff (cfg : List Path) (r : Path) :
    cfg.any (fun q => r.isPrefixOf q) = true ↔ regionActive cfg r := by
  simp [regionActive, List.any_eq_true]

theorem doneRegions_iff (cfg : List Path) (p : Path) :
    ∀ kids : List (String × SNode),
      doneRegions cfg p kids = true ↔
        ∀ kc ∈ kids, kc.2.kind ≠ .history →
          regionActive cfg (p ++ [kc.1]) ∧ doneNode cfg (p ++ [kc.1]) kc.2 = true := by
  intro kids
  induction kids with
  | nil => simp [doneRegions]
  | cons kc rest ih =>
    obtain ⟨k, c⟩ := kc
    rw [doneRegions, Bool.and_eq_true, ih]
    simp only [List.mem_cons, forall_eq_or_imp]
    apply and_congr_left'
    by_cases hh : c.kind = .history
    · simp [hh]
    · have : (c.kind == Kind.history) = false := by simpa using hh
      simp only [this, Bool.false_eq_true, if_false, Bool.and_eq_true, any_prefix_iff, ne_eq, hh,
        not_false_eq_true, forall_const]

/-- history children do not take part -/
theorem doneRegions_filter (cfg : List Path) (p : Path) (kids : List (String × SNode)) :
    doneRegions cfg p kids = doneRegions cfg p (kids.filter (fun kc => kc.2.kind != .history)) := by
  rw [Bool.eq_iff_iff, doneRegions_iff, doneRegions_iff]
  simp only [List.mem_filter, bne_iff_ne, ne_eq]
  constructor
  · intro h kc hkc hh; exact h kc hkc.1 hh
  · intro h kc hkc hh; exact h kc ⟨hkc, hh⟩ hh

/-! ## 2. the strict ancestors of a state, nearest first -/

/-- `final_state.parent`, its parent, …, the root -/
def strictAncestors (fin : Path) : List Path := (chainUp fin).drop 1

theorem chainUp_pairwise (p : Path) :
    (chainUp p).Pairwise (fun a b => b <+: a ∧ b.length < a.length) := by
  simp only [chainUp, List.pairwise_map]
  have h := @List.pairwise_lt_range (p.length + 1)
  have hmem : ∀ i ∈ List.range (p.length + 1), i < p.length + 1 := fun i hi => List.mem_range.1 hi
  generalize List.range (p.length + 1) = l at h hmem
  induction h with
  | nil => exact List.Pairwise.nil
  | @cons a l' hx _ ih =>
    refine List.Pairwise.cons ?_ (ih (fun i hi => hmem i (List.mem_cons_of_mem _ hi)))
    intro b hb
    have h1 := hx b hb
    have h2 := hmem a (by simp)
    have h3 := hmem b (List.mem_cons_of_mem _ hb)
    refine ⟨List.take_prefix_take_left (by omega), ?_⟩
    simp only [List.length_take]
    omega

theorem chainUp_cons (p : Path) : chainUp p = p :: strictAncestors p := by
  have : ∃ tl, chainUp p = p :: tl := by
    refine ⟨(List.range p.length).map (fun i => p.take (p.length - (i + 1))), ?_⟩
    simp [chainUp, List.range_succ_eq_map, Function.comp_def]
  obtain ⟨tl, h⟩ := this
  simp [strictAncestors, h]

theorem mem_chainUp_iff {p q : Path} : q ∈ chainUp p ↔ q <+: p := by
  constructor
  · intro h
    simp only [chainUp, List.mem_map, List.mem_range] at h
    obtain ⟨i, _, rfl⟩ := h
    exact List.take_prefix _ _
  · intro h
    have hl := h.length_le
    simp only [chainUp, List.mem_map, List.mem_range]
    refine ⟨p.length - q.length, by omega, ?_⟩
    have : p.length - (p.length - q.length) = q.length := by omega
    rw [this]
    exact (List.prefix_iff_eq_take.1 h).symm

theorem mem_strictAncestors {p q : Path} : q ∈ strictAncestors p ↔ q <+: p ∧ q ≠ p := by
  have hc := chainUp_cons p
  have hp := chainUp_pairwise p
  rw [hc, List.pairwise_cons] at hp
  constructor
  · intro h
    have h1 : q ∈ chainUp p := by rw [hc]; exact List.mem_cons_of_mem _ h
    refine ⟨mem_chainUp_iff.1 h1, ?_⟩
    intro he
    have := (hp.1 q h).2
    rw [he] at this
    omega
  · rintro ⟨h1, h2⟩
    have := mem_chainUp_iff.2 h1
    rw [hc, List.mem_cons] at this
    rcases this with h | h
    · exact absurd h h2
    · exact h

theorem strictAncestors_pairwise (p : Path) :
    (strictAncestors p).Pairwise (fun a b => b <+: a ∧ b.length < a.length) := by
  have hp := chainUp_pairwise p
  rw [chainUp_cons, List.pairwise_cons] at hp
  exact hp.2

theorem strictAncestors_single (k : String) : strictAncestors [k] = [[]] := by
  simp [strictAncestors, chainUp, List.range_succ_eq_map]

theorem strictAncestors_nil : strictAncestors [] = [] := by
  simp [strictAncestors, chainUp]

/-- the first element of the ancestor list that satisfies `P` is the NEAREST such strict ancestor -/
theorem find_strictAncestors_iff (P : Path → Bool) (fin a : Path) :
    (strictAncestors fin).find? P = some a ↔
      (a <+: fin ∧ a ≠ fin) ∧ P a = true ∧
        ∀ b, a <+: b → b ≠ a → b <+: fin → b ≠ fin → P b = false := by
  rw [List.find?_eq_some_iff_append]
  constructor
  · rintro ⟨hPa, as, bs, hl, has⟩
    have hmem : a ∈ strictAncestors fin := by rw [hl]; simp
    refine ⟨mem_strictAncestors.1 hmem, hPa, ?_⟩
    intro b hab hne hbf hbne
    have hb : b ∈ strictAncestors fin := mem_strictAncestors.2 ⟨hbf, hbne⟩
    rw [hl, List.mem_append, List.mem_cons] at hb
    rcases hb with hb | hb | hb
    · simpa using has b hb
    · exact absurd hb hne
    · have hp := strictAncestors_pairwise fin
      rw [hl, List.pairwise_append] at hp
      have := (List.pairwise_cons.1 hp.2.1).1 b hb
      have := hab.length_le
      omega
  · rintro ⟨hmem, hPa, hnear⟩
    refine ⟨hPa, ?_⟩
    obtain ⟨as, bs, hl⟩ := List.append_of_mem (mem_strictAncestors.2 hmem)
    refine ⟨as, bs, hl, ?_⟩
    intro x hx
    have hp := strictAncestors_pairwise fin
    rw [hl, List.pairwise_append] at hp
    have hxa := hp.2.2 x hx a (by simp)
    have hxm : x ∈ strictAncestors fin := by rw [hl]; simp [hx]
    obtain ⟨hxf, hxne⟩ := mem_strictAncestors.1 hxm
    have hne : x ≠ a := by intro he; rw [he] at hxa; omega
    simp [hnear x hxa.1 hne hxf hxne]

theorem find_strictAncestors_none (P : Path → Bool) (fin : Path) :
    (strictAncestors fin).find? P = none ↔ ∀ b, b <+: fin → b ≠ fin → P b = false := by
  rw [List.find?_eq_none]
  constructor
  · intro h b h1 h2; simpa using h b (mem_strictAncestors.2 ⟨h1, h2⟩)
  · intro h b hb
    obtain ⟨h1, h2⟩ := mem_strictAncestors.1 hb
    simp [h b h1 h2]

/-! ## 3. `_check_and_fire_on_done` -/

/-- `ancestor.on_done and self._is_state_done(ancestor)` -/
def onDoneReady (m : Machine) (cfg : List Path) (a : Path) : Bool :=
  match m.defAt a with
  | some d => d.onDone.isSome && isStateDone m cfg a
  | none => false

/-- the ancestor whose done event is raised: the nearest strict ancestor that declares `onDone` and is done -/
def firingAncestor (m : Machine) (cfg : List Path) (fin : Path) : Option Path :=
  (strictAncestors fin).find? (onDoneReady m cfg)

/-- the done event of state `a` -/
def doneEv (m : Machine) (a : Path) : Ev := .done ("done.state." ++ m.idOf a) (m.idOf a)

theorem checkAndFireOnDone_eq (h : Hooks) (m : Machine) (fin : Path) (s : St) :
    checkAndFireOnDone h m fin s =
      match firingAncestor m s.cfg fin with
      | some a => h.snd (doneEv m a) s
      | none => if fin.length = 1 then complete s else s := rfl

theorem onDoneReady_iff {m : Machine} {cfg : List Path} {a : Path} :
    onDoneReady m cfg a = true ↔
      (∃ d, m.defAt a = some d ∧ d.onDone.isSome = true) ∧ isStateDone m cfg a = true := by
  unfold onDoneReady
  cases m.defAt a with
  | none => simp
  | some d => simp

/-! ## 4. completion, refusal -/

theorem complete_eq (s : St) :
    complete s = if s.status = "running" then { s with status := "done" } else s := rfl

theorem complete_of_running {s : St} (h : s.status = "running") :
    complete s = { s with status := "done" } := by simp [complete, h]

theorem complete_of_not_running {s : St} (h : s.status ≠ "running") : complete s = s := by
  simp [complete, h]

theorem complete_idem (s : St) : complete (complete s) = complete s := by
  by_cases h : s.status = "running"
  · rw [complete_of_running h]; exact complete_of_not_running (by simp)
  · rw [complete_of_not_running h, complete_of_not_running h]

theorem enqueueQ_not_running (b : Bool) (e : Ev) {s : St} (h : s.status ≠ "running") :
    enqueueQ b e s = s := by simp [enqueueQ, h]

theorem enqueueQ_running (b : Bool) (e : Ev) {s : St} (h : s.status = "running") :
    enqueueQ b e s = { s with queue := s.queue ++ [⟨e, b⟩] } := by simp [enqueueQ, h]

theorem enqueueQ_status (b : Bool) (e : Ev) (s : St) : (enqueueQ b e s).status = s.status := by
  unfold enqueueQ; split <;> rfl

theorem asyncDrain_not_running (m : Machine) (u : UEnv) (n : Nat) {s : St} (h : s.status ≠ "running") :
    asyncDrain m u n s = s := by
  cases n with
  | zero => simp [asyncDrain, h]
  | succ n => simp [asyncDrain, h]

theorem syncSend_not_running (m : Machine) (u : UEnv) (e : Ev) {s : St} (h : s.status ≠ "running") :
    syncSend m u e s = s := by simp [syncSend, sndUnflagged, h]

theorem asyncSend_not_running (m : Machine) (u : UEnv) (e : Ev) {s : St} (h : s.status ≠ "running") :
    asyncSend m u e s = s := by simp [asyncSend, h]

theorem send_not_running (fl : Flavor) (m : Machine) (u : UEnv) (e : Ev) {s : St} (h : s.status ≠ "running") :
    send fl m u e s = s := by
  cases fl with
  | sync => exact syncSend_not_running m u e h
  | async => exact asyncSend_not_running m u e h

theorem cmd_not_running (fl : Flavor) (m : Machine) (u : UEnv) (e : Ev) {s : St} (h : s.status ≠ "running") :
    cmd fl m u s e = { s with err := none } := by
  unfold cmd
  exact send_not_running fl m u e (s := { s with err := none }) h

theorem foldl_cmd_not_running (fl : Flavor) (m : Machine) (u : UEnv) :
    ∀ (evs : List Ev) (s : St), s.status ≠ "running" →
      evs.foldl (cmd fl m u) s = if evs = [] then s else { s with err := none } := by
  intro evs
  induction evs with
  | nil => intro s _; rfl
  | cons e evs ih =>
    intro s h
    simp only [List.foldl_cons]
    rw [cmd_not_running fl m u e h, ih _ (by exact h)]
    cases evs <;> simp

/-! ## 5. actions never change `status` -/

/-- the send hooks leave `status` alone -/
structure HooksStatusOK (h : Hooks) : Prop where
  snd_status : ∀ e s, (h.snd e s).status = s.status
  raise_status : ∀ e s, (h.sndRaise e s).status = s.status

theorem hooksFlagged_statusOK (u : UEnv) (m : Machine) : HooksStatusOK (hooksFlagged u m) :=
  ⟨enqueueQ_status true, enqueueQ_status true⟩
theorem hooksAsyncStart_statusOK (u : UEnv) (m : Machine) : HooksStatusOK (hooksAsyncStart u m) :=
  ⟨enqueueQ_status false, enqueueQ_status false⟩
theorem hooksAsync_statusOK (u : UEnv) (m : Machine) : HooksStatusOK (hooksAsync u m) :=
  ⟨fun e s => by simp [hooksAsync, mkHooks, enqueueQ_status],
   fun e s => by simp [hooksAsync, mkHooks, enqueueQ_status]⟩

theorem fail_status (s : St) (e : EErr) : (s.fail e).status = s.status := by
  unfold St.fail; split <;> rfl

theorem assignStep_status (canon : String) (cut : Bool) (a : ActionRef) (s : St) :
    (assignStep canon cut a s).status = s.status := by
  unfold assignStep; (repeat' split) <;> rfl

theorem finishBuiltin_status (h : Hooks) (hok : HooksStatusOK h) (canon : String) (a : ActionRef) (s2 : St) :
    (finishBuiltin h canon a s2).1.status = s2.status := by
  unfold finishBuiltin
  split
  · rfl
  · split
    · split
      · exact hok.raise_status _ _
      · rfl
    · rfl

theorem builtinStep_status (h : Hooks) (hok : HooksStatusOK h) (nested : List ActionRef → String → St → St)
    (hn : ∀ as ev s, (nested as ev s).status = s.status) (cut : Bool) (evType canon : String)
    (a : ActionRef) (s : St) : (builtinStep h nested cut evType canon a s).1.status = s.status := by
  unfold builtinStep
  simp only
  split
  · rfl
  · rw [finishBuiltin_status h hok]
    split
    · exact assignStep_status _ _ _ _
    · rw [hn]; exact assignStep_status _ _ _ _

theorem actStep_status (h : Hooks) (hok : HooksStatusOK h) (nested : List ActionRef → String → St → St)
    (hn : ∀ as ev s, (nested as ev s).status = s.status) (cut : Bool) (evType : String)
    (acc : St × Bool) (a : ActionRef) : (actStep h nested cut evType acc a).1.status = acc.1.status := by
  unfold actStep
  split
  · rfl
  · split
    · rfl
    · split
      · exact fail_status _ _
      · rfl
    · rfl
    · split
      · exact fail_status _ _
      · exact builtinStep_status h hok nested hn cut evType _ a acc.1

theorem foldl_actStep_status (h : Hooks) (hok : HooksStatusOK h) (nested : List ActionRef → String → St → St)
    (hn : ∀ as ev s, (nested as ev s).status = s.status) (cut : Bool) (evType : String) :
    ∀ (as : List ActionRef) (acc : St × Bool),
      (as.foldl (actStep h nested cut evType) acc).1.status = acc.1.status := by
  intro as
  induction as with
  | nil => intro acc; rfl
  | cons a as ih =>
    intro acc
    simp only [List.foldl_cons]
    rw [ih, actStep_status h hok nested hn]

theorem execActionsF_status (h : Hooks) (hok : HooksStatusOK h) :
    ∀ (fuel : Nat) (as : List ActionRef) (evType : String) (s : St),
      (execActionsF h fuel as evType s).status = s.status := by
  intro fuel
  induction fuel with
  | zero =>
    intro as evType s
    unfold execActionsF
    exact foldl_actStep_status h hok _ (fun _ _ _ => rfl) true evType as (s, false)
  | succ f ih =>
    intro as evType s
    unfold execActionsF
    exact foldl_actStep_status h hok _ (fun as ev s => by rw [endExpansion_status]; exact ih as ev s) false evType as (s, false)

/-- **actions never change `status`** (user code, `assign`, `choose`, `raise`), as long as the send
    hooks do not -/
theorem execActions_status (h : Hooks) (hok : HooksStatusOK h) (evType : String) (as : List ActionRef) (s : St) :
    (execActions h as evType s).status = s.status := execActionsF_status h hok _ as evType s

theorem addActive_status (p : Path) (s : St) : (addActive p s).status = s.status := by
  unfold addActive; split <;> rfl

/-! ## 6. entering a final state -/

/-- entering a final state whose entry actions do not fail: add it, run the entry actions, then the
    done check (`_enter_states`) -/
theorem enterOne_final (h : Hooks) (fl : Flavor) (m : Machine) (ev : Option String) (s : St) (e : Entry)
    (d : StateDef) (hd : m.defAt e.path = some d) (hk : d.kind = .final) (herr : s.err = none)
    (hact : (execActions h d.entry (entryEvName fl m e ev) (addActive e.path s)).err = none) :
    enterOne h fl m ev s e =
      checkAndFireOnDone h m e.path (execActions h d.entry (entryEvName fl m e ev) (addActive e.path s)) := by
  unfold enterOne
  simp [herr, hd, hact, hk]

/-- what the three engine hooks do with a done event: append it to the queue of a running machine -/
theorem hooksFlagged_snd_queue (u : UEnv) (m : Machine) (e : Ev) (s : St) :
    ((hooksFlagged u m).snd e s).queue = s.queue ++ (if s.status = "running" then [⟨e, true⟩] else []) := by
  show (enqueueQ true e s).queue = _
  unfold enqueueQ; split <;> simp
theorem hooksAsyncStart_snd_queue (u : UEnv) (m : Machine) (e : Ev) (s : St) :
    ((hooksAsyncStart u m).snd e s).queue = s.queue ++ (if s.status = "running" then [⟨e, false⟩] else []) := by
  show (enqueueQ false e s).queue = _
  unfold enqueueQ; split <;> simp
theorem hooksAsync_snd_queue (u : UEnv) (m : Machine) (e : Ev) (s : St) :
    ((hooksAsync u m).snd e s).queue = s.queue ++ (if s.status = "running" then [⟨e, true⟩] else []) := by
  show (enqueueQ true e { s with raiseDepth := s.raiseDepth + 1 }).queue = _
  unfold enqueueQ; split <;> simp

-- ---------------------------------------------------------------------------------------------
-- completion ends the macrostep: the `break` at the top of `_process_event`'s loop
-- ---------------------------------------------------------------------------------------------

theorem finished_iff (st : String) : finished st = true ↔ st ≠ "running" ∧ st ≠ "uninitialized" := by
  unfold finished; simp

theorem finished_done : finished "done" = true := by decide

/-- `processEvent` from a finished state: selection still happens (it precedes the loop), no selected
    transition executes -/
theorem processEvent_finished (h : Hooks) (fl : Flavor) (m : Machine) (u : UEnv) (ev : Ev) (s : St)
    (hf : finished s.status = true) (sel : List Cand)
    (hs : selectTransitions m s.cfg (u.genv s.ctx ev.type) ev = .ok sel) :
    processEvent h fl m u ev s = s := by
  rw [processEvent_peFold h fl m u ev s hs]
  exact peFold_finished h fl m ev _ sel s hf

/-- the loop is cut at the candidate after which the machine is finished -/
theorem peFold_cut (h : Hooks) (fl : Flavor) (m : Machine) (ev : Ev) (n : Nat) (pre post : List Cand)
    (c : Cand) (s : St) (hf : finished ((pre ++ [c]).foldl (peStep h fl m ev n) s).status = true) :
    (pre ++ c :: post).foldl (peStep h fl m ev n) s = (pre ++ [c]).foldl (peStep h fl m ev n) s := by
  have : pre ++ c :: post = (pre ++ [c]) ++ post := by simp
  rw [this, List.foldl_append]
  exact peFold_finished h fl m ev n post _ hf

-- ---------------------------------------------------------------------------------------------
-- small machines for the examples in `Xsm/Properties/C10.lean`
-- ---------------------------------------------------------------------------------------------
namespace Ex

def mkD (kind : Kind) (initial : Option String := none) (onDone : Option Trans := none)
    (entry : List String := []) (on : List (String × List Trans) := []) : StateDef :=
  { kind, initial, entry := entry.map (fun a => { type := a }), exit := [], on, onDone, after := [],
    invoke := [], deep := false, historyTarget := none, customId := none, tags := [] }

/-- a target-less `onDone` transition of the state with id `sid`, running action `act` -/
def odT (tid : Nat) (sid : String) (act : String) : Trans :=
  { tid, event := "done.state." ++ sid, target := none, guard := none, actions := [{ type := act }],
    reenter := false, forbidden := false }

def fin : SNode := .mk (mkD .final) []
def atom : SNode := .mk (mkD .atomic) []
def histN : SNode := .mk (mkD .history) []

/-
n (compound, initial P)
└─ P (parallel)
   ├─ A (parallel)
   │  ├─ A1 (compound): a1, a1f (final)
   │  └─ A2 (compound): a2, a2f (final)
   ├─ B (compound): b, bf (final)
   └─ H (history)
-/
def nestedA : SNode :=
  .mk (mkD .parallel) [
    ("A1", .mk (mkD .compound (some "a1")) [("a1", atom), ("a1f", fin)]),
    ("A2", .mk (mkD .compound (some "a2")) [("a2", atom), ("a2f", fin)])]
def nestedP : SNode :=
  .mk (mkD .parallel) [
    ("A", nestedA),
    ("B", .mk (mkD .compound (some "b")) [("b", atom), ("bf", fin)]),
    ("H", histN)]
def nestedM : Machine :=
  { id := "n", maxIterations := 10, customIds := [], root := .mk (mkD .compound (some "P")) [("P", nestedP)] }

/-- `A1` and `B` are in their final children, `A2` is not -/
def nestedCfg : List Path :=
  [[], ["P"], ["P", "A"], ["P", "A", "A1"], ["P", "A", "A1", "a1f"], ["P", "A", "A2"], ["P", "A", "A2", "a2"],
   ["P", "B"], ["P", "B", "bf"]]
/-- … and now `A2` too -/
def nestedCfgAll : List Path :=
  [[], ["P"], ["P", "A"], ["P", "A", "A1"], ["P", "A", "A1", "a1f"], ["P", "A", "A2"], ["P", "A", "A2", "a2f"],
   ["P", "B"], ["P", "B", "bf"]]

/-
s (compound, initial P)
└─ P (parallel)  onDone: pDone
   ├─ A (compound)  onDone: aDone :  a1, af (final)
   └─ B (compound):  b1, bf (final)
-/
def shadowM : Machine :=
  { id := "s", maxIterations := 10, customIds := [],
    root := .mk (mkD .compound (some "P")) [
      ("P", .mk (mkD .parallel none (some (odT 0 "s.P" "pDone"))) [
        ("A", .mk (mkD .compound (some "a1") (some (odT 1 "s.P.A" "aDone"))) [("a1", atom), ("af", fin)]),
        ("B", .mk (mkD .compound (some "b1")) [("b1", atom), ("bf", fin)])])] }
/-- region `B` already final; `af`, the last missing final state, has just been added -/
def shadowS : St :=
  { cfg := [[], ["P"], ["P", "A"], ["P", "B"], ["P", "B", "bf"], ["P", "A", "af"]], status := "running" }

/-- `{"id":"m","initial":"f","onDone":{"actions":["x"]},"states":{"f":{"type":"final"}}}` -/
def rootOnDoneM : Machine :=
  { id := "m", maxIterations := 10, customIds := [],
    root := .mk (mkD .compound (some "f") (some (odT 0 "m" "x"))) [("f", fin)] }
/-- `f` has just been added to the configuration -/
def rootOnDoneS : St := { cfg := [[], ["f"]], status := "running" }
/-- the same without the root `onDone`; the final state has an entry action -/
def plainM : Machine :=
  { id := "m", maxIterations := 10, customIds := [],
    root := .mk (mkD .compound (some "f")) [("f", .mk (mkD .final none none ["bye"]) [])] }
def goT : Trans :=
  { tid := 0, event := "GO", target := some "f", guard := none, actions := [{ type := "going" }],
    reenter := false, forbidden := false }
/-- starts in `a`, reaches the top-level final state `f` on `GO` -/
def goM : Machine :=
  { id := "m", maxIterations := 10, customIds := [],
    root := .mk (mkD .compound (some "a")) [
      ("a", .mk (mkD .atomic none none [] [("GO", [goT])]) []),
      ("f", .mk (mkD .final none none ["bye"]) [])] }

/-
the witness of finding F26 (`findings/F26_transitions_after_completion.json`):
m (compound, initial p)   on D -> #m.p.r1.b  / tr::D:0
├─ f (final)  entry en:f, exit ex:f
└─ p (parallel)
   ├─ r1 (compound): a, b
   └─ r2 (compound): x   on D -> #m.f  / tr:p.r2.x:D:0
-/
def f26RootT : Trans :=
  { tid := 0, event := "D", target := some "#m.p.r1.b", guard := none, actions := [{ type := "tr::D:0" }],
    reenter := false, forbidden := false }
def f26XT : Trans :=
  { tid := 1, event := "D", target := some "#m.f", guard := none, actions := [{ type := "tr:p.r2.x:D:0" }],
    reenter := false, forbidden := false }
def f26M : Machine :=
  { id := "m", maxIterations := 10, customIds := [],
    root := .mk (mkD .compound (some "p") none [] [("D", [f26RootT])]) [
      ("f", .mk { mkD .final none none ["en:f"] with exit := [{ type := "ex:f" }] } []),
      ("p", .mk (mkD .parallel) [
        ("r1", .mk (mkD .compound (some "a")) [("a", atom), ("b", atom)]),
        ("r2", .mk (mkD .compound (some "x")) [("x", .mk (mkD .atomic none none [] [("D", [f26XT])]) [])])])] }
/-- the configuration after `start()` -/
def f26S : St :=
  { cfg := [[], ["p"], ["p", "r1"], ["p", "r1", "a"], ["p", "r2"], ["p", "r2", "x"]], status := "running" }
/-- the two candidates event `D` selects there, in execution order (deepest source first) -/
def f26Sel : List Cand := [⟨["p", "r2", "x"], f26XT⟩, ⟨[], f26RootT⟩]

/-- user code: every guard true, every action a marker that succeeds -/
def exU : UEnv := { g := fun _ _ _ => .t, a := fun _ c _ => .ok c }

def evTypes (s : St) : List String := s.queue.map (·.ev.type)

end Ex

end XSM.Done
