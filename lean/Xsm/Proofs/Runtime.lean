import Xsm.Model.Runtime
import Xsm.Proofs.Bridge
/-
Lemmas about the runtime layer (`Xsm/Model/Runtime.lean`): the invariant `Good` ("every armed timer and
every live service task belongs to the CURRENT activation of an ACTIVE owner", plus uniqueness of the
tasks' identities) and its preservation by every step of a run, for every machine, all user code,
all timing data and every agenda of external inputs.
-/
namespace XSM.RTP
open XSM

-- ghost activation counters ---------------------------------------------------------------------------
theorem actOf_bump_self (acts : List (Path × Nat)) (p : Path) : actOf (bumpAct acts p) p = actOf acts p + 1 := by
  simp [bumpAct, actOf]

theorem actOf_bump_other (acts : List (Path × Nat)) (p q : Path) (h : q ≠ p) :
    actOf (bumpAct acts p) q = actOf acts q := by
  have hpq : ¬ (p = q) := fun e => h e.symm
  simp [bumpAct, actOf, List.find?_cons, hpq]

-- the engine's two configuration-changing steps ----------------------------------------------------------
theorem mem_exitOne (h : Hooks) (hok : HooksOK h) (fl : Flavor) (m : Machine) (ev : Option String) (s : St) (p q : Path) :
    q ∈ (exitOne h fl m ev s p).cfg → q ∈ s.cfg := by
  unfold exitOne
  split
  · exact id
  · split
    · exact id
    · intro hq
      rw [mem_delActive, execActions_cfg h hok] at hq
      exact hq.1

theorem exitOne_removes (h : Hooks) (hok : HooksOK h) (fl : Flavor) (m : Machine) (ev : Option String) (s : St) (p q : Path)
    (hq : q ∈ s.cfg) (hne : q ≠ p) : q ∈ (exitOne h fl m ev s p).cfg := by
  unfold exitOne
  split
  · exact hq
  · split
    · exact hq
    · rw [mem_delActive, execActions_cfg h hok]; exact ⟨hq, hne⟩

theorem mem_enterOne_of_mem (h : Hooks) (hok : HooksOK h) (fl : Flavor) (m : Machine) (ev : Option String) (s : St) (e : Entry)
    (q : Path) (hq : q ∈ s.cfg) : q ∈ (enterOne h fl m ev s e).cfg := by
  unfold enterOne
  split
  · exact hq
  · split
    · exact hq
    · simp only
      have hc := execActions_cfg h hok
      split
      · rw [hc]; exact mem_addActive.mpr (Or.inl hq)
      · split
        · rw [(checkDone_cfg_err h hok m e.path _).1, hc]; exact mem_addActive.mpr (Or.inl hq)
        · rw [hc]; exact mem_addActive.mpr (Or.inl hq)

theorem enterOne_adds (h : Hooks) (hok : HooksOK h) (fl : Flavor) (m : Machine) (ev : Option String) (s : St) (e : Entry)
    (d : StateDef) (hd : m.defAt e.path = some d) (he : s.err.isSome = false) : e.path ∈ (enterOne h fl m ev s e).cfg := by
  unfold enterOne
  simp only [he, hd, Bool.false_eq_true, if_false]
  have hc := execActions_cfg h hok
  split
  · rw [hc]; exact mem_addActive.mpr (Or.inr rfl)
  · split
    · rw [(checkDone_cfg_err h hok m e.path _).1, hc]; exact mem_addActive.mpr (Or.inr rfl)
    · rw [hc]; exact mem_addActive.mpr (Or.inr rfl)

theorem addActive_of_mem (p : Path) (s : St) (h : p ∈ s.cfg) : addActive p s = s := by
  unfold addActive
  have : s.cfg.contains p = true := by simpa using h
  rw [if_pos this]

theorem addActive_idem (p : Path) (s : St) : addActive p (addActive p s) = addActive p s :=
  addActive_of_mem p _ (mem_addActive.mpr (Or.inr rfl))

theorem enterOne_addActive (h : Hooks) (fl : Flavor) (m : Machine) (ev : Option String) (s : St) (e : Entry)
    (d : StateDef) (hd : m.defAt e.path = some d) (he : s.err.isSome = false) :
    enterOne h fl m ev (addActive e.path s) e = enterOne h fl m ev s e := by
  unfold enterOne
  simp only [addActive_err, he, hd, Bool.false_eq_true, if_false, addActive_idem]

-- the invariant --------------------------------------------------------------------------------------------
/-- what identifies "the timer of a delay key in one activation of its state": owner, activation index of
    the owner at arming time, index of the delay key among the owner's arming ones -/
def tkey (t : Timer) : Path × Nat × Nat := (t.owner, t.act, t.slot)

/-- every armed timer / live service task belongs to the current activation of an active owner; task
    identities (`seq`) are unique, below the allocation counter, and a delivered timer is gone for good;
    a delivered timer belongs to an activation that has begun, and no (owner, activation, delay key) has
    two timers, armed or delivered -/
structure Good (rt : RT) : Prop where
  cur : ∀ t ∈ rt.timers, t.owner ∈ rt.st.cfg ∧ t.act = actOf rt.acts t.owner
  curI : ∀ i ∈ rt.invs, i.owner ∈ rt.st.cfg ∧ i.act = actOf rt.acts i.owner
  armed : ∀ t ∈ rt.timers, t.armed ≤ rt.now
  seqT : ∀ t ∈ rt.timers, t.seq < rt.nextId
  seqF : ∀ t ∈ rt.fired, t.seq < rt.nextId
  seqI : ∀ i ∈ rt.invs, i.seq < rt.nextId
  ndT : (rt.timers.map (·.seq)).Nodup
  ndF : (rt.fired.map (·.seq)).Nodup
  ndI : (rt.invs.map (·.seq)).Nodup
  disj : ∀ t ∈ rt.timers, ∀ f ∈ rt.fired, t.seq ≠ f.seq
  actF : ∀ f ∈ rt.fired, f.act ≤ actOf rt.acts f.owner
  /-- armed or delivered, two timers of the same (owner, activation, delay key) are the same task -/
  uniq : ∀ x y : Timer, (x ∈ rt.timers ∨ x ∈ rt.fired) → (y ∈ rt.timers ∨ y ∈ rt.fired) → tkey x = tkey y → x.seq = y.seq

/-- the invariant is claimed for runs without rollback and without entry of an already active state
    (ghost flag `clean`); see the header of `Properties/C08.lean` -/
def Inv (rt : RT) : Prop := rt.clean = true → Good rt

/-- `b` differs from `a` only in fields the invariant does not read (log, queue, status, context …);
    time may have advanced -/
structure Frame (a b : RT) : Prop where
  cfg : b.st.cfg = a.st.cfg
  timers : b.timers = a.timers
  invs : b.invs = a.invs
  nextId : b.nextId = a.nextId
  acts : b.acts = a.acts
  fired : b.fired = a.fired
  clean : b.clean = a.clean
  now : a.now ≤ b.now
  err : b.st.err = a.st.err

theorem Frame.refl (a : RT) : Frame a a := ⟨rfl, rfl, rfl, rfl, rfl, rfl, rfl, Nat.le_refl _, rfl⟩
theorem Frame.trans {a b c : RT} (h1 : Frame a b) (h2 : Frame b c) : Frame a c :=
  ⟨h2.cfg.trans h1.cfg, h2.timers.trans h1.timers, h2.invs.trans h1.invs, h2.nextId.trans h1.nextId,
   h2.acts.trans h1.acts, h2.fired.trans h1.fired, h2.clean.trans h1.clean, Nat.le_trans h1.now h2.now, h2.err.trans h1.err⟩

theorem Good.frame {a b : RT} (f : Frame a b) (g : Good a) : Good b := by
  refine ⟨?_, ?_, ?_, ?_, ?_, ?_, ?_, ?_, ?_, ?_, ?_, ?_⟩
  · intro t ht; rw [f.timers] at ht; rw [f.cfg, f.acts]; exact g.cur t ht
  · intro i hi; rw [f.invs] at hi; rw [f.cfg, f.acts]; exact g.curI i hi
  · intro t ht; rw [f.timers] at ht; exact Nat.le_trans (g.armed t ht) f.now
  · intro t ht; rw [f.timers] at ht; rw [f.nextId]; exact g.seqT t ht
  · intro t ht; rw [f.fired] at ht; rw [f.nextId]; exact g.seqF t ht
  · intro i hi; rw [f.invs] at hi; rw [f.nextId]; exact g.seqI i hi
  · rw [f.timers]; exact g.ndT
  · rw [f.fired]; exact g.ndF
  · rw [f.invs]; exact g.ndI
  · intro t ht x hx; rw [f.timers] at ht; rw [f.fired] at hx; exact g.disj t ht x hx
  · intro x hx; rw [f.fired] at hx; rw [f.acts]; exact g.actF x hx
  · intro x y hx hy; rw [f.timers, f.fired] at hx hy; exact g.uniq x y hx hy

theorem Inv.frame {a b : RT} (f : Frame a b) (g : Inv a) : Inv b := by
  intro hc; rw [f.clean] at hc; exact (g hc).frame f

theorem frame_rlog (r : String) (rt : RT) : Frame rt (rlog r rt) :=
  ⟨rfl, rfl, rfl, rfl, rfl, rfl, rfl, Nat.le_refl _, rfl⟩

theorem frame_setNow (t : Nat) (rt : RT) : Frame rt (setNow t rt) := by
  refine ⟨rfl, rfl, rfl, rfl, rfl, rfl, rfl, ?_, rfl⟩
  simp only [setNow]; split <;> omega

theorem setNow_now_ge (t : Nat) (rt : RT) : t ≤ (setNow t rt).now := by
  simp only [setNow]; split <;> omega

/-- replacing the engine state by one with the same configuration -/
theorem frame_st (rt : RT) (s : St) (h : s.cfg = rt.st.cfg) (he : s.err = rt.st.err) : Frame rt { rt with st := s } :=
  ⟨h, rfl, rfl, rfl, rfl, rfl, rfl, Nat.le_refl _, he⟩

theorem frame_deliver (e : Ev) (rt : RT) : Frame rt (deliver e rt) :=
  (frame_st rt (enqueue e rt.st) (enqueue_cfg e rt.st) (enqueue_err e rt.st)).trans (frame_rlog _ _)

theorem frame_deliverQ (b : Bool) (e : Ev) (rt : RT) : Frame rt (deliverQ b e rt) :=
  (frame_st rt (enqueueQ b e rt.st) (enqueueQ_cfg b e rt.st) (enqueueQ_err b e rt.st)).trans (frame_rlog _ _)

theorem stFail_cfg (s : St) : (stFail s).cfg = s.cfg := by
  unfold stFail; split <;> rfl
theorem stFail_err (s : St) : (stFail s).err = s.err := by
  unfold stFail; split <;> rfl

-- window-like steps ------------------------------------------------------------------------------------------
def tcore (t : Timer) : Path × Nat × Nat × Nat × Nat := (t.owner, t.act, t.armed, t.seq, t.slot)
def icore (i : Invocation) : Path × Nat × Nat := (i.owner, i.act, i.seq)

/-- what may happen while the interpreter's own task is suspended: the configuration, the error flag and
    the activation counters stay; timers and service tasks only disappear (expired / finished) or change
    their wake-up data; the invariant is kept -/
structure Shrink (a b : RT) : Prop where
  cfg : b.st.cfg = a.st.cfg
  err : b.st.err = a.st.err
  acts : b.acts = a.acts
  clean : b.clean = a.clean
  now : a.now ≤ b.now
  nextId : a.nextId ≤ b.nextId
  tsub : ∀ t ∈ b.timers, ∃ t' ∈ a.timers, tcore t' = tcore t
  isub : ∀ i ∈ b.invs, ∃ i' ∈ a.invs, icore i' = icore i
  good : Good a → Good b
  /-- a delivered timer was delivered before, or was armed -/
  fsub : ∀ f ∈ b.fired, f ∈ a.fired ∨ ∃ t' ∈ a.timers, tcore t' = tcore f

theorem Shrink.refl (a : RT) : Shrink a a :=
  ⟨rfl, rfl, rfl, rfl, Nat.le_refl _, Nat.le_refl _, fun t h => ⟨t, h, rfl⟩, fun i h => ⟨i, h, rfl⟩, id, fun _ h => Or.inl h⟩

theorem Shrink.trans {a b c : RT} (h1 : Shrink a b) (h2 : Shrink b c) : Shrink a c := by
  refine ⟨h2.cfg.trans h1.cfg, h2.err.trans h1.err, h2.acts.trans h1.acts, h2.clean.trans h1.clean,
    Nat.le_trans h1.now h2.now, Nat.le_trans h1.nextId h2.nextId, ?_, ?_, fun g => h2.good (h1.good g), ?_⟩
  · intro t ht
    obtain ⟨t1, h11, h12⟩ := h2.tsub t ht
    obtain ⟨t2, h21, h22⟩ := h1.tsub t1 h11
    exact ⟨t2, h21, h22.trans h12⟩
  · intro i hi
    obtain ⟨i1, h11, h12⟩ := h2.isub i hi
    obtain ⟨i2, h21, h22⟩ := h1.isub i1 h11
    exact ⟨i2, h21, h22.trans h12⟩
  · intro f hf
    rcases h2.fsub f hf with h | ⟨t1, h11, h12⟩
    · exact h1.fsub f h
    · obtain ⟨t2, h21, h22⟩ := h1.tsub t1 h11
      exact Or.inr ⟨t2, h21, h22.trans h12⟩

theorem Frame.shrink {a b : RT} (f : Frame a b) : Shrink a b :=
  ⟨f.cfg, f.err, f.acts, f.clean, f.now, Nat.le_of_eq f.nextId.symm,
   fun t h => ⟨t, f.timers ▸ h, rfl⟩, fun i h => ⟨i, f.invs ▸ h, rfl⟩, fun g => g.frame f, fun _ h => Or.inl (f.fired ▸ h)⟩

theorem Shrink.inv {a b : RT} (h : Shrink a b) (g : Inv a) : Inv b := by
  intro hc; rw [h.clean] at hc; exact h.good (g hc)

/-- the interleaving handler of a context is window-like -/
def WndOK (c : RCx) : Prop := ∀ d rt, Shrink rt (c.wnd d rt)

-- removing timers / service tasks keeps the invariant ----------------------------------------------------------
theorem nodup_map_filter {α β : Type} (f : α → β) (p : α → Bool) (l : List α) (h : (l.map f).Nodup) :
    ((l.filter p).map f).Nodup :=
  h.sublist ((List.filter_sublist).map f)

theorem good_filter (rt : RT) (pt : Timer → Bool) (pi : Invocation → Bool) (g : Good rt) :
    Good { rt with timers := rt.timers.filter pt, invs := rt.invs.filter pi } := by
  refine ⟨?_, ?_, ?_, ?_, g.seqF, ?_, ?_, g.ndF, ?_, ?_, g.actF, ?_⟩
  · intro t ht; exact g.cur t (List.mem_filter.mp ht).1
  · intro i hi; exact g.curI i (List.mem_filter.mp hi).1
  · intro t ht; exact g.armed t (List.mem_filter.mp ht).1
  · intro t ht; exact g.seqT t (List.mem_filter.mp ht).1
  · intro i hi; exact g.seqI i (List.mem_filter.mp hi).1
  · exact nodup_map_filter _ _ _ g.ndT
  · exact nodup_map_filter _ _ _ g.ndI
  · intro t ht; exact g.disj t (List.mem_filter.mp ht).1
  · intro x y hx hy
    exact g.uniq x y (hx.imp (fun h => (List.mem_filter.mp h).1) id) (hy.imp (fun h => (List.mem_filter.mp h).1) id)

theorem shrink_filter (rt : RT) (pt : Timer → Bool) (pi : Invocation → Bool) :
    Shrink rt { rt with timers := rt.timers.filter pt, invs := rt.invs.filter pi } :=
  ⟨rfl, rfl, rfl, rfl, Nat.le_refl _, Nat.le_refl _,
   fun t h => ⟨t, (List.mem_filter.mp h).1, rfl⟩, fun i h => ⟨i, (List.mem_filter.mp h).1, rfl⟩, good_filter rt pt pi,
   fun _ h => Or.inl h⟩

theorem filter_tt {α : Type} (l : List α) : l.filter (fun _ => true) = l := by
  induction l with
  | nil => rfl
  | cons a l ih => simp [List.filter_cons, ih]
theorem filter_ff {α : Type} (l : List α) : l.filter (fun _ => false) = [] := by
  induction l with
  | nil => rfl
  | cons a l ih => simp [List.filter_cons, ih]

/-- a timer's expiry is delivered: it moves from the armed timers to the delivered ones -/
theorem good_fire (rt : RT) (t : Timer) (ht : t ∈ rt.timers) (g : Good rt) :
    Good { rt with timers := rt.timers.filter (fun x => x.seq ≠ t.seq), fired := t :: rt.fired } := by
  refine ⟨?_, g.curI, ?_, ?_, ?_, g.seqI, ?_, ?_, g.ndI, ?_, ?_, ?_⟩
  · intro x hx; exact g.cur x (List.mem_filter.mp hx).1
  · intro x hx; exact g.armed x (List.mem_filter.mp hx).1
  · intro x hx; exact g.seqT x (List.mem_filter.mp hx).1
  · intro x hx
    rcases List.mem_cons.mp hx with h | h
    · rw [h]; exact g.seqT t ht
    · exact g.seqF x h
  · exact nodup_map_filter _ _ _ g.ndT
  · simp only [List.map_cons, List.nodup_cons]
    refine ⟨?_, g.ndF⟩
    intro hm
    obtain ⟨f, hf, hfe⟩ := List.mem_map.mp hm
    exact g.disj t ht f hf hfe.symm
  · intro x hx f hf
    have hx' := List.mem_filter.mp hx
    rcases List.mem_cons.mp hf with h | h
    · rw [h]; simpa using hx'.2
    · exact g.disj x hx'.1 f h
  · intro f hf
    rcases List.mem_cons.mp hf with h | h
    · rw [h]; exact Nat.le_of_eq (g.cur t ht).2
    · exact g.actF f h
  · intro x y hx hy
    have conv : ∀ z : Timer, (z ∈ rt.timers.filter (fun x => x.seq ≠ t.seq) ∨ z ∈ t :: rt.fired) → (z ∈ rt.timers ∨ z ∈ rt.fired) := by
      intro z hz
      rcases hz with h | h
      · exact Or.inl (List.mem_filter.mp h).1
      · rcases List.mem_cons.mp h with e | e
        · exact Or.inl (e ▸ ht)
        · exact Or.inr e
    exact g.uniq x y (conv x hx) (conv y hy)

-- primitives of a window ----------------------------------------------------------------------------------------
theorem shrink_deliver (e : Ev) (rt : RT) : Shrink rt (deliver e rt) := (frame_deliver e rt).shrink
theorem shrink_deliverQ (b : Bool) (e : Ev) (rt : RT) : Shrink rt (deliverQ b e rt) := (frame_deliverQ b e rt).shrink

theorem good_clear (rt : RT) (g : Good rt) : Good { rt with timers := [], invs := [] } := by
  have := good_filter rt (fun _ => false) (fun _ => false) g
  rw [filter_ff, filter_ff] at this
  exact this

theorem shrink_stop (rt : RT) : Shrink rt (stopRT rt) := by
  unfold stopRT
  split
  · exact Shrink.refl rt
  · refine Shrink.trans (b := { rt with st := { rt.st with status := "stopped" }, timers := [], invs := [], lt := false, lw := none }) ?_ (frame_rlog _ _).shrink
    exact ⟨rfl, rfl, rfl, rfl, Nat.le_refl _, Nat.le_refl _, fun t h => by simp at h, fun i h => by simp at h,
      fun g => by
        have := good_clear rt g
        exact ⟨this.cur, this.curI, this.armed, this.seqT, this.seqF, this.seqI, this.ndT, this.ndF, this.ndI, this.disj,
          this.actF, this.uniq⟩, fun _ h => Or.inl h⟩

theorem shrink_fire (rt : RT) (t : Timer) (ht : t ∈ rt.timers) :
    Shrink rt { rt with timers := rt.timers.filter (fun x => x.seq ≠ t.seq), fired := t :: rt.fired } :=
  ⟨rfl, rfl, rfl, rfl, Nat.le_refl _, Nat.le_refl _,
   fun x h => ⟨x, (List.mem_filter.mp h).1, rfl⟩, fun i h => ⟨i, h, rfl⟩, good_fire rt t ht,
   fun f h => (List.mem_cons.mp h).elim (fun e => Or.inr ⟨t, ht, by rw [e]⟩) Or.inl⟩

theorem shrink_dropTimer (rt : RT) (t : Timer) :
    Shrink rt { rt with timers := rt.timers.filter (fun x => x.seq ≠ t.seq) } := by
  have := shrink_filter rt (fun x => x.seq ≠ t.seq) (fun _ => true)
  rw [filter_tt] at this
  exact this

theorem shrink_fireTimerQ (fl : Flavor) (rt : RT) (t : Timer) (ht : t ∈ rt.timers) : Shrink rt (fireTimerQ fl t rt) := by
  unfold fireTimerQ
  cases fl with
  | async => exact (shrink_fire rt t ht).trans (shrink_deliver _ _)
  | sync =>
    simp only
    split
    · exact (shrink_fire rt t ht).trans (shrink_deliverQ _ _ _)
    · exact shrink_dropTimer rt t

theorem shrink_completeInv (rt : RT) (i : Invocation) : Shrink rt (completeInv i rt) := by
  unfold completeInv
  have h1 : Shrink rt { rt with invs := rt.invs.filter (fun j => j.seq ≠ i.seq) } := by
    have := shrink_filter rt (fun _ => true) (fun j => j.seq ≠ i.seq)
    rw [filter_tt] at this
    exact this
  have h2 := h1.trans ((frame_rlog ("svc-end:" ++ i.id ++ (if i.spec.ok then ":ok" else ":raise")) _).shrink.trans (shrink_deliver (doneEvOf i) _))
  simp only
  split
  · exact h2
  · exact h2.trans (frame_st _ _ (stFail_cfg _) (stFail_err _)).shrink

/-- a service task gets to run -/
theorem shrink_startOne (rt : RT) (i : Invocation) : Shrink rt (startOne rt i) := by
  unfold startOne
  have h0 : Shrink rt (rlog ("svc-start:" ++ i.id) { rt with started := (i.owner, i.id, i.act) :: rt.started }) :=
    Shrink.trans (b := { rt with started := (i.owner, i.id, i.act) :: rt.started })
      ⟨rfl, rfl, rfl, rfl, Nat.le_refl _, Nat.le_refl _, fun t h => ⟨t, h, rfl⟩, fun i h => ⟨i, h, rfl⟩,
        fun g => ⟨g.cur, g.curI, g.armed, g.seqT, g.seqF, g.seqI, g.ndT, g.ndF, g.ndI, g.disj, g.actF, g.uniq⟩,
        fun _ h => Or.inl h⟩ (frame_rlog _ _).shrink
  simp only
  split
  · refine h0.trans ?_
    generalize (rlog ("svc-start:" ++ i.id) { rt with started := (i.owner, i.id, i.act) :: rt.started }) = r
    let f : Invocation → Invocation := fun j => if j.seq = i.seq then { j with started := true, due := r.now + i.spec.dur, wseq := r.nextId } else j
    have hf : ∀ j, icore (f j) = icore j := by
      intro j; simp only [f]; split <;> rfl
    have hfo : ∀ j, (f j).owner = j.owner ∧ (f j).act = j.act ∧ (f j).seq = j.seq := by
      intro j; simp only [f]; split <;> exact ⟨rfl, rfl, rfl⟩
    have hmem : ∀ j ∈ r.invs.map f, ∃ j' ∈ r.invs, f j' = j := fun j hj => by
      obtain ⟨j', h1, h2⟩ := List.mem_map.mp hj; exact ⟨j', h1, h2⟩
    refine ⟨rfl, rfl, rfl, rfl, Nat.le_refl _, Nat.le_succ _, fun t h => ⟨t, h, rfl⟩, ?_, ?_, fun _ h => Or.inl h⟩
    · intro j hj
      obtain ⟨j', h1, h2⟩ := hmem j hj
      exact ⟨j', h1, by rw [← h2, hf]⟩
    · intro g
      refine ⟨g.cur, ?_, g.armed, fun t ht => Nat.lt_succ_of_lt (g.seqT t ht), fun t ht => Nat.lt_succ_of_lt (g.seqF t ht), ?_, g.ndT, g.ndF, ?_, g.disj,
        g.actF, g.uniq⟩
      · intro j hj
        obtain ⟨j', h1, h2⟩ := hmem j hj
        have := g.curI j' h1
        rw [← h2, (hfo j').1, (hfo j').2.1]; exact this
      · intro j hj
        obtain ⟨j', h1, h2⟩ := hmem j hj
        rw [← h2, (hfo j').2.2]; exact Nat.lt_succ_of_lt (g.seqI j' h1)
      · have : (r.invs.map f).map (·.seq) = r.invs.map (·.seq) := by
          rw [List.map_map]; apply List.map_congr_left; intro j _; exact (hfo j).2.2
        show ((r.invs.map f).map (·.seq)).Nodup
        rw [this]; exact g.ndI
  · exact h0.trans (shrink_completeInv _ i)

theorem shrink_foldl {α : Type} (f : RT → α → RT) (hf : ∀ rt a, Shrink rt (f rt a)) :
    ∀ (l : List α) (rt : RT), Shrink rt (l.foldl f rt) := by
  intro l
  induction l with
  | nil => intro rt; exact Shrink.refl rt
  | cons a l ih => intro rt; exact (hf rt a).trans (ih (f rt a))

-- timer tasks begin to sleep
theorem startTimersL_map {β : Type} (f : Timer → β) (hf : ∀ (t : Timer) n, f { t with started := true, wseq := n } = f t) :
    ∀ (ts : List Timer) (n : Nat), (startTimersL ts n).1.map f = ts.map f := by
  intro ts
  induction ts with
  | nil => intro n; rfl
  | cons t ts ih =>
    intro n
    unfold startTimersL
    split
    · simp [ih]
    · simp [ih, hf]

theorem startTimersL_ge : ∀ (ts : List Timer) (n : Nat), n ≤ (startTimersL ts n).2 := by
  intro ts
  induction ts with
  | nil => intro n; exact Nat.le_refl _
  | cons t ts ih =>
    intro n
    unfold startTimersL
    split
    · exact ih n
    · exact Nat.le_trans (Nat.le_succ n) (ih (n + 1))

theorem mem_of_map_eq {α β : Type} (f : α → β) (l1 l2 : List α) (h : l1.map f = l2.map f) (x : α) (hx : x ∈ l1) :
    ∃ y ∈ l2, f y = f x := by
  have : f x ∈ l2.map f := h ▸ List.mem_map_of_mem hx
  obtain ⟨y, hy, he⟩ := List.mem_map.mp this
  exact ⟨y, hy, he⟩

theorem shrink_startTimers (rt : RT) :
    Shrink rt { rt with timers := (startTimersL rt.timers rt.nextId).1, nextId := (startTimersL rt.timers rt.nextId).2 } := by
  have hcore := startTimersL_map tcore (fun _ _ => rfl) rt.timers rt.nextId
  have hseq := startTimersL_map (·.seq) (fun _ _ => rfl) rt.timers rt.nextId
  have hge := startTimersL_ge rt.timers rt.nextId
  refine ⟨rfl, rfl, rfl, rfl, Nat.le_refl _, hge, ?_, fun i h => ⟨i, h, rfl⟩, ?_, fun _ h => Or.inl h⟩
  · intro t ht; exact mem_of_map_eq tcore _ _ hcore t ht
  · intro g
    have hm : ∀ t ∈ (startTimersL rt.timers rt.nextId).1, ∃ t' ∈ rt.timers, tcore t' = tcore t :=
      fun t ht => mem_of_map_eq tcore _ _ hcore t ht
    refine ⟨?_, g.curI, ?_, ?_, fun t ht => Nat.lt_of_lt_of_le (g.seqF t ht) hge, fun i hi => Nat.lt_of_lt_of_le (g.seqI i hi) hge, ?_, g.ndF, g.ndI, ?_,
      g.actF, ?_⟩
    · intro t ht
      obtain ⟨t', h1, h2⟩ := hm t ht
      simp only [tcore, Prod.mk.injEq] at h2
      rw [← h2.1, ← h2.2.1]; exact g.cur t' h1
    · intro t ht
      obtain ⟨t', h1, h2⟩ := hm t ht
      simp only [tcore, Prod.mk.injEq] at h2
      rw [← h2.2.2.1]; exact g.armed t' h1
    · intro t ht
      obtain ⟨t', h1, h2⟩ := hm t ht
      simp only [tcore, Prod.mk.injEq] at h2
      rw [← h2.2.2.2.1]; exact Nat.lt_of_lt_of_le (g.seqT t' h1) hge
    · show ((startTimersL rt.timers rt.nextId).1.map (·.seq)).Nodup
      rw [hseq]; exact g.ndT
    · intro t ht f hf
      obtain ⟨t', h1, h2⟩ := hm t ht
      simp only [tcore, Prod.mk.injEq] at h2
      rw [← h2.2.2.2.1]; exact g.disj t' h1 f hf
    · intro x y hx hy hk
      have conv : ∀ z : Timer, (z ∈ (startTimersL rt.timers rt.nextId).1 ∨ z ∈ rt.fired) →
          ∃ z', (z' ∈ rt.timers ∨ z' ∈ rt.fired) ∧ tkey z' = tkey z ∧ z'.seq = z.seq := by
        intro z hz
        rcases hz with h | h
        · obtain ⟨z', h1, h2⟩ := hm z h
          simp only [tcore, Prod.mk.injEq] at h2
          exact ⟨z', Or.inl h1, by simp only [tkey, Prod.mk.injEq]; exact ⟨h2.1, h2.2.1, h2.2.2.2.2⟩, h2.2.2.2.1⟩
        · exact ⟨z, Or.inr h, rfl, rfl⟩
      obtain ⟨x', hx1, hx2, hx3⟩ := conv x hx
      obtain ⟨y', hy1, hy2, hy3⟩ := conv y hy
      rw [← hx3, ← hy3]; exact g.uniq x' y' hx1 hy1 (by rw [hx2, hy2, hk])

theorem shrink_startPending (rt : RT) : Shrink rt (startPending rt) := by
  unfold startPending
  exact (shrink_startTimers rt).trans (shrink_foldl startOne shrink_startOne _ _)

-- wake-ups --------------------------------------------------------------------------------------------------
theorem minWakeL_mem : ∀ (ws : List Wake) (w : Wake), minWakeL ws = some w → w ∈ ws := by
  intro ws
  induction ws with
  | nil => intro w h; simp [minWakeL] at h
  | cons x xs ih =>
    intro w h
    unfold minWakeL at h
    cases hm : minWakeL xs with
    | none => simp [hm] at h; rw [← h]; exact List.mem_cons_self
    | some b =>
      simp only [hm] at h
      split at h
      · injection h with h; rw [← h]; exact List.mem_cons_of_mem _ (ih b hm)
      · injection h with h; rw [← h]; exact List.mem_cons_self

theorem minWake_tm (rt : RT) (t : Timer) (h : minWake rt = some (.tm t)) : t ∈ rt.timers := by
  have := minWakeL_mem _ _ h
  unfold wakes at this
  rcases List.mem_append.mp this with h1 | h1
  · obtain ⟨t', ht', he⟩ := List.mem_map.mp h1
    injection he with he
    rw [← he]; exact (List.mem_filter.mp ht').1
  · obtain ⟨i, _, he⟩ := List.mem_map.mp h1
    cases he

theorem shrink_fireWakeQ (fl : Flavor) (rt : RT) (w : Wake) (hw : ∀ t, w = .tm t → t ∈ rt.timers) :
    Shrink rt (fireWakeQ fl w rt) := by
  unfold fireWakeQ
  cases w with
  | tm t => exact shrink_fireTimerQ fl rt t (hw t rfl)
  | iv i => exact shrink_completeInv rt i

theorem shrink_extQ (fl : Flavor) (m : Machine) (op : ExtOp) (rt : RT) : Shrink rt (extQ fl m op rt) := by
  unfold extQ
  cases op with
  | send e => exact shrink_deliverQ _ _ _
  | stop => exact shrink_stop rt
  | obs => exact (frame_rlog _ _).shrink

theorem shrink_agenda (rt : RT) (a : List (Nat × ExtOp)) : Shrink rt { rt with agenda := a } :=
  (Frame.shrink ⟨rfl, rfl, rfl, rfl, rfl, rfl, rfl, Nat.le_refl _, rfl⟩)

theorem dueWake_min (rt : RT) (uT uS : Nat) (w : Wake) (h : dueWake rt uT uS = some w) : minWake rt = some w := by
  unfold dueWake at h
  cases hm : minWake rt with
  | none => simp [hm] at h
  | some w' =>
    simp only [hm] at h
    split at h
    · injection h with h; rw [h]
    · cases h

theorem dueWake_due (rt : RT) (uT uS : Nat) (w : Wake) (h : dueWake rt uT uS = some w) : lexLt w.due w.ord uT uS = true := by
  unfold dueWake at h
  cases hm : minWake rt with
  | none => simp [hm] at h
  | some w' =>
    simp only [hm] at h
    split at h
    · rename_i hl; injection h with h; rw [← h]; exact hl
    · cases h

theorem nextOf_wake (a : List (Nat × ExtOp)) (uT : Nat) (ew : Option Wake) (w : Wake) (h : nextOf a uT ew = .wake w) :
    ew = some w := by
  unfold nextOf at h
  split at h
  · split at h
    · cases h
    · split at h
      · injection h with h; rw [h]
      · cases h
  · split at h
    · injection h with h; rw [h]
    · cases h

theorem nextOf_ext (a : List (Nat × ExtOp)) (uT : Nat) (ew : Option Wake) (t : Nat) (op : ExtOp) (rest : List (Nat × ExtOp))
    (h : nextOf a uT ew = .ext t op rest) : a = (t, op) :: rest ∧ t ≤ uT := by
  unfold nextOf at h
  split at h
  · split at h
    · rename_i hc
      injection h with h1 h2 h3
      simp only [Bool.and_eq_true, decide_eq_true_eq] at hc
      subst h1 h2 h3; exact ⟨rfl, hc.1⟩
    · split at h <;> cases h
  · split at h <;> cases h

theorem shrink_windowLoop (fl : Flavor) (m : Machine) (uT uS : Nat) :
    ∀ (fuel : Nat) (rt : RT), Shrink rt (windowLoop fl m uT uS fuel rt) := by
  intro fuel
  induction fuel with
  | zero => intro rt; exact Shrink.refl rt
  | succ fuel ih =>
    intro rt
    unfold windowLoop
    cases hn : nextOf rt.agenda uT (dueWake rt uT uS) with
    | ext t op rest =>
      exact (((shrink_agenda rt rest).trans (frame_setNow t _).shrink).trans (shrink_extQ fl m op _)).trans (ih _)
    | wake w =>
      have hw := dueWake_min rt uT uS w (nextOf_wake _ _ _ w hn)
      refine ((frame_setNow w.due rt).shrink.trans (shrink_fireWakeQ fl _ w ?_)).trans (ih _)
      intro t ht; subst ht; exact minWake_tm rt t hw
    | idle => exact Shrink.refl rt

theorem shrink_nextId (rt : RT) (n : Nat) (h : rt.nextId ≤ n) : Shrink rt { rt with nextId := n } :=
  ⟨rfl, rfl, rfl, rfl, Nat.le_refl _, h, fun t ht => ⟨t, ht, rfl⟩, fun i hi => ⟨i, hi, rfl⟩,
   fun g => ⟨g.cur, g.curI, g.armed, fun t ht => Nat.lt_of_lt_of_le (g.seqT t ht) h, fun t ht => Nat.lt_of_lt_of_le (g.seqF t ht) h,
     fun i hi => Nat.lt_of_lt_of_le (g.seqI i hi) h, g.ndT, g.ndF, g.ndI, g.disj, g.actF, g.uniq⟩, fun _ h => Or.inl h⟩

theorem shrink_callHopped (rt : RT) : Shrink rt (callHopped rt) := by
  unfold callHopped
  exact shrink_foldl startOne shrink_startOne _ _

/-- the real interleaving handler is window-like -/
theorem shrink_window (fl : Flavor) (m : Machine) (d : Nat) (rt : RT) : Shrink rt (window fl m d rt) := by
  unfold window
  cases fl with
  | sync =>
    exact (((shrink_nextId rt (rt.nextId + 1) (Nat.le_succ _)).trans (shrink_startPending _)).trans
      (shrink_windowLoop .sync m _ _ _ _)).trans (frame_setNow _ _).shrink
  | async =>
    exact (((((shrink_nextId rt (rt.nextId + 1) (Nat.le_succ _)).trans (shrink_windowLoop .async m _ _ _ _)).trans
      (shrink_callHopped _)).trans (shrink_startPending _)).trans (shrink_windowLoop .async m _ _ _ _)).trans (frame_setNow _ _).shrink

theorem wndOK_mkCx (fl : Flavor) (m : Machine) (u : UEnv) (r : REnv) : WndOK (mkCx fl m u r) :=
  fun d rt => shrink_window fl m d rt

-- the ready queue of one instant (async) ------------------------------------------------------------------------
/-- the bookkeeping of the ready queue (is the run loop alive / in the queue, the allocation counter) is not read by the
    invariant -/
theorem shrink_sched (rt : RT) (b : Bool) (o : Option Nat) (n : Nat) (h : rt.nextId ≤ n) :
    Shrink rt { rt with lt := b, lw := o, nextId := n } :=
  ⟨rfl, rfl, rfl, rfl, Nat.le_refl _, h, fun t ht => ⟨t, ht, rfl⟩, fun i hi => ⟨i, hi, rfl⟩,
   fun g => ⟨g.cur, g.curI, g.armed, fun t ht => Nat.lt_of_lt_of_le (g.seqT t ht) h, fun t ht => Nat.lt_of_lt_of_le (g.seqF t ht) h,
     fun i hi => Nat.lt_of_lt_of_le (g.seqI i hi) h, g.ndT, g.ndF, g.ndI, g.disj, g.actF, g.uniq⟩, fun _ h => Or.inl h⟩

/-- a timer task's scheduling data (has it begun to sleep, the stamp of its wake-up) change: the timer is the same -/
theorem shrink_mapTimers (rt : RT) (f : Timer → Timer) (hf : ∀ t, tcore (f t) = tcore t) (n : Nat) (hge : rt.nextId ≤ n) :
    Shrink rt { rt with timers := rt.timers.map f, nextId := n } := by
  have hcore : (rt.timers.map f).map tcore = rt.timers.map tcore := by
    rw [List.map_map]; apply List.map_congr_left; intro t _; exact hf t
  have hseq : (rt.timers.map f).map (·.seq) = rt.timers.map (·.seq) := by
    rw [List.map_map]; apply List.map_congr_left; intro t _
    have := hf t; simp only [tcore, Prod.mk.injEq] at this; exact this.2.2.2.1
  have hm : ∀ t ∈ rt.timers.map f, ∃ t' ∈ rt.timers, tcore t' = tcore t :=
    fun t ht => mem_of_map_eq tcore _ _ hcore t ht
  refine ⟨rfl, rfl, rfl, rfl, Nat.le_refl _, hge, hm, fun i h => ⟨i, h, rfl⟩, ?_, fun _ h => Or.inl h⟩
  intro g
  refine ⟨?_, g.curI, ?_, ?_, fun t ht => Nat.lt_of_lt_of_le (g.seqF t ht) hge, fun i hi => Nat.lt_of_lt_of_le (g.seqI i hi) hge, ?_, g.ndF, g.ndI, ?_,
    g.actF, ?_⟩
  · intro t ht
    obtain ⟨t', h1, h2⟩ := hm t ht
    simp only [tcore, Prod.mk.injEq] at h2
    rw [← h2.1, ← h2.2.1]; exact g.cur t' h1
  · intro t ht
    obtain ⟨t', h1, h2⟩ := hm t ht
    simp only [tcore, Prod.mk.injEq] at h2
    rw [← h2.2.2.1]; exact g.armed t' h1
  · intro t ht
    obtain ⟨t', h1, h2⟩ := hm t ht
    simp only [tcore, Prod.mk.injEq] at h2
    rw [← h2.2.2.2.1]; exact Nat.lt_of_lt_of_le (g.seqT t' h1) hge
  · show ((rt.timers.map f).map (·.seq)).Nodup
    rw [hseq]; exact g.ndT
  · intro t ht x hx
    obtain ⟨t', h1, h2⟩ := hm t ht
    simp only [tcore, Prod.mk.injEq] at h2
    rw [← h2.2.2.2.1]; exact g.disj t' h1 x hx
  · intro x y hx hy hk
    have conv : ∀ z : Timer, (z ∈ rt.timers.map f ∨ z ∈ rt.fired) →
        ∃ z', (z' ∈ rt.timers ∨ z' ∈ rt.fired) ∧ tkey z' = tkey z ∧ z'.seq = z.seq := by
      intro z hz
      rcases hz with h | h
      · obtain ⟨z', h1, h2⟩ := hm z h
        simp only [tcore, Prod.mk.injEq] at h2
        exact ⟨z', Or.inl h1, by simp only [tkey, Prod.mk.injEq]; exact ⟨h2.1, h2.2.1, h2.2.2.2.2⟩, h2.2.2.2.1⟩
      · exact ⟨z, Or.inr h, rfl, rfl⟩
    obtain ⟨x', hx1, hx2, hx3⟩ := conv x hx
    obtain ⟨y', hy1, hy2, hy3⟩ := conv y hy
    rw [← hx3, ← hy3]; exact g.uniq x' y' hx1 hy1 (by rw [hx2, hy2, hk])

/-- a service task's scheduling data (first hop done, the stamp of its next step) change: the task is the same -/
theorem shrink_mapInvs (rt : RT) (f : Invocation → Invocation) (hf : ∀ j, icore (f j) = icore j) (n : Nat) (hge : rt.nextId ≤ n) :
    Shrink rt { rt with invs := rt.invs.map f, nextId := n } := by
  have hfo : ∀ j, (f j).owner = j.owner ∧ (f j).act = j.act ∧ (f j).seq = j.seq := by
    intro j; have := hf j; simp only [icore, Prod.mk.injEq] at this; exact this
  have hmem : ∀ j ∈ rt.invs.map f, ∃ j' ∈ rt.invs, f j' = j := fun j hj => by
    obtain ⟨j', h1, h2⟩ := List.mem_map.mp hj; exact ⟨j', h1, h2⟩
  refine ⟨rfl, rfl, rfl, rfl, Nat.le_refl _, hge, fun t h => ⟨t, h, rfl⟩, ?_, ?_, fun _ h => Or.inl h⟩
  · intro j hj
    obtain ⟨j', h1, h2⟩ := hmem j hj
    exact ⟨j', h1, by rw [← h2, hf]⟩
  · intro g
    refine ⟨g.cur, ?_, g.armed, fun t ht => Nat.lt_of_lt_of_le (g.seqT t ht) hge, fun t ht => Nat.lt_of_lt_of_le (g.seqF t ht) hge, ?_, g.ndT, g.ndF, ?_, g.disj,
      g.actF, g.uniq⟩
    · intro j hj
      obtain ⟨j', h1, h2⟩ := hmem j hj
      have := g.curI j' h1
      rw [← h2, (hfo j').1, (hfo j').2.1]; exact this
    · intro j hj
      obtain ⟨j', h1, h2⟩ := hmem j hj
      rw [← h2, (hfo j').2.2]; exact Nat.lt_of_lt_of_le (g.seqI j' h1) hge
    · have : (rt.invs.map f).map (·.seq) = rt.invs.map (·.seq) := by
        rw [List.map_map]; apply List.map_congr_left; intro j _; exact (hfo j).2.2
      show ((rt.invs.map f).map (·.seq)).Nodup
      rw [this]; exact g.ndI

theorem minItemL_mem (lw : Nat) : ∀ (xs : List Item) (it : Item), minItemL lw xs = some it → it ∈ xs := by
  intro xs
  induction xs with
  | nil => intro it h; simp [minItemL] at h
  | cons x xs ih =>
    intro it h
    unfold minItemL at h
    cases hm : minItemL lw xs with
    | none => simp [hm] at h; rw [← h]; exact List.mem_cons_self
    | some b =>
      simp only [hm] at h
      split at h
      · injection h with h; rw [← h]; exact List.mem_cons_of_mem _ (ih b hm)
      · injection h with h; rw [← h]; exact List.mem_cons_self

/-- the sleeper that is woken next is an armed timer (or a live service task) -/
theorem nextItem_tm (rt : RT) (t : Timer) (h : nextItem rt = some (.wake (.tm t))) : t ∈ rt.timers := by
  have hm := minItemL_mem _ _ _ h
  unfold readyItems at hm
  simp only [List.mem_append, List.mem_map, List.mem_filter] at hm
  rcases hm with ((h1 | ⟨w, ⟨hw, _⟩, he⟩) | ⟨t', _, he⟩) | ⟨i, _, he⟩
  · cases hl : rt.lw <;> simp [hl] at h1
  · injection he with he
    subst he
    unfold wakes at hw
    rcases List.mem_append.mp hw with h2 | h2
    · obtain ⟨t', ht', e⟩ := List.mem_map.mp h2
      injection e with e
      rw [← e]; exact (List.mem_filter.mp ht').1
    · obtain ⟨i, _, e⟩ := List.mem_map.mp h2
      cases e
  · cases he
  · split at he <;> cases he

theorem shrink_runTask (it : Item) (rt : RT) (hit : ∀ t, it = .wake (.tm t) → t ∈ rt.timers) : Shrink rt (runTask it rt) := by
  unfold runTask
  cases it with
  | loop => exact Shrink.refl rt
  | wake w => exact shrink_fireWakeQ .async rt w (fun t ht => hit t (by rw [ht]))
  | tstart t =>
    have hf : ∀ x : Timer, tcore (if x.seq = t.seq then { x with started := true, wseq := rt.nextId } else x) = tcore x := by
      intro x; split <;> rfl
    exact shrink_mapTimers rt (fun x => if x.seq = t.seq then { x with started := true, wseq := rt.nextId } else x) hf _ (Nat.le_succ _)
  | hop i =>
    have hf : ∀ j : Invocation, icore (if j.seq = i.seq then { j with hopped := true, wseq := rt.nextId } else j) = icore j := by
      intro j; split <;> rfl
    exact shrink_mapInvs rt (fun j => if j.seq = i.seq then { j with hopped := true, wseq := rt.nextId } else j) hf _ (Nat.le_succ _)
  | call i => exact shrink_startOne rt i

theorem shrink_wakeLoop (rt : RT) : Shrink rt (wakeLoop rt) := by
  unfold wakeLoop
  split
  · exact shrink_sched rt rt.lt (some rt.nextId) (rt.nextId + 1) (Nat.le_succ _)
  · exact Shrink.refl rt

theorem shrink_runTasks : ∀ (fuel : Nat) (rt : RT), Shrink rt (runTasks fuel rt) := by
  intro fuel
  induction fuel with
  | zero => intro rt; exact Shrink.refl rt
  | succ fuel ih =>
    intro rt
    unfold runTasks
    cases hn : nextItem (wakeLoop rt) with
    | none => exact shrink_wakeLoop rt
    | some it =>
      have hit : ∀ t, it = .wake (.tm t) → t ∈ (wakeLoop rt).timers := fun t ht => nextItem_tm _ t (ht ▸ hn)
      cases it with
      | loop => exact shrink_wakeLoop rt
      | wake w => exact ((shrink_wakeLoop rt).trans (shrink_runTask _ _ hit)).trans (ih _)
      | tstart t => exact ((shrink_wakeLoop rt).trans (shrink_runTask _ _ hit)).trans (ih _)
      | hop i => exact ((shrink_wakeLoop rt).trans (shrink_runTask _ _ hit)).trans (ih _)
      | call i => exact ((shrink_wakeLoop rt).trans (shrink_runTask _ _ hit)).trans (ih _)

-- steps that keep the invariant ---------------------------------------------------------------------------------
/-- `b` is reached from `a` by a step that keeps the invariant (or leaves the `clean` regime) -/
def Keeps (a b : RT) : Prop := b.clean = true → a.clean = true ∧ (Good a → Good b)

theorem Keeps.refl (a : RT) : Keeps a a := fun h => ⟨h, id⟩
theorem Keeps.trans {a b c : RT} (h1 : Keeps a b) (h2 : Keeps b c) : Keeps a c := fun hc =>
  ⟨(h1 (h2 hc).1).1, fun g => (h2 hc).2 ((h1 (h2 hc).1).2 g)⟩
theorem Keeps.inv {a b : RT} (h : Keeps a b) (g : Inv a) : Inv b := fun hc => (h hc).2 (g (h hc).1)
theorem Shrink.keeps {a b : RT} (h : Shrink a b) : Keeps a b := fun hc => ⟨h.clean ▸ hc, h.good⟩
theorem keeps_of_unclean {a b : RT} (h : b.clean = false) : Keeps a b := fun hc => by rw [h] at hc; cases hc

theorem keeps_foldl {α : Type} (f : RT → α → RT) (hf : ∀ rt a, Keeps rt (f rt a)) :
    ∀ (l : List α) (rt : RT), Keeps rt (l.foldl f rt) := by
  intro l
  induction l with
  | nil => intro rt; exact Keeps.refl rt
  | cons a l ih => intro rt; exact (hf rt a).trans (ih (f rt a))

/-- replacing the engine state by one with the same configuration keeps `Good` -/
theorem good_st (rt : RT) (s : St) (h : ∀ q, q ∈ rt.st.cfg → q ∈ s.cfg) (g : Good rt) : Good { rt with st := s } :=
  ⟨fun t ht => ⟨h _ (g.cur t ht).1, (g.cur t ht).2⟩, fun i hi => ⟨h _ (g.curI i hi).1, (g.curI i hi).2⟩,
   g.armed, g.seqT, g.seqF, g.seqI, g.ndT, g.ndF, g.ndI, g.disj, g.actF, g.uniq⟩

theorem keeps_st (rt : RT) (s : St) (h : ∀ q, q ∈ rt.st.cfg → q ∈ s.cfg) : Keeps rt { rt with st := s } :=
  fun hc => ⟨hc, good_st rt s h⟩

theorem keeps_st_eq (rt : RT) (s : St) (h : s.cfg = rt.st.cfg) : Keeps rt { rt with st := s } :=
  keeps_st rt s (fun q hq => h ▸ hq)

-- cancel -----------------------------------------------------------------------------------------------------
theorem shrink_cancelOwner (c : RCx) (hw : WndOK c) (p : Path) (rt : RT) : Shrink rt (cancelOwner c p rt) := by
  unfold cancelOwner
  have h1 := shrink_filter rt (fun t => t.owner ≠ p) (fun i => i.owner ≠ p)
  simp only
  split
  · cases c.fl with
    | async => exact h1.trans (hw 0 _)
    | sync => exact h1
  · exact h1

/-- "exit cancels every timer and every service task of the owner — all of them" -/
theorem cancelOwner_none (c : RCx) (hw : WndOK c) (p : Path) (rt : RT) :
    (∀ t ∈ (cancelOwner c p rt).timers, t.owner ≠ p) ∧ (∀ i ∈ (cancelOwner c p rt).invs, i.owner ≠ p) := by
  have key : ∀ r : RT, Shrink { rt with timers := rt.timers.filter (fun t => t.owner ≠ p), invs := rt.invs.filter (fun i => i.owner ≠ p) } r →
      (∀ t ∈ r.timers, t.owner ≠ p) ∧ (∀ i ∈ r.invs, i.owner ≠ p) := by
    intro r hs
    constructor
    · intro t ht
      obtain ⟨t', h1, h2⟩ := hs.tsub t ht
      have := (List.mem_filter.mp h1).2
      simp only [tcore, Prod.mk.injEq] at h2
      rw [← h2.1]; simpa using this
    · intro i hi
      obtain ⟨i', h1, h2⟩ := hs.isub i hi
      have := (List.mem_filter.mp h1).2
      simp only [icore, Prod.mk.injEq] at h2
      rw [← h2.1]; simpa using this
  unfold cancelOwner
  simp only
  split
  · cases c.fl with
    | async => exact key _ (hw 0 _)
    | sync => exact key _ (Shrink.refl _)
  · exact key _ (Shrink.refl _)

theorem shrink_slowWindow (c : RCx) (hw : WndOK c) (as : List ActionRef) (rt : RT) : Shrink rt (slowWindow c as rt) := by
  unfold slowWindow
  split
  · exact Shrink.refl rt
  · split
    · exact Shrink.refl rt
    · exact hw _ rt

/-- tasks of the listed owners are gone -/
def NoTasks (ps : List Path) (rt : RT) : Prop :=
  (∀ t ∈ rt.timers, t.owner ∉ ps) ∧ (∀ i ∈ rt.invs, i.owner ∉ ps)

theorem NoTasks.shrink {ps : List Path} {a b : RT} (h : Shrink a b) (n : NoTasks ps a) : NoTasks ps b := by
  constructor
  · intro t ht
    obtain ⟨t', h1, h2⟩ := h.tsub t ht
    simp only [tcore, Prod.mk.injEq] at h2
    rw [← h2.1]; exact n.1 t' h1
  · intro i hi
    obtain ⟨i', h1, h2⟩ := h.isub i hi
    simp only [icore, Prod.mk.injEq] at h2
    rw [← h2.1]; exact n.2 i' h1

/-- the engine's exit of `p`, once the tasks of `p` are gone -/
theorem good_exitOne (h : Hooks) (hok : HooksOK h) (fl : Flavor) (m : Machine) (ev : Option String) (p : Path) (rt : RT)
    (n : NoTasks [p] rt) (g : Good rt) : Good { rt with st := exitOne h fl m ev rt.st p } := by
  refine ⟨?_, ?_, g.armed, g.seqT, g.seqF, g.seqI, g.ndT, g.ndF, g.ndI, g.disj, g.actF, g.uniq⟩
  · intro t ht
    refine ⟨exitOne_removes h hok fl m ev rt.st p _ (g.cur t ht).1 ?_, (g.cur t ht).2⟩
    have := n.1 t ht; simpa using this
  · intro i hi
    refine ⟨exitOne_removes h hok fl m ev rt.st p _ (g.curI i hi).1 ?_, (g.curI i hi).2⟩
    have := n.2 i hi; simpa using this

theorem keeps_exitStep_async (c : RCx) (hw : WndOK c) (hfl : c.fl = .async) (h : Hooks) (hok : HooksOK h) (ev : Option String)
    (rt : RT) (p : Path) : Keeps rt (exitStepRT c h ev rt p) := by
  unfold exitStepRT
  split
  · exact Keeps.refl rt
  · split
    · exact Keeps.refl rt
    · rename_i d _
      simp only [hfl]
      have hs : Shrink rt (slowWindow c d.exit (cancelOwner c p rt)) :=
        (shrink_cancelOwner c hw p rt).trans (shrink_slowWindow c hw _ _)
      have hn : NoTasks [p] (slowWindow c d.exit (cancelOwner c p rt)) := by
        have hc := cancelOwner_none c hw p rt
        have : NoTasks [p] (cancelOwner c p rt) :=
          ⟨fun t ht => by simpa using hc.1 t ht, fun i hi => by simpa using hc.2 i hi⟩
        exact this.shrink (shrink_slowWindow c hw _ _)
      refine hs.keeps.trans ?_
      intro hc
      exact ⟨hc, good_exitOne h hok _ c.m ev p _ hn⟩

/-- sync: the step itself does not cancel (all cancels come first) -/
theorem keeps_exitStep_sync (c : RCx) (hw : WndOK c) (hfl : c.fl = .sync) (h : Hooks) (hok : HooksOK h) (ev : Option String)
    (ps : List Path) (rt : RT) (p : Path) (hp : p ∈ ps) (n : NoTasks ps rt) :
    Keeps rt (exitStepRT c h ev rt p) ∧ NoTasks ps (exitStepRT c h ev rt p) := by
  unfold exitStepRT
  split
  · exact ⟨Keeps.refl rt, n⟩
  · split
    · exact ⟨Keeps.refl rt, n⟩
    · rename_i d _
      simp only [hfl]
      have hs := shrink_slowWindow c hw d.exit rt
      have hn := n.shrink hs
      refine ⟨hs.keeps.trans ?_, hn⟩
      intro hc
      refine ⟨hc, good_exitOne h hok _ c.m ev p _ ⟨fun t ht => ?_, fun i hi => ?_⟩⟩
      · intro hm; simp at hm; exact hn.1 t ht (hm ▸ hp)
      · intro hm; simp at hm; exact hn.2 i hi (hm ▸ hp)

theorem keeps_exitAll (c : RCx) (hw : WndOK c) (h : Hooks) (hok : HooksOK h) (ev : Option String) (ps : List Path) (rt : RT) :
    Keeps rt (exitAllRT c h ev ps rt) := by
  unfold exitAllRT
  cases hfl : c.fl with
  | async =>
    simp only
    exact keeps_foldl _ (fun rt p => keeps_exitStep_async c hw hfl h hok ev rt p) ps rt
  | sync =>
    simp only
    -- all cancels first
    have hcan : ∀ (qs : List Path) (r : RT), Shrink r (qs.foldl (fun rt p => cancelOwner c p rt) r) ∧
        ((∀ t ∈ (qs.foldl (fun rt p => cancelOwner c p rt) r).timers, t.owner ∉ qs) ∧
         (∀ i ∈ (qs.foldl (fun rt p => cancelOwner c p rt) r).invs, i.owner ∉ qs)) := by
      intro qs
      induction qs with
      | nil => intro r; exact ⟨Shrink.refl r, fun _ _ => by simp, fun _ _ => by simp⟩
      | cons q qs ih =>
        intro r
        simp only [List.foldl_cons]
        obtain ⟨h1, h2, h3⟩ := ih (cancelOwner c q r)
        have hq := cancelOwner_none c hw q r
        have hq' : NoTasks [q] (qs.foldl (fun rt p => cancelOwner c p rt) (cancelOwner c q r)) :=
          (show NoTasks [q] (cancelOwner c q r) from ⟨fun t ht => by simpa using hq.1 t ht, fun i hi => by simpa using hq.2 i hi⟩).shrink h1
        refine ⟨(shrink_cancelOwner c hw q r).trans h1, ?_, ?_⟩
        · intro t ht hm
          rcases List.mem_cons.mp hm with e | e
          · exact hq'.1 t ht (by simp [e])
          · exact h2 t ht e
        · intro i hi hm
          rcases List.mem_cons.mp hm with e | e
          · exact hq'.2 i hi (by simp [e])
          · exact h3 i hi e
    have hfold : ∀ (qs : List Path) (r : RT), (∀ q ∈ qs, q ∈ ps) → NoTasks ps r →
        Keeps r (qs.foldl (exitStepRT c h ev) r) := by
      intro qs
      induction qs with
      | nil => intro r _ _; exact Keeps.refl r
      | cons q qs ih =>
        intro r hsub n
        simp only [List.foldl_cons]
        obtain ⟨k1, n1⟩ := keeps_exitStep_sync c hw hfl h hok ev ps r q (hsub q (by simp)) n
        exact k1.trans (ih _ (fun x hx => hsub x (List.mem_cons_of_mem _ hx)) n1)
    split
    · -- an error is flagged: every step is a no-op
      have : ∀ (qs : List Path) (r : RT), r.st.err.isSome = true → qs.foldl (exitStepRT c h ev) r = r := by
        intro qs
        induction qs with
        | nil => intro r _; rfl
        | cons q qs ih =>
          intro r he
          simp only [List.foldl_cons]
          have : exitStepRT c h ev r q = r := by unfold exitStepRT; simp [he]
          rw [this]; exact ih r he
      rename_i he
      rw [this ps rt he]; exact Keeps.refl rt
    · obtain ⟨h1, h2⟩ := hcan ps rt
      exact h1.keeps.trans (hfold ps _ (fun q hq => hq) h2)

-- schedule ---------------------------------------------------------------------------------------------------
/-- nothing is armed or has been delivered yet for the CURRENT activation of `p`: no timer of `p` is armed,
    and every delivered timer of `p` belongs to an earlier activation -/
def Fresh (p : Path) (rt : RT) : Prop :=
  (∀ t ∈ rt.timers, t.owner ≠ p) ∧ (∀ f ∈ rt.fired, f.owner = p → f.act < actOf rt.acts p)

theorem Fresh.shrink {p : Path} {a b : RT} (h : Shrink a b) (n : Fresh p a) : Fresh p b := by
  constructor
  · intro t ht
    obtain ⟨t', h1, h2⟩ := h.tsub t ht
    simp only [tcore, Prod.mk.injEq] at h2
    rw [← h2.1]; exact n.1 t' h1
  · intro f hf hp
    rcases h.fsub f hf with h1 | ⟨t', h1, h2⟩
    · rw [h.acts]; exact n.2 f h1 hp
    · simp only [tcore, Prod.mk.injEq] at h2
      exact absurd (h2.1.trans hp) (n.1 t' h1)

theorem mkTimers_slot (fl : Flavor) (p : Path) (a now base : Nat) :
    ∀ (arms : List (String × Nat)) (i : Nat), ∀ t ∈ mkTimers fl p a now base arms i, t.seq = base + t.slot := by
  intro arms
  induction arms with
  | nil => intro i t ht; simp [mkTimers] at ht
  | cons x xs ih =>
    intro i t ht
    simp only [mkTimers, List.mem_cons] at ht
    rcases ht with e | e
    · subst e; rfl
    · exact ih (i + 1) t e

theorem mkTimers_spec (fl : Flavor) (p : Path) (a now base : Nat) :
    ∀ (arms : List (String × Nat)) (i : Nat),
      (∀ t ∈ mkTimers fl p a now base arms i, t.owner = p ∧ t.act = a ∧ t.armed = now ∧ base + i ≤ t.seq ∧ t.seq < base + i + arms.length)
      ∧ ((mkTimers fl p a now base arms i).map (·.seq)).Nodup := by
  intro arms
  induction arms with
  | nil => intro i; exact ⟨fun t ht => by simp [mkTimers] at ht, by simp [mkTimers]⟩
  | cons x xs ih =>
    intro i
    obtain ⟨h1, h2⟩ := ih (i + 1)
    constructor
    · intro t ht
      simp only [mkTimers, List.mem_cons] at ht
      rcases ht with e | e
      · subst e; exact ⟨rfl, rfl, rfl, Nat.le_refl _, by simp only [List.length_cons]; omega⟩
      · obtain ⟨a1, a2, a3, a4, a5⟩ := h1 t e
        simp only [List.length_cons]
        exact ⟨a1, a2, a3, by omega, by omega⟩
    · simp only [mkTimers, List.map_cons, List.nodup_cons]
      refine ⟨?_, h2⟩
      intro hm
      obtain ⟨t, ht, he⟩ := List.mem_map.mp hm
      have := (h1 t ht).2.2.2.1
      omega

theorem good_append_timers (rt : RT) (ts : List Timer) (n : Nat) (p : Path) (hp : p ∈ rt.st.cfg)
    (hts : ∀ t ∈ ts, t.owner = p ∧ t.act = actOf rt.acts p ∧ t.armed = rt.now ∧ rt.nextId ≤ t.seq ∧ t.seq < rt.nextId + n)
    (hnd : (ts.map (·.seq)).Nodup) (hslot : ∀ x ∈ ts, ∀ y ∈ ts, x.slot = y.slot → x.seq = y.seq) (hf : Fresh p rt) (g : Good rt) :
    Good { rt with timers := rt.timers ++ ts, nextId := rt.nextId + n } := by
  refine ⟨?_, g.curI, ?_, ?_, fun t ht => Nat.lt_of_lt_of_le (g.seqF t ht) (Nat.le_add_right _ _),
    fun i hi => Nat.lt_of_lt_of_le (g.seqI i hi) (Nat.le_add_right _ _), ?_, g.ndF, g.ndI, ?_, g.actF, ?_⟩
  · intro t ht
    rcases List.mem_append.mp ht with h | h
    · exact g.cur t h
    · obtain ⟨a1, a2, _⟩ := hts t h
      rw [a1]; exact ⟨hp, a2⟩
  · intro t ht
    rcases List.mem_append.mp ht with h | h
    · exact g.armed t h
    · rw [(hts t h).2.2.1]; exact Nat.le_refl _
  · intro t ht
    rcases List.mem_append.mp ht with h | h
    · exact Nat.lt_of_lt_of_le (g.seqT t h) (Nat.le_add_right _ _)
    · exact (hts t h).2.2.2.2
  · show ((rt.timers ++ ts).map (·.seq)).Nodup
    rw [List.map_append, List.nodup_append]
    refine ⟨g.ndT, hnd, ?_⟩
    intro a ha b hb hab
    obtain ⟨t, ht, he⟩ := List.mem_map.mp ha
    obtain ⟨t', ht', he'⟩ := List.mem_map.mp hb
    have h1 := g.seqT t ht
    have h2 := (hts t' ht').2.2.2.1
    omega
  · intro t ht f hf
    rcases List.mem_append.mp ht with h | h
    · exact g.disj t h f hf
    · have h1 := g.seqF f hf
      have h2 := (hts t h).2.2.2.1
      omega
  · -- no timer of `p`'s current activation exists yet (`Fresh`); the new ones have pairwise different slots
    have old_new : ∀ o nw : Timer, (o ∈ rt.timers ∨ o ∈ rt.fired) → nw ∈ ts → tkey o = tkey nw → False := by
      intro o nw ho hn hk
      simp only [tkey, Prod.mk.injEq] at hk
      obtain ⟨a1, a2, _⟩ := hts nw hn
      rcases ho with h | h
      · exact hf.1 o h (hk.1.trans a1)
      · have := hf.2 o h (hk.1.trans a1)
        rw [hk.2.1, a2] at this; exact Nat.lt_irrefl _ this
    have cls : ∀ z : Timer, (z ∈ rt.timers ++ ts ∨ z ∈ rt.fired) → (z ∈ rt.timers ∨ z ∈ rt.fired) ∨ z ∈ ts := by
      intro z hz
      rcases hz with h | h
      · rcases List.mem_append.mp h with h' | h'
        · exact Or.inl (Or.inl h')
        · exact Or.inr h'
      · exact Or.inl (Or.inr h)
    intro x y hx hy hk
    rcases cls x hx with hx' | hx' <;> rcases cls y hy with hy' | hy'
    · exact g.uniq x y hx' hy' hk
    · exact (old_new x y hx' hy' hk).elim
    · exact (old_new y x hy' hx' hk.symm).elim
    · simp only [tkey, Prod.mk.injEq] at hk
      exact hslot x hx' y hy' hk.2.2

theorem keeps_armAll (fl : Flavor) (m : Machine) (p : Path) (arms : List (String × Nat)) (rt : RT) (hp : p ∈ rt.st.cfg)
    (hf : Fresh p rt) :
    Keeps rt (armAll fl m p (actOf rt.acts p) arms rt) ∧ (armAll fl m p (actOf rt.acts p) arms rt).st = rt.st
      ∧ (armAll fl m p (actOf rt.acts p) arms rt).acts = rt.acts := by
  unfold armAll
  split
  · exact ⟨Keeps.refl rt, rfl, rfl⟩
  · refine ⟨?_, rfl, rfl⟩
    refine Keeps.trans (b := { rt with timers := rt.timers ++ mkTimers fl p (actOf rt.acts p) rt.now rt.nextId arms 0, nextId := rt.nextId + arms.length }) ?_ (frame_rlog _ _).shrink.keeps
    intro hc
    refine ⟨hc, good_append_timers rt _ arms.length p hp ?_ (mkTimers_spec fl p _ rt.now rt.nextId arms 0).2 ?_ hf⟩
    · intro t ht
      obtain ⟨a1, a2, a3, a4, a5⟩ := (mkTimers_spec fl p (actOf rt.acts p) rt.now rt.nextId arms 0).1 t ht
      exact ⟨a1, a2, a3, by omega, by omega⟩
    · intro x hx y hy hxy
      rw [mkTimers_slot fl p _ rt.now rt.nextId arms 0 x hx, mkTimers_slot fl p _ rt.now rt.nextId arms 0 y hy, hxy]

theorem keeps_schedInvsAsync (r : REnv) (p : Path) (a : Nat) :
    ∀ (is : List Invoke) (rt : RT), p ∈ rt.st.cfg → a = actOf rt.acts p → Keeps rt (schedInvsAsync r p a is rt) := by
  intro is
  induction is with
  | nil => intro rt _ _; exact Keeps.refl rt
  | cons i is ih =>
    intro rt hp ha
    unfold schedInvsAsync
    split
    · exact keeps_st_eq rt _ (fail_cfg' _ _)
    · rename_i sp _
      refine Keeps.trans ?_ (ih _ hp ha)
      intro hc
      refine ⟨hc, fun g => ?_⟩
      refine ⟨g.cur, ?_, g.armed, fun t ht => Nat.lt_succ_of_lt (g.seqT t ht), fun t ht => Nat.lt_succ_of_lt (g.seqF t ht), ?_, g.ndT, g.ndF, ?_, g.disj,
        g.actF, g.uniq⟩
      · intro j hj
        rcases List.mem_append.mp hj with h | h
        · exact g.curI j h
        · simp only [List.mem_singleton] at h; subst h; exact ⟨hp, ha⟩
      · intro j hj
        rcases List.mem_append.mp hj with h | h
        · exact Nat.lt_succ_of_lt (g.seqI j h)
        · simp only [List.mem_singleton] at h; subst h; exact Nat.lt_succ_self _
      · rw [List.map_append, List.nodup_append]
        refine ⟨g.ndI, by simp, ?_⟩
        intro x hx y hy hxy
        obtain ⟨j, hj, he⟩ := List.mem_map.mp hx
        simp only [List.map_cons, List.map_nil, List.mem_singleton] at hy
        have := g.seqI j hj
        omega

theorem keeps_runSvcsSync (r : REnv) (h : Hooks) (hok : HooksOK h) (p : Path) (a : Nat) :
    ∀ (is : List Invoke) (rt : RT), Keeps rt (runSvcsSync r h p a is rt) := by
  intro is
  induction is with
  | nil => intro rt; exact Keeps.refl rt
  | cons i is ih =>
    intro rt
    unfold runSvcsSync
    split
    · exact keeps_st_eq rt _ (fail_cfg' _ _)
    · split
      · exact keeps_st_eq rt _ (fail_cfg' _ _)
      · rename_i sp _ _
        refine Keeps.trans ?_ (ih _)
        have k1 : Keeps rt (rlog ("svc-start:" ++ i.id) { rt with started := (p, i.id, a) :: rt.started }) :=
          Keeps.trans (b := { rt with started := (p, i.id, a) :: rt.started })
            (fun hc => ⟨hc, fun g => ⟨g.cur, g.curI, g.armed, g.seqT, g.seqF, g.seqI, g.ndT, g.ndF, g.ndI, g.disj, g.actF, g.uniq⟩⟩)
            (frame_rlog _ _).shrink.keeps
        have k2 := k1.trans (frame_rlog ("svc-end:" ++ i.id ++ (if sp.ok then ":ok" else ":raise")) _).shrink.keeps
        generalize (rlog ("svc-end:" ++ i.id ++ (if sp.ok then ":ok" else ":raise"))
          (rlog ("svc-start:" ++ i.id) { rt with started := (p, i.id, a) :: rt.started })) = r2 at k2
        have k3 : ∀ e : Ev, Keeps rt (rlog ("send:" ++ e.type ++ ":" ++ r2.st.status) { r2 with st := h.snd e r2.st }) :=
          fun e => (k2.trans (keeps_st_eq r2 _ (hok.snd_cfg _ _))).trans (frame_rlog _ _).shrink.keeps
        split
        · exact k3 _
        · exact (k3 _).trans (keeps_st_eq _ _ (stFail_cfg _))

theorem keeps_schedule (c : RCx) (h : Hooks) (hok : HooksOK h) (p : Path) (d : StateDef) (rt : RT) (hp : p ∈ rt.st.cfg)
    (hf : Fresh p rt) : Keeps rt (scheduleRT c h p d rt) := by
  unfold scheduleRT
  cases c.fl with
  | async =>
    obtain ⟨k1, hst, hacts⟩ := keeps_armAll .async c.m p (afterArms c.r d.after) rt hp hf
    exact k1.trans (keeps_schedInvsAsync c.r p _ d.invoke _ (by rw [hst]; exact hp) (by rw [hacts]))
  | sync =>
    obtain ⟨k1, hst, hacts⟩ := keeps_armAll .sync c.m p (afterArms c.r d.after) rt hp hf
    exact k1.trans (keeps_runSvcsSync c.r h hok p _ d.invoke _)

theorem scheduleRT_timers (c : RCx) (h : Hooks) (p : Path) (d : StateDef) (rt : RT) :
    (scheduleRT c h p d rt).timers =
      rt.timers ++ mkTimers c.fl p (actOf rt.acts p) rt.now rt.nextId (afterArms c.r d.after) 0 := by
  have harm : ∀ (r : RT), (armAll c.fl c.m p (actOf rt.acts p) (afterArms c.r d.after) r).timers =
      r.timers ++ mkTimers c.fl p (actOf rt.acts p) r.now r.nextId (afterArms c.r d.after) 0 := by
    intro r; unfold armAll
    split
    · rename_i he
      have : afterArms c.r d.after = [] := by simpa using he
      rw [this]; simp [mkTimers]
    · rfl
  have hA : ∀ (is : List Invoke) (a : Nat) (r : RT), (schedInvsAsync c.r p a is r).timers = r.timers := by
    intro is a
    induction is with
    | nil => intro r; rfl
    | cons i is ih =>
      intro r; unfold schedInvsAsync
      split
      · rfl
      · rw [ih]
  have hS : ∀ (is : List Invoke) (a : Nat) (r : RT), (runSvcsSync c.r h p a is r).timers = r.timers := by
    intro is a
    induction is with
    | nil => intro r; rfl
    | cons i is ih =>
      intro r; unfold runSvcsSync
      split
      · rfl
      · split
        · rfl
        · rw [ih]; split <;> rfl
  unfold scheduleRT
  cases hfl : c.fl with
  | async => simp only; rw [hA]; rw [hfl] at harm; exact harm rt
  | sync => simp only; rw [hS]; rw [hfl] at harm; exact harm rt


theorem scheduleRT_fired_acts (c : RCx) (h : Hooks) (p : Path) (d : StateDef) (rt : RT) :
    (scheduleRT c h p d rt).fired = rt.fired ∧ (scheduleRT c h p d rt).acts = rt.acts := by
  have harm : ∀ fl a arms (r : RT), (armAll fl c.m p a arms r).fired = r.fired ∧ (armAll fl c.m p a arms r).acts = r.acts := by
    intro fl a arms r; unfold armAll; split <;> exact ⟨rfl, rfl⟩
  have hA : ∀ (is : List Invoke) (a : Nat) (r : RT), (schedInvsAsync c.r p a is r).fired = r.fired ∧ (schedInvsAsync c.r p a is r).acts = r.acts := by
    intro is a
    induction is with
    | nil => intro r; exact ⟨rfl, rfl⟩
    | cons i is ih =>
      intro r; unfold schedInvsAsync
      split
      · exact ⟨rfl, rfl⟩
      · exact ih _
  have hS : ∀ (is : List Invoke) (a : Nat) (r : RT), (runSvcsSync c.r h p a is r).fired = r.fired ∧ (runSvcsSync c.r h p a is r).acts = r.acts := by
    intro is a
    induction is with
    | nil => intro r; exact ⟨rfl, rfl⟩
    | cons i is ih =>
      intro r; unfold runSvcsSync
      split
      · exact ⟨rfl, rfl⟩
      · split
        · exact ⟨rfl, rfl⟩
        · rw [(ih _).1, (ih _).2]; split <;> exact ⟨rfl, rfl⟩
  unfold scheduleRT
  cases c.fl with
  | async => simp only; rw [(hA _ _ _).1, (hA _ _ _).2]; exact harm _ _ _ _
  | sync => simp only; rw [(hS _ _ _).1, (hS _ _ _).2]; exact harm _ _ _ _

/-- scheduling the tasks of `p` leaves every OTHER state's current activation untouched -/
theorem scheduleRT_fresh (c : RCx) (h : Hooks) (p q : Path) (d : StateDef) (rt : RT) (hne : q ≠ p) (n : Fresh q rt) :
    Fresh q (scheduleRT c h p d rt) := by
  obtain ⟨hfi, hac⟩ := scheduleRT_fired_acts c h p d rt
  constructor
  · intro t ht
    rw [scheduleRT_timers] at ht
    rcases List.mem_append.mp ht with h1 | h1
    · exact n.1 t h1
    · rw [((mkTimers_spec c.fl p (actOf rt.acts p) rt.now rt.nextId _ 0).1 t h1).1]; exact fun e => hne e.symm
  · intro f hf hq
    rw [hfi] at hf; rw [hac]; exact n.2 f hf hq

-- entry ------------------------------------------------------------------------------------------------------
theorem scheduleRT_cfg (c : RCx) (h : Hooks) (hok : HooksOK h) (p : Path) (d : StateDef) (rt : RT) :
    (scheduleRT c h p d rt).st.cfg = rt.st.cfg := by
  have harm : ∀ fl a arms (r : RT), (armAll fl c.m p a arms r).st = r.st := by
    intro fl a arms r; unfold armAll; split <;> rfl
  have hA : ∀ (is : List Invoke) (a : Nat) (r : RT), (schedInvsAsync c.r p a is r).st.cfg = r.st.cfg := by
    intro is a
    induction is with
    | nil => intro r; rfl
    | cons i is ih =>
      intro r; unfold schedInvsAsync
      split
      · exact fail_cfg' _ _
      · rw [ih]
  have hS : ∀ (is : List Invoke) (a : Nat) (r : RT), (runSvcsSync c.r h p a is r).st.cfg = r.st.cfg := by
    intro is a
    induction is with
    | nil => intro r; rfl
    | cons i is ih =>
      intro r; unfold runSvcsSync
      split
      · exact fail_cfg' _ _
      · split
        · exact fail_cfg' _ _
        · rw [ih]
          split
          · exact hok.snd_cfg _ _
          · show (stFail _).cfg = _
            rw [stFail_cfg]; exact hok.snd_cfg _ _
  unfold scheduleRT
  cases c.fl with
  | async => simp only; rw [hA, harm]
  | sync => simp only; rw [hS, harm]

theorem enterStepRT_enter (c : RCx) (h : Hooks) (ev : Option String) (rt : RT) (e : Entry) :
    enterStepRT c h ev rt (.enter e) =
      if rt.st.err.isSome then rt else
      match c.m.defAt e.path with
      | none => rt
      | some d =>
        { (slowWindow c d.entry { rt with st := addActive e.path rt.st }) with
          st := enterOne h c.fl c.m ev (slowWindow c d.entry { rt with st := addActive e.path rt.st }).st e,
          acts := bumpAct (slowWindow c d.entry { rt with st := addActive e.path rt.st }).acts e.path,
          clean := (slowWindow c d.entry { rt with st := addActive e.path rt.st }).clean && !(rt.st.cfg.contains e.path) } := rfl

theorem enterStepRT_sched (c : RCx) (h : Hooks) (ev : Option String) (rt : RT) (p : Path) :
    enterStepRT c h ev rt (.sched p) =
      if rt.st.err.isSome then rt else
      match c.m.defAt p with
      | none => rt
      | some d => scheduleRT c h p d rt := rfl

theorem keeps_enterStep (c : RCx) (hw : WndOK c) (h : Hooks) (hok : HooksOK h) (ev : Option String) (rt : RT) (e : Entry) :
    Keeps rt (enterStepRT c h ev rt (.enter e)) := by
  rw [enterStepRT_enter]
  split
  · exact Keeps.refl rt
  · split
    · exact Keeps.refl rt
    · rename_i d _
      intro hc
      simp only [Bool.and_eq_true, Bool.not_eq_true'] at hc
      have hs := shrink_slowWindow c hw d.entry { rt with st := addActive e.path rt.st }
      have hclean : rt.clean = true := by have := hs.clean; rw [this] at hc; exact hc.1
      have hnot : e.path ∉ rt.st.cfg := by
        intro hm
        have : rt.st.cfg.contains e.path = true := by simpa using hm
        rw [this] at hc; exact absurd hc.2 (by simp)
      refine ⟨hclean, fun g => ?_⟩
      have gA : Good { rt with st := addActive e.path rt.st } :=
        good_st rt _ (fun q hq => mem_addActive.mpr (Or.inl hq)) g
      have g1 := hs.good gA
      have hown : ∀ t ∈ (slowWindow c d.entry { rt with st := addActive e.path rt.st }).timers, t.owner ≠ e.path := by
        intro t ht
        obtain ⟨t', h1, h2⟩ := hs.tsub t ht
        simp only [tcore, Prod.mk.injEq] at h2
        intro he
        exact hnot (he ▸ h2.1 ▸ (g.cur t' h1).1)
      have hownI : ∀ i ∈ (slowWindow c d.entry { rt with st := addActive e.path rt.st }).invs, i.owner ≠ e.path := by
        intro i hi
        obtain ⟨i', h1, h2⟩ := hs.isub i hi
        simp only [icore, Prod.mk.injEq] at h2
        intro he
        exact hnot (he ▸ h2.1 ▸ (g.curI i' h1).1)
      refine ⟨?_, ?_, g1.armed, g1.seqT, g1.seqF, g1.seqI, g1.ndT, g1.ndF, g1.ndI, g1.disj, ?_, g1.uniq⟩
      · intro t ht
        exact ⟨mem_enterOne_of_mem h hok c.fl c.m ev _ e _ (g1.cur t ht).1,
          by rw [actOf_bump_other _ _ _ (hown t ht)]; exact (g1.cur t ht).2⟩
      · intro i hi
        exact ⟨mem_enterOne_of_mem h hok c.fl c.m ev _ e _ (g1.curI i hi).1,
          by rw [actOf_bump_other _ _ _ (hownI i hi)]; exact (g1.curI i hi).2⟩
      · intro f hf
        have := g1.actF f hf
        by_cases hfe : f.owner = e.path
        · show f.act ≤ actOf (bumpAct _ e.path) f.owner
          rw [hfe, actOf_bump_self]; rw [hfe] at this; exact Nat.le_succ_of_le this
        · show f.act ≤ actOf (bumpAct _ e.path) f.owner
          rw [actOf_bump_other _ _ _ hfe]; exact this

/-- the entry of a state that was not active begins a FRESH activation of it (nothing armed, nothing
    delivered for it yet), and leaves the freshness of every other state's current activation alone -/
theorem enterStep_fresh (c : RCx) (hw : WndOK c) (h : Hooks) (ev : Option String) (rt : RT) (e : Entry) (d : StateDef)
    (hd : c.m.defAt e.path = some d) (he : rt.st.err.isSome = false) (g : Good rt) (hnot : e.path ∉ rt.st.cfg) :
    Fresh e.path (enterStepRT c h ev rt (.enter e)) ∧ ∀ q, Fresh q rt → Fresh q (enterStepRT c h ev rt (.enter e)) := by
  rw [enterStepRT_enter]
  simp only [he, hd, Bool.false_eq_true, if_false]
  have hs := shrink_slowWindow c hw d.entry { rt with st := addActive e.path rt.st }
  have hown : ∀ t ∈ (slowWindow c d.entry { rt with st := addActive e.path rt.st }).timers, t.owner ≠ e.path := by
    intro t ht
    obtain ⟨t', h1, h2⟩ := hs.tsub t ht
    simp only [tcore, Prod.mk.injEq] at h2
    intro heq
    exact hnot (heq ▸ h2.1 ▸ (g.cur t' h1).1)
  constructor
  · refine ⟨hown, ?_⟩
    intro f hf hp
    show f.act < actOf (bumpAct _ e.path) e.path
    rw [actOf_bump_self, hs.acts]
    rcases hs.fsub f hf with h1 | ⟨t', h1, h2⟩
    · have := g.actF f h1
      rw [hp] at this; exact Nat.lt_succ_of_le this
    · simp only [tcore, Prod.mk.injEq] at h2
      exact absurd ((h2.1.trans hp) ▸ (g.cur t' h1).1) hnot
  · intro q n
    have n0 : Fresh q { rt with st := addActive e.path rt.st } := ⟨n.1, n.2⟩
    have n1 := n0.shrink hs
    refine ⟨n1.1, ?_⟩
    intro f hf hq
    show f.act < actOf (bumpAct _ e.path) q
    have := n1.2 f hf hq
    by_cases hqe : q = e.path
    · rw [hqe, actOf_bump_self]; rw [hqe] at this; exact Nat.lt_succ_of_lt this
    · rw [actOf_bump_other _ _ _ hqe]; exact this

/-- every `sched p` of a step list consumes one earlier `enter` of `p` (`P` = states entered and not yet
    scheduled) -/
def StepsP : List Path → List EStep → Prop
  | _, [] => True
  | P, .enter e :: r => StepsP (e.path :: P) r
  | P, .sched p :: r => p ∈ P ∧ StepsP (P.erase p) r

theorem stepsP_async : ∀ (es : List Entry) (P : List Path), StepsP P (es.flatMap (fun e => [EStep.enter e, EStep.sched e.path])) := by
  intro es
  induction es with
  | nil => intro P; trivial
  | cons e es ih =>
    intro P
    simp only [List.flatMap_cons, List.cons_append, List.nil_append]
    refine ⟨List.mem_cons_self, ?_⟩
    rw [List.erase_cons_head]; exact ih P

/-- `closeOpen` pops a prefix of the stack and schedules exactly the popped states, in that order -/
theorem closeOpen_pops (e : Entry) : ∀ (stack : List Path),
    ∃ popped, stack = popped ++ (closeOpen e stack).2 ∧ (closeOpen e stack).1 = popped.map EStep.sched := by
  intro stack
  induction stack with
  | nil => exact ⟨[], rfl, rfl⟩
  | cons q stack ih =>
    unfold closeOpen
    split
    · exact ⟨[], rfl, rfl⟩
    · obtain ⟨popped, h1, h2⟩ := ih
      refine ⟨q :: popped, ?_, ?_⟩
      · show q :: stack = q :: (popped ++ _); rw [← h1]
      · show EStep.sched q :: _ = _; rw [h2]; rfl

theorem stepsP_pop : ∀ (popped rest : List Path) (L : List EStep), StepsP rest L → StepsP (popped ++ rest) (popped.map EStep.sched ++ L) := by
  intro popped
  induction popped with
  | nil => intro rest L h; exact h
  | cons q popped ih =>
    intro rest L h
    refine ⟨List.mem_cons_self, ?_⟩
    show StepsP ((q :: (popped ++ rest)).erase q) _
    rw [List.erase_cons_head]; exact ih rest L h

theorem stepsP_sync : ∀ (es : List Entry) (stack : List Path), StepsP stack (syncSteps es stack) := by
  intro es
  induction es with
  | nil =>
    intro stack
    unfold syncSteps
    have := stepsP_pop stack [] [] trivial
    simpa using this
  | cons e es ih =>
    intro stack
    unfold syncSteps
    obtain ⟨popped, h1, h2⟩ := closeOpen_pops e stack
    rw [List.append_assoc, h2]
    conv => lhs; rw [h1]
    exact stepsP_pop popped _ _ (ih _)

theorem stepsP_entrySteps (fl : Flavor) (es : List Entry) : StepsP [] (entrySteps fl es) := by
  unfold entrySteps
  cases fl with
  | async => exact stepsP_async es []
  | sync => exact stepsP_sync es []

/-- what is known about the states entered and not yet scheduled (unless an error is flagged: every further
    step is then a no-op): each is active, its current activation is fresh, and it is pending once -/
def PInv (c : RCx) (P : List Path) (rt : RT) : Prop :=
  rt.st.err.isSome = false → ∀ q ∈ P, (c.m.defAt q).isSome = true → q ∈ rt.st.cfg ∧ Fresh q rt ∧ P.count q = 1

/-- every `sched p` of a step list comes after the `enter` of `p` (`S` = states entered so far) -/
def StepsOK : List Path → List EStep → Prop
  | _, [] => True
  | S, .enter e :: r => StepsOK (e.path :: S) r
  | S, .sched p :: r => p ∈ S ∧ StepsOK S r

theorem StepsOK.mono : ∀ (L : List EStep) (S S' : List Path), (∀ q ∈ S, q ∈ S') → StepsOK S L → StepsOK S' L := by
  intro L
  induction L with
  | nil => intro _ _ _ _; trivial
  | cons x L ih =>
    intro S S' hsub h
    cases x with
    | enter e =>
      exact ih (e.path :: S) (e.path :: S') (fun q hq => by
        rcases List.mem_cons.mp hq with e1 | e1
        · rw [e1]; exact List.mem_cons_self
        · exact List.mem_cons_of_mem _ (hsub q e1)) h
    | sched p => exact ⟨hsub p h.1, ih S S' hsub h.2⟩

theorem stepsOK_async : ∀ (es : List Entry) (S : List Path), StepsOK S (es.flatMap (fun e => [EStep.enter e, EStep.sched e.path])) := by
  intro es
  induction es with
  | nil => intro S; trivial
  | cons e es ih =>
    intro S
    simp only [List.flatMap_cons, List.cons_append, List.nil_append]
    exact ⟨List.mem_cons_self, ih _⟩

theorem closeOpen_spec (e : Entry) : ∀ (stack : List Path),
    (∀ x ∈ (closeOpen e stack).1, ∃ q ∈ stack, x = EStep.sched q) ∧ (∀ q ∈ (closeOpen e stack).2, q ∈ stack) := by
  intro stack
  induction stack with
  | nil => exact ⟨fun x hx => by simp [closeOpen] at hx, fun q hq => by simp [closeOpen] at hq⟩
  | cons q stack ih =>
    unfold closeOpen
    split
    · exact ⟨fun x hx => by simp at hx, fun q' hq' => hq'⟩
    · constructor
      · intro x hx
        rcases List.mem_cons.mp hx with e1 | e1
        · exact ⟨q, List.mem_cons_self, e1⟩
        · obtain ⟨q', h1, h2⟩ := ih.1 x e1
          exact ⟨q', List.mem_cons_of_mem _ h1, h2⟩
      · intro q' hq'; exact List.mem_cons_of_mem _ (ih.2 q' hq')

theorem stepsOK_scheds (S : List Path) : ∀ (xs : List EStep) (rest : List EStep),
    (∀ x ∈ xs, ∃ q ∈ S, x = EStep.sched q) → StepsOK S rest → StepsOK S (xs ++ rest) := by
  intro xs
  induction xs with
  | nil => intro rest _ h; exact h
  | cons x xs ih =>
    intro rest hx h
    obtain ⟨q, hq, he⟩ := hx x List.mem_cons_self
    subst he
    exact ⟨hq, ih rest (fun y hy => hx y (List.mem_cons_of_mem _ hy)) h⟩

theorem stepsOK_sync : ∀ (es : List Entry) (stack S : List Path), (∀ q ∈ stack, q ∈ S) → StepsOK S (syncSteps es stack) := by
  intro es
  induction es with
  | nil =>
    intro stack S hsub
    unfold syncSteps
    have := stepsOK_scheds S (stack.map EStep.sched) [] (fun x hx => by
      obtain ⟨q, hq, he⟩ := List.mem_map.mp hx; exact ⟨q, hsub q hq, he.symm⟩) trivial
    simpa using this
  | cons e es ih =>
    intro stack S hsub
    unfold syncSteps
    obtain ⟨h1, h2⟩ := closeOpen_spec e stack
    rw [List.append_assoc]
    refine stepsOK_scheds S _ _ (fun x hx => ?_) ?_
    · obtain ⟨q, hq, he⟩ := h1 x hx; exact ⟨q, hsub q hq, he⟩
    · show StepsOK (e.path :: S) (syncSteps es (e.path :: (closeOpen e stack).2))
      apply ih
      intro q hq
      rcases List.mem_cons.mp hq with e1 | e1
      · rw [e1]; exact List.mem_cons_self
      · exact List.mem_cons_of_mem _ (hsub q (h2 q e1))

theorem stepsOK_entrySteps (fl : Flavor) (es : List Entry) : StepsOK [] (entrySteps fl es) := by
  unfold entrySteps
  cases fl with
  | async => exact stepsOK_async es []
  | sync => exact stepsOK_sync es [] [] (fun q hq => by simp at hq)

theorem scheduleRT_clean (c : RCx) (h : Hooks) (p : Path) (d : StateDef) (rt : RT) : (scheduleRT c h p d rt).clean = rt.clean := by
  have harm : ∀ fl a arms (r : RT), (armAll fl c.m p a arms r).clean = r.clean := by
    intro fl a arms r; unfold armAll; split <;> rfl
  have hA : ∀ (is : List Invoke) (a : Nat) (r : RT), (schedInvsAsync c.r p a is r).clean = r.clean := by
    intro is a
    induction is with
    | nil => intro r; rfl
    | cons i is ih =>
      intro r; unfold schedInvsAsync
      split
      · rfl
      · rw [ih]
  have hS : ∀ (is : List Invoke) (a : Nat) (r : RT), (runSvcsSync c.r h p a is r).clean = r.clean := by
    intro is a
    induction is with
    | nil => intro r; rfl
    | cons i is ih =>
      intro r; unfold runSvcsSync
      split
      · rfl
      · split
        · rfl
        · rw [ih]; split <;> rfl
  unfold scheduleRT
  cases c.fl with
  | async => simp only; rw [hA, harm]
  | sync => simp only; rw [hS, harm]

theorem pinv_erase (c : RCx) (P : List Path) (p : Path) (a b : RT) (hpi : PInv c P a) (herr : b.st.err.isSome = false → a.st.err.isSome = false)
    (hstep : ∀ q, q ≠ p → q ∈ a.st.cfg → Fresh q a → q ∈ b.st.cfg ∧ Fresh q b) : PInv c (P.erase p) b := by
  intro he q hq hdef
  have hqP := List.mem_of_mem_erase hq
  obtain ⟨h1, h2, h3⟩ := hpi (herr he) q hqP hdef
  have hne : q ≠ p := by
    intro e
    have : 0 < (P.erase p).count q := List.count_pos_iff.mpr hq
    rw [e, List.count_erase_self] at this
    rw [e] at h3; omega
  exact ⟨(hstep q hne h1 h2).1, (hstep q hne h1 h2).2, by rw [List.count_erase_of_ne hne]; exact h3⟩

theorem keeps_enterSteps (c : RCx) (hw : WndOK c) (h : Hooks) (hok : HooksOK h) (ev : Option String) :
    ∀ (L : List EStep) (P : List Path) (rt : RT), StepsP P L →
      (L.foldl (enterStepRT c h ev) rt).clean = true →
      rt.clean = true ∧ (Good rt → PInv c P rt → Good (L.foldl (enterStepRT c h ev) rt)) := by
  intro L
  induction L with
  | nil => intro P rt _ hc; exact ⟨hc, fun g _ => g⟩
  | cons x L ih =>
    intro P rt hsp hc
    simp only [List.foldl_cons] at hc ⊢
    cases x with
    | enter e =>
      obtain ⟨hc1, ih1⟩ := ih (e.path :: P) _ hsp hc
      have k := keeps_enterStep c hw h hok ev rt e hc1
      refine ⟨k.1, fun g hpi => ih1 (k.2 g) ?_⟩
      -- the pending invariant after the step
      by_cases he : rt.st.err.isSome = true
      · have : enterStepRT c h ev rt (.enter e) = rt := by rw [enterStepRT_enter]; simp [he]
        rw [this]; intro he'; rw [he] at he'; cases he'
      · have he : rt.st.err.isSome = false := by simpa using he
        cases hd : c.m.defAt e.path with
        | none =>
          have : enterStepRT c h ev rt (.enter e) = rt := by rw [enterStepRT_enter]; simp [he, hd]
          rw [this]
          intro _ q hq hdef
          have hne : e.path ≠ q := by intro e1; rw [← e1, hd] at hdef; cases hdef
          rcases List.mem_cons.mp hq with e1 | e1
          · exact absurd e1.symm hne
          · obtain ⟨h1, h2, h3⟩ := hpi he q e1 hdef
            exact ⟨h1, h2, by rw [List.count_cons_of_ne hne]; exact h3⟩
        | some d =>
          -- the step was clean: the state was not active, hence not pending either
          have hnot : e.path ∉ rt.st.cfg := by
            have hc1' := hc1
            rw [enterStepRT_enter] at hc1'
            simp only [he, hd, Bool.false_eq_true, if_false, Bool.and_eq_true, Bool.not_eq_true'] at hc1'
            intro hm
            have : rt.st.cfg.contains e.path = true := by simpa using hm
            rw [this] at hc1'; exact absurd hc1'.2 (by simp)
          have hnp : e.path ∉ P := fun hm => hnot (hpi he e.path hm (by rw [hd]; rfl)).1
          obtain ⟨f1, f2⟩ := enterStep_fresh c hw h ev rt e d hd he g hnot
          have hcfg : ∀ q, q ∈ rt.st.cfg → q ∈ (enterStepRT c h ev rt (.enter e)).st.cfg := by
            intro q hq
            rw [enterStepRT_enter]
            simp only [he, hd, Bool.false_eq_true, if_false]
            have hs := shrink_slowWindow c hw d.entry { rt with st := addActive e.path rt.st }
            refine mem_enterOne_of_mem h hok c.fl c.m ev _ e q ?_
            rw [hs.cfg]; exact mem_addActive.mpr (Or.inl hq)
          have hself : e.path ∈ (enterStepRT c h ev rt (.enter e)).st.cfg := by
            rw [enterStepRT_enter]
            simp only [he, hd, Bool.false_eq_true, if_false]
            have hs := shrink_slowWindow c hw d.entry { rt with st := addActive e.path rt.st }
            refine enterOne_adds h hok c.fl c.m ev _ e d hd ?_
            rw [hs.err]; show (addActive e.path rt.st).err.isSome = false
            rw [addActive_err]; exact he
          intro _ q hq hdef
          rcases List.mem_cons.mp hq with e1 | e1
          · rw [e1]
            exact ⟨hself, f1, by rw [List.count_cons_self, List.count_eq_zero_of_not_mem hnp]⟩
          · obtain ⟨h1, h2, h3⟩ := hpi he q e1 hdef
            have hne : e.path ≠ q := fun e2 => hnp (e2 ▸ e1)
            exact ⟨hcfg q h1, f2 q h2, by rw [List.count_cons_of_ne hne]; exact h3⟩
    | sched p =>
      obtain ⟨hc1, ih1⟩ := ih (P.erase p) _ hsp.2 hc
      by_cases he : rt.st.err.isSome = true
      · have : enterStepRT c h ev rt (.sched p) = rt := by rw [enterStepRT_sched]; simp [he]
        rw [this] at hc1 ih1 ⊢
        exact ⟨hc1, fun g hpi => ih1 g (pinv_erase c P p rt rt hpi id (fun q _ h1 h2 => ⟨h1, h2⟩))⟩
      · have he : rt.st.err.isSome = false := by simpa using he
        cases hd : c.m.defAt p with
        | none =>
          have : enterStepRT c h ev rt (.sched p) = rt := by rw [enterStepRT_sched]; simp [he, hd]
          rw [this] at hc1 ih1 ⊢
          exact ⟨hc1, fun g hpi => ih1 g (pinv_erase c P p rt rt hpi id (fun q _ h1 h2 => ⟨h1, h2⟩))⟩
        | some d =>
          have : enterStepRT c h ev rt (.sched p) = scheduleRT c h p d rt := by rw [enterStepRT_sched]; simp [he, hd]
          rw [this] at hc1 ih1 ⊢
          have hcl : rt.clean = true := by rw [scheduleRT_clean] at hc1; exact hc1
          refine ⟨hcl, fun g hpi => ?_⟩
          obtain ⟨h1, h2, _⟩ := hpi he p hsp.1 (by rw [hd]; rfl)
          refine ih1 ((keeps_schedule c h hok p d rt h1 h2 hc1).2 g) ?_
          exact pinv_erase c P p rt _ hpi (fun _ => he)
            (fun q hne hq hf => ⟨by rw [scheduleRT_cfg c h hok]; exact hq, scheduleRT_fresh c h p q d rt hne hf⟩)

theorem keeps_enterAll (c : RCx) (hw : WndOK c) (h : Hooks) (hok : HooksOK h) (ev : Option String) (es : List Entry) (rt : RT) :
    Keeps rt (enterAllRT c h ev es rt) := by
  unfold enterAllRT
  intro hc
  obtain ⟨h1, h2⟩ := keeps_enterSteps c hw h hok ev _ [] rt (stepsP_entrySteps c.fl es) hc
  exact ⟨h1, fun g => h2 g (fun _ q hq => by simp at hq)⟩

-- a transition, an event, the loops -------------------------------------------------------------------------------
theorem rearmRT_clean (c : RCx) (h : Hooks) (pre exits : List Path) (rt : RT) : (rearmRT c h pre exits rt).clean = rt.clean := by
  unfold rearmRT
  generalize pre.filter (fun p => exits.contains p) = l
  induction l generalizing rt with
  | nil => rfl
  | cons p l ih =>
    simp only [List.foldl_cons]
    rw [ih]
    split
    · rfl
    · exact scheduleRT_clean c h p _ rt

theorem keeps_actions (c : RCx) (hw : WndOK c) (h : Hooks) (hok : HooksOK h) (as : List ActionRef) (evt : String) (rt : RT) :
    Keeps rt { (slowWindow c as rt) with st := execActions h as evt (slowWindow c as rt).st } :=
  (shrink_slowWindow c hw as rt).keeps.trans (keeps_st_eq _ _ (execActions_cfg h hok _ _ _))

theorem keeps_runPlan (c : RCx) (hw : WndOK c) (h : Hooks) (hok : HooksOK h) (ev : Ev) (pl : Plan) (rt : RT) :
    Keeps rt (runPlanRT c h ev pl rt) := by
  unfold runPlanRT
  have k1 : Keeps rt { rt with st := recordHistory c.m pl.exits rt.st } := keeps_st_eq rt _ rfl
  have k2 := k1.trans (keeps_exitAll c hw h hok (some ev.type) pl.exits _)
  generalize exitAllRT c h (some ev.type) pl.exits { rt with st := recordHistory c.m pl.exits rt.st } = r2 at k2
  have k3 : Keeps rt (if r2.st.err.isSome then r2 else
      { (slowWindow c pl.actions r2) with st := execActions h pl.actions ev.type (slowWindow c pl.actions r2).st }) := by
    split
    · exact k2
    · exact k2.trans (keeps_actions c hw h hok _ _ _)
  have k4 := k3.trans (keeps_enterAll c hw h hok (some ev.type) pl.entries _)
  simp only
  split
  · exact k4.trans (keeps_st_eq _ _ (fail_cfg' _ _))
  · exact k4

theorem keeps_executeCore (c : RCx) (hw : WndOK c) (h : Hooks) (hok : HooksOK h) (ev : Ev) (pl : Plan) (rt : RT) :
    Keeps rt (executeCoreRT c h ev pl rt) := by
  unfold executeCoreRT
  split
  · split
    · exact keeps_st_eq rt _ (fail_cfg' _ _)
    · exact keeps_actions c hw h hok _ _ _
  · simp only
    split
    · apply keeps_of_unclean
      show (rearmRT c h rt.st.cfg pl.exits _).clean = false
      rw [rearmRT_clean]
    · exact keeps_runPlan c hw h hok ev pl rt

theorem keeps_execute (c : RCx) (hw : WndOK c) (h : Hooks) (hok : HooksOK h) (ev : Ev) (pl : Plan) (rt : RT) :
    Keeps rt (executeRT c h ev pl rt) := by
  unfold executeRT
  simp only
  split
  · exact keeps_executeCore c hw h hok ev pl rt
  · exact (keeps_executeCore c hw h hok ev pl rt).trans (keeps_st_eq _ _ rfl)

theorem keeps_processEvent (c : RCx) (hw : WndOK c) (h : Hooks) (hok : HooksOK h) (ev : Ev) (rt : RT) :
    Keeps rt (processEventRT c h ev rt) := by
  unfold processEventRT
  split
  · exact keeps_st_eq rt _ (fail_cfg' _ _)
  · rename_i sel _
    apply keeps_foldl
    intro r cd
    split
    · exact Keeps.refl r
    · split
      · exact Keeps.refl r
      · split
        · exact Keeps.refl r
        · exact keeps_execute c hw h hok ev _ r

theorem keeps_transientLoop (c : RCx) (hw : WndOK c) (h : Hooks) (hok : HooksOK h) :
    ∀ (fuel : Nat) (rt : RT), Keeps rt (transientLoopRT c h fuel rt) := by
  intro fuel
  induction fuel with
  | zero => intro rt; exact Keeps.refl rt
  | succ fuel ih =>
    intro rt
    unfold transientLoopRT
    split
    · exact Keeps.refl rt
    · split
      · exact keeps_st_eq rt _ (fail_cfg' _ _)
      · split
        · exact (keeps_processEvent c hw h hok _ rt).trans (ih _)
        · exact Keeps.refl rt

theorem asyncChainEnd_cfg' (b : Nat) (s : St) : (asyncChainEnd b s).cfg = s.cfg := by
  unfold asyncChainEnd; split <;> rfl

theorem keeps_asyncProcess (c : RCx) (hw : WndOK c) (e : Ev) (rt : RT) : Keeps rt (asyncProcessRT c e rt) := by
  unfold asyncProcessRT
  have hok := hooksAsync_ok c.u c.m
  have k1 : Keeps rt { rt with st := emit ("#recv:" ++ e.type) rt.st } := keeps_st_eq rt _ rfl
  have k2 := (k1.trans (keeps_processEvent c hw _ hok e _)).trans (keeps_transientLoop c hw _ hok c.m.maxIterations _)
  simp only
  refine k2.trans (keeps_st_eq _ _ ?_)
  rw [asyncChainEnd_cfg']
  split <;> rfl

theorem keeps_asyncStep (c : RCx) (hw : WndOK c) (q : QEv) (rt : RT) : Keeps rt (asyncStepRT c q rt) := by
  unfold asyncStepRT
  have kp : Keeps rt { rt with st := asyncPurge rt.st } := keeps_st_eq rt _ rfl
  split
  · split
    · exact kp
    · exact kp.trans (keeps_asyncProcess c hw q.ev _)
  · exact keeps_asyncProcess c hw q.ev rt

theorem keeps_asyncDrain (c : RCx) (hw : WndOK c) : ∀ (fuel : Nat) (rt : RT), Keeps rt (asyncDrainRT c fuel rt) := by
  intro fuel
  induction fuel with
  | zero =>
    intro rt; unfold asyncDrainRT
    split
    · exact Keeps.refl rt
    · exact keeps_st_eq rt _ rfl
  | succ fuel ih =>
    intro rt; unfold asyncDrainRT
    split
    · exact Keeps.refl rt
    · split
      · exact Keeps.refl rt
      · rename_i q rest _
        exact (Keeps.trans (b := { rt with st := { rt.st with queue := rest } }) (keeps_st_eq rt _ rfl)
          (keeps_asyncStep c hw q _)).trans (ih _)

theorem keeps_drainLoop (c : RCx) (hw : WndOK c) : ∀ (fuel ch : Nat) (rt : RT), Keeps rt (drainLoopRT c fuel ch rt) := by
  intro fuel
  have hok := hooksFlagged_ok c.u c.m
  induction fuel with
  | zero =>
    intro ch rt; unfold drainLoopRT
    split
    · exact Keeps.refl rt
    · exact keeps_st_eq rt _ rfl
  | succ fuel ih =>
    intro ch rt; unfold drainLoopRT
    split
    · exact Keeps.refl rt
    · split
      · exact keeps_st_eq rt _ rfl
      · rename_i q rest _ _
        split
        · exact Keeps.trans (b := { rt with st := syncPurge rt.st }) (keeps_st_eq rt _ rfl) (ih _ _)
        · have k2 := (Keeps.trans (b := { rt with st := emit ("#recv:" ++ q.ev.type) { rt.st with queue := rest } }) (keeps_st_eq rt _ rfl)
            (keeps_processEvent c hw _ hok q.ev _)).trans (keeps_transientLoop c hw _ hok c.m.maxIterations _)
          simp only
          split
          · exact k2
          · exact k2.trans (ih _ _)

theorem keeps_syncSend (c : RCx) (hw : WndOK c) (e : Ev) (rt : RT) : Keeps rt (syncSendRT c e rt) := by
  unfold syncSendRT
  split
  · exact Keeps.trans (b := { rt with st := { rt.st with queue := rt.st.queue ++ [⟨e, false⟩] } }) (keeps_st_eq rt _ rfl)
      (keeps_drainLoop c hw _ _ _)
  · exact Keeps.refl rt

theorem keeps_lt (rt : RT) (b : Bool) : Keeps rt { rt with lt := b } :=
  fun hc => ⟨hc, fun g => ⟨g.cur, g.curI, g.armed, g.seqT, g.seqF, g.seqI, g.ndT, g.ndF, g.ndI, g.disj, g.actF, g.uniq⟩⟩

theorem keeps_loopRuns (c : RCx) (hw : WndOK c) (rt : RT) : Keeps rt (loopRuns c rt) := by
  unfold loopRuns
  exact (keeps_asyncDrain c hw _ _).trans (keeps_lt _ _)

theorem keeps_loopTurn (c : RCx) (hw : WndOK c) (rt : RT) : Keeps rt (loopTurn c rt) := by
  unfold loopTurn
  have k0 : ∀ (r : RT) (b : Bool), Keeps r { r with lt := b, lw := none } := fun r b =>
    (shrink_sched r b none r.nextId (Nat.le_refl _)).keeps
  split
  · exact (k0 rt rt.lt).trans (keeps_loopRuns c hw _)
  · split
    · exact k0 rt rt.lt
    · split
      · rename_i _ rest _
        exact Keeps.trans (b := { rt with st := { rt.st with queue := rest } }) (keeps_st_eq _ _ rfl) (k0 _ false)
      · exact k0 rt false

theorem keeps_settle (c : RCx) (hw : WndOK c) : ∀ (fuel : Nat) (rt : RT), Keeps rt (settle c fuel rt) := by
  intro fuel
  induction fuel with
  | zero => intro rt; unfold settle; exact keeps_st_eq rt _ rfl
  | succ fuel ih =>
    intro rt
    unfold settle
    cases c.fl with
    | sync => exact (shrink_startPending rt).keeps
    | async =>
      simp only
      have k1 := (shrink_runTasks (2 * rt.timers.length + 3 * rt.invs.length + 2) rt).keeps
      split
      · exact k1
      · exact (k1.trans (keeps_loopTurn c hw _)).trans (ih _)

-- the top level ---------------------------------------------------------------------------------------------------
theorem startHooks_ok (c : RCx) : HooksOK (startHooks c) := by
  unfold startHooks
  cases c.fl with
  | sync => exact hooksFlagged_ok c.u c.m
  | async => exact hooksAsyncStart_ok c.u c.m

theorem keeps_startFailed (c : RCx) (r : RT) : Keeps r (startFailed c r) := by
  unfold startFailed
  cases c.fl with
  | sync => exact Keeps.refl r
  | async =>
    exact Keeps.trans (b := { r with st := { r.st with status := "stopped" } }) (keeps_st_eq r _ rfl)
      (shrink_sched _ false none _ (Nat.le_refl _)).keeps

theorem keeps_startEnter (c : RCx) (hw : WndOK c) (rt : RT) : Keeps rt (startEnter c rt) := by
  unfold startEnter
  have k1 : Keeps rt (enterAllRT c (startHooks c) (startEv c) (startEntries c.m).1 { rt with st := { rt.st with status := "running", ctx := c.m.ctx0 } }) :=
    Keeps.trans (b := { rt with st := { rt.st with status := "running", ctx := c.m.ctx0 } }) (keeps_st_eq rt _ rfl)
      (keeps_enterAll c hw _ (startHooks_ok c) _ _ _)
  simp only
  split
  · exact k1.trans (keeps_st_eq _ _ (fail_cfg' _ _))
  · exact k1

theorem keeps_startFinish (c : RCx) (hw : WndOK c) (rt : RT) : Keeps rt (startFinish c rt) := by
  unfold startFinish
  cases c.fl with
  | sync => exact keeps_drainLoop c hw _ _ _
  | async =>
    refine Keeps.trans ?_ (keeps_settle c hw _ _)
    unfold loopCreated
    split
    · exact (shrink_sched rt rt.lt (some rt.nextId) (rt.nextId + 1) (Nat.le_succ _)).keeps
    · exact Keeps.refl rt

theorem keeps_start (c : RCx) (hw : WndOK c) (rt : RT) : Keeps rt (startRT c rt) := by
  unfold startRT
  have k2 := keeps_startEnter c hw rt
  have k3 := k2.trans (keeps_transientLoop c hw _ (startHooks_ok c) c.m.maxIterations _)
  split
  · exact k2.trans (keeps_startFailed c _)
  · split
    · exact k3.trans (keeps_startFailed c _)
    · exact k3.trans (keeps_startFinish c hw _)

theorem keeps_extIdle (c : RCx) (hw : WndOK c) (op : ExtOp) (rt : RT) : Keeps rt (extIdle c op rt) := by
  unfold extIdle
  cases op with
  | send e =>
    cases c.fl with
    | async =>
      simp only
      split
      · exact ((shrink_deliver _ rt).trans (shrink_sched _ (deliver (.user e) rt).lt (some 0) _ (Nat.le_refl _))).keeps
      · exact (shrink_deliver _ _).keeps
    | sync =>
      exact (Keeps.trans (b := { rt with st := { rt.st with err := none } }) (keeps_st_eq rt _ rfl) (frame_rlog _ _).shrink.keeps).trans
        (keeps_syncSend c hw _ _)
  | stop => exact (shrink_stop rt).keeps
  | obs => exact (frame_rlog _ _).shrink.keeps

theorem keeps_fireTimerIdleSync (c : RCx) (hw : WndOK c) (t : Timer) (rt : RT) (ht : t ∈ rt.timers) :
    Keeps rt (fireTimerIdleSync c t rt) := by
  unfold fireTimerIdleSync
  simp only
  split
  · refine ((shrink_fire rt t ht).keeps.trans ?_).trans (keeps_syncSend c hw _ _)
    exact Keeps.trans (b := { rt with st := { rt.st with err := none }, timers := rt.timers.filter (fun x => x.seq ≠ t.seq), fired := t :: rt.fired })
      (keeps_st_eq _ _ rfl) (frame_rlog _ _).shrink.keeps
  · exact (shrink_dropTimer rt t).keeps

theorem keeps_fireIdle (c : RCx) (hw : WndOK c) (w : Wake) (rt : RT) (hwk : minWake rt = some w) : Keeps rt (fireIdle c w rt) := by
  unfold fireIdle
  cases c.fl with
  | async =>
    simp only
    refine ((frame_setNow w.due rt).shrink.trans (shrink_fireWakeQ .async _ w ?_)).keeps
    intro t ht; subst ht; exact minWake_tm rt t hwk
  | sync =>
    simp only
    cases w with
    | tm t =>
      exact (frame_setNow _ rt).shrink.keeps.trans (keeps_fireTimerIdleSync c hw t _ (minWake_tm rt t hwk))
    | iv i => exact ((frame_setNow _ rt).shrink.trans (shrink_completeInv _ i)).keeps

theorem keeps_advanceTo (c : RCx) (hw : WndOK c) (T : Nat) : ∀ (fuel : Nat) (rt : RT), Keeps rt (advanceTo c T fuel rt) := by
  intro fuel
  induction fuel with
  | zero => intro rt; unfold advanceTo; exact keeps_st_eq rt _ rfl
  | succ fuel ih =>
    intro rt
    unfold advanceTo
    have ks := keeps_settle c hw 64 rt
    split
    · exact Keeps.refl rt
    · split
      · exact ks
      · cases hn : nextOf (settle c 64 rt).agenda T (dueWake (settle c 64 rt) (T + 1) 0) with
        | ext t op rest =>
          exact ((ks.trans ((shrink_agenda _ rest).trans (frame_setNow t _).shrink).keeps).trans (keeps_extIdle c hw op _)).trans (ih _)
        | wake w =>
          have hwk := dueWake_min _ _ _ w (nextOf_wake _ _ _ w hn)
          exact (ks.trans (keeps_fireIdle c hw w _ hwk)).trans (ih _)
        | idle => exact ks.trans (frame_setNow T _).shrink.keeps

theorem good_init (agenda : List (Nat × ExtOp)) : Good ({ agenda := agenda } : RT) :=
  ⟨fun _ h => by simp at h, fun _ h => by simp at h, fun _ h => by simp at h, fun _ h => by simp at h, fun _ h => by simp at h,
   fun _ h => by simp at h, by simp, by simp, by simp, fun _ h => by simp at h, fun _ h => by simp at h,
   fun _ _ hx _ _ => by simp at hx⟩

theorem nodup_map_of_inj_on {α β γ : Type} (f : α → β) (k : α → γ) :
    ∀ (l : List α), (l.map f).Nodup → (∀ x ∈ l, ∀ y ∈ l, k x = k y → f x = f y) → (l.map k).Nodup := by
  intro l
  induction l with
  | nil => intro _ _; simp
  | cons a l ih =>
    intro hnd h
    simp only [List.map_cons, List.nodup_cons] at hnd ⊢
    refine ⟨?_, ih hnd.2 (fun x hx y hy => h x (List.mem_cons_of_mem _ hx) y (List.mem_cons_of_mem _ hy))⟩
    intro hm
    obtain ⟨y, hy, he⟩ := List.mem_map.mp hm
    exact hnd.1 (List.mem_map.mpr ⟨y, hy, h y (List.mem_cons_of_mem _ hy) a List.mem_cons_self he⟩)

/-- per (owner, activation, delay key): at most one timer is armed, at most one has been delivered, and
    none is both -/
theorem Good.keys {rt : RT} (g : Good rt) :
    (rt.fired.map tkey).Nodup ∧ (rt.timers.map tkey).Nodup ∧ ∀ t ∈ rt.timers, ∀ f ∈ rt.fired, tkey t ≠ tkey f :=
  ⟨nodup_map_of_inj_on (·.seq) tkey rt.fired g.ndF (fun x hx y hy => g.uniq x y (Or.inr hx) (Or.inr hy)),
   nodup_map_of_inj_on (·.seq) tkey rt.timers g.ndT (fun x hx y hy => g.uniq x y (Or.inl hx) (Or.inl hy)),
   fun t ht f hf hk => g.disj t ht f hf (g.uniq t f (Or.inl ht) (Or.inr hf) hk)⟩

/-- the invariant holds after every run: any machine, any user code, any timing data, any agenda -/
theorem inv_runRT (fl : Flavor) (m : Machine) (u : UEnv) (r : REnv) (agenda : List (Nat × ExtOp)) (horizon fuel : Nat) :
    Inv (runRT fl m u r agenda horizon fuel) := by
  unfold runRT
  have hw := wndOK_mkCx fl m u r
  exact ((keeps_start _ hw _).trans (keeps_advanceTo _ hw horizon fuel _)).inv (fun _ => good_init agenda)

-- facts used by the property statements ------------------------------------------------------------------------------
theorem mkTimers_data (fl : Flavor) (p : Path) (a now base : Nat) :
    ∀ (arms : List (String × Nat)) (i : Nat),
      (mkTimers fl p a now base arms i).map (fun t => (t.evType, t.delay)) = arms ∧
      (mkTimers fl p a now base arms i).map (·.slot) = List.range' i arms.length := by
  intro arms
  induction arms with
  | nil => intro i; exact ⟨rfl, rfl⟩
  | cons x xs ih =>
    intro i
    obtain ⟨h1, h2⟩ := ih (i + 1)
    constructor
    · simp only [mkTimers, List.map_cons, h1]
    · simp only [mkTimers, List.map_cons, h2, List.length_cons, List.range'_succ]

theorem mem_afterArms (r : REnv) (after : List (String × List Trans)) (x : String × Nat) :
    x ∈ afterArms r after ↔ ∃ kv ∈ after, ∃ d, resolveDelay r kv.1 = some d ∧ ∃ t, kv.2.head? = some t ∧ x = (t.event, d) := by
  unfold afterArms
  simp only [List.mem_flatMap]
  constructor
  · rintro ⟨kv, hkv, hx⟩
    refine ⟨kv, hkv, ?_⟩
    cases hr : resolveDelay r kv.1 with
    | none => simp [hr] at hx
    | some d =>
      simp only [hr, List.mem_map, List.take_one, Option.mem_toList] at hx
      obtain ⟨t, ht, he⟩ := hx
      exact ⟨d, rfl, t, ht, he.symm⟩
  · rintro ⟨kv, hkv, d, hr, t, ht, he⟩
    refine ⟨kv, hkv, ?_⟩
    simp only [hr, List.mem_map, List.take_one, Option.mem_toList]
    exact ⟨t, ht, he.symm⟩

/-- ONE timer per delay key: the armed (event type, delay) pairs are, key by key, the key's `armOfKey` -/
theorem afterArms_eq_filterMap (r : REnv) (after : List (String × List Trans)) :
    afterArms r after = after.filterMap (armOfKey r) := by
  unfold afterArms
  induction after with
  | nil => rfl
  | cons kv rest ih =>
    simp only [List.flatMap_cons, List.filterMap_cons, ih]
    unfold armOfKey
    cases hr : resolveDelay r kv.1 with
    | none => simp
    | some d =>
      cases hk : kv.2 with
      | nil => simp
      | cons t ts => simp

theorem afterArms_length_le (r : REnv) (after : List (String × List Trans)) : (afterArms r after).length ≤ after.length := by
  rw [afterArms_eq_filterMap]; exact List.length_filterMap_le _ _

/-- async: after the exit step of `p` no timer and no service task of `p` is left -/
theorem exitStep_async_none (c : RCx) (hw : WndOK c) (hfl : c.fl = .async) (h : Hooks) (ev : Option String) (rt : RT) (p : Path)
    (d : StateDef) (hd : c.m.defAt p = some d) (he : rt.st.err.isSome = false) :
    (∀ t ∈ (exitStepRT c h ev rt p).timers, t.owner ≠ p) ∧ (∀ i ∈ (exitStepRT c h ev rt p).invs, i.owner ≠ p) := by
  unfold exitStepRT
  simp only [he, hd, hfl, Bool.false_eq_true, if_false]
  have hc := cancelOwner_none c hw p rt
  have hn : NoTasks [p] (cancelOwner c p rt) :=
    ⟨fun t ht => by simpa using hc.1 t ht, fun i hi => by simpa using hc.2 i hi⟩
  have := hn.shrink (shrink_slowWindow c hw d.exit _)
  exact ⟨fun t ht => by simpa using this.1 t ht, fun i hi => by simpa using this.2 i hi⟩

theorem stop_clears (rt : RT) (h1 : rt.st.status ≠ "uninitialized") (h2 : rt.st.status ≠ "stopped") :
    (stopRT rt).timers = [] ∧ (stopRT rt).invs = [] ∧ (stopRT rt).st.status = "stopped" := by
  unfold stopRT
  simp [h1, h2, rlog]

theorem enterStep_bumps (c : RCx) (hw : WndOK c) (h : Hooks) (ev : Option String) (rt : RT) (e : Entry) (d : StateDef)
    (hd : c.m.defAt e.path = some d) (he : rt.st.err.isSome = false) :
    actOf (enterStepRT c h ev rt (.enter e)).acts e.path = actOf rt.acts e.path + 1 := by
  rw [enterStepRT_enter]
  simp only [he, hd, Bool.false_eq_true, if_false]
  rw [actOf_bump_self, (shrink_slowWindow c hw d.entry _).acts]

theorem fireTimerQ_others (fl : Flavor) (t : Timer) (rt : RT) (x : Timer) (hx : x ∈ rt.timers) (hne : x.seq ≠ t.seq) :
    x ∈ (fireTimerQ fl t rt).timers := by
  have hm : x ∈ rt.timers.filter (fun y => y.seq ≠ t.seq) := List.mem_filter.mpr ⟨hx, by simpa using hne⟩
  unfold fireTimerQ
  cases fl with
  | async => exact hm
  | sync => simp only; split <;> exact hm

theorem fireTimerQ_gone (fl : Flavor) (t : Timer) (rt : RT) : ∀ x ∈ (fireTimerQ fl t rt).timers, x.seq ≠ t.seq := by
  have hm : ∀ x ∈ rt.timers.filter (fun y => y.seq ≠ t.seq), x.seq ≠ t.seq := fun x hx => by
    simpa using (List.mem_filter.mp hx).2
  unfold fireTimerQ
  cases fl with
  | async => exact hm
  | sync => simp only; split <;> exact hm

theorem fireTimerQ_async_queue (t : Timer) (rt : RT) (hrun : rt.st.status = "running") :
    (fireTimerQ .async t rt).st.queue = rt.st.queue ++ [⟨.after t.evType, false⟩] ∧
    (fireTimerQ .async t rt).st.cfg = rt.st.cfg := by
  simp [fireTimerQ, deliver, rlog, enqueue, enqueueQ, hrun]

theorem completeInv_queue (i : Invocation) (rt : RT) (hrun : rt.st.status = "running") :
    (completeInv i rt).st.queue = rt.st.queue ++ [⟨doneEvOf i, false⟩] := by
  unfold completeInv
  simp only
  split
  · simp [deliver, rlog, enqueue, enqueueQ, hrun]
  · simp only [stFail]
    split <;> simp [deliver, rlog, enqueue, enqueueQ, hrun]

theorem completeInv_gone (i : Invocation) (rt : RT) : ∀ j ∈ (completeInv i rt).invs, j.seq ≠ i.seq := by
  intro j hj
  have : (completeInv i rt).invs = rt.invs.filter (fun j => j.seq ≠ i.seq) := by
    unfold completeInv; simp only; split <;> rfl
  rw [this] at hj
  simpa using (List.mem_filter.mp hj).2

theorem completeInv_unhandled (i : Invocation) (rt : RT) (hrun : rt.st.status = "running")
    (hbad : i.spec.ok = false) (hun : i.handled = false) : (completeInv i rt).st.status = "error" := by
  unfold completeInv
  simp [hbad, hun, stFail, deliver, rlog, enqueue, enqueueQ, hrun]

theorem startOne_marks (rt : RT) (i : Invocation) : ∀ j ∈ (startOne rt i).invs, j.seq = i.seq → j.started = true := by
  intro j hj hs
  unfold startOne at hj
  simp only at hj
  split at hj
  · obtain ⟨j', _, he⟩ := List.mem_map.mp hj
    by_cases hq : j'.seq = i.seq
    · simp only [hq, if_true] at he; rw [← he]
    · simp only [hq, if_false] at he; rw [← he] at hs; exact absurd hs hq
  · exact absurd hs (completeInv_gone i _ j hj)

theorem schedInvsAsync_invs (r : REnv) (p : Path) (a : Nat) :
    ∀ (is : List Invoke) (rt : RT), (∀ i ∈ is, (svcOf r i).isSome = true) →
      ((schedInvsAsync r p a is rt).invs.map (fun j => (j.owner, j.id, j.act, j.started))) =
        rt.invs.map (fun j => (j.owner, j.id, j.act, j.started)) ++ is.map (fun i => (p, i.id, a, false)) := by
  intro is
  induction is with
  | nil => intro rt _; simp [schedInvsAsync]
  | cons i is ih =>
    intro rt hall
    unfold schedInvsAsync
    have h1 := hall i (by simp)
    cases hs : svcOf r i with
    | none => rw [hs] at h1; cases h1
    | some sp =>
      simp only
      rw [ih _ (fun j hj => hall j (List.mem_cons_of_mem _ hj))]
      simp

-- projection onto the engine model ---------------------------------------------------------------------------------
/-- nothing is delivered while the interpreter's task is suspended (no slow action has anything to wait for) -/
def Quiet (c : RCx) : Prop := ∀ d rt, (c.wnd d rt).st = rt.st

/-- the machine invokes no services (the engine model knows nothing of them) -/
def NoInvoke (m : Machine) : Prop := ∀ p d, m.defAt p = some d → d.invoke = []

theorem cancelOwner_st (c : RCx) (hq : Quiet c) (p : Path) (rt : RT) : (cancelOwner c p rt).st = rt.st := by
  unfold cancelOwner
  simp only
  split
  · cases c.fl with
    | async => simp only; rw [hq]
    | sync => rfl
  · rfl

theorem slowWindow_st (c : RCx) (hq : Quiet c) (as : List ActionRef) (rt : RT) : (slowWindow c as rt).st = rt.st := by
  unfold slowWindow
  split
  · rfl
  · split
    · rfl
    · exact hq _ _

theorem exitStep_st (c : RCx) (hq : Quiet c) (h : Hooks) (ev : Option String) (rt : RT) (p : Path) :
    (exitStepRT c h ev rt p).st = exitOne h c.fl c.m ev rt.st p := by
  unfold exitStepRT
  split
  · rename_i he; rw [exitOne_sticky h c.fl c.m ev rt.st p he]
  · split
    · rename_i he hd
      unfold exitOne
      simp [hd]
    · show exitOne h c.fl c.m ev (slowWindow c _ _).st p = _
      rw [slowWindow_st c hq]
      cases c.fl with
      | async => simp only; rw [cancelOwner_st c hq]
      | sync => rfl

theorem foldl_st {α : Type} (f : RT → α → RT) (g : St → α → St) (hf : ∀ rt a, (f rt a).st = g rt.st a) :
    ∀ (l : List α) (rt : RT), (l.foldl f rt).st = l.foldl g rt.st := by
  intro l
  induction l with
  | nil => intro rt; rfl
  | cons a l ih => intro rt; simp only [List.foldl_cons]; rw [ih, hf]

theorem exitAll_st (c : RCx) (hq : Quiet c) (h : Hooks) (ev : Option String) (ps : List Path) (rt : RT) :
    (exitAllRT c h ev ps rt).st = ps.foldl (exitOne h c.fl c.m ev) rt.st := by
  unfold exitAllRT
  cases hfl : c.fl with
  | async =>
    simp only
    rw [foldl_st _ (exitOne h c.fl c.m ev) (fun r a => exitStep_st c hq h ev r a), hfl]
  | sync =>
    simp only
    rw [foldl_st _ (exitOne h c.fl c.m ev) (fun r a => exitStep_st c hq h ev r a), hfl]
    split
    · rfl
    · rw [foldl_st (fun rt p => cancelOwner c p rt) (fun s _ => s) (fun r a => cancelOwner_st c hq a r)]
      congr 1
      clear hfl
      induction ps with
      | nil => rfl
      | cons p ps ih => simp only [List.foldl_cons]; exact ih

theorem scheduleRT_st (c : RCx) (h : Hooks) (p : Path) (d : StateDef) (rt : RT) (hi : d.invoke = []) :
    (scheduleRT c h p d rt).st = rt.st := by
  unfold scheduleRT
  have harm : ∀ fl a arms (r : RT), (armAll fl c.m p a arms r).st = r.st := by
    intro fl a arms r; unfold armAll; split <;> rfl
  rw [hi]
  cases c.fl with
  | async => simp only [schedInvsAsync]; rw [harm]
  | sync => simp only [runSvcsSync]; rw [harm]

/-- the `enter` steps of a step list, in order -/
def entersOf : List EStep → List Entry
  | [] => []
  | .enter e :: r => e :: entersOf r
  | .sched _ :: r => entersOf r

theorem entersOf_append (a b : List EStep) : entersOf (a ++ b) = entersOf a ++ entersOf b := by
  induction a with
  | nil => rfl
  | cons x a ih => cases x <;> simp [entersOf, ih]

theorem entersOf_scheds (qs : List Path) : entersOf (qs.map EStep.sched) = [] := by
  induction qs with
  | nil => rfl
  | cons q qs ih => simp [entersOf, ih]

theorem entersOf_closeOpen (e : Entry) : ∀ stack, entersOf (closeOpen e stack).1 = [] := by
  intro stack
  induction stack with
  | nil => rfl
  | cons q stack ih =>
    unfold closeOpen
    split
    · rfl
    · simp [entersOf, ih]

theorem entersOf_entrySteps (fl : Flavor) (es : List Entry) : entersOf (entrySteps fl es) = es := by
  unfold entrySteps
  cases fl with
  | async =>
    simp only
    induction es with
    | nil => rfl
    | cons e es ih => simp [entersOf, ih]
  | sync =>
    simp only
    have : ∀ (es : List Entry) (stack : List Path), entersOf (syncSteps es stack) = es := by
      intro es
      induction es with
      | nil => intro stack; unfold syncSteps; exact entersOf_scheds stack
      | cons e es ih =>
        intro stack
        unfold syncSteps
        rw [entersOf_append, entersOf_append, entersOf_closeOpen, ih]
        simp [entersOf]
    exact this es []

theorem enterStep_st (c : RCx) (hq : Quiet c) (hn : NoInvoke c.m) (h : Hooks) (ev : Option String) (rt : RT) (x : EStep) :
    (enterStepRT c h ev rt x).st = match x with
      | .enter e => enterOne h c.fl c.m ev rt.st e
      | .sched _ => rt.st := by
  cases x with
  | enter e =>
    rw [enterStepRT_enter]
    simp only
    split
    · rename_i he; rw [enterOne_sticky h c.fl c.m ev rt.st e he]
    · rename_i he
      have he : rt.st.err.isSome = false := by simpa using he
      split
      · rename_i hd; unfold enterOne; simp [hd]
      · rename_i d hd
        show enterOne h c.fl c.m ev (slowWindow c _ _).st e = _
        rw [slowWindow_st c hq]
        exact enterOne_addActive h c.fl c.m ev rt.st e d hd he
  | sched p =>
    rw [enterStepRT_sched]
    simp only
    split
    · rfl
    · split
      · rfl
      · rename_i d hd; exact scheduleRT_st c h p d rt (hn p d hd)

theorem enterSteps_st (c : RCx) (hq : Quiet c) (hn : NoInvoke c.m) (h : Hooks) (ev : Option String) :
    ∀ (L : List EStep) (rt : RT), (L.foldl (enterStepRT c h ev) rt).st = (entersOf L).foldl (enterOne h c.fl c.m ev) rt.st := by
  intro L
  induction L with
  | nil => intro rt; rfl
  | cons x L ih =>
    intro rt
    simp only [List.foldl_cons]
    rw [ih, enterStep_st c hq hn]
    cases x <;> simp [entersOf]

theorem enterAll_st (c : RCx) (hq : Quiet c) (hn : NoInvoke c.m) (h : Hooks) (ev : Option String) (es : List Entry) (rt : RT) :
    (enterAllRT c h ev es rt).st = es.foldl (enterOne h c.fl c.m ev) rt.st := by
  unfold enterAllRT
  rw [enterSteps_st c hq hn, entersOf_entrySteps]

theorem runPlan_st (c : RCx) (hq : Quiet c) (hn : NoInvoke c.m) (h : Hooks) (ev : Ev) (pl : Plan) (rt : RT) :
    (runPlanRT c h ev pl rt).st = runPlan h c.fl c.m ev pl rt.st := by
  unfold runPlanRT runPlan
  simp only
  have e2 := exitAll_st c hq h (some ev.type) pl.exits { rt with st := recordHistory c.m pl.exits rt.st }
  generalize exitAllRT c h (some ev.type) pl.exits { rt with st := recordHistory c.m pl.exits rt.st } = r2 at e2
  simp only at e2
  rw [← e2]
  have e3 : (if r2.st.err.isSome then r2 else
      { (slowWindow c pl.actions r2) with st := execActions h pl.actions ev.type (slowWindow c pl.actions r2).st }).st =
      (if r2.st.err.isSome then r2.st else execActions h pl.actions ev.type r2.st) := by
    split
    · rfl
    · show execActions h pl.actions ev.type (slowWindow c pl.actions r2).st = _
      rw [slowWindow_st c hq]
  cases pl.err with
  | some e =>
    show ((enterAllRT c h (some ev.type) pl.entries _).st.fail _) = _
    rw [enterAll_st c hq hn, e3]
  | none =>
    show (enterAllRT c h (some ev.type) pl.entries _).st = _
    rw [enterAll_st c hq hn, e3]

theorem rearm_st (c : RCx) (hn : NoInvoke c.m) (h : Hooks) (pre exits : List Path) (rt : RT) : (rearmRT c h pre exits rt).st = rt.st := by
  unfold rearmRT
  generalize pre.filter (fun p => exits.contains p) = l
  induction l generalizing rt with
  | nil => rfl
  | cons p l ih =>
    simp only [List.foldl_cons]
    rw [ih]
    split
    · rfl
    · rename_i d hd; exact scheduleRT_st c h p d rt (hn p d hd)

theorem executeCore_st (c : RCx) (hq : Quiet c) (hn : NoInvoke c.m) (h : Hooks) (ev : Ev) (pl : Plan) (rt : RT) :
    (executeCoreRT c h ev pl rt).st = executeCore h c.fl c.m ev pl rt.st := by
  unfold executeCoreRT executeCore
  split
  · cases pl.err with
    | some e => rfl
    | none =>
      show execActions h pl.actions ev.type (slowWindow c pl.actions rt).st = _
      rw [slowWindow_st c hq]
  · simp only
    rw [← runPlan_st c hq hn]
    split
    · show { (rearmRT c h rt.st.cfg pl.exits _).st with cfg := rt.st.cfg, err := (runPlanRT c h ev pl rt).st.err } = _
      rw [rearm_st c hn]
    · rfl

theorem execute_st (c : RCx) (hq : Quiet c) (hn : NoInvoke c.m) (h : Hooks) (ev : Ev) (pl : Plan) (rt : RT) :
    (executeRT c h ev pl rt).st = execute h c.fl c.m ev pl rt.st := by
  unfold executeRT execute
  simp only
  rw [← executeCore_st c hq hn]
  split <;> rfl

theorem processEvent_st (c : RCx) (hq : Quiet c) (hn : NoInvoke c.m) (h : Hooks) (ev : Ev) (rt : RT) :
    (processEventRT c h ev rt).st = processEvent h c.fl c.m c.u ev rt.st := by
  unfold processEventRT processEvent
  split
  · rename_i n he; simp only [he]
  · rename_i sel he
    simp only [he]
    apply foldl_st
    intro r cd
    split
    · rfl
    · split
      · rfl
      · split
        · rfl
        · exact execute_st c hq hn h ev _ r

theorem transientLoop_st (c : RCx) (hq : Quiet c) (hn : NoInvoke c.m) (h : Hooks) :
    ∀ (fuel : Nat) (rt : RT), (transientLoopRT c h fuel rt).st = transientLoop h c.fl c.m c.u fuel rt.st := by
  intro fuel
  induction fuel with
  | zero => intro rt; rfl
  | succ fuel ih =>
    intro rt
    unfold transientLoopRT transientLoop
    split
    · rfl
    · split
      · rename_i n he; simp only [he]
      · rename_i sel he
        simp only [he]
        split
        · rw [ih, processEvent_st c hq hn]
        · rfl

theorem asyncProcess_st (c : RCx) (hfl : c.fl = .async) (hq : Quiet c) (hn : NoInvoke c.m) (e : Ev) (rt : RT) :
    (asyncProcessRT c e rt).st = asyncProcess c.m c.u e rt.st := by
  unfold asyncProcessRT asyncProcess
  have h1 := processEvent_st c hq hn (hooksAsync c.u c.m) e { rt with st := emit ("#recv:" ++ e.type) rt.st }
  have h2 := transientLoop_st c hq hn (hooksAsync c.u c.m) c.m.maxIterations
    (processEventRT c (hooksAsync c.u c.m) e { rt with st := emit ("#recv:" ++ e.type) rt.st })
  rw [h1, hfl] at h2
  simp only at h2 ⊢
  rw [← h2]

theorem asyncStep_st (c : RCx) (hfl : c.fl = .async) (hq : Quiet c) (hn : NoInvoke c.m) (q : QEv) (rt : RT) :
    (asyncStepRT c q rt).st = asyncStep c.m c.u q rt.st := by
  unfold asyncStepRT asyncStep
  split
  · split
    · rfl
    · exact asyncProcess_st c hfl hq hn q.ev { rt with st := asyncPurge rt.st }
  · exact asyncProcess_st c hfl hq hn q.ev rt

theorem asyncDrain_st (c : RCx) (hfl : c.fl = .async) (hq : Quiet c) (hn : NoInvoke c.m) :
    ∀ (fuel : Nat) (rt : RT), (asyncDrainRT c fuel rt).st = asyncDrain c.m c.u fuel rt.st := by
  intro fuel
  induction fuel with
  | zero => intro rt; unfold asyncDrainRT asyncDrain; split <;> rfl
  | succ fuel ih =>
    intro rt
    unfold asyncDrainRT asyncDrain
    split
    · rfl
    · split
      · rename_i he; simp only [he]
      · rename_i q rest he
        simp only [he]
        rw [ih, asyncStep_st c hfl hq hn]

theorem drainLoop_st (c : RCx) (hfl : c.fl = .sync) (hq : Quiet c) (hn : NoInvoke c.m) :
    ∀ (fuel ch : Nat) (rt : RT), (drainLoopRT c fuel ch rt).st = drainLoop c.m c.u fuel ch rt.st := by
  intro fuel
  induction fuel with
  | zero => intro ch rt; unfold drainLoopRT drainLoop; split <;> rfl
  | succ fuel ih =>
    intro ch rt
    unfold drainLoopRT drainLoop
    split
    · rename_i he; simp only [he]
    · rename_i q rest he
      simp only [he]
      split
      · rfl
      · split
        · rw [ih]
        · have h1 := processEvent_st c hq hn (hooksFlagged c.u c.m) q.ev { rt with st := emit ("#recv:" ++ q.ev.type) { rt.st with queue := rest } }
          have h2 := transientLoop_st c hq hn (hooksFlagged c.u c.m) c.m.maxIterations
            (processEventRT c (hooksFlagged c.u c.m) q.ev { rt with st := emit ("#recv:" ++ q.ev.type) { rt.st with queue := rest } })
          rw [h1, hfl] at h2
          simp only at h2 ⊢
          rw [← h2]
          split
          · rfl
          · rw [ih]

-- services ---------------------------------------------------------------------------------------------------------
theorem minWake_iv (rt : RT) (i : Invocation) (h : minWake rt = some (.iv i)) : i ∈ rt.invs ∧ i.started = true := by
  have := minWakeL_mem _ _ h
  unfold wakes at this
  rcases List.mem_append.mp this with h1 | h1
  · obtain ⟨t, _, he⟩ := List.mem_map.mp h1
    cases he
  · obtain ⟨i', hi', he⟩ := List.mem_map.mp h1
    injection he with he
    rw [← he]; exact ⟨(List.mem_filter.mp hi').1, by simpa using (List.mem_filter.mp hi').2⟩

theorem startOne_unstarted (rt : RT) (i : Invocation) (j : Invocation) (hj : j ∈ (startOne rt i).invs) (hs : j.started = false) :
    j ∈ rt.invs ∧ j.seq ≠ i.seq := by
  have hne : j.seq ≠ i.seq := fun e => by
    have := startOne_marks rt i j hj e
    rw [hs] at this; cases this
  refine ⟨?_, hne⟩
  unfold startOne at hj
  simp only at hj
  split at hj
  · obtain ⟨j', hj', he⟩ := List.mem_map.mp hj
    by_cases hq : j'.seq = i.seq
    · simp only [hq, if_true] at he; rw [← he] at hs; cases hs
    · simp only [hq, if_false] at he; rw [← he]; exact hj'
  · have : (completeInv i (rlog ("svc-start:" ++ i.id) { rt with started := (i.owner, i.id, i.act) :: rt.started })).invs =
        rt.invs.filter (fun j => j.seq ≠ i.seq) := by
      unfold completeInv; simp only; split <;> rfl
    rw [this] at hj
    exact (List.mem_filter.mp hj).1

/-- when the interpreter's task yields, every service task created so far gets to run: none stays
    unstarted -/
theorem startPending_all_started (rt : RT) : ∀ j ∈ (startPending rt).invs, j.started = true := by
  unfold startPending
  have key : ∀ (l : List Invocation) (r : RT), (∀ j ∈ r.invs, j.started = false → ∃ i ∈ l, i.seq = j.seq) →
      ∀ j ∈ (l.foldl startOne r).invs, j.started = true := by
    intro l
    induction l with
    | nil =>
      intro r h j hj
      cases hs : j.started with
      | true => rfl
      | false => obtain ⟨i, hi, _⟩ := h j hj hs; cases hi
    | cons i l ih =>
      intro r h
      simp only [List.foldl_cons]
      apply ih
      intro j hj hs
      obtain ⟨h1, h2⟩ := startOne_unstarted r i j hj hs
      obtain ⟨i', hi', he⟩ := h j h1 hs
      rcases List.mem_cons.mp hi' with e | e
      · rw [e] at he; exact absurd he.symm h2
      · exact ⟨i', e, he⟩
  apply key
  intro j hj hs
  exact ⟨j, List.mem_filter.mpr ⟨hj, by simp [hs]⟩, rfl⟩


/-- sync: every declared invocation whose service is a plain callable is called exactly once by the
    schedule step, in declaration order -/
theorem runSvcsSync_started (r : REnv) (h : Hooks) (p : Path) (a : Nat) :
    ∀ (is : List Invoke) (rt : RT), (∀ i ∈ is, ∃ sp, svcOf r i = some sp ∧ sp.coro = false) →
      (runSvcsSync r h p a is rt).started = (is.map (fun i => (p, i.id, a))).reverse ++ rt.started := by
  intro is
  induction is with
  | nil => intro rt _; rfl
  | cons i is ih =>
    intro rt hall
    obtain ⟨sp, h1, h2⟩ := hall i (by simp)
    unfold runSvcsSync
    simp only [h1, h2, Bool.false_eq_true, if_false]
    rw [ih _ (fun j hj => hall j (List.mem_cons_of_mem _ hj))]
    split <;> simp [rlog]

end XSM.RTP
