import Xsm.Model.Resolve
import Xsm.Proofs.Guard
import Xsm.Proofs.Select
import Xsm.Proofs.Legal
/-!
C19, targets: `pythonic._compile_config` writes the BARE NAME of the State object a `Transition`
targets.  When that name is borne by exactly one state of the machine, the interpreters' target
resolution (`_resolve_target_state_robustly`: four `resolve_target_state` attempts, then the root
lookups, then the tree walk) finds exactly that state, from every source.
-/
namespace XSM
open XSM.Spec

theorem Py_findKid_mem : ∀ {ks : List (String × SNode)} {k : String} {c : SNode}, findKid k ks = some c → (k, c) ∈ ks
  | [], _, _, h => by simp [findKid] at h
  | (k', c') :: rest, k, c, h => by
    unfold findKid at h
    split at h
    · rename_i e
      cases h
      simp [e]
    · exact List.mem_cons_of_mem _ (Py_findKid_mem h)

/-- a non-empty, dot-free name that does not start with `#` -/
def SimpleName (s : String) : Prop :=
  '.' ∉ s.toList ∧ ∃ c rest, s.toList = c :: rest ∧ c ≠ '#'

theorem SimpleName.ne_empty {s : String} (h : SimpleName s) : s ≠ "" := by
  obtain ⟨_, c, rest, e, _⟩ := h
  intro hs
  rw [hs] at e
  cases e

theorem SimpleName.not_hash {s : String} (h : SimpleName s) : sStartsWith s "#" = false := by
  obtain ⟨_, c, rest, e, hc⟩ := h
  have hh : "#".toList = ['#'] := rfl
  simp only [sStartsWith, hh, e, List.isPrefixOf]
  simp [Ne.symm hc]

theorem SimpleName.not_dot {s : String} (h : SimpleName s) : sStartsWith s "." = false := by
  obtain ⟨hd, c, rest, e, _⟩ := h
  have hh : ".".toList = ['.'] := rfl
  have hc : c ≠ '.' := fun e' => hd (by rw [e, e']; simp)
  simp only [sStartsWith, hh, e, List.isPrefixOf]
  simp [Ne.symm hc]

theorem splitDot_simple {s : String} (h : SimpleName s) : splitDot s = [s] := by
  simp [splitDot, splitDotL_dotfree _ h.1, String.ofList_toList]

theorem splitDot_qualified {a b : String} (ha : SimpleName a) (hb : SimpleName b) :
    splitDot (a ++ "." ++ b) = [a, b] := by
  have hh : ".".toList = ['.'] := rfl
  simp only [splitDot, String.toList_append, hh, List.append_assoc, List.singleton_append]
  rw [splitDotL_append_dot, splitDotL_dotfree _ ha.1, splitDotL_dotfree _ hb.1]
  simp [String.ofList_toList]

theorem qualified_not_hash {a b : String} (ha : SimpleName a) : sStartsWith (a ++ "." ++ b) "#" = false := by
  obtain ⟨_, c, rest, e, hc⟩ := ha
  have hh : "#".toList = ['#'] := rfl
  simp only [sStartsWith, hh, String.toList_append, e, List.cons_append, List.isPrefixOf]
  simp [Ne.symm hc]

theorem qualified_not_dot {a b : String} (ha : SimpleName a) : sStartsWith (a ++ "." ++ b) "." = false := by
  obtain ⟨hd, c, rest, e, _⟩ := ha
  have hh : ".".toList = ['.'] := rfl
  have hc : c ≠ '.' := fun e' => hd (by rw [e, e']; simp)
  simp only [sStartsWith, hh, String.toList_append, e, List.cons_append, List.isPrefixOf]
  simp [Ne.symm hc]

theorem qualified_ne_empty {a b : String} (ha : SimpleName a) : a ++ "." ++ b ≠ "" := by
  obtain ⟨_, c, rest, e, _⟩ := ha
  intro h
  have := congrArg String.toList h
  simp [String.toList_append, e] at this

/-- what the bubbling loop of `resolve_target_state` can return -/
theorem resolveTarget_go_spec (m : Machine) (segs : List String) :
    ∀ (fuel : Nat) (cur p : Path), resolveTarget.go m segs fuel cur = some p →
      (∃ c n, m.root.at c = some n ∧ (n.at segs).isSome ∧ p = c ++ segs)
      ∨ (segs.length = 1 ∧ segs.head? = some (m.keyOf p) ∧ (m.root.at p).isSome)
  | 0, _, _, h => by simp [resolveTarget.go] at h
  | fuel + 1, cur, p, h => by
    unfold resolveTarget.go at h
    split at h
    · cases h
    · rename_i n hn
      split at h
      · rename_i p' hd
        cases h
        unfold descend at hd
        split at hd
        · rename_i x hx
          cases hd
          exact Or.inl ⟨cur, n, hn, by simp [hx], rfl⟩
        · cases hd
      · split at h
        · rename_i hc
          cases h
          exact Or.inr ⟨hc.1, hc.2, by simp [hn]⟩
        · split at h
          · cases h
          · exact resolveTarget_go_spec m segs fuel _ p h

theorem splitDot_dotfree {s : String} (h : '.' ∉ s.toList) : splitDot s = [s] := by
  simp [splitDot, splitDotL_dotfree _ h, String.ofList_toList]

theorem SimpleName.ne_dot {s : String} (h : SimpleName s) : s ≠ "." := by
  intro e
  apply h.1
  rw [e]
  decide

/-- `resolve_target_state(k, ref)` for a bare simple name: a child `k` of `ref` or of one of its ancestors, or
    `ref` / an ancestor itself when it is called `k` -/
theorem resolveTarget_bare_spec (m : Machine) (k : String) (hk : SimpleName k) (ref p : Path)
    (h : resolveTarget m k ref = some p) :
    (∃ c n, m.root.at c = some n ∧ (n.at [k]).isSome ∧ p = c ++ [k]) ∨ (k = m.keyOf p ∧ (m.root.at p).isSome) := by
  unfold resolveTarget at h
  simp only [hk.ne_empty, if_false, hk.not_hash, Bool.false_eq_true, hk.ne_dot, hk.not_dot, splitDot_simple hk,
    List.any_cons, List.any_nil, Bool.or_false, decide_eq_true_eq] at h
  rcases resolveTarget_go_spec m [k] _ ref p h with h1 | ⟨_, h2, h3⟩
  · exact Or.inl h1
  · right
    simp only [List.head?_cons, Option.some.injEq] at h2
    exact ⟨h2, h3⟩

theorem resolveTarget_qualified_spec (m : Machine) (a k : String) (ha : SimpleName a) (hk : SimpleName k) (ref p : Path)
    (h : resolveTarget m (a ++ "." ++ k) ref = some p) :
    ∃ c n, m.root.at c = some n ∧ (n.at [a, k]).isSome ∧ p = c ++ [a, k] := by
  unfold resolveTarget at h
  have hne : (a ++ "." ++ k = ".") = False := by
    simp only [eq_iff_iff, iff_false]
    intro e
    have := congrArg String.toList e
    obtain ⟨_, c, rest, ea, _⟩ := ha
    obtain ⟨_, c', rest', ek, _⟩ := hk
    have hh : ".".toList = ['.'] := rfl
    simp [String.toList_append, ea, ek, hh] at this
  simp only [qualified_ne_empty ha, if_false, qualified_not_hash ha, Bool.false_eq_true, hne, qualified_not_dot ha,
    splitDot_qualified ha hk, List.any_cons, List.any_nil, Bool.or_false, decide_eq_true_eq, ha.ne_empty, hk.ne_empty,
    Bool.or_self] at h
  rcases resolveTarget_go_spec m [a, k] _ ref p h with h1 | ⟨h2, _, _⟩
  · exact h1
  · simp at h2

theorem mem_allPaths_of_at (root : SNode) (p : Path) (h : (root.at p).isSome) : p ∈ root.allPaths [] := by
  obtain ⟨n, hn⟩ := Option.isSome_iff_exists.mp h
  simpa using at_mem_allPaths root [] p n hn

theorem at_append_isSome (root : SNode) (c segs : Path) (n : SNode) (h : root.at c = some n) (hs : (n.at segs).isSome) :
    (root.at (c ++ segs)).isSome := by
  rw [at_append root c segs n h]
  exact hs

theorem findKid_isSome_of_mem : ∀ {ks : List (String × SNode)} {k : String} {c : SNode}, (k, c) ∈ ks → (findKid k ks).isSome
  | [], _, _, h => by cases h
  | (k', c') :: rest, k, c, h => by
    unfold findKid
    split
    · rfl
    · rename_i hne
      rcases List.mem_cons.mp h with e | hm
      · cases e
        exact absurd rfl hne
      · exact findKid_isSome_of_mem hm

theorem localName_dotfree (m : Machine) (p : Path) (k : String) (hl : p.getLast? = some k) (hd : '.' ∉ k.toList) :
    m.localName p = k := by
  unfold Machine.localName
  rw [hl]
  simp [splitDot_dotfree hd]

theorem localName_root (m : Machine) (hid : SimpleName m.id) : m.localName [] = m.id := by
  unfold Machine.localName
  simp [splitDot_simple hid]

/-- **A bare name borne by exactly one state resolves to that state, from every source.** `q` is the state, `k` its
    key; keys are dot-free, `k` differs from the machine id. -/
theorem bare_name_resolves (m : Machine) (k : String) (q src : Path)
    (hid : SimpleName m.id) (hk : SimpleName k) (hkid : k ≠ m.id) (hkm : k ≠ "machine")
    (hq : q ∈ m.root.allPaths []) (hql : q.getLast? = some k)
    (hu : ∀ p ∈ m.root.allPaths [], p.getLast? = some k → p = q)
    (hdf : ∀ p ∈ m.root.allPaths [], ∀ key ∈ p, '.' ∉ key.toList) :
    resolveRobust m src k = some q := by
  -- every successful `resolve_target_state` attempt lands on q
  have bare : ∀ ref p, resolveTarget m k ref = some p → p = q := by
    intro ref p h
    rcases resolveTarget_bare_spec m k hk ref p h with ⟨c, n, hc, hn, rfl⟩ | ⟨hkey, hp⟩
    · exact hu _ (mem_allPaths_of_at _ _ (at_append_isSome _ _ _ _ hc hn)) (by simp)
    · cases p with
      | nil => exact absurd hkey hkid
      | cons x xs =>
        refine hu _ (mem_allPaths_of_at _ _ hp) ?_
        unfold Machine.keyOf at hkey
        cases hl : (x :: xs).getLast? with
        | none => simp at hl
        | some l => rw [hl] at hkey; simp at hkey; rw [hkey]
  have qual : ∀ ref p, resolveTarget m (m.id ++ "." ++ k) ref = some p → p = q := by
    intro ref p h
    obtain ⟨c, n, hc, hn, rfl⟩ := resolveTarget_qualified_spec m m.id k hid hk ref p h
    exact hu _ (mem_allPaths_of_at _ _ (at_append_isSome _ _ _ _ hc hn)) (by simp)
  unfold resolveRobust
  simp only
  split
  · rename_i p hp
    obtain ⟨a, ha, hfa⟩ := List.exists_of_findSome?_eq_some hp
    simp only [List.mem_append, List.mem_cons, List.not_mem_nil, or_false] at ha
    rcases ha with (rfl | ha) | rfl | rfl
    · exact congrArg some (bare _ _ hfa)
    · split at ha
      · cases ha
      · simp only [List.mem_cons, List.not_mem_nil, or_false] at ha
        subst ha
        exact congrArg some (bare _ _ hfa)
    · exact congrArg some (bare _ _ hfa)
    · exact congrArg some (qual _ _ hfa)
  · simp only [hkm, if_false]
    have hroot : ∀ k' c, (k', c) ∈ m.root.kids → [k'] ∈ m.root.allPaths [] := by
      intro k' c hm
      apply mem_allPaths_of_at
      cases hr : m.root with
      | mk d ks =>
        rw [hr] at hm
        simp only [SNode.kids] at hm
        simp only [SNode.at]
        obtain ⟨c', hc'⟩ := Option.isSome_iff_exists.mp (findKid_isSome_of_mem hm)
        simp [hc']
    split
    · rename_i c hc
      have hm : (k, c) ∈ m.root.kids := by
        cases hr : m.root with
        | mk d ks => rw [hr] at hc; exact Py_findKid_mem hc
      exact congrArg some (hu _ (hroot k c hm) (by simp))
    · split
      · rename_i k' c' hf
        have hm := List.mem_of_find?_eq_some hf
        have hp := List.find?_some hf
        simp only [decide_eq_true_eq] at hp
        have hin := hroot k' c' hm
        have hd := hdf _ hin k' (by simp)
        rw [localName_dotfree m [k'] k' (by simp) hd] at hp
        subst hp
        exact congrArg some (hu _ hin (by simp))
      · cases hf : (m.root.allPaths []).find? (fun p => m.localName p = k) with
        | some p =>
          have hm := List.mem_of_find?_eq_some hf
          have hp := List.find?_some hf
          simp only [decide_eq_true_eq] at hp
          cases hl : p.getLast? with
          | none =>
            have : p = [] := by simpa using hl
            subst this
            rw [localName_root m hid] at hp
            exact absurd hp.symm hkid
          | some l =>
            have hmem : l ∈ p := List.mem_of_getLast? hl
            rw [localName_dotfree m p l hl (hdf p hm l hmem)] at hp
            subst hp
            exact congrArg some (hu _ hm hl)
        | none =>
          exfalso
          have := List.find?_eq_none.mp hf q hq
          simp only [decide_eq_true_eq] at this
          exact this (localName_dotfree m q k hql hk.1)

end XSM
