import Xsm.Model.Guard
import Xsm.Model.Select
import Xsm.Model.Parse
/-!
Helper definitions and lemmas for property C06 (guards).

* evaluator: short-circuit characterisation of `and` / `or` / `not`, a denotational (plain Boolean)
  semantics `denote`, the list `reached` of user guard names that evaluation actually looks up,
  "raises = false" (`deraise`);
* `stateIn`: the suffix test of `isStateIn` against membership in the configuration;
* parser: unfolding lemma for the (well-founded) `parseGuard`, operand spellings;
* selection: a candidate whose guard is false (e.g. raises) is dropped without affecting the others.
-/
namespace XSM

/-! ## Evaluator: unfolding lemmas -/

section Eval
variable (m : Machine) (cfg : List Path) (env : GEnv)

@[simp] theorem evalGuard_and (cs : List GuardExpr) :
    evalGuard m cfg env (.and cs) = evalAll m cfg env cs := by simp [evalGuard]
@[simp] theorem evalGuard_or (cs : List GuardExpr) :
    evalGuard m cfg env (.or cs) = evalAny m cfg env cs := by simp [evalGuard]

theorem evalGuard_not (c : GuardExpr) :
    evalGuard m cfg env (.not c) =
      (match evalGuard m cfg env c with | .ok b => .ok (!b) | .error e => .error e) := by
  simp only [evalGuard, bind, Except.bind, pure, Except.pure]
  cases evalGuard m cfg env c <;> rfl

theorem evalAll_nil : evalAll m cfg env [] = .ok true := by simp [evalAll, pure, Except.pure]
theorem evalAny_nil : evalAny m cfg env [] = .ok false := by simp [evalAny, pure, Except.pure]

theorem evalAll_cons (c : GuardExpr) (cs : List GuardExpr) :
    evalAll m cfg env (c :: cs) =
      (match evalGuard m cfg env c with
       | .ok true => evalAll m cfg env cs
       | .ok false => .ok false
       | .error e => .error e) := by
  simp only [evalAll, bind, Except.bind, pure, Except.pure]
  cases evalGuard m cfg env c with
  | error e => rfl
  | ok b => cases b <;> simp

theorem evalAny_cons (c : GuardExpr) (cs : List GuardExpr) :
    evalAny m cfg env (c :: cs) =
      (match evalGuard m cfg env c with
       | .ok true => .ok true
       | .ok false => evalAny m cfg env cs
       | .error e => .error e) := by
  simp only [evalAny, bind, Except.bind, pure, Except.pure]
  cases evalGuard m cfg env c with
  | error e => rfl
  | ok b => cases b <;> simp

theorem evalGuard_named (n : String) (p : Option J) :
    evalGuard m cfg env (.named n p) =
      (match env n with
       | .missing => .error (.missing n)
       | .t => .ok true | .f => .ok false | .raises => .ok false) := by
  simp only [evalGuard, pure, Except.pure]
  cases env n <;> rfl

theorem evalGuard_stateIn (p : Option J) :
    evalGuard m cfg env (.stateIn p) =
      (match env "stateIn" with
       | .missing => .ok (isStateIn m cfg p)
       | .t => .ok true | .f => .ok false | .raises => .ok false) := by
  simp only [evalGuard, pure, Except.pure]
  cases env "stateIn" <;> rfl

/-! ## Short-circuit characterisation -/

/-- `and` = Python `all(...)` over a generator: children evaluating to `ok true` are skipped, the
first child that evaluates to anything else decides the result; children after it are irrelevant. -/
theorem evalAll_split (pre : List GuardExpr) (c : GuardExpr) (post : List GuardExpr)
    (hpre : ∀ x ∈ pre, evalGuard m cfg env x = .ok true)
    (hc : evalGuard m cfg env c ≠ .ok true) :
    evalAll m cfg env (pre ++ c :: post) = evalGuard m cfg env c := by
  induction pre with
  | nil =>
    simp only [List.nil_append, evalAll_cons]
    cases h : evalGuard m cfg env c with
    | error e => rfl
    | ok b => cases b with
      | false => rfl
      | true => exact absurd h hc
  | cons x pre ih =>
    simp only [List.cons_append, evalAll_cons, hpre x (by simp)]
    exact ih (fun y hy => hpre y (by simp [hy]))

theorem evalAll_all_true (cs : List GuardExpr)
    (h : ∀ x ∈ cs, evalGuard m cfg env x = .ok true) : evalAll m cfg env cs = .ok true := by
  induction cs with
  | nil => exact evalAll_nil m cfg env
  | cons x cs ih =>
    simp only [evalAll_cons, h x (by simp)]
    exact ih (fun y hy => h y (by simp [hy]))

theorem evalAny_split (pre : List GuardExpr) (c : GuardExpr) (post : List GuardExpr)
    (hpre : ∀ x ∈ pre, evalGuard m cfg env x = .ok false)
    (hc : evalGuard m cfg env c ≠ .ok false) :
    evalAny m cfg env (pre ++ c :: post) = evalGuard m cfg env c := by
  induction pre with
  | nil =>
    simp only [List.nil_append, evalAny_cons]
    cases h : evalGuard m cfg env c with
    | error e => rfl
    | ok b => cases b with
      | true => rfl
      | false => exact absurd h hc
  | cons x pre ih =>
    simp only [List.cons_append, evalAny_cons, hpre x (by simp)]
    exact ih (fun y hy => hpre y (by simp [hy]))

theorem evalAny_all_false (cs : List GuardExpr)
    (h : ∀ x ∈ cs, evalGuard m cfg env x = .ok false) : evalAny m cfg env cs = .ok false := by
  induction cs with
  | nil => exact evalAny_nil m cfg env
  | cons x cs ih =>
    simp only [evalAny_cons, h x (by simp)]
    exact ih (fun y hy => h y (by simp [hy]))

/-- every list of children either evaluates to `ok true` throughout, or splits at the first child
that does not -/
theorem split_first_not (r : Except GErr Bool) (cs : List GuardExpr) :
    (∀ x ∈ cs, evalGuard m cfg env x = r) ∨
    ∃ pre c post, cs = pre ++ c :: post ∧ (∀ x ∈ pre, evalGuard m cfg env x = r) ∧
      evalGuard m cfg env c ≠ r := by
  induction cs with
  | nil => left; simp
  | cons x cs ih =>
    by_cases hx : evalGuard m cfg env x = r
    · rcases ih with h | ⟨pre, c, post, rfl, hpre, hc⟩
      · left; intro y hy
        rcases List.mem_cons.1 hy with rfl | hy
        · exact hx
        · exact h y hy
      · right; refine ⟨x :: pre, c, post, rfl, ?_, hc⟩
        intro y hy
        rcases List.mem_cons.1 hy with rfl | hy
        · exact hx
        · exact hpre y hy
    · right; exact ⟨[], x, cs, rfl, by simp, hx⟩

theorem evalAll_true_iff (cs : List GuardExpr) :
    evalAll m cfg env cs = .ok true ↔ ∀ x ∈ cs, evalGuard m cfg env x = .ok true := by
  constructor
  · intro h
    rcases split_first_not m cfg env (.ok true) cs with hall | ⟨pre, c, post, rfl, hpre, hc⟩
    · exact hall
    · rw [evalAll_split m cfg env pre c post hpre hc] at h; exact absurd h hc
  · exact evalAll_all_true m cfg env cs

theorem evalAny_false_iff (cs : List GuardExpr) :
    evalAny m cfg env cs = .ok false ↔ ∀ x ∈ cs, evalGuard m cfg env x = .ok false := by
  constructor
  · intro h
    rcases split_first_not m cfg env (.ok false) cs with hall | ⟨pre, c, post, rfl, hpre, hc⟩
    · exact hall
    · rw [evalAny_split m cfg env pre c post hpre hc] at h; exact absurd h hc
  · exact evalAny_all_false m cfg env cs

/-! ## Denotational semantics -/

/-- the leaves of a guard expression -/
inductive GAtom where
  | named (name : String) (params : Option J)
  | stateIn (params : Option J)

/-- value of a user guard outcome: a raising guard is false, a missing one has no value -/
def outVal : GOut → Option Bool
  | .t => some true | .f => some false | .raises => some false | .missing => none

/-- value of an atom: a user guard by its outcome; `stateIn` by the user guard of that name when
there is one, else by the built-in test on the configuration -/
def atomVal (m : Machine) (cfg : List Path) (env : GEnv) : GAtom → Option Bool
  | .named n _ => outVal (env n)
  | .stateIn p => some ((outVal (env "stateIn")).getD (isStateIn m cfg p))

mutual
/-- ordinary Boolean meaning (atoms without a value read as `false`; `eval_bool_semantics` only
uses it when every atom has a value, `eval_sound` shows the default never matters) -/
def denote (m : Machine) (cfg : List Path) (env : GEnv) : GuardExpr → Bool
  | .named n p => (atomVal m cfg env (.named n p)).getD false
  | .stateIn p => (atomVal m cfg env (.stateIn p)).getD false
  | .and cs => denoteAll m cfg env cs
  | .or cs => denoteAny m cfg env cs
  | .not c => !(denote m cfg env c)
def denoteAll (m : Machine) (cfg : List Path) (env : GEnv) : List GuardExpr → Bool
  | [] => true
  | c :: cs => denote m cfg env c && denoteAll m cfg env cs
def denoteAny (m : Machine) (cfg : List Path) (env : GEnv) : List GuardExpr → Bool
  | [] => false
  | c :: cs => denote m cfg env c || denoteAny m cfg env cs
end

theorem denoteAll_eq_all (cs : List GuardExpr) :
    denoteAll m cfg env cs = cs.all (denote m cfg env) := by
  induction cs with
  | nil => simp [denoteAll]
  | cons c cs ih => simp [denoteAll, ih]

theorem denoteAny_eq_any (cs : List GuardExpr) :
    denoteAny m cfg env cs = cs.any (denote m cfg env) := by
  induction cs with
  | nil => simp [denoteAny]
  | cons c cs ih => simp [denoteAny, ih]

theorem denote_and (cs : List GuardExpr) :
    denote m cfg env (.and cs) = cs.all (denote m cfg env) := by
  simp [denote, denoteAll_eq_all]
theorem denote_or (cs : List GuardExpr) :
    denote m cfg env (.or cs) = cs.any (denote m cfg env) := by
  simp [denote, denoteAny_eq_any]
theorem denote_not (c : GuardExpr) : denote m cfg env (.not c) = !(denote m cfg env c) := by
  simp [denote]

mutual
/-- names of the user guards an expression mentions, left to right -/
def guardNames : GuardExpr → List String
  | .named n _ => [n]
  | .stateIn _ => []
  | .and cs => guardNamesL cs
  | .or cs => guardNamesL cs
  | .not c => guardNames c
def guardNamesL : List GuardExpr → List String
  | [] => []
  | c :: cs => guardNames c ++ guardNamesL cs
end

theorem guardNamesL_eq_flatMap (cs : List GuardExpr) : guardNamesL cs = cs.flatMap guardNames := by
  induction cs with
  | nil => simp [guardNamesL]
  | cons c cs ih => simp [guardNamesL, ih]

mutual
/-- names of the user guards that evaluation actually looks up, in order: evaluation of `and`
moves on to the next child only after `ok true`, of `or` only after `ok false` -/
def reached (m : Machine) (cfg : List Path) (env : GEnv) : GuardExpr → List String
  | .named n _ => [n]
  | .stateIn _ => []
  | .and cs => reachedAll m cfg env cs
  | .or cs => reachedAny m cfg env cs
  | .not c => reached m cfg env c
def reachedAll (m : Machine) (cfg : List Path) (env : GEnv) : List GuardExpr → List String
  | [] => []
  | c :: cs => reached m cfg env c ++
      (match evalGuard m cfg env c with | .ok true => reachedAll m cfg env cs | _ => [])
def reachedAny (m : Machine) (cfg : List Path) (env : GEnv) : List GuardExpr → List String
  | [] => []
  | c :: cs => reached m cfg env c ++
      (match evalGuard m cfg env c with | .ok false => reachedAny m cfg env cs | _ => [])
end

/-- whenever evaluation returns a value it is the Boolean meaning -/
theorem eval_sound_aux :
    (∀ (g : GuardExpr) (b : Bool), evalGuard m cfg env g = .ok b → b = denote m cfg env g) := by
  intro g
  refine GuardExpr.rec
    (motive_1 := fun g => ∀ b, evalGuard m cfg env g = .ok b → b = denote m cfg env g)
    (motive_2 := fun cs =>
      (∀ b, evalAll m cfg env cs = .ok b → b = denoteAll m cfg env cs) ∧
      (∀ b, evalAny m cfg env cs = .ok b → b = denoteAny m cfg env cs))
    ?_ ?_ ?_ ?_ ?_ ?_ ?_ g
  · intro n p b h
    rw [evalGuard_named] at h
    simp only [denote, atomVal]
    cases hn : env n <;> simp [hn, outVal] at h ⊢ <;> first | exact h | exact h.symm
  · intro p b h
    rw [evalGuard_stateIn] at h
    simp only [denote, atomVal]
    cases hn : env "stateIn" <;> simp [hn, outVal] at h ⊢ <;> first | exact h | exact h.symm
  · intro cs ih b h
    simp only [evalGuard_and] at h
    simp only [denote]; exact ih.1 b h
  · intro cs ih b h
    simp only [evalGuard_or] at h
    simp only [denote]; exact ih.2 b h
  · intro c ih b h
    rw [evalGuard_not] at h
    simp only [denote]
    cases hc : evalGuard m cfg env c with
    | error e => simp [hc] at h
    | ok b' =>
      simp [hc] at h
      rw [← ih b' hc]
      revert h
      cases b <;> cases b' <;> simp
  · constructor
    · intro b h; rw [evalAll_nil] at h; simp [denoteAll] at h ⊢; exact h
    · intro b h; rw [evalAny_nil] at h; simp [denoteAny] at h ⊢; exact h
  · intro c cs ihc ihcs
    constructor
    · intro b h
      rw [evalAll_cons] at h
      simp only [denoteAll]
      cases hc : evalGuard m cfg env c with
      | error e => simp [hc] at h
      | ok b' =>
        have := ihc b' hc
        cases b' with
        | true => simp [hc] at h; rw [← this, ← ihcs.1 b h]; simp
        | false => simp [hc] at h; rw [← this]; simp [h]
    · intro b h
      rw [evalAny_cons] at h
      simp only [denoteAny]
      cases hc : evalGuard m cfg env c with
      | error e => simp [hc] at h
      | ok b' =>
        have := ihc b' hc
        cases b' with
        | true => simp [hc] at h; rw [← this]; simp [h]
        | false => simp [hc] at h; rw [← this, ← ihcs.2 b h]; simp

/-- with every mentioned user guard implemented, evaluation never errors: it IS the Boolean meaning -/
theorem eval_implemented_aux :
    ∀ (g : GuardExpr), (∀ n ∈ guardNames g, env n ≠ .missing) →
      evalGuard m cfg env g = .ok (denote m cfg env g) := by
  intro g
  refine GuardExpr.rec
    (motive_1 := fun g => (∀ n ∈ guardNames g, env n ≠ .missing) →
      evalGuard m cfg env g = .ok (denote m cfg env g))
    (motive_2 := fun cs => (∀ n ∈ guardNamesL cs, env n ≠ .missing) →
      evalAll m cfg env cs = .ok (denoteAll m cfg env cs) ∧
      evalAny m cfg env cs = .ok (denoteAny m cfg env cs))
    ?_ ?_ ?_ ?_ ?_ ?_ ?_ g
  · intro n p h
    have hn : env n ≠ .missing := h n (by simp [guardNames])
    rw [evalGuard_named]
    simp only [denote, atomVal]
    cases hv : env n <;> simp [hv, outVal] at hn ⊢
  · intro p _
    rw [evalGuard_stateIn]
    simp only [denote, atomVal]
    cases hv : env "stateIn" <;> simp [outVal]
  · intro cs ih h
    simp only [evalGuard_and, denote]
    exact (ih (by simpa [guardNames] using h)).1
  · intro cs ih h
    simp only [evalGuard_or, denote]
    exact (ih (by simpa [guardNames] using h)).2
  · intro c ih h
    rw [evalGuard_not, ih (by simpa [guardNames] using h)]
    simp [denote]
  · intro _
    exact ⟨by simp [evalAll_nil, denoteAll], by simp [evalAny_nil, denoteAny]⟩
  · intro c cs ihc ihcs h
    have h1 : ∀ n ∈ guardNames c, env n ≠ .missing := fun n hn => h n (by simp [guardNamesL, hn])
    have h2 : ∀ n ∈ guardNamesL cs, env n ≠ .missing := fun n hn => h n (by simp [guardNamesL, hn])
    have e1 := ihc h1
    have e2 := ihcs h2
    constructor
    · rw [evalAll_cons, e1]
      simp only [denoteAll]
      cases denote m cfg env c <;> simp [e2.1]
    · rw [evalAny_cons, e1]
      simp only [denoteAny]
      cases denote m cfg env c <;> simp [e2.2]

/-- an error names a user guard that is reached and has no implementation — and conversely -/
theorem error_iff_reached_aux :
    ∀ (g : GuardExpr) (n : String),
      evalGuard m cfg env g = .error (.missing n) ↔ (n ∈ reached m cfg env g ∧ env n = .missing) := by
  intro g
  refine GuardExpr.rec
    (motive_1 := fun g => ∀ n, evalGuard m cfg env g = .error (.missing n) ↔
      (n ∈ reached m cfg env g ∧ env n = .missing))
    (motive_2 := fun cs =>
      (∀ n, evalAll m cfg env cs = .error (.missing n) ↔
        (n ∈ reachedAll m cfg env cs ∧ env n = .missing)) ∧
      (∀ n, evalAny m cfg env cs = .error (.missing n) ↔
        (n ∈ reachedAny m cfg env cs ∧ env n = .missing)))
    ?_ ?_ ?_ ?_ ?_ ?_ ?_ g
  · intro a p n
    rw [evalGuard_named]
    simp only [reached, List.mem_singleton]
    constructor
    · intro h
      cases hv : env a <;> simp [hv] at h
      subst h; exact ⟨rfl, hv⟩
    · rintro ⟨rfl, hv⟩
      simp [hv]
  · intro p n
    rw [evalGuard_stateIn]
    simp only [reached]
    cases hv : env "stateIn" <;> simp
  · intro cs ih n
    simp only [evalGuard_and, reached]; exact ih.1 n
  · intro cs ih n
    simp only [evalGuard_or, reached]; exact ih.2 n
  · intro c ih n
    rw [evalGuard_not]
    simp only [reached]
    rw [← ih n]
    cases hc : evalGuard m cfg env c with
    | ok b => simp
    | error e => simp
  · constructor
    · intro n; simp [evalAll_nil, reachedAll]
    · intro n; simp [evalAny_nil, reachedAny]
  · intro c cs ihc ihcs
    constructor
    · intro n
      rw [evalAll_cons]
      simp only [reachedAll]
      have hcn := ihc n
      cases hc : evalGuard m cfg env c with
      | error e =>
        rw [hc] at hcn
        simpa using hcn
      | ok b =>
        rw [hc] at hcn
        have hno : ¬ (n ∈ reached m cfg env c ∧ env n = .missing) := fun h => by simpa using hcn.2 h
        cases b with
        | true =>
          simp only [List.mem_append]
          rw [ihcs.1 n]
          constructor
          · rintro ⟨h1, h2⟩; exact ⟨Or.inr h1, h2⟩
          · rintro ⟨h1 | h1, h2⟩
            · exact absurd ⟨h1, h2⟩ hno
            · exact ⟨h1, h2⟩
        | false =>
          simp only [List.append_nil]
          constructor
          · intro h; simp at h
          · intro h; exact absurd h hno
    · intro n
      rw [evalAny_cons]
      simp only [reachedAny]
      have hcn := ihc n
      cases hc : evalGuard m cfg env c with
      | error e =>
        rw [hc] at hcn
        simpa using hcn
      | ok b =>
        rw [hc] at hcn
        have hno : ¬ (n ∈ reached m cfg env c ∧ env n = .missing) := fun h => by simpa using hcn.2 h
        cases b with
        | false =>
          simp only [List.mem_append]
          rw [ihcs.2 n]
          constructor
          · rintro ⟨h1, h2⟩; exact ⟨Or.inr h1, h2⟩
          · rintro ⟨h1 | h1, h2⟩
            · exact absurd ⟨h1, h2⟩ hno
            · exact ⟨h1, h2⟩
        | true =>
          simp only [List.append_nil]
          constructor
          · intro h; simp at h
          · intro h; exact absurd h hno

/-- only names that occur in the expression are ever looked up -/
theorem reached_subset_names_aux :
    ∀ (g : GuardExpr), ∀ n ∈ reached m cfg env g, n ∈ guardNames g := by
  intro g
  refine GuardExpr.rec
    (motive_1 := fun g => ∀ n ∈ reached m cfg env g, n ∈ guardNames g)
    (motive_2 := fun cs =>
      (∀ n ∈ reachedAll m cfg env cs, n ∈ guardNamesL cs) ∧
      (∀ n ∈ reachedAny m cfg env cs, n ∈ guardNamesL cs))
    ?_ ?_ ?_ ?_ ?_ ?_ ?_ g
  · intro a p n h; simpa [reached, guardNames] using h
  · intro p n h; simp [reached] at h
  · intro cs ih n h; simp only [reached] at h; simp only [guardNames]; exact ih.1 n h
  · intro cs ih n h; simp only [reached] at h; simp only [guardNames]; exact ih.2 n h
  · intro c ih n h; simp only [reached] at h; simp only [guardNames]; exact ih n h
  · exact ⟨by simp [reachedAll], by simp [reachedAny]⟩
  · intro c cs ihc ihcs
    constructor
    · intro n h
      simp only [reachedAll, List.mem_append] at h
      simp only [guardNamesL, List.mem_append]
      rcases h with h | h
      · exact Or.inl (ihc n h)
      · split at h
        · exact Or.inr (ihcs.1 n h)
        · simp at h
    · intro n h
      simp only [reachedAny, List.mem_append] at h
      simp only [guardNamesL, List.mem_append]
      rcases h with h | h
      · exact Or.inl (ihc n h)
      · split at h
        · exact Or.inr (ihcs.2 n h)
        · simp at h

end Eval

/-! ## A raising guard is a false guard -/

/-- the environment in which the guards selected by `P` return `False` instead of raising -/
def deraise (P : String → Bool) (env : GEnv) : GEnv :=
  fun n => if P n && env n == .raises then .f else env n

theorem evalGuard_deraise (m : Machine) (cfg : List Path) (env : GEnv) (P : String → Bool) :
    ∀ (g : GuardExpr), evalGuard m cfg (deraise P env) g = evalGuard m cfg env g := by
  intro g
  have key : ∀ n, (match deraise P env n with
      | .missing => (none : Option Bool) | .t => some true | .f => some false | .raises => some false) =
      (match env n with
      | .missing => (none : Option Bool) | .t => some true | .f => some false | .raises => some false) := by
    intro n
    simp only [deraise]
    cases P n <;> cases hv : env n <;> simp
  refine GuardExpr.rec
    (motive_1 := fun g => evalGuard m cfg (deraise P env) g = evalGuard m cfg env g)
    (motive_2 := fun cs =>
      evalAll m cfg (deraise P env) cs = evalAll m cfg env cs ∧
      evalAny m cfg (deraise P env) cs = evalAny m cfg env cs)
    ?_ ?_ ?_ ?_ ?_ ?_ ?_ g
  · intro n p
    rw [evalGuard_named, evalGuard_named]
    have := key n
    revert this
    cases deraise P env n <;> cases env n <;> simp
  · intro p
    rw [evalGuard_stateIn, evalGuard_stateIn]
    have := key "stateIn"
    revert this
    cases deraise P env "stateIn" <;> cases env "stateIn" <;> simp
  · intro cs ih; simp only [evalGuard_and]; exact ih.1
  · intro cs ih; simp only [evalGuard_or]; exact ih.2
  · intro c ih; rw [evalGuard_not, evalGuard_not, ih]
  · exact ⟨by simp [evalAll_nil], by simp [evalAny_nil]⟩
  · intro c cs ihc ihcs
    exact ⟨by rw [evalAll_cons, evalAll_cons, ihc, ihcs.1], by rw [evalAny_cons, evalAny_cons, ihc, ihcs.2]⟩

section Deraise
variable (m : Machine) (cfg : List Path) (env : GEnv) (P : String → Bool)

theorem guardOk_deraise (g : Option GuardExpr) :
    guardOk m cfg (deraise P env) g = guardOk m cfg env g := by
  cases g with
  | none => rfl
  | some g => simp only [guardOk]; exact evalGuard_deraise m cfg env P g

theorem passes_deraise (c : GCache) (t : Trans) :
    passes m cfg (deraise P env) c t = passes m cfg env c t := by
  simp only [passes, guardOk_deraise]

theorem filterPassing_deraise (src : Path) (ts : List Trans) (c : GCache) :
    filterPassing m cfg (deraise P env) src ts c = filterPassing m cfg env src ts c := by
  induction ts generalizing c with
  | nil => simp [filterPassing]
  | cons t ts ih => simp only [filterPassing, passes_deraise, ih]

theorem walk_deraise (src : Path) (ts : List Trans) (c : GCache) :
    onCands.walk m cfg (deraise P env) src ts c = onCands.walk m cfg env src ts c := by
  induction ts generalizing c with
  | nil => simp [onCands.walk]
  | cons t ts ih => simp only [onCands.walk, passes_deraise, ih]

theorem onCands_deraise (src : Path) (d : StateDef) (ev : Ev) (keys : List String) (c : GCache) :
    onCands m cfg (deraise P env) src d ev keys c = onCands m cfg env src d ev keys c := by
  induction keys generalizing c with
  | nil => simp [onCands]
  | cons k ks ih => simp only [onCands, walk_deraise, ih]

theorem nodeBuckets_deraise (cur : Path) (d : StateDef) (ev : Ev) (b : Bool) :
    nodeBuckets m cfg (deraise P env) cur d ev b = nodeBuckets m cfg env cur d ev b := by
  have h : ∀ src, filterPassing m cfg (deraise P env) src = filterPassing m cfg env src := by
    intro src; funext ts c; exact filterPassing_deraise m cfg env P src ts c
  simp only [nodeBuckets, h]

theorem collectChain_deraise (ev : Ev) (b1 b2 : Bool) (ps : List Path) (c : GCache) :
    collectChain m cfg (deraise P env) ev b1 b2 ps c = collectChain m cfg env ev b1 b2 ps c := by
  induction ps generalizing c with
  | nil => simp [collectChain]
  | cons p ps ih =>
    have h : collectChain m cfg (deraise P env) ev b1 b2 ps = collectChain m cfg env ev b1 b2 ps := by
      funext c; exact ih c
    simp only [collectChain, onCands_deraise, nodeBuckets_deraise, h]

theorem selectLoop_deraise (ev : Ev) (ls : List Path) (c : GCache) (acc : List Cand) :
    selectLoop m cfg (deraise P env) ev ls c acc = selectLoop m cfg env ev ls c acc := by
  induction ls generalizing c acc with
  | nil => simp [selectLoop]
  | cons l ls ih => simp only [selectLoop, collectEligible, collectChain_deraise, ih]

/-- the whole selection is the same whether a guard raises or returns `False` -/
theorem selectTransitions_deraise (ev : Ev) :
    selectTransitions m cfg (deraise P env) ev = selectTransitions m cfg env ev := by
  simp only [selectTransitions, selectLoop_deraise]

end Deraise

/-! ## `stateIn`: the suffix test against membership -/

/-- the state id the built-in test compares with: a leading `#` is dropped -/
def stateInNorm (t : String) : String := if sStartsWith t "#" then sDrop t 1 else t

/-- the built-in `stateIn` test says "yes" because of active state `q`: its id equals `t` or ends
with `"." ++ t` -/
def Confusable (m : Machine) (t : String) (q : Path) : Prop :=
  m.idOf q = t ∨ sEndsWith (m.idOf q) ("." ++ t) = true

theorem isStateIn_eq_true_iff (m : Machine) (cfg : List Path) (params : Option J) (t : String)
    (ht : stateInTarget params = some t) :
    isStateIn m cfg params = true ↔ ∃ q ∈ cfg, Confusable m (stateInNorm t) q := by
  simp only [isStateIn, ht, List.any_eq_true, Bool.or_eq_true, beq_iff_eq, Confusable, stateInNorm]

theorem stateInNorm_hash (s : String) : stateInNorm ("#" ++ s) = s := by
  have h1 : sStartsWith ("#" ++ s) "#" = true := by
    simp only [sStartsWith, String.toList_append]
    show List.isPrefixOf ['#'] ('#' :: s.toList) = true
    simp [List.isPrefixOf]
  have h2 : sDrop ("#" ++ s) 1 = s := by
    simp only [sDrop, String.toList_append]
    show String.ofList (List.drop 1 ('#' :: s.toList)) = s
    simp [String.ofList_toList]
  simp [stateInNorm, h1, h2]

theorem stateInNorm_plain (s : String) (h : sStartsWith s "#" = false) : stateInNorm s = s := by
  simp [stateInNorm, h]

/-- exact characterisation of when the built-in test coincides with membership -/
theorem stateIn_builtin_iff (m : Machine) (cfg : List Path) (params : Option J) (t : String)
    (p : Path) (ht : stateInTarget params = some t)
    (hid : (t = m.idOf p ∧ sStartsWith t "#" = false) ∨ t = "#" ++ m.idOf p) :
    isStateIn m cfg params = decide (p ∈ cfg) ↔
      (p ∉ cfg → ∀ q ∈ cfg, ¬ Confusable m (m.idOf p) q) := by
  have hn : stateInNorm t = m.idOf p := by
    rcases hid with ⟨rfl, h⟩ | rfl
    · exact stateInNorm_plain _ h
    · exact stateInNorm_hash _
  have hiff := isStateIn_eq_true_iff m cfg params t ht
  rw [hn] at hiff
  by_cases hp : p ∈ cfg
  · have : isStateIn m cfg params = true := hiff.2 ⟨p, hp, Or.inl rfl⟩
    simp [this, hp]
  · simp only [hp, decide_false, not_false_eq_true, forall_const]
    constructor
    · intro h q hq hc
      have : isStateIn m cfg params = true := hiff.2 ⟨q, hq, hc⟩
      rw [h] at this; cases this
    · intro h
      cases hb : isStateIn m cfg params with
      | false => rfl
      | true =>
        obtain ⟨q, hq, hc⟩ := hiff.1 hb
        exact absurd hc (h q hq)

/-! ### a structural sufficient condition: dot-free keys, no key equal to the machine id -/

/-- the part of a state id after the machine id -/
def idTail (p : Path) : List Char := p.flatMap (fun k => '.' :: k.toList)

theorem idOf_toList (m : Machine) (p : Path) : (m.idOf p).toList = m.id.toList ++ idTail p := by
  unfold Machine.idOf
  generalize m.id = acc
  induction p generalizing acc with
  | nil => simp [idTail]
  | cons k ks ih =>
    simp only [List.foldl_cons]
    rw [ih]
    simp only [String.toList_append, idTail, List.flatMap_cons, List.append_assoc]
    rfl

theorem splitDotL_ne_nil (l : List Char) : splitDotL l ≠ [] := by
  cases l with
  | nil => simp [splitDotL]
  | cons c cs =>
    simp only [splitDotL]
    split
    · simp
    · split <;> simp

theorem splitDotL_dot (cs : List Char) : splitDotL ('.' :: cs) = [] :: splitDotL cs := by
  simp only [splitDotL]
  split
  · rename_i h; exact absurd h (splitDotL_ne_nil cs)
  · rename_i seg rest h; simp [h]

theorem splitDotL_nondot (c : Char) (cs : List Char) (hc : c ≠ '.') (seg : List Char)
    (rest : List (List Char)) (h : splitDotL cs = seg :: rest) :
    splitDotL (c :: cs) = (c :: seg) :: rest := by
  simp only [splitDotL, h, hc, if_false]

theorem splitDotL_append_dot (a b : List Char) :
    splitDotL (a ++ '.' :: b) = splitDotL a ++ splitDotL b := by
  induction a with
  | nil => simp [splitDotL_dot, splitDotL]
  | cons c a ih =>
    by_cases hc : c = '.'
    · subst hc
      simp only [List.cons_append, splitDotL_dot, ih, List.cons_append]
    · cases hs : splitDotL a with
      | nil => exact absurd hs (splitDotL_ne_nil a)
      | cons seg rest =>
        rw [List.cons_append, splitDotL_nondot c (a ++ '.' :: b) hc seg (rest ++ splitDotL b)
          (by rw [ih, hs]; rfl), splitDotL_nondot c a hc seg rest hs]
        rfl

theorem splitDotL_dotfree (a : List Char) (h : '.' ∉ a) : splitDotL a = [a] := by
  induction a with
  | nil => simp [splitDotL]
  | cons c a ih =>
    have hc : c ≠ '.' := fun e => h (by simp [e])
    have ha : '.' ∉ a := fun e => h (by simp [e])
    exact splitDotL_nondot c a hc a [] (ih ha)

theorem splitDotL_idTail (a : List Char) (ks : Path) (hks : ∀ k ∈ ks, '.' ∉ k.toList) :
    splitDotL (a ++ idTail ks) = splitDotL a ++ ks.map String.toList := by
  induction ks generalizing a with
  | nil => simp [idTail]
  | cons k ks ih =>
    have : a ++ idTail (k :: ks) = (a ++ '.' :: k.toList) ++ idTail ks := by
      simp [idTail]
    rw [this, ih _ (fun k' hk' => hks k' (by simp [hk'])), splitDotL_append_dot,
      splitDotL_dotfree k.toList (hks k (by simp))]
    simp

/-- the dot-separated segments of an id whose first segment is the (dot-free) machine id -/
theorem splitDotL_id_head (mid : List Char) (hm : '.' ∉ mid) (p : Path) :
    ∃ X, splitDotL (mid ++ idTail p) = mid :: X := by
  cases p with
  | nil => exact ⟨[], by simp [idTail, splitDotL_dotfree mid hm]⟩
  | cons k ks =>
    refine ⟨splitDotL (k.toList ++ idTail ks), ?_⟩
    have : mid ++ idTail (k :: ks) = mid ++ '.' :: (k.toList ++ idTail ks) := by simp [idTail]
    rw [this, splitDotL_append_dot, splitDotL_dotfree mid hm]
    rfl

/-- with dot-free machine id and keys, and no key of `q` equal to the machine id, the built-in
test cannot mistake `q` for a different state `p` -/
theorem not_confusable_of_dotfree (m : Machine) (p q : Path)
    (hm : '.' ∉ m.id.toList)
    (hq : ∀ k ∈ q, '.' ∉ k.toList ∧ k ≠ m.id)
    (hp : ∀ k ∈ p, '.' ∉ k.toList)
    (hne : q ≠ p) : ¬ Confusable m (m.idOf p) q := by
  have segq : splitDotL (m.idOf q).toList = m.id.toList :: q.map String.toList := by
    rw [idOf_toList, splitDotL_idTail _ _ (fun k hk => (hq k hk).1), splitDotL_dotfree _ hm]; rfl
  rintro (heq | hsuf)
  · -- equal ids
    have segp : splitDotL (m.idOf p).toList = m.id.toList :: p.map String.toList := by
      rw [idOf_toList, splitDotL_idTail _ _ hp, splitDotL_dotfree _ hm]; rfl
    rw [heq, segp] at segq
    have := (List.map_inj_right (f := String.toList) (fun x y h => String.toList_injective h)).1
      (List.cons.inj segq).2
    exact hne this.symm
  · -- proper suffix
    simp only [sEndsWith, String.toList_append] at hsuf
    obtain ⟨pre, hpre⟩ := List.isSuffixOf_iff_suffix.1 hsuf
    have hdot : ".".toList = ['.'] := rfl
    rw [hdot] at hpre
    have e := congrArg splitDotL hpre
    rw [List.singleton_append, splitDotL_append_dot, segq, idOf_toList] at e
    obtain ⟨X, hX⟩ := splitDotL_id_head m.id.toList hm p
    rw [hX] at e
    cases hs : splitDotL pre with
    | nil => exact absurd hs (splitDotL_ne_nil pre)
    | cons s0 S =>
      rw [hs] at e
      have e2 := (List.cons.inj e).2
      have hmem : m.id.toList ∈ q.map String.toList := by rw [← e2]; simp
      obtain ⟨k, hk, hkeq⟩ := List.mem_map.1 hmem
      exact (hq k hk).2 (String.toList_injective hkeq)

theorem idOf_not_hash (m : Machine) (p : Path) (h : sStartsWith m.id "#" = false) :
    sStartsWith (m.idOf p) "#" = false := by
  simp only [sStartsWith, idOf_toList] at h ⊢
  have hh : "#".toList = ['#'] := rfl
  rw [hh] at h ⊢
  cases hm : m.id.toList with
  | nil =>
    cases p with
    | nil => simp [idTail]
    | cons k ks => simp [idTail, List.isPrefixOf]
  | cons c cs =>
    rw [hm] at h
    simpa [List.isPrefixOf] using h

/-! ## Parser: unfolding `parseGuard`, operand spellings -/

theorem mapM_attach_val {α β : Type} (f : α → Except PErr β) (l : List α) :
    l.attach.mapM (fun c => f c.val) = l.mapM f := by
  have := List.mapM_subtype (m := Except PErr) (l := l.attach) (f := fun c => f c.val) (g := f)
    (fun _ _ => rfl)
  rw [this, List.unattach_attach]

/-- the defining equation of `parseGuard` on objects, without the termination bookkeeping -/
theorem parseGuard_obj (kvs : List (String × J)) :
    parseGuard (.obj kvs) = (do
      let ty ← guardTypeOf (.obj kvs)
      let children ←
        (guardChildrenJ (.obj kvs) (ty = "and" || ty = "or" || ty = "not")).mapM parseGuard
      finishGuard ty ((J.obj kvs).get? "params") children) := by
  rw [parseGuard.eq_2]
  simp only [mapM_attach_val]

/-- a guard object `{"type": op, ...rest}` -/
def opJ (op : String) (rest : List (String × J)) : J := .obj (("type", .str op) :: rest)

/-- the composite guard types -/
def IsCompositeOp (op : String) : Prop := op = "and" ∨ op = "or" ∨ op = "not"

/-- what every operand spelling of a composite guard parses to: the operands are parsed left to
right, then the shape is checked -/
def parseOperands (op : String) (cs : List J) : Except PErr GuardExpr := do
  let children ← cs.mapM parseGuard
  finishGuard op none children

theorem guardTypeOf_opJ (op : String) (rest : List (String × J)) (h : op ≠ "") :
    guardTypeOf (opJ op rest) = .ok op := by
  simp [guardTypeOf, opJ, J.get?, h, pure, Except.pure]

theorem IsCompositeOp.ne_empty {op : String} (h : IsCompositeOp op) : op ≠ "" := by
  rcases h with rfl | rfl | rfl <;> decide

theorem IsCompositeOp.flag {op : String} (h : IsCompositeOp op) :
    (decide (op = "and") || decide (op = "or") || decide (op = "not")) = true := by
  rcases h with rfl | rfl | rfl <;> decide

theorem finishGuard_composite (op : String) (h : IsCompositeOp op) (p1 p2 : Option J)
    (ch : List GuardExpr) : finishGuard op p1 ch = finishGuard op p2 ch := by
  rcases h with rfl | rfl | rfl <;> simp [finishGuard]

theorem guardChildrenJ_children (op : String) (cs : List J) (hcs : cs ≠ []) (b : Bool) :
    guardChildrenJ (opJ op [("children", .arr cs)]) b = cs := by
  simp [guardChildrenJ, opJ, truthyList, J.get?, truthy, ensureList, hcs]

theorem guardChildrenJ_params_guards (op : String) (cs : List J) (hcs : cs ≠ []) (b : Bool) :
    guardChildrenJ (opJ op [("params", .obj [("guards", .arr cs)])]) b = cs := by
  simp [guardChildrenJ, opJ, truthyList, J.get?, truthy, ensureList, hcs, paramsOperands]

theorem guardChildrenJ_params_children (op : String) (cs : List J) (hcs : cs ≠ []) (b : Bool) :
    guardChildrenJ (opJ op [("params", .obj [("children", .arr cs)])]) b = cs := by
  simp [guardChildrenJ, opJ, truthyList, J.get?, truthy, ensureList, hcs, paramsOperands]

theorem guardChildrenJ_params_guard (op : String) (c : J) (hc : c ≠ .null) :
    guardChildrenJ (opJ op [("params", .obj [("guard", c)])]) true = [c] := by
  simp [guardChildrenJ, opJ, truthyList, J.get?, paramsOperands, paramsGuard]

/-- a composite guard object parses to `parseOperands` of its raw operand list -/
theorem parseGuard_opJ (op : String) (h : IsCompositeOp op) (rest : List (String × J)) :
    parseGuard (opJ op rest) = parseOperands op (guardChildrenJ (opJ op rest) true) := by
  unfold opJ
  rw [parseGuard_obj]
  have := guardTypeOf_opJ op rest h.ne_empty
  unfold opJ at this
  rw [this]
  simp only [bind, Except.bind, parseOperands, h.flag]
  cases List.mapM parseGuard (guardChildrenJ (J.obj (("type", J.str op) :: rest)) true) with
  | error e => rfl
  | ok ch => exact finishGuard_composite op h _ _ ch

theorem mapM_ok_length {α β : Type} (f : α → Except PErr β) :
    ∀ (l : List α) (ys : List β), l.mapM f = .ok ys → ys.length = l.length := by
  intro l
  induction l with
  | nil => intro ys h; simp [pure, Except.pure] at h; subst h; rfl
  | cons x xs ih =>
    intro ys h
    rw [List.mapM_cons] at h
    simp only [bind, Except.bind, pure, Except.pure] at h
    cases hx : f x with
    | error e => simp [hx] at h
    | ok y =>
      cases hxs : xs.mapM f with
      | error e => simp [hx, hxs] at h
      | ok ys' =>
        simp [hx, hxs] at h
        subst h
        simp [ih ys' hxs]

theorem parseOperands_and (cs : List J) (gs : List GuardExpr) (hcs : cs ≠ [])
    (h : cs.mapM parseGuard = .ok gs) : parseOperands "and" cs = .ok (.and gs) := by
  have hl := mapM_ok_length parseGuard cs gs h
  have hne : gs ≠ [] := by intro e; subst e; exact hcs (List.length_eq_zero_iff.1 hl.symm)
  simp [parseOperands, h, bind, Except.bind, finishGuard, hne, pure, Except.pure]

theorem parseOperands_or (cs : List J) (gs : List GuardExpr) (hcs : cs ≠ [])
    (h : cs.mapM parseGuard = .ok gs) : parseOperands "or" cs = .ok (.or gs) := by
  have hl := mapM_ok_length parseGuard cs gs h
  have hne : gs ≠ [] := by intro e; subst e; exact hcs (List.length_eq_zero_iff.1 hl.symm)
  simp [parseOperands, h, bind, Except.bind, finishGuard, hne, pure, Except.pure]

theorem parseOperands_not (c : J) (g : GuardExpr) (h : parseGuard c = .ok g) :
    parseOperands "not" [c] = .ok (.not g) := by
  simp [parseOperands, List.mapM_cons, h, bind, Except.bind, finishGuard, pure, Except.pure]

/-! ## `cond` = `guard` -/

theorem get?_mid_ne (pre post : List (String × J)) (k0 k : String) (g : J) (h : k0 ≠ k) :
    (J.obj (pre ++ (k0, g) :: post)).get? k = (J.obj (pre ++ post)).get? k := by
  simp [J.get?, List.find?_append, h]

theorem get?_mid_eq (pre post : List (String × J)) (k : String) (g : J)
    (h : ∀ kv ∈ pre, kv.1 ≠ k) : (J.obj (pre ++ (k, g) :: post)).get? k = some g := by
  have : pre.find? (fun kv => kv.1 == k) = none := by
    rw [List.find?_eq_none]; intro kv hkv; simpa using h kv hkv
  simp [J.get?, List.find?_append, this]

theorem hasKey_mid (pre post : List (String × J)) (k0 k : String) (g : J) :
    (J.obj (pre ++ (k0, g) :: post)).hasKey k =
      (decide (k0 = k) || (J.obj (pre ++ post)).hasKey k) := by
  simp only [J.hasKey, List.any_append, List.any_cons]
  by_cases h : k0 = k <;>
    cases pre.any (fun kv => kv.1 == k) <;> cases post.any (fun kv => kv.1 == k) <;> simp [h]

theorem hasKey_false_of (kvs : List (String × J)) (k : String) (h : ∀ kv ∈ kvs, kv.1 ≠ k) :
    (J.obj kvs).hasKey k = false := by
  simp only [J.hasKey]
  rw [List.any_eq_false]
  intro kv hkv; simpa using h kv hkv

theorem rawGuardOf_cond_mid (pre post : List (String × J)) (g : J)
    (h : ∀ kv ∈ pre ++ post, kv.1 ≠ "guard" ∧ kv.1 ≠ "cond") :
    rawGuardOf (.obj (pre ++ ("cond", g) :: post)) = some g := by
  have hk : (J.obj (pre ++ ("cond", g) :: post)).hasKey "guard" = false := by
    rw [hasKey_mid, hasKey_false_of _ _ (fun kv hkv => (h kv hkv).1)]; decide
  simp only [rawGuardOf, hk]
  exact get?_mid_eq pre post "cond" g (fun kv hkv => (h kv (by simp [hkv])).2)

theorem rawGuardOf_guard_mid (pre post : List (String × J)) (g : J)
    (h : ∀ kv ∈ pre, kv.1 ≠ "guard") :
    rawGuardOf (.obj (pre ++ ("guard", g) :: post)) = some g := by
  have hk : (J.obj (pre ++ ("guard", g) :: post)).hasKey "guard" = true := by
    rw [hasKey_mid]; simp
  simp only [rawGuardOf, hk]
  exact get?_mid_eq pre post "guard" g h

/-- `parseTransition` depends on its config only through five look-ups -/
theorem parseTransition_congr (ev : String) (c1 c2 : J)
    (ha : c1.get? "actions" = c2.get? "actions")
    (hg : rawGuardOf c1 = rawGuardOf c2)
    (ht : c1.get? "target" = c2.get? "target")
    (hr : c1.get? "reenter" = c2.get? "reenter")
    (hf : c1.get? "__forbidden__" = c2.get? "__forbidden__") :
    parseTransition ev c1 = parseTransition ev c2 := by
  simp only [parseTransition, ha, hg, ht, hr, hf]

/-! ## Selection: a candidate whose guard is false is dropped, nothing else changes -/

section Filter
variable (m : Machine) (cfg : List Path) (env : GEnv) (src : Path)

/-- two guard caches that agree on every transition id except `k` -/
def AgreeExcept (k : Nat) (c c' : GCache) : Prop :=
  ∀ k', k' ≠ k → c.find? (fun kv => kv.1 = k') = c'.find? (fun kv => kv.1 = k')

theorem AgreeExcept.refl (k : Nat) (c : GCache) : AgreeExcept k c c := fun _ _ => rfl

theorem AgreeExcept.snoc (k : Nat) (c c' : GCache) (h : AgreeExcept k c c') (kv : Nat × Bool) :
    AgreeExcept k (c ++ [kv]) (c' ++ [kv]) := by
  intro k' hk'
  simp only [List.find?_append, h k' hk']

theorem AgreeExcept.snoc_left (k : Nat) (c : GCache) (b : Bool) :
    AgreeExcept k (c ++ [(k, b)]) c := by
  intro k' hk'
  have : ¬ (k = k') := fun e => hk' e.symm
  simp [List.find?_append, this]

theorem passes_agree (k : Nat) (t : Trans) (ht : t.tid ≠ k) (c c' : GCache)
    (h : AgreeExcept k c c') :
    (∀ e, passes m cfg env c t = .error e → passes m cfg env c' t = .error e) ∧
    (∀ b c1, passes m cfg env c t = .ok (b, c1) →
      ∃ c1', passes m cfg env c' t = .ok (b, c1') ∧ AgreeExcept k c1 c1') := by
  have hf := h t.tid ht
  simp only [passes, ← hf]
  cases hfind : c.find? (fun kv => kv.1 = t.tid) with
  | some kv =>
    obtain ⟨k0, b0⟩ := kv
    simp only [pure, Except.pure]
    constructor
    · intro e he; cases he
    · intro b c1 he
      cases he
      exact ⟨c', rfl, h⟩
  | none =>
    simp only [bind, Except.bind, pure, Except.pure]
    cases guardOk m cfg env t.guard with
    | error e0 =>
      constructor
      · intro e he; exact he
      · intro b c1 he; cases he
    | ok b0 =>
      constructor
      · intro e he; cases he
      · intro b c1 he
        cases he
        exact ⟨c' ++ [(t.tid, b0)], rfl, AgreeExcept.snoc k c c' h _⟩

theorem filterPassing_agree (k : Nat) (ts : List Trans) (hts : ∀ t ∈ ts, t.tid ≠ k) :
    ∀ (c c' : GCache), AgreeExcept k c c' →
    (∀ e, filterPassing m cfg env src ts c = .error e →
      filterPassing m cfg env src ts c' = .error e) ∧
    (∀ xs c1, filterPassing m cfg env src ts c = .ok (xs, c1) →
      ∃ c1', filterPassing m cfg env src ts c' = .ok (xs, c1') ∧ AgreeExcept k c1 c1') := by
  induction ts with
  | nil =>
    intro c c' h
    simp only [filterPassing, pure, Except.pure]
    constructor
    · intro e he; cases he
    · intro xs c1 he; cases he; exact ⟨c', rfl, h⟩
  | cons t ts ih =>
    intro c c' h
    have hp := passes_agree m cfg env k t (hts t (by simp)) c c' h
    have ih' := ih (fun t' ht' => hts t' (by simp [ht']))
    simp only [filterPassing, bind, Except.bind, pure, Except.pure]
    cases hpc : passes m cfg env c t with
    | error e0 =>
      rw [hp.1 e0 hpc]
      constructor
      · intro e he; exact he
      · intro xs c1 he; cases he
    | ok r =>
      obtain ⟨b, c1⟩ := r
      obtain ⟨c1', hpc', hag⟩ := hp.2 b c1 hpc
      rw [hpc']
      have ih2 := ih' c1 c1' hag
      simp only []
      cases hfc : filterPassing m cfg env src ts c1 with
      | error e0 =>
        rw [ih2.1 e0 hfc]
        constructor
        · intro e he; exact he
        · intro xs c2 he; cases he
      | ok r2 =>
        obtain ⟨rest, c2⟩ := r2
        obtain ⟨c2', hfc', hag2⟩ := ih2.2 rest c2 hfc
        rw [hfc']
        constructor
        · intro e he; cases he
        · intro xs c3 he
          cases he
          exact ⟨c2', rfl, hag2⟩

/-- candidate lists produced from caches that agree except on an id not among `ts` are equal -/
theorem filterPassing_agree_map (k : Nat) (ts : List Trans) (hts : ∀ t ∈ ts, t.tid ≠ k)
    (c c' : GCache) (h : AgreeExcept k c c') :
    (filterPassing m cfg env src ts c).map Prod.fst =
      (filterPassing m cfg env src ts c').map Prod.fst := by
  have := filterPassing_agree m cfg env src k ts hts c c' h
  cases hf : filterPassing m cfg env src ts c with
  | error e => rw [this.1 e hf]
  | ok r =>
    obtain ⟨xs, c1⟩ := r
    obtain ⟨c1', h', _⟩ := this.2 xs c1 hf
    rw [h']; rfl

theorem filterPassing_append (ts1 ts2 : List Trans) (c : GCache) :
    filterPassing m cfg env src (ts1 ++ ts2) c =
      (match filterPassing m cfg env src ts1 c with
       | .error e => .error e
       | .ok (xs, c1) =>
         match filterPassing m cfg env src ts2 c1 with
         | .error e => .error e
         | .ok (ys, c2) => .ok (xs ++ ys, c2)) := by
  induction ts1 generalizing c with
  | nil =>
    simp only [List.nil_append, filterPassing, pure, Except.pure]
    cases filterPassing m cfg env src ts2 c with
    | error e => rfl
    | ok r => obtain ⟨ys, c2⟩ := r; simp
  | cons t ts ih =>
    simp only [List.cons_append, filterPassing, bind, Except.bind, pure, Except.pure]
    cases passes m cfg env c t with
    | error e => rfl
    | ok r =>
      obtain ⟨b, c1⟩ := r
      simp only [ih c1]
      cases filterPassing m cfg env src ts c1 with
      | error e => rfl
      | ok r1 =>
        obtain ⟨xs, c2⟩ := r1
        simp only []
        cases filterPassing m cfg env src ts2 c2 with
        | error e => rfl
        | ok r2 => obtain ⟨ys, c3⟩ := r2; simp

/-- the cache entry of an id that is not among `ts` is untouched by `filterPassing ts` -/
theorem filterPassing_find_preserved (k : Nat) (ts : List Trans) (hts : ∀ t ∈ ts, t.tid ≠ k) :
    ∀ (c : GCache) xs c1, filterPassing m cfg env src ts c = .ok (xs, c1) →
      c1.find? (fun kv => kv.1 = k) = c.find? (fun kv => kv.1 = k) := by
  induction ts with
  | nil => intro c xs c1 h; simp [filterPassing, pure, Except.pure] at h; rw [h.2]
  | cons t ts ih =>
    intro c xs c1 h
    have htk : t.tid ≠ k := hts t (by simp)
    simp only [filterPassing, bind, Except.bind, pure, Except.pure] at h
    cases hp : passes m cfg env c t with
    | error e => simp [hp] at h
    | ok r =>
      obtain ⟨b, c0⟩ := r
      simp only [hp] at h
      cases hf : filterPassing m cfg env src ts c0 with
      | error e => simp [hf] at h
      | ok r2 =>
        obtain ⟨rest, c2⟩ := r2
        simp only [hf, Except.ok.injEq, Prod.mk.injEq] at h
        obtain ⟨_, rfl⟩ := h
        rw [ih (fun t' ht' => hts t' (by simp [ht'])) c0 rest c2 hf]
        -- passes only appends an entry for t.tid
        simp only [passes] at hp
        cases hfind : c.find? (fun kv => kv.1 = t.tid) with
        | some kv =>
          simp only [hfind, pure, Except.pure, Except.ok.injEq, Prod.mk.injEq] at hp
          rw [← hp.2]
        | none =>
          simp only [hfind, bind, Except.bind, pure, Except.pure] at hp
          cases hg : guardOk m cfg env t.guard with
          | error e => simp [hg] at hp
          | ok b0 =>
            simp only [hg, Except.ok.injEq, Prod.mk.injEq] at hp
            rw [← hp.2]
            simp [List.find?_append, htk]

/-- a candidate whose guard evaluates to `false` (and whose cached verdict, if any, is `false`)
can be removed from the list without changing the candidates produced -/
theorem filterPassing_drop_false (ts1 ts2 : List Trans) (t : Trans) (c : GCache)
    (hfalse : guardOk m cfg env t.guard = .ok false)
    (hcache : ∀ kv, c.find? (fun kv => kv.1 = t.tid) = some kv → kv.2 = false)
    (hts : ∀ t' ∈ ts1 ++ ts2, t'.tid ≠ t.tid) :
    (filterPassing m cfg env src (ts1 ++ t :: ts2) c).map Prod.fst =
      (filterPassing m cfg env src (ts1 ++ ts2) c).map Prod.fst := by
  rw [filterPassing_append, filterPassing_append]
  cases h1 : filterPassing m cfg env src ts1 c with
  | error e => rfl
  | ok r =>
    obtain ⟨xs, c1⟩ := r
    simp only []
    have hfind := filterPassing_find_preserved m cfg env src t.tid ts1
      (fun t' ht' => hts t' (by simp [ht'])) c xs c1 h1
    -- the dropped candidate: verdict false, cache grows at most by its own entry
    have hpass : ∃ c1', passes m cfg env c1 t = .ok (false, c1') ∧ AgreeExcept t.tid c1' c1 := by
      simp only [passes, hfind]
      cases hf : c.find? (fun kv => kv.1 = t.tid) with
      | some kv =>
        obtain ⟨k0, b0⟩ := kv
        have := hcache _ hf
        simp only at this
        subst this
        exact ⟨c1, rfl, AgreeExcept.refl _ _⟩
      | none =>
        simp only [hfalse, bind, Except.bind, pure, Except.pure]
        exact ⟨_, rfl, AgreeExcept.snoc_left _ _ _⟩
    obtain ⟨c1', hp, hag⟩ := hpass
    have hmap := filterPassing_agree_map m cfg env src t.tid ts2
      (fun t' ht' => hts t' (by simp [ht'])) c1' c1 hag
    simp only [filterPassing, hp, bind, Except.bind, pure, Except.pure]
    cases h2 : filterPassing m cfg env src ts2 c1' with
    | error e =>
      rw [h2] at hmap
      cases h3 : filterPassing m cfg env src ts2 c1 with
      | error e' => rw [h3] at hmap; simpa [Except.map] using hmap
      | ok r3 => rw [h3] at hmap; simp [Except.map] at hmap
    | ok r2 =>
      obtain ⟨ys, c2⟩ := r2
      rw [h2] at hmap
      cases h3 : filterPassing m cfg env src ts2 c1 with
      | error e' => rw [h3] at hmap; simp [Except.map] at hmap
      | ok r3 =>
        obtain ⟨ys', c2'⟩ := r3
        rw [h3] at hmap
        simp only [Except.map, Except.ok.injEq] at hmap
        simp [Except.map, hmap]

theorem mem_takeWhile_pos {α : Type} (p : α → Bool) (l : List α) (a : α)
    (h : a ∈ l.takeWhile p) : p a = true := by
  induction l with
  | nil => simp at h
  | cons x xs ih =>
    rw [List.takeWhile_cons] at h
    by_cases hx : p x = true
    · simp only [hx, if_true, List.mem_cons] at h
      rcases h with rfl | h
      · exact hx
      · exact ih h
    · simp [hx] at h

/-- the walk over one `on` list is `filterPassing` on the part before the first forbidden
transition, plus the "blocked" flag -/
theorem walk_eq_filterPassing (ts : List Trans) (c : GCache) :
    onCands.walk m cfg env src ts c =
      (match filterPassing m cfg env src (ts.takeWhile (fun t => !t.forbidden)) c with
       | .error e => .error e
       | .ok (xs, c1) => .ok (xs, ts.any (fun t => t.forbidden), c1)) := by
  induction ts generalizing c with
  | nil => simp [onCands.walk, filterPassing, pure, Except.pure]
  | cons t ts ih =>
    rw [onCands.walk.eq_2]
    by_cases hf : t.forbidden = true
    · simp [hf, filterPassing, pure, Except.pure]
    · have hf' : t.forbidden = false := by simpa using hf
      simp only [hf', Bool.false_eq_true, if_false, List.takeWhile_cons, Bool.not_false, if_true,
        filterPassing, bind, Except.bind, pure, Except.pure, List.any_cons, Bool.false_or]
      cases passes m cfg env c t with
      | error e => rfl
      | ok r =>
        obtain ⟨b, c1⟩ := r
        simp only [ih c1]
        cases filterPassing m cfg env src (ts.takeWhile (fun t => !t.forbidden)) c1 with
        | error e => rfl
        | ok r2 => obtain ⟨xs, c2⟩ := r2; rfl

/-- `filterPassing_drop_false` for the walk over an `on` list: candidates and the "blocked" flag
are unchanged when a non-forbidden candidate with a false guard is removed -/
theorem walk_drop_false (ts1 ts2 : List Trans) (t : Trans) (c : GCache)
    (hforb : t.forbidden = false)
    (hfalse : guardOk m cfg env t.guard = .ok false)
    (hcache : ∀ kv, c.find? (fun kv => kv.1 = t.tid) = some kv → kv.2 = false)
    (hts : ∀ t' ∈ ts1 ++ ts2, t'.tid ≠ t.tid) :
    (onCands.walk m cfg env src (ts1 ++ t :: ts2) c).map (fun r => (r.1, r.2.1)) =
      (onCands.walk m cfg env src (ts1 ++ ts2) c).map (fun r => (r.1, r.2.1)) := by
  rw [walk_eq_filterPassing, walk_eq_filterPassing]
  have hany : (ts1 ++ t :: ts2).any (fun t => t.forbidden) = (ts1 ++ ts2).any (fun t => t.forbidden) := by
    simp [List.any_append, hforb]
  rw [hany]
  by_cases hall : ∀ a ∈ ts1, (!a.forbidden) = true
  · rw [List.takeWhile_append_of_pos hall, List.takeWhile_append_of_pos hall]
    have htw : (t :: ts2).takeWhile (fun t => !t.forbidden) =
        t :: ts2.takeWhile (fun t => !t.forbidden) := by
      simp [hforb]
    rw [htw]
    have hsub : ∀ t' ∈ ts1 ++ ts2.takeWhile (fun t => !t.forbidden), t'.tid ≠ t.tid := by
      intro t' ht'
      rcases List.mem_append.1 ht' with h | h
      · exact hts t' (by simp [h])
      · exact hts t' (by simp [(List.takeWhile_sublist _).subset h])
    have := filterPassing_drop_false m cfg env src ts1 (ts2.takeWhile (fun t => !t.forbidden)) t c
      hfalse hcache hsub
    revert this
    cases filterPassing m cfg env src (ts1 ++ t :: ts2.takeWhile (fun t => !t.forbidden)) c with
    | error e =>
      cases filterPassing m cfg env src (ts1 ++ ts2.takeWhile (fun t => !t.forbidden)) c with
      | error e' => intro h; simpa [Except.map] using h
      | ok r' => intro h; simp [Except.map] at h
    | ok r =>
      cases filterPassing m cfg env src (ts1 ++ ts2.takeWhile (fun t => !t.forbidden)) c with
      | error e' => intro h; simp [Except.map] at h
      | ok r' =>
        obtain ⟨xs, c1⟩ := r
        obtain ⟨xs', c1'⟩ := r'
        intro h
        simp only [Except.map, Except.ok.injEq] at h
        simp [Except.map, h]
  · have hlen : ¬ (ts1.takeWhile (fun t => !t.forbidden)).length = ts1.length := by
      intro hl
      apply hall
      intro a ha
      have : ts1.takeWhile (fun t => !t.forbidden) = ts1 :=
        (List.takeWhile_sublist _).eq_of_length hl
      rw [← this] at ha
      exact mem_takeWhile_pos (fun t : Trans => !t.forbidden) ts1 a ha
    rw [List.takeWhile_append, List.takeWhile_append]
    simp only [hlen, if_false]

end Filter

end XSM
