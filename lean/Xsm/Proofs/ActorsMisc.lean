import Xsm.Proofs.ActorsStop
/-!
Remaining helper lemmas for C15: soundness of the executable invariant check `invB`, membership in
`dueLive`, timers after `killTimer`, `deliverNow` frames, descendants after `unlinkChild`.
-/
namespace XSM.Actors

/-! ### `invB` -/

theorem deadB_iff (s : Sys) (u : Nat) : deadB s (s.get u) = true ↔ Dead s u := by
  unfold deadB Dead
  cases hfl : s.flavor <;> simp

theorem invB_sound {s : Sys} (h : invB s = true) : WF s ∧ Settled s ∧ Tidy s := by
  unfold invB at h
  rw [List.all_eq_true] at h
  have hu : ∀ u, u < s.actors.length →
      ((s.get u).kids.all (fun kv => u < kv.2 && kv.2 < s.actors.length) = true) ∧
      (runningB (s.get u) = true ∨ deadB s (s.get u) = true) ∧
      (deadB s (s.get u) = false ∨ (s.get u).kids.isEmpty = true) := by
    intro u hlt
    have := h u (List.mem_range.mpr hlt)
    simp only [Bool.and_eq_true, Bool.or_eq_true, Bool.not_eq_true'] at this
    exact ⟨this.1.1, this.1.2, this.2⟩
  refine ⟨?_, ?_, ?_⟩
  · intro u kv hkv
    by_cases hlt : u < s.actors.length
    · have h1 := (hu u hlt).1
      rw [List.all_eq_true] at h1
      have := h1 kv hkv
      simp only [Bool.and_eq_true, decide_eq_true_eq] at this
      exact this
    · rw [get_oob s hlt] at hkv; cases hkv
  · intro u hlt
    rcases (hu u hlt).2.1 with h1 | h1
    · left; unfold R; simpa [runningB] using h1
    · right; exact (deadB_iff s u).mp h1
  · intro u hd
    by_cases hlt : u < s.actors.length
    · rcases (hu u hlt).2.2 with h1 | h1
      · have := (deadB_iff s u).mpr hd; rw [this] at h1; cases h1
      · simpa [List.isEmpty_iff] using h1
    · rw [get_oob s hlt]; rfl

/-! ### timers -/

theorem mem_insertDue (s : Sys) (i x : Nat) (l : List Nat) : x ∈ insertDue s i l ↔ x = i ∨ x ∈ l := by
  induction l with
  | nil => simp [insertDue]
  | cons j r ih =>
    unfold insertDue
    split
    · simp
    · simp only [List.mem_cons, ih]
      constructor
      · rintro (h | h | h)
        · exact Or.inr (Or.inl h)
        · exact Or.inl h
        · exact Or.inr (Or.inr h)
      · rintro (h | h | h)
        · exact Or.inr (Or.inl h)
        · exact Or.inl h
        · exact Or.inr (Or.inr h)

theorem mem_foldr_insertDue (s : Sys) (x : Nat) (l : List Nat) : x ∈ l.foldr (insertDue s) [] ↔ x ∈ l := by
  induction l with
  | nil => simp
  | cons j r ih => simp [List.foldr_cons, mem_insertDue, ih]

/-- the timers that `advance` fires are exactly the live ones that are due -/
theorem mem_dueLive (s : Sys) (t i : Nat) :
    i ∈ dueLive s t ↔ i < s.timers.length ∧ (timerAt s i).live = true ∧ (timerAt s i).due ≤ t := by
  unfold dueLive
  rw [mem_foldr_insertDue]
  simp [List.mem_filter, List.mem_range]

theorem timerAt_killTimer (s : Sys) (j i : Nat) :
    timerAt (killTimer s j) i = if i = j then { timerAt s i with live := false } else timerAt s i := by
  unfold timerAt killTimer
  simp only [getElem?_modifyAt]
  by_cases h : i = j
  · subst h
    cases hh : s.timers[i]? with
    | none => simp; rfl
    | some tm => simp
  · simp [h]

theorem timerAt_upd (s : Sys) (u : Nat) (f : Actor → Actor) (i : Nat) : timerAt (s.upd u f) i = timerAt s i := rfl

theorem timers_len_killTimer (s : Sys) (j : Nat) : (killTimer s j).timers.length = s.timers.length := by
  simp [killTimer, length_modifyAt]

/-! ### frames of delivery -/

theorem deliverNow_frame (s : Sys) (t : Nat) (ev : String) (v : Nat) (h : v ≠ t) : (deliverNow s t ev).get v = s.get v := by
  unfold deliverNow
  split
  · split
    · split <;> exact get_upd_ne s _ h
    · rfl
  · split
    · rfl
    · exact get_upd_ne s _ h

theorem deliverNow_registry (s : Sys) (t : Nat) (ev : String) : (deliverNow s t ev).registry = s.registry := by
  unfold deliverNow
  split
  · split
    · split <;> rfl
    · rfl
  · split <;> rfl

theorem deliverNow_flavor (s : Sys) (t : Nat) (ev : String) : (deliverNow s t ev).flavor = s.flavor :=
  (quiet_deliverNow s t ev).1

/-- delivery touches only the mailbox: everything target resolution reads is unchanged -/
theorem deliverNow_addr (s : Sys) (t : Nat) (ev : String) (p : Nat) :
    ((deliverNow s t ev).get p).kids = (s.get p).kids ∧ ((deliverNow s t ev).get p).sources = (s.get p).sources ∧
    ((deliverNow s t ev).get p).parent = (s.get p).parent ∧ ((deliverNow s t ev).get p).status = (s.get p).status ∧
    ((deliverNow s t ev).get p).busy = (s.get p).busy ∧ ((deliverNow s t ev).get p).alive = (s.get p).alive := by
  unfold deliverNow
  split
  · split
    · split <;>
        exact ⟨get_upd_proj (·.kids) s t p _ (fun _ => rfl), get_upd_proj (·.sources) s t p _ (fun _ => rfl),
          get_upd_proj (·.parent) s t p _ (fun _ => rfl), get_upd_proj (·.status) s t p _ (fun _ => rfl),
          get_upd_proj (·.busy) s t p _ (fun _ => rfl), get_upd_proj (·.alive) s t p _ (fun _ => rfl)⟩
    · exact ⟨rfl, rfl, rfl, rfl, rfl, rfl⟩
  · split
    · exact ⟨rfl, rfl, rfl, rfl, rfl, rfl⟩
    · exact ⟨get_upd_proj (·.kids) s t p _ (fun _ => rfl), get_upd_proj (·.sources) s t p _ (fun _ => rfl),
        get_upd_proj (·.parent) s t p _ (fun _ => rfl), get_upd_proj (·.status) s t p _ (fun _ => rfl),
        get_upd_proj (·.busy) s t p _ (fun _ => rfl), get_upd_proj (·.alive) s t p _ (fun _ => rfl)⟩

theorem resolve_deliverNow (s : Sys) (t : Nat) (ev : String) (p : Nat) (spec : String) :
    resolve (deliverNow s t ev) p spec = resolve s p spec := by
  have ⟨hk, hs, hp, _, _, _⟩ := deliverNow_addr s t ev p
  have hid : ((deliverNow s t ev).get p).id = (s.get p).id := by
    unfold deliverNow
    split
    · split
      · split <;> exact get_upd_proj (·.id) s t p _ (fun _ => rfl)
      · rfl
    · split
      · rfl
      · exact get_upd_proj (·.id) s t p _ (fun _ => rfl)
  unfold resolve sourceMatches parentMatch
  rw [deliverNow_registry, hk, hs, hp, hid]

/-! ### registry -/

theorem registry_upd (s : Sys) (u : Nat) (f : Actor → Actor) : (s.upd u f).registry = s.registry := rfl

theorem registry_drainAll (busy : Option Nat) (s : Sys) : (drainAll busy s).registry = s.registry := rfl

/-! ### descendants of a child are not affected by unlinking it from its parent -/

theorem unlinkChild_get_ne (s : Sys) (p x v : Nat) (h : v ≠ p) : (unlinkChild s p x).get v = s.get v := by
  unfold unlinkChild
  split
  · exact get_upd_ne s _ h
  · rfl

theorem desc_unlink {s : Sys} (hwf : WF s) (p x : Nat) {y d : Nat} (h : Desc s y d) :
    p < y → Desc (unlinkChild s p x) y d := by
  induction h with
  | self x => intro _; exact Desc.self _
  | @kid y d kv hkv _ ih =>
    intro hpy
    have hne : y ≠ p := by omega
    have hc := hwf y kv hkv
    exact Desc.kid kv (by rw [unlinkChild_get_ne s p x y hne]; exact hkv) (ih (by omega))

/-! ### addressing: the segments of a child id that count, the matches of the two fallbacks -/

theorem ownSegsL_prefix (pid rest : List Char) : ownSegsL pid (pid ++ ':' :: rest) = splitColonL rest := by
  unfold ownSegsL
  have h1 : (pid ++ [':']).isPrefixOf (pid ++ ':' :: rest) = true := by
    rw [List.isPrefixOf_iff_prefix]; exact ⟨rest, by simp⟩
  rw [if_pos h1]
  congr 1
  have : pid ++ ':' :: rest = (pid ++ [':']) ++ rest := by simp
  rw [this]; exact List.drop_left' (by simp)

/-- F54: for a child id of the shape `<parent id>:<rest>` — every id a spawn produces — the segments that
    take part in the bare-key match are those of `<rest>`; the parent's own id plays no role -/
theorem ownSegs_prefix (pid rest : String) : ownSegs pid (pid ++ ":" ++ rest) = segs rest := by
  unfold ownSegs segs
  have : (pid ++ ":" ++ rest).toList = pid.toList ++ ':' :: rest.toList := by
    rw [String.toList_append, String.toList_append]
    have : ":".toList = [':'] := rfl
    rw [this]; simp
  rw [this, ownSegsL_prefix]

theorem mem_segMatches (pid : String) (kids : List (String × Nat)) (spec : String) (u : Nat) :
    u ∈ segMatches pid kids spec ↔ ∃ kv ∈ kids, spec ∈ ownSegs pid kv.1 ∧ kv.2 = u := by
  unfold segMatches
  simp only [List.mem_map, List.mem_filter, List.contains_iff_mem]
  constructor
  · rintro ⟨kv, ⟨h1, h2⟩, h3⟩; exact ⟨kv, h1, h2, h3⟩
  · rintro ⟨kv, h1, h2, h3⟩; exact ⟨kv, ⟨h1, h2⟩, h3⟩

theorem mem_sourceMatches (a : Actor) (spec : String) (u : Nat) :
    u ∈ sourceMatches a spec ↔ ∃ kv ∈ a.sources, kv.2 = spec ∧ dlookup kv.1 a.kids = some u := by
  unfold sourceMatches
  simp only [List.mem_filterMap, List.mem_filter, decide_eq_true_eq]
  constructor
  · rintro ⟨kv, ⟨h1, h2⟩, h3⟩; exact ⟨kv, h1, h2, h3⟩
  · rintro ⟨kv, h1, h2, h3⟩; exact ⟨kv, ⟨h1, h2⟩, h3⟩

end XSM.Actors
