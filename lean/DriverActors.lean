import Xsm.Model.Json
import Xsm.Model.Actors
import Xsm.Model.ActorsDone
/-!
Line-protocol driver for the actor-system model (property C15); imports only `Xsm.Model`.

    CASE {"flavor":"sync"|"async","eager":bool,"invoke":{kind:src|null},"cmds":{name:[action,...]},"f71fixed":bool}
    OP   ["cmd",actorId,name] | ["adv",ms] | ["stop",actorId] | ["fin",actorId] | ["fail",actorId]
         ("fin"/"fail": the actor's machine ends by itself, `Xsm/Model/ActorsDone.lean`; "f71fixed": does the async
          managing task of an invoked machine stop a child that finished by itself? - the harness derives it from the ledger)
         -> {"tree":[[depth,id,status,[received]]],"reg":[[systemId,id,status]],"det":[[id,status,[received]]],
             "warn":[..],"afterstop":[[id,event]],"oos":bool}
    action = ["spawnChild",key,eid|null,sysId|null] | ["spawn",key,eid|null,sysId|null,blocking]
           | ["sendTo",target,n,delay|null,sendId|null] | ["sendParent",n,delay|null,sendId|null]
           | ["forwardTo",target] | ["escalate"] | ["cancel",sendId] | ["stopChild",target]
-/
open XSM XSM.Actors

def jstr (s : String) : String :=
  "\"" ++ s.foldl (fun acc c =>
    if c = '"' then acc ++ "\\\"" else if c = '\\' then acc ++ "\\\\" else acc.push c) "" ++ "\""

def jarr (xs : List String) : String := "[" ++ ",".intercalate xs ++ "]"

def optStr : J → Option String
  | .str s => if s = "" then none else some s
  | _ => none

def natOf : J → Nat
  | .num n => n.toNat
  | _ => 0

def strOf : J → String
  | .str s => s
  | .num n => toString n
  | _ => ""

def boolOf : J → Bool
  | .bool b => b
  | _ => false

def dropPfx (s : String) (n : Nat) : String := String.ofList (s.toList.drop n)

def parseAction : J → Option Action
  | .arr [.str "spawnChild", .str src, eid, sid] =>
    if "blocking_".toList.isPrefixOf src.toList then some (.spawn (dropPfx src 9) (optStr eid) (optStr sid) true)
    else some (.spawn src (optStr eid) (optStr sid) false)
  | .arr [.str "spawn", .str key, eid, sid, b] => some (.spawn key (optStr eid) (optStr sid) (boolOf b))
  | .arr [.str "sendTo", .str tgt, n, d, sid] => some (.sendTo tgt ("M" ++ strOf n) (natOf d) (optStr sid))
  | .arr [.str "sendParent", n, d, sid] => some (.sendParent ("M" ++ strOf n) (natOf d) (optStr sid))
  | .arr [.str "forwardTo", .str tgt] => some (.forwardTo tgt)
  | .arr [.str "escalate"] => some .escalate
  | .arr [.str "cancel", .str sid] => some (.cancel sid)
  | .arr [.str "stopChild", .str tgt] => some (.stopChild tgt)
  | _ => none

def parseOp : J → Option OpD
  | .arr [.str "cmd", .str aid, .str name] => some (.base (.cmd aid name))
  | .arr [.str "adv", n] => some (.base (.adv (natOf n)))
  | .arr [.str "stop", .str aid] => some (.base (.stop aid))
  | .arr [.str "fin", .str aid] => some (.fin aid false)
  | .arr [.str "fail", .str aid] => some (.fin aid true)
  | _ => none

def stStr : StatusD → String
  | .uninit => "uninit"
  | .running => "running"
  | .done => "done"
  | .error => "error"
  | .stopped => "stopped"

def render (sd : SysD) : String :=
  let s := sd.base
  let tr := tree s
  let reach := tr.map (·.2)
  let row (d : Option Nat) (u : Nat) : String :=
    let a := s.get u
    jarr ((match d with | some k => [toString k] | none => []) ++ [jstr a.id, jstr (stStr (sd.status u)), jarr (a.received.map jstr)])
  let treeJ := jarr (tr.map (fun du => row (some du.1) du.2))
  let regJ := jarr (s.registry.map (fun kv => jarr [jstr kv.1, jstr (s.get kv.2).id, jstr (stStr (sd.status kv.2))]))
  let detJ := jarr (((List.range s.actors.length).filter (fun u => !reach.contains u && (s.get u).status != .uninit)).map (row none))
  -- "afterstop" (events processed after the stop notification) is empty in every state of the model:
  -- an actor whose status is `stopped` never processes anything (`XSM.C15.nothing_delivered_after_stop`, `stopped_actor_is_frozen_inside_a_macrostep`)
  let late : List String := []
  "{\"tree\":" ++ treeJ ++ ",\"reg\":" ++ regJ ++ ",\"det\":" ++ detJ ++ ",\"warn\":" ++ jarr (s.warns.map jstr)
    ++ ",\"afterstop\":" ++ jarr late ++ ",\"oos\":" ++ (if s.oos then "true" else "false")
    ++ ",\"inv\":" ++ (if invD sd then "true" else "false") ++ "}"

structure DS where
  cmds : List (String × List Action) := []
  s : SysD := {}

def handleLine (d : DS) (line : String) : DS × String :=
  if line.startsWith "CASE " then
    match parseJson (dropPfx line 5) with
    | .error e => (d, "{\"err\":" ++ jstr e ++ "}")
    | .ok j =>
      let fl := match j.get? "flavor" with | some (.str "async") => Flavor.async | _ => Flavor.sync
      let eager := match j.get? "eager" with | some (.bool b) => b | _ => true
      let inv := match j.get? "invoke" with
        | some (.obj kvs) => kvs.filterMap (fun kv => (optStr kv.2).map (fun v => (kv.1, v)))
        | _ => []
      let cmds := match j.get? "cmds" with
        | some (.obj kvs) => kvs.map (fun kv => (kv.1, match kv.2 with | .arr xs => xs.filterMap parseAction | _ => []))
        | _ => []
      let fixed := match j.get? "f71fixed" with | some (.bool b) => b | _ => false
      let s := initD fl eager inv fixed
      ({ cmds := cmds, s := s }, render s)
  else if line.startsWith "OP " then
    match parseJson (dropPfx line 3) with
    | .error e => (d, "{\"err\":" ++ jstr e ++ "}")
    | .ok j =>
      match parseOp j with
      | none => (d, "{\"err\":\"bad op\"}")
      | some op =>
        let s' := stepD d.cmds d.s op
        ({ d with s := s' }, render s')
  else (d, "{\"err\":\"unknown command\"}")

partial def loop (h : IO.FS.Stream) (out : IO.FS.Stream) (d : DS) : IO Unit := do
  let line ← h.getLine
  if line.isEmpty then return ()
  let l := if line.endsWith "\n" then String.ofList (line.toList.dropLast) else line
  let (d', r) := handleLine d l
  out.putStrLn r
  loop h out d'

def main : IO Unit := do
  let stdin ← IO.getStdin
  let stdout ← IO.getStdout
  loop stdin stdout {}
