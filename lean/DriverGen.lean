import Xsm.Model.Json
import Xsm.Model.Codegen
import Xsm.Model.CodegenGuard
/-!
Line-protocol driver for the code-generator naming model (`lake build drivergen`).

    Q ident <json [name, fallback]>                       -> {"r": "<identifier>"}
    Q alloc <json {"reserved": [..] | absent, "req": [[name, fallback] | name, ...]}>
    Q alloc <json [name, ...]>                            -> {"r": ["<binding>", ...]}   (one per request)
        absent "reserved" = `emit.RESERVED_BINDINGS` (regenerated table); a bare name has fallback "state"
    Q translit <json string>                              -> {"r": "<image>"}   (invalid runs shown as '-')
    Q irguard <guard json>                                -> {"r": <the value `render_guard(parse_guard(g))` denotes>} | {"r": null}
-/
open XSM XSM.Codegen

def gjstr (s : String) : String :=
  "\"" ++ s.foldl (fun acc c =>
    if c = '"' then acc ++ "\\\"" else if c = '\\' then acc ++ "\\\\"
    else if c = '\n' then acc ++ "\\n" else if c = '\t' then acc ++ "\\t" else if c = '\r' then acc ++ "\\r"
    else if c.toNat < 32 then acc ++ "\\u00" ++ (String.singleton (Nat.digitChar (c.toNat / 16))) ++ (String.singleton (Nat.digitChar (c.toNat % 16)))
    else acc.push c) "" ++ "\""

def gjarr (xs : List String) : String := "[" ++ ",".intercalate xs ++ "]"

def dropPfx (line : String) (n : Nat) : String := String.ofList (line.toList.drop n)

def reqOf : J → Option (List Char × List Char)
  | .str s => some (s.toList, stateWord)
  | .arr [.str n, .str f] => some (n.toList, f.toList)
  | .arr [.str n] => some (n.toList, stateWord)
  | _ => none

def strsOf : J → List (List Char)
  | .arr xs => xs.filterMap (fun | .str s => some s.toList | _ => none)
  | _ => []

def handleGen (line : String) : String :=
  if line.startsWith "Q ident " then
    match parseJson (dropPfx line 8) with
    | .ok (.arr [.str n, .str f]) => "{\"r\":" ++ gjstr (String.ofList (toIdentifier n.toList f.toList)) ++ "}"
    | .ok (.str n) => "{\"r\":" ++ gjstr (String.ofList (toIdentifier n.toList stateWord)) ++ "}"
    | .ok _ => "{\"err\":\"bad Q ident\"}"
    | .error e => "{\"err\":" ++ gjstr e ++ "}"
  else if line.startsWith "Q alloc " then
    match parseJson (dropPfx line 8) with
    | .ok (.arr xs) =>
      let reqs := xs.filterMap reqOf
      "{\"r\":" ++ gjarr ((pyAllocateAll CodegenTables.reservedBindings reqs).map (fun l => gjstr (String.ofList l))) ++ "}"
    | .ok (.obj kvs) =>
      let o := J.obj kvs
      let reserved := match o.get? "reserved" with | some (.arr rs) => strsOf (.arr rs) | _ => CodegenTables.reservedBindings
      let reqs := match o.get? "req" with | some (.arr xs) => xs.filterMap reqOf | _ => []
      "{\"r\":" ++ gjarr ((pyAllocateAll reserved reqs).map (fun l => gjstr (String.ofList l))) ++ "}"
    | .ok _ => "{\"err\":\"bad Q alloc\"}"
    | .error e => "{\"err\":" ++ gjstr e ++ "}"
  else if line.startsWith "Q translit " then
    match parseJson (dropPfx line 11) with
    | .ok (.str s) => "{\"r\":" ++ gjstr (String.ofList (s.toList.flatMap pyTranslit)) ++ "}"
    | .ok _ => "{\"err\":\"bad Q translit\"}"
    | .error e => "{\"err\":" ++ gjstr e ++ "}"
  else if line.startsWith "Q irguard " then
    match parseJson (dropPfx line 10) with
    | .ok j => (match irGuard j with
        | some g => "{\"r\":" ++ jtext (renderGuard g) ++ "}"
        | none => "{\"r\":null}")
    | .error e => "{\"err\":" ++ gjstr e ++ "}"
  else "{\"err\":\"cmd\"}"

partial def loopGen (h : IO.FS.Stream) (out : IO.FS.Stream) : IO Unit := do
  let line ← h.getLine
  if line.isEmpty then return ()
  let line := line.trimAsciiEnd.toString
  out.putStrLn (handleGen line)
  loopGen h out

def main : IO Unit := do
  let out ← IO.getStdout
  loopGen (← IO.getStdin) out
