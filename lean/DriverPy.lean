import Xsm.Model.Pythonic
/-!
Line-protocol driver for the model of the Python front ends (`Xsm/Model/Pythonic.lean`), property C19.
One answer line (JSON) per command line:

    Q snake2camel <word>                     -> {"r": "<camel>"}         (the word is the rest of the line)
    Q lookup {"scan":[names],"ref":name}     -> {"r": "<callable>"|null}  (`logic_map[ref]`)
    Q required <machine-json>                -> {"a":[..],"g":[..],"s":[..]} | {"err": ..}
    Q discover {"scan":[..],"machine":{..}}  -> {"ok":{"a":{n:c},"g":{..},"s":{..}}} | {"missing": name} | {"err": ..}
    Q arity <n>                              -> {"r":"guard"|"service"|"action"|null}
    Q subclass {"explicit":{"a":[..],"g":[..],"s":[..]},"methods":[[name,arity],..]} -> {"a":[..],"g":[..],"s":[..]}
    Q compile <pydef-json>                   -> {"impl": <config>|{"__err__":..}, "denote": <config>|{"__err__":..}}
    Q build <builder-ops-json>               -> {"r": <config>} | {"err": ..}
-/
open XSM XSM.Py

def jstr (s : String) : String :=
  "\"" ++ s.foldl (fun acc c =>
    if c = '"' then acc ++ "\\\"" else if c = '\\' then acc ++ "\\\\"
    else if c = '\n' then acc ++ "\\n" else if c = '\t' then acc ++ "\\t" else if c = '\r' then acc ++ "\\r"
    else if c.toNat < 32 then acc ++ "\\u00" ++ (String.singleton (Nat.digitChar (c.toNat / 16))) ++ (String.singleton (Nat.digitChar (c.toNat % 16)))
    else acc.push c) "" ++ "\""

def jarr (xs : List String) : String := "[" ++ ",".intercalate xs ++ "]"

partial def jtext : J → String
  | .null => "null"
  | .bool b => if b then "true" else "false"
  | .num n => toString n
  | .str s => jstr s
  | .arr xs => jarr (xs.map jtext)
  | .obj kvs => "{" ++ ",".intercalate (kvs.map (fun kv => jstr kv.1 ++ ":" ++ jtext kv.2)) ++ "}"

def dropPrefix (line : String) (n : Nat) : String := String.ofList (line.toList.drop n)

def strs : Option J → List String
  | some (.arr xs) => xs.filterMap (fun | .str s => some s | _ => none)
  | _ => []

def optStr : Option J → Option String
  | some (.str s) => some s
  | _ => none

def optJ : Option J → Option J
  | some .null => none
  | o => o

def jbool : Option J → Bool
  | some (.bool b) => b
  | _ => false

def pairsOf : Option J → List (String × J)
  | some (.obj kvs) => kvs
  | _ => []

def arrOf : Option J → List J
  | some (.arr xs) => xs
  | _ => []

def decState (j : J) : PyState :=
  { name := (optStr (j.get? "name")).getD ""
    initial := jbool (j.get? "initial"), final := jbool (j.get? "final"), parallel := jbool (j.get? "parallel")
    history := optStr (j.get? "history")
    on := pairsOf (j.get? "on"), entry := arrOf (j.get? "entry"), exit := arrOf (j.get? "exit")
    after := pairsOf (j.get? "after"), invoke := optJ (j.get? "invoke"), onDone := optJ (j.get? "onDone")
    always := optJ (j.get? "always"), tags := strs (j.get? "tags"), metaD := pairsOf (j.get? "meta") }

instance : Inhabited PyNode := ⟨.mk { name := "" } []⟩

partial def decNode (j : J) : PyNode := .mk (decState j) ((arrOf (j.get? "states")).map decNode)

def decTrans (j : J) : PyTrans :=
  { src := strs (j.get? "src"), event := (optStr (j.get? "event")).getD ""
    target := (match j.get? "target" with | some (.arr xs) => some (strs (some (.arr xs))) | _ => none)
    guard := optStr (j.get? "guard"), actions := arrOf (j.get? "actions")
    reenter := jbool (j.get? "reenter"), internal := jbool (j.get? "internal") }

def decDef (j : J) : PyDef :=
  { id := (optStr (j.get? "id")).getD ""
    states := (arrOf (j.get? "states")).map decNode
    transitions := (arrOf (j.get? "transitions")).map decTrans
    context := optJ (j.get? "context")
    root := (match optJ (j.get? "root") with | some r => some (decState r) | none => none) }

def exJ : Except String J → String
  | .ok j => jtext j
  | .error e => "{\"__err__\":" ++ jstr e ++ "}"

def decBTrans (j : J) : BTrans :=
  { source := (optStr (j.get? "source")).getD "", event := (optStr (j.get? "event")).getD ""
    target := (j.get? "target").getD .null, guard := optStr (j.get? "guard"), actions := arrOf (j.get? "actions")
    reenter := jbool (j.get? "reenter"), internal := jbool (j.get? "internal") }

/-- fold of the builder calls (`state`, `child_states`, `transition`, `context`, `root`) -/
def bStep (acc : Except String BDef) (op : J) : Except String BDef :=
  match acc with
  | .error e => .error e
  | .ok b =>
    match optStr (op.get? "op") with
    | some "state" =>
      let s := decState op
      if b.states.any (fun kv => kv.1 = s.name) then .error "InvalidConfigError: duplicate state name"
      else if s.final && s.parallel then .error "InvalidConfigError: final and parallel"
      else .ok { b with states := b.states ++ [(s.name, J.obj (bStateCfg s))]
                        initial := if s.initial then some s.name else b.initial }
    | some "child_states" =>
      let parent := (optStr (op.get? "parent")).getD ""
      if !(b.states.any (fun kv => kv.1 = parent)) then .error "InvalidConfigError: parent state not found"
      else .ok { b with states := b.states.map (fun kv =>
        if kv.1 = parent then (kv.1, J.obj (bChildStates (objPairs kv.2) (optStr (op.get? "initial")) (optJ (op.get? "states")) (jbool (op.get? "parallel")))) else kv) }
    | some "transition" => .ok { b with transitions := b.transitions ++ [decBTrans op] }
    | some "context" => .ok { b with context := op.get? "value" }
    | some "root" => .ok { b with root := dictUpdate b.root (pairsOf (op.get? "props")) }
    | _ => .error "bad op"

def jmap (kvs : List (String × String)) : String :=
  "{" ++ ",".intercalate (kvs.map (fun kv => jstr kv.1 ++ ":" ++ jstr kv.2)) ++ "}"

def handle (line : String) : String :=
  if line.startsWith "Q snake2camel " then
    "{\"r\":" ++ jstr (snakeToCamelS (dropPrefix line 14)) ++ "}"
  else if line = "Q snake2camel" then "{\"r\":\"\"}"
  else if line.startsWith "Q arity " then
    match (dropPrefix line 8).toNat? with
    | some n => (match arityRegistry n with
        | some .guard => "{\"r\":\"guard\"}" | some .service => "{\"r\":\"service\"}" | some .action => "{\"r\":\"action\"}"
        | none => "{\"r\":null}")
    | none => "{\"err\":\"bad arity\"}"
  else
  let sp := (line.toList.drop 2).takeWhile (· ≠ ' ')
  let cmd := String.ofList sp
  let arg := dropPrefix line (3 + sp.length)
  if !line.startsWith "Q " then "{\"err\":\"cmd\"}" else
  match parseJson arg with
  | .error e => "{\"err\":" ++ jstr ("JSON " ++ e) ++ "}"
  | .ok j =>
    if cmd = "lookup" then
      match lookupImpl (strs (j.get? "scan")) ((optStr (j.get? "ref")).getD "") with
      | some c => "{\"r\":" ++ jstr c ++ "}"
      | none => "{\"r\":null}"
    else if cmd = "required" then
      match parseMachine j with
      | .error e => "{\"err\":" ++ jstr e ++ "}"
      | .ok m =>
        let r := required m
        "{\"a\":" ++ jarr (r.actions.map jstr) ++ ",\"g\":" ++ jarr (r.guards.map jstr) ++ ",\"s\":" ++ jarr (r.services.map jstr) ++ "}"
    else if cmd = "discover" then
      match parseMachine ((j.get? "machine").getD .null) with
      | .error e => "{\"err\":" ++ jstr e ++ "}"
      | .ok m =>
        match discover (strs (j.get? "scan")) m with
        | .error n => "{\"missing\":" ++ jstr n ++ "}"
        | .ok b => "{\"ok\":{\"a\":" ++ jmap b.actions ++ ",\"g\":" ++ jmap b.guards ++ ",\"s\":" ++ jmap b.services ++ "}}"
    else if cmd = "subclass" then
      let ex := (j.get? "explicit").getD (.obj [])
      let methods : List (String × Nat) := (arrOf (j.get? "methods")).filterMap (fun
        | .arr [.str n, .num k] => some (n, k.toNat)
        | _ => none)
      let r := registerSubclass { actions := strs (ex.get? "a"), guards := strs (ex.get? "g"), services := strs (ex.get? "s") } methods
      "{\"a\":" ++ jarr (r.actions.map jstr) ++ ",\"g\":" ++ jarr (r.guards.map jstr) ++ ",\"s\":" ++ jarr (r.services.map jstr) ++ "}"
    else if cmd = "compile" then
      let d := decDef j
      "{\"impl\":" ++ exJ (compileImpl d) ++ ",\"denote\":" ++ exJ (denote d) ++ "}"
    else if cmd = "build" then
      let b0 : BDef := { id := (optStr (j.get? "id")).getD "", states := [] }
      match (arrOf (j.get? "ops")).foldl bStep (.ok b0) with
      | .error e => "{\"err\":" ++ jstr e ++ "}"
      | .ok b =>
        match buildImpl b with
        | .error e => "{\"err\":" ++ jstr e ++ "}"
        | .ok c => "{\"r\":" ++ jtext c ++ "}"
    else "{\"err\":\"cmd\"}"

partial def loop (h : IO.FS.Stream) (out : IO.FS.Stream) : IO Unit := do
  let line ← h.getLine
  if line.isEmpty then return ()
  let line := String.ofList (line.toList.reverse.dropWhile (fun c => c = '\n' || c = '\r')).reverse
  out.putStrLn (handle line)
  loop h out

def main : IO Unit := do
  let out ← IO.getStdout
  loop (← IO.getStdin) out
