import Xsm
open XSM

def showPath (m : Machine) (p : Path) : String := m.idOf p

def render (m : Machine) (s : St) (err : String) : String :=
  let ids := (s.cfg.map (m.idOf ·)).toArray.qsort (· < ·) |>.toList
  let hist := s.hist.map (fun kv => m.idOf kv.1 ++ "=" ++ ",".intercalate ((kv.2.map (m.idOf ·)).toArray.qsort (· < ·) |>.toList))
  s!"C {",".intercalate ids} | S {s.status} | T {" ".intercalate s.trace.reverse} | H {";".intercalate hist} | E {err} | X {s.errors}"

def errStr : EErr → String
  | .stateNotFound _ => "StateNotFoundError"
  | .invalidConfig _ => "InvalidConfigError"
  | .missingGuard _ => "ImplementationMissingError"

def runCmd (s : St) (act : St → St) : St × String :=
  let s' := act { s with trace := [], err := none }
  (s', match s'.err with | some e => errStr e | none => "")

partial def loop (h : IO.FS.Stream) (m : Option Machine) (env : List (String × GOut)) (s : St) (fl : Flavor := .sync) : IO Unit := do
  let line ← h.getLine
  if line.isEmpty then return ()
  let line := line.trimAsciiEnd.toString
  let genv : GEnv := fun n => ((env.find? (fun kv => kv.1 = n)).map (·.2)).getD .missing
  if line.startsWith "M " then
    match parseJson (String.ofList (line.toList.drop 2)) with
    | .error e => IO.println s!"err JSON {e}"; loop h none env s fl
    | .ok j =>
      match parseMachine j with
      | .ok mm => IO.println "ok"; loop h (some mm) env {} fl
      | .error e => IO.println s!"err {e}"; loop h none env {} fl
  else if line.startsWith "G " then
    -- guard valuation: name=t|f|r space separated
    let toks := (String.ofList (line.toList.drop 2)).splitOn " "
    let env' := toks.filterMap (fun tk => match tk.splitOn "=" with
      | [n, "t"] => some (n, GOut.t) | [n, "f"] => some (n, GOut.f) | [n, "r"] => some (n, GOut.raises) | _ => none)
    IO.println "ok"; loop h m env' s fl
  else if line = "F sync" then do IO.println "ok"; loop h m env s .sync
  else if line = "F async" then do IO.println "ok"; loop h m env s .async
  else match m with
  | none => IO.println "err nomachine"; loop h m env s fl
  | some mm =>
    if line = "START" then
      let (s', e) := runCmd s (start fl mm genv)
      IO.println (render mm s' e); loop h m env s' fl
    else if line.startsWith "SEND " then
      let (s', e) := runCmd s (send fl mm genv (.user (String.ofList (line.toList.drop 5))))
      IO.println (render mm s' e); loop h m env s' fl
    else do IO.println "err cmd"; loop h m env s fl

def main : IO Unit := do loop (← IO.getStdin) none [] {}
