import Xsm.Model.Engine
import Xsm.Model.Parse
/-!
Line-protocol driver for the executable model (compiled as a `lean_exe`; imports only `Xsm.Model`).

    M <machine-json>            -> {"ok":true} | {"ok":false,"err":"<kind>: ..."}
    G g0=t g1=f g2=r            guard valuation (absent = not implemented)
    F sync|async
    RESET                       forget the run state, keep machine / valuation / flavour
    START | SEND <type> | AFTER <type> | DONE <type> <src>
                                -> {"C":[ids],"S":status,"T":[records],"H":{owner:[ids]},"E":kind,"X":n}
    Q match <json-array-of-keys> <event>      -> {"r":[keys]}
    Q resolve <json path array> <target>      -> {"r":id|null}
-/
open XSM

def jstr (s : String) : String :=
  "\"" ++ s.foldl (fun acc c =>
    if c = '"' then acc ++ "\\\"" else if c = '\\' then acc ++ "\\\\"
    else if c = '\n' then acc ++ "\\n" else if c = '\t' then acc ++ "\\t" else if c = '\r' then acc ++ "\\r"
    else if c.toNat < 32 then acc ++ "\\u00" ++ (String.singleton (Nat.digitChar (c.toNat / 16))) ++ (String.singleton (Nat.digitChar (c.toNat % 16)))
    else acc.push c) "" ++ "\""

def jarr (xs : List String) : String := "[" ++ ",".intercalate xs ++ "]"

def render (m : Machine) (s : St) (err : String) : String :=
  let ids := jarr (s.cfg.map (fun p => jstr (m.idOf p)))
  let hist := "{" ++ ",".intercalate (s.hist.map (fun kv => jstr (m.idOf kv.1) ++ ":" ++ jarr (kv.2.map (fun p => jstr (m.idOf p))))) ++ "}"
  let tr := jarr (s.trace.reverse.map jstr)
  "{\"C\":" ++ ids ++ ",\"S\":" ++ jstr s.status ++ ",\"T\":" ++ tr ++ ",\"H\":" ++ hist ++ ",\"E\":" ++ jstr err ++ ",\"X\":" ++ toString s.errors ++ "}"

def errStr : EErr → String
  | .stateNotFound _ => "StateNotFoundError"
  | .invalidConfig _ => "InvalidConfigError"
  | .missingGuard _ => "ImplementationMissingError"

def runCmd (s : St) (act : St → St) : St × String :=
  let s' := act { s with trace := [], err := none, errors := 0 }
  (s', match s'.err with | some e => errStr e | none => "")

def dropPrefix (line : String) (n : Nat) : String := String.ofList (line.toList.drop n)

def jsonStrings : J → List String
  | .arr xs => xs.filterMap (fun | .str s => some s | _ => none)
  | _ => []

structure DS where
  m : Option Machine := none
  env : List (String × GOut) := []
  fl : Flavor := .sync
  s : St := {}

def handle (d : DS) (line : String) : DS × String :=
  let genv : GEnv := fun n => ((d.env.find? (fun kv => kv.1 = n)).map (·.2)).getD .missing
  if line.startsWith "M " then
    match parseJson (dropPrefix line 2) with
    | .error e => ({ d with m := none, s := {} }, "{\"ok\":false,\"err\":" ++ jstr ("JSON " ++ e) ++ "}")
    | .ok j =>
      match parseMachine j with
      | .ok mm => ({ d with m := some mm, s := {} }, "{\"ok\":true}")
      | .error e => ({ d with m := none, s := {} }, "{\"ok\":false,\"err\":" ++ jstr e ++ "}")
  else if line.startsWith "G" then
    let toks := (dropPrefix line 2).splitOn " "
    let env' := toks.filterMap (fun tk => match tk.splitOn "=" with
      | [n, "t"] => some (n, GOut.t) | [n, "f"] => some (n, GOut.f) | [n, "r"] => some (n, GOut.raises) | _ => none)
    ({ d with env := env' }, "{\"ok\":true}")
  else if line = "F sync" then ({ d with fl := .sync }, "{\"ok\":true}")
  else if line = "F async" then ({ d with fl := .async }, "{\"ok\":true}")
  else if line = "RESET" then ({ d with s := {} }, "{\"ok\":true}")
  else if line.startsWith "Q match " then
    let rest := dropPrefix line 8
    -- keys json array, then a space, then the event (the array contains no "] " inside strings in our use)
    match rest.splitOn "] " with
    | [a, ev] =>
      (match parseJson (a ++ "]") with
       | .ok j => (d, "{\"r\":" ++ jarr ((matchingDescriptors (jsonStrings j) ev).map jstr) ++ "}")
       | .error e => (d, "{\"err\":" ++ jstr e ++ "}"))
    | [a] =>
      (match parseJson a with
       | .ok j => (d, "{\"r\":" ++ jarr ((matchingDescriptors (jsonStrings j) "").map jstr) ++ "}")
       | .error e => (d, "{\"err\":" ++ jstr e ++ "}"))
    | _ => (d, "{\"err\":\"bad Q match\"}")
  else match d.m with
  | none => (d, "{\"err\":\"nomachine\"}")
  | some mm =>
    if line.startsWith "Q resolve " then
      let rest := dropPrefix line 10
      match rest.splitOn "] " with
      | [a, tgt] =>
        (match parseJson (a ++ "]") with
         | .ok j =>
           (d, "{\"r\":" ++ (match resolveRobust mm (jsonStrings j) tgt with | some p => jstr (mm.idOf p) | none => "null") ++ "}")
         | .error e => (d, "{\"err\":" ++ jstr e ++ "}"))
      | _ => (d, "{\"err\":\"bad Q resolve\"}")
    else
    let go (act : St → St) : DS × String :=
      let (s', e) := runCmd d.s act
      ({ d with s := s' }, render mm s' e)
    if line = "START" then go (start d.fl mm genv)
    else if line.startsWith "SEND " then go (send d.fl mm genv (.user (dropPrefix line 5)))
    else if line.startsWith "AFTER " then go (send d.fl mm genv (.after (dropPrefix line 6)))
    else if line.startsWith "DONE " then
      match (dropPrefix line 5).splitOn " " with
      | [t, src] => go (send d.fl mm genv (.done t src))
      | _ => (d, "{\"err\":\"bad DONE\"}")
    else (d, "{\"err\":\"cmd\"}")

partial def loop (h : IO.FS.Stream) (out : IO.FS.Stream) (d : DS) : IO Unit := do
  let line ← h.getLine
  if line.isEmpty then return ()
  let line := line.trimAsciiEnd.toString
  let (d', o) := handle d line
  out.putStrLn o
  loop h out d'

def main : IO Unit := do
  let out ← IO.getStdout
  loop (← IO.getStdin) out {}
