import Xsm.Model.Runtime
import Xsm.Model.Parse
/-!
Line-protocol driver for the runtime model (`Xsm/Model/Runtime.lean`).

    M <machine-json>      -> {"ok":true} | {"ok":false,"err":..}
    G g0=t g1=f           guard valuation
    L <json>              {"delays":{name:ms}, "services":{name:{"coro":bool,"dur":ms,"ok":bool}}}
    F sync|async
    RUN <json>            {"agenda":[[t,"send",E]|[t,"stop"]|[t,"obs"]...], "horizon":ms}
        -> {"log":[[t,record]...], "C":[ids], "S":status, "tasks":n, "clean":bool, "now":t, "queue":n}

Action names: as in Driver.lean, plus `async:sleep:<ms>` (a coroutine that sleeps, async engine) and
`sleep:<ms>` (a blocking sleep, sync engine): their duration is what `REnv.dur` returns.
-/
open XSM

def jstr (s : String) : String :=
  "\"" ++ s.foldl (fun acc c =>
    if c = '"' then acc ++ "\\\"" else if c = '\\' then acc ++ "\\\\"
    else if c = '\n' then acc ++ "\\n" else if c = '\t' then acc ++ "\\t" else if c = '\r' then acc ++ "\\r"
    else if c.toNat < 32 then acc ++ "\\u00" ++ (String.singleton (Nat.digitChar (c.toNat / 16))) ++ (String.singleton (Nat.digitChar (c.toNat % 16)))
    else acc.push c) "" ++ "\""

def jarr (xs : List String) : String := "[" ++ ",".intercalate xs ++ "]"

def dropPrefix (line : String) (n : Nat) : String := String.ofList (line.toList.drop n)

def mkUEnv (tbl : List (String × GOut)) : UEnv :=
  { g := fun n c _ev =>
      match (tbl.find? (fun kv => kv.1 = n)).map (·.2) with
      | some o => o
      | none =>
        match n.splitOn ":" with
        | ["lt", k, v] => (match v.toInt? with | some i => if ctxGet c k < i then .t else .f | none => .missing)
        | ["ge", k, v] => (match v.toInt? with | some i => if ctxGet c k ≥ i then .t else .f | none => .missing)
        | ["eq", k, v] => (match v.toInt? with | some i => if ctxGet c k = i then .t else .f | none => .missing)
        | _ => .missing
    a := fun n c _ev =>
      if (canonicalBuiltin n).isSome then .missing
      else match n.splitOn ":" with
        | "missing" :: _ => .missing
        | "fail" :: _ => .raises
        | "async" :: _ => .isAsync c
        | ["inc", k] => .ok (ctxSet c k (ctxGet c k + 1))
        | ["set", k, v] => (match v.toInt? with | some i => .ok (ctxSet c k i) | none => .ok c)
        | _ => .ok c }

def durOf (n : String) : Nat :=
  match n.splitOn ":" with
  | ["async", "sleep", v] => v.toNat?.getD 0
  | ["sleep", v] => v.toNat?.getD 0
  | _ => 0

def natOf : Option J → Nat
  | some (.num n) => n.toNat
  | _ => 0
def boolOf : Option J → Bool
  | some (.bool b) => b
  | _ => false

def mkREnv (l : J) : REnv :=
  { delays := fun k => match (l.get? "delays").bind (fun d => d.get? k) with
      | some (.num n) => some n.toNat
      | _ => none
    svc := fun k => match (l.get? "services").bind (fun d => d.get? k) with
      | some sj => some { coro := boolOf (sj.get? "coro"), dur := natOf (sj.get? "dur"), ok := boolOf (sj.get? "ok") }
      | none => none
    dur := durOf }

def agendaOf (j : J) : List (Nat × ExtOp) :=
  match j.get? "agenda" with
  | some (.arr xs) => xs.filterMap (fun x => match x with
      | .arr [.num t, .str "send", .str e] => some (t.toNat, ExtOp.send e)
      | .arr [.num t, .str "stop"] => some (t.toNat, ExtOp.stop)
      | .arr [.num t, .str "obs"] => some (t.toNat, ExtOp.obs)
      | _ => none)
  | _ => []

def renderRT (m : Machine) (rt : RT) : String :=
  let rt := rt.flush
  let log := jarr (rt.log.reverse.map (fun tr => "[" ++ toString tr.1 ++ "," ++ jstr tr.2 ++ "]"))
  "{\"log\":" ++ log ++ ",\"C\":" ++ jarr (rt.st.cfg.map (fun p => jstr (m.idOf p))) ++ ",\"S\":" ++ jstr rt.st.status
    ++ ",\"tasks\":" ++ toString (rt.timers.length + rt.invs.length) ++ ",\"clean\":" ++ (if rt.clean then "true" else "false")
    ++ ",\"now\":" ++ toString rt.now ++ ",\"queue\":" ++ toString rt.st.queue.length
    ++ ",\"X\":" ++ toString rt.st.errors ++ "}"

structure DS where
  m : Option Machine := none
  env : List (String × GOut) := []
  l : J := .obj []
  fl : Flavor := .async

def handle (d : DS) (line : String) : DS × String :=
  if line.startsWith "M " then
    match parseJson (dropPrefix line 2) with
    | .error e => ({ d with m := none }, "{\"ok\":false,\"err\":" ++ jstr ("JSON " ++ e) ++ "}")
    | .ok j =>
      match parseMachine j with
      | .ok mm => ({ d with m := some mm }, "{\"ok\":true}")
      | .error e => ({ d with m := none }, "{\"ok\":false,\"err\":" ++ jstr e ++ "}")
  else if line.startsWith "G" then
    let toks := (dropPrefix line 2).splitOn " "
    let env' := toks.filterMap (fun tk => match tk.splitOn "=" with
      | [n, "t"] => some (n, GOut.t) | [n, "f"] => some (n, GOut.f) | [n, "r"] => some (n, GOut.raises) | _ => none)
    ({ d with env := env' }, "{\"ok\":true}")
  else if line.startsWith "L " then
    match parseJson (dropPrefix line 2) with
    | .error e => (d, "{\"ok\":false,\"err\":" ++ jstr e ++ "}")
    | .ok j => ({ d with l := j }, "{\"ok\":true}")
  else if line = "F sync" then ({ d with fl := .sync }, "{\"ok\":true}")
  else if line = "F async" then ({ d with fl := .async }, "{\"ok\":true}")
  else if line.startsWith "RUN " then
    match d.m with
    | none => (d, "{\"err\":\"nomachine\"}")
    | some mm =>
      match parseJson (dropPrefix line 4) with
      | .error e => (d, "{\"err\":" ++ jstr e ++ "}")
      | .ok j =>
        let rt := runRT d.fl mm (mkUEnv d.env) (mkREnv d.l) (agendaOf j) (natOf (j.get? "horizon")) 4000
        (d, renderRT mm rt)
  else (d, "{\"err\":\"cmd\"}")

partial def loop (h : IO.FS.Stream) (out : IO.FS.Stream) (d : DS) : IO Unit := do
  let line ← h.getLine
  if line.isEmpty then return ()
  let line := line.trimAsciiEnd.toString
  let (d', o) := handle d line
  out.putStrLn o
  loop h out d'

def main : IO Unit := do
  let out ← IO.getStdout
  loop (← IO.getStdin) out {}
