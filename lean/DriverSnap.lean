import Xsm.Model.Engine
import Xsm.Model.Parse
import Xsm.Model.Snapshot
import Xsm.Model.SnapshotTree
/-!
Line-protocol driver for the executable model WITH snapshots (C12). Same protocol as `Driver.lean`
(the shared part is a verbatim copy) plus

    SNAP                        -> {"snap": <the JSON value `snap m s`>, "q": queue length, "rd": raiseDepth,
                                    "sane": `SnapOK` as a Bool, "disorted": `DISorted` as a Bool}
    RESTORE <json>              -> the usual observation of the restored state (`restore m j`), which replaces the
                                   run state; or {"rerr":"InvalidConfigError|StateNotFoundError"} (state kept), with
                                   "key":"<key>" when `_validate_snapshot_shape` refused it (`RErr.shape key`)


    M <machine-json>            -> {"ok":true} | {"ok":false,"err":"<kind>: ..."}
    G g0=t g1=f g2=r            guard valuation (absent = not implemented)
    F sync|async
    RESET                       forget the run state, keep machine / valuation / flavour
    START | SEND <type> | AFTER <type> | DONE <type> <src>
                                -> {"C":[ids],"S":status,"T":[records],"H":{owner:[ids]},"E":kind,"X":n}
    TREE <json>                 {"services":[keys that resolve to a machine],"deep":bool,"keep":bool,"snap":<snapshot>}
                                -> the actor-tree model (`Xsm/Model/SnapshotTree.lean`): {"snap": snapTree (restoreV ⟨deep,keep⟩ svc snap),
                                   "live":[ids of the restored actors, DFS],"parked":[ids of the parked records, DFS],"sys":{..},"pend":{..}}
                                   (needs no machine; the per-interpreter payload is every key but `actors` / `system`, kept verbatim)
    Q match <json-array-of-keys> <event>      -> {"r":[keys]}
    Q resolve <json path array> <target>      -> {"r":id|null}
-/
open XSM

def jstr (s : String) : String :=
  "\"" ++ s.foldl (fun acc c =>
    if c = '"' then acc ++ "\\\"" else if c = '\\' then acc ++ "\\\\"
    else if c = '\n' then acc ++ "\\n" else if c = '\t' then acc ++ "\\t" else if c = '\r' then acc ++ "\\r"
    else if c.toNat < 32 then acc ++ "\\u00" ++ (String.singleton (Nat.digitChar (c.toNat / 16))) ++ (String.singleton (Nat.digitChar (c.toNat % 16)))
    else acc.push c) "" ++ "\""

def jarr (xs : List String) : String := "[" ++ ",".intercalate xs ++ "]"

def render (m : Machine) (s : St) (err : String) : String :=
  let ids := jarr (s.cfg.map (fun p => jstr (m.idOf p)))
  let hist := "{" ++ ",".intercalate (s.hist.map (fun kv => jstr (m.idOf kv.1) ++ ":" ++ jarr (kv.2.map (fun p => jstr (m.idOf p))))) ++ "}"
  let tr := jarr (s.trace.reverse.map jstr)
  let ctx := "{" ++ ",".intercalate (s.ctx.map (fun kv => jstr kv.1 ++ ":" ++ toString kv.2)) ++ "}"
  "{\"C\":" ++ ids ++ ",\"S\":" ++ jstr s.status ++ ",\"T\":" ++ tr ++ ",\"H\":" ++ hist ++ ",\"E\":" ++ jstr err ++ ",\"X\":" ++ toString s.errors ++ ",\"K\":" ++ ctx ++ "}"

def errStr : EErr → String
  | .stateNotFound _ => "StateNotFoundError"
  | .invalidConfig _ => "InvalidConfigError"
  | .missingGuard _ => "ImplementationMissingError"
  | .missingAction _ => "ImplementationMissingError"
  | .notSupported _ => "NotSupportedError"

def runCmd (s : St) (act : St → St) : St × String :=
  let s' := act { s with trace := [], err := none, errors := 0 }
  (s', match s'.err with | some e => errStr e | none => "")

def dropPrefix (line : String) (n : Nat) : String := String.ofList (line.toList.drop n)

def jsonStrings : J → List String
  | .arr xs => xs.filterMap (fun | .str s => some s | _ => none)
  | _ => []

/-- the logic DSL shared with the Python harness (impl.py `RecorderActions` / `make_guard`):
    guards: valuation table, plus `lt:k:n`, `ge:k:n`, `eq:k:n` over the integer context;
    actions: built-in names and `missing:*` are not registered; `fail:*` raises; `async:*` is a
    coroutine; `inc:k`, `set:k:v` update the context; every other name is a marker action. -/
def mkUEnv (tbl : List (String × GOut)) : UEnv :=
  { g := fun n c _ev =>
      match (tbl.find? (fun kv => kv.1 = n)).map (·.2) with
      | some o => o
      | none =>
        match n.splitOn ":" with
        | ["lt", k, v] => (match v.toInt? with | some i => if ctxGet c k < i then .t else .f | none => .missing)
        | ["ge", k, v] => (match v.toInt? with | some i => if ctxGet c k ≥ i then .t else .f | none => .missing)
        | ["eq", k, v] => (match v.toInt? with | some i => if ctxGet c k = i then .t else .f | none => .missing)
        | _ => .missing
    a := fun n c _ev =>
      if (canonicalBuiltin n).isSome then .missing
      else match n.splitOn ":" with
        | "missing" :: _ => .missing
        | "fail" :: _ => .raises
        | "async" :: _ => .isAsync c
        | ["inc", k] => .ok (ctxSet c k (ctxGet c k + 1))
        | ["set", k, v] => (match v.toInt? with | some i => .ok (ctxSet c k i) | none => .ok c)
        | _ => .ok c }

partial def showGuard : GuardExpr → String
  | .named n p => "named(" ++ n ++ (if p.isSome then ",params" else "") ++ ")"
  | .stateIn p => "stateIn(" ++ ((stateInTarget p).getD "-") ++ ")"
  | .and cs => "and[" ++ ",".intercalate (cs.map showGuard) ++ "]"
  | .or cs => "or[" ++ ",".intercalate (cs.map showGuard) ++ "]"
  | .not c => "not[" ++ showGuard c ++ "]"

partial def renderJ : J → String
  | .null => "null"
  | .bool b => if b then "true" else "false"
  | .num n => toString n
  | .str s => jstr s
  | .arr xs => jarr (xs.map renderJ)
  | .obj kvs => "{" ++ ",".intercalate (kvs.map (fun kv => jstr kv.1 ++ ":" ++ renderJ kv.2)) ++ "}"

def rerrStr : RErr → String
  | .invalidConfig _ => "InvalidConfigError"
  | .stateNotFound _ => "StateNotFoundError"
  | .shape _ => "InvalidConfigError"

def rerrKey : RErr → String
  | .shape k => ",\"key\":" ++ jstr k
  | _ => ""

-- the actor-tree model on real snapshots ---------------------------------------------------------------------
/-- payload of one interpreter: the keys of its actor record other than `src` / `snapshot` (`machine_id`, …: written back
    verbatim) and the keys of its snapshot other than `actors` / `system` -/
abbrev TPay := List (String × J) × List (String × J)

instance : Inhabited (SnapTree.Snap TPay) := ⟨.mk ([], []) [] []⟩

partial def toSnap (extras : List (String × J)) (j : J) : SnapTree.Snap TPay :=
  match j with
  | .obj kvs =>
    let own := kvs.filter (fun kv => kv.1 != "actors" && kv.1 != "system")
    let actors : List (String × Option String × SnapTree.Snap TPay) :=
      match j.get? "actors" with
      | some (.obj recs) => recs.map (fun r =>
          let src := match r.2.get? "src" with | some (.str k) => some k | _ => none
          let ex := match r.2 with | .obj rk => rk.filter (fun kv => kv.1 != "src" && kv.1 != "snapshot") | _ => []
          (r.1, src, toSnap ex ((r.2.get? "snapshot").getD (.obj []))))
      | _ => []
    let system := match j.get? "system" with
      | some (.obj es) => es.filterMap (fun e => match e.2 with | .str a => some (e.1, a) | _ => none)
      | _ => []
    .mk (extras, own) actors system
  | _ => .mk (extras, []) [] []

partial def ofSnap (s : SnapTree.Snap TPay) : J :=
  match s with
  | .mk (_, own) actors system =>
    .obj (own ++ [("actors", .obj (actors.map (fun r =>
              let ex := match r.2.2 with | .mk (e, _) _ _ => e
              (r.1, J.obj ((ex.filter (fun kv => kv.1 == "machine_id")) ++
                           [("src", match r.2.1 with | some k => J.str k | none => J.null), ("snapshot", ofSnap r.2.2)] ++
                           (ex.filter (fun kv => kv.1 != "machine_id"))))))),
                  ("system", .obj (system.map (fun e => (e.1, J.str e.2))))])

partial def liveIds (t : SnapTree.Live TPay) : List String :=
  match t with
  | .mk _ kids _ _ _ => kids.flatMap (fun k => k.1 :: liveIds k.2.2)

partial def parkedIds (t : SnapTree.Live TPay) : List String :=
  match t with
  | .mk _ kids parked _ _ => parked.map (·.1) ++ kids.flatMap (fun k => parkedIds k.2.2)

def treeQuery (j : J) : String :=
  let svcs := match j.get? "services" with | some a => jsonStrings a | none => []
  let b := fun (k : String) => match j.get? k with | some (.bool x) => x | _ => false
  let v : SnapTree.Variant := ⟨b "deep", b "keep"⟩
  let t := SnapTree.restoreV v (fun k => svcs.contains k) (toSnap [] ((j.get? "snap").getD .null))
  let pairs := fun (l : List (String × String)) => "{" ++ ",".intercalate (l.map (fun e => jstr e.1 ++ ":" ++ jstr e.2)) ++ "}"
  "{\"snap\":" ++ renderJ (ofSnap (SnapTree.snapTree t)) ++ ",\"live\":" ++ jarr ((liveIds t).map jstr)
    ++ ",\"parked\":" ++ jarr ((parkedIds t).map jstr) ++ ",\"sys\":" ++ pairs t.sys ++ ",\"pend\":" ++ pairs t.pend ++ "}"

structure DS where
  m : Option Machine := none
  env : List (String × GOut) := []
  fl : Flavor := .sync
  s : St := {}

def handle (d : DS) (line : String) : DS × String :=
  let uenv : UEnv := mkUEnv d.env
  if line.startsWith "M " then
    match parseJson (dropPrefix line 2) with
    | .error e => ({ d with m := none, s := {} }, "{\"ok\":false,\"err\":" ++ jstr ("JSON " ++ e) ++ "}")
    | .ok j =>
      match parseMachine j with
      | .ok mm => ({ d with m := some mm, s := {} }, "{\"ok\":true}")
      | .error e => ({ d with m := none, s := {} }, "{\"ok\":false,\"err\":" ++ jstr e ++ "}")
  else if line.startsWith "G" then
    let toks := (dropPrefix line 2).splitOn " "
    let env' := toks.filterMap (fun tk => match tk.splitOn "=" with
      | [n, "t"] => some (n, GOut.t) | [n, "f"] => some (n, GOut.f) | [n, "r"] => some (n, GOut.raises) | _ => none)
    ({ d with env := env' }, "{\"ok\":true}")
  else if line = "F sync" then ({ d with fl := .sync }, "{\"ok\":true}")
  else if line = "F async" then ({ d with fl := .async }, "{\"ok\":true}")
  else if line = "RESET" then ({ d with s := {} }, "{\"ok\":true}")
  else if line.startsWith "TREE " then
    match parseJson (dropPrefix line 5) with
    | .error e => (d, "{\"err\":" ++ jstr e ++ "}")
    | .ok j => (d, treeQuery j)
  else if line.startsWith "Q match " then
    let rest := dropPrefix line 8
    -- keys json array, then a space, then the event (the array contains no "] " inside strings in our use)
    match rest.splitOn "] " with
    | [a, ev] =>
      (match parseJson (a ++ "]") with
       | .ok j => (d, "{\"r\":" ++ jarr ((matchingDescriptors (jsonStrings j) ev).map jstr) ++ "}")
       | .error e => (d, "{\"err\":" ++ jstr e ++ "}"))
    | [a] =>
      (match parseJson a with
       | .ok j => (d, "{\"r\":" ++ jarr ((matchingDescriptors (jsonStrings j) "").map jstr) ++ "}")
       | .error e => (d, "{\"err\":" ++ jstr e ++ "}"))
    | _ => (d, "{\"err\":\"bad Q match\"}")
  else if line.startsWith "Q parseguard " then
    match parseJson (dropPrefix line 13) with
    | .error e => (d, "{\"err\":" ++ jstr e ++ "}")
    | .ok j =>
      match parseGuard j with
      | .ok g => (d, "{\"r\":" ++ jstr (showGuard g) ++ "}")
      | .error e => (d, "{\"e\":" ++ jstr e ++ "}")
  else match d.m with
  | none => (d, "{\"err\":\"nomachine\"}")
  | some mm =>
    if line.startsWith "Q guard " then
      -- {"g": <guard json>, "cfg": [[key,...],...]}
      match parseJson (dropPrefix line 8) with
      | .error e => (d, "{\"err\":" ++ jstr e ++ "}")
      | .ok j =>
        let cfg : List Path := match j.get? "cfg" with
          | some (.arr ps) => ps.map jsonStrings
          | _ => []
        match j.get? "g" with
        | none => (d, "{\"err\":\"no g\"}")
        | some gj =>
          match parseGuardOpt (some gj) with
          | .error e => (d, "{\"e\":" ++ jstr ("parse:" ++ e) ++ "}")
          | .ok none => (d, "{\"r\":true}")
          | .ok (some g) =>
            match evalGuard mm cfg (uenv.genv [] "E") g with
            | .ok b => (d, "{\"r\":" ++ (if b then "true" else "false") ++ "}")
            | .error (.missing n) => (d, "{\"e\":" ++ jstr ("missing:" ++ n) ++ "}")
    else if line.startsWith "Q resolve " then
      let rest := dropPrefix line 10
      match rest.splitOn "] " with
      | [a, tgt] =>
        (match parseJson (a ++ "]") with
         | .ok j =>
           (d, "{\"r\":" ++ (match resolveRobust mm (jsonStrings j) tgt with | some p => jstr (mm.idOf p) | none => "null") ++ "}")
         | .error e => (d, "{\"err\":" ++ jstr e ++ "}"))
      | _ => (d, "{\"err\":\"bad Q resolve\"}")
    else
    let go (act : St → St) : DS × String :=
      let (s', e) := runCmd d.s act
      ({ d with s := s' }, render mm s' e)
    if line = "START" then go (start d.fl mm uenv)
    else if line = "SNAP" then
      -- the snapshot, plus the hypotheses of the C12 theorems evaluated on the state it is taken from:
      -- quiescence (queue length, chain-breaker counter), sanity of the configuration / history
      -- (`SnapOK`) and whether every remembered list is in the (depth, id) order of `_record_history` (`DISorted`)
      let s := d.s
      let b := fun (x : Bool) => if x then "true" else "false"
      let sane := s.cfg.all (fun p => (mm.root.at p).isSome) && s.cfg.all (fun p => s.cfg.contains p.dropLast)
        && (s.cfg.eraseDups.length == s.cfg.length)
        && s.hist.all (fun kv => (mm.root.at kv.1).isSome && !kv.2.isEmpty && kv.2.all (fun q => (mm.root.at q).isSome))
      let disorted := s.hist.all (fun kv => sortDI mm kv.2 == kv.2)
      (d, "{\"snap\":" ++ renderJ (snap mm s) ++ ",\"q\":" ++ toString s.queue.length ++ ",\"rd\":" ++ toString s.raiseDepth
        ++ ",\"sane\":" ++ b sane ++ ",\"disorted\":" ++ b disorted ++ "}")
    else if line.startsWith "RESTORE " then
      match parseJson (dropPrefix line 8) with
      | .error _ => (d, "{\"rerr\":\"InvalidConfigError\"}")
      | .ok j =>
        match restore mm j with
        | .error e => (d, "{\"rerr\":" ++ jstr (rerrStr e) ++ rerrKey e ++ "}")
        | .ok s' => ({ d with s := resume s' }, render mm (resume s') "")
    else if line.startsWith "SEND " then go (send d.fl mm uenv (.user (dropPrefix line 5)))
    else if line.startsWith "AFTER " then go (send d.fl mm uenv (.after (dropPrefix line 6)))
    else if line.startsWith "DONE " then
      match (dropPrefix line 5).splitOn " " with
      | [t, src] => go (send d.fl mm uenv (.done t src))
      | _ => (d, "{\"err\":\"bad DONE\"}")
    else (d, "{\"err\":\"cmd\"}")

partial def loop (h : IO.FS.Stream) (out : IO.FS.Stream) (d : DS) : IO Unit := do
  let line ← h.getLine
  if line.isEmpty then return ()
  let line := line.trimAsciiEnd.toString
  let (d', o) := handle d line
  out.putStrLn o
  loop h out d'

def main : IO Unit := do
  let out ← IO.getStdout
  loop (← IO.getStdin) out {}
