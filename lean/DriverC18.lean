import Xsm.Model.Validate
import Xsm.Model.Resolve
/-!
Line-protocol driver for the C18 checks (config front end; imports only `Xsm.Model`).

    P <machine-json>   -> {"ok":true,"canon":"<canonical dump>"} | {"ok":false,"err":"<kind>: ..."}
                          the parsed machine WITHOUT transition ids and custom ids, transition targets and
                          history defaults resolved to state ids where they resolve (`resolveRobust` from the
                          source for transitions, `resolveTarget` from the history node for history defaults),
                          the `""` bucket of `on` listed last
    M <machine-json>   -> {"ok":true} | {"ok":false,"err":...}      load a machine for R queries
    R <json array: source key path> <target string>
                       -> {"single": id|null, "robust": id|null}     `resolveTarget` / `resolveRobust` from that source
-/
open XSM

def jstr (s : String) : String :=
  "\"" ++ s.foldl (fun acc c =>
    if c = '"' then acc ++ "\\\"" else if c = '\\' then acc ++ "\\\\"
    else if c = '\n' then acc ++ "\\n" else if c = '\t' then acc ++ "\\t" else if c = '\r' then acc ++ "\\r"
    else if c.toNat < 32 then acc ++ "\\u00" ++ (String.singleton (Nat.digitChar (c.toNat / 16))) ++ (String.singleton (Nat.digitChar (c.toNat % 16)))
    else acc.push c) "" ++ "\""

def dropPrefix (line : String) (n : Nat) : String := String.ofList (line.toList.drop n)

def jsonStrings : J → List String
  | .arr xs => xs.filterMap (fun | .str s => some s | _ => none)
  | _ => []

partial def showJ : J → String
  | .null => "null"
  | .bool b => if b then "true" else "false"
  | .num n => toString n
  | .str s => jstr s
  | .arr xs => "[" ++ ",".intercalate (xs.map showJ) ++ "]"
  | .obj kvs => "{" ++ ",".intercalate (kvs.map (fun kv => jstr kv.1 ++ ":" ++ showJ kv.2)) ++ "}"

def showOptJ : Option J → String
  | none => "-"
  | some j => showJ j

partial def showGuardC : GuardExpr → String
  | .named n p => "named(" ++ n ++ "," ++ showOptJ p ++ ")"
  | .stateIn p => "stateIn(" ++ showOptJ p ++ ")"
  | .and cs => "and[" ++ ",".intercalate (cs.map showGuardC) ++ "]"
  | .or cs => "or[" ++ ",".intercalate (cs.map showGuardC) ++ "]"
  | .not c => "not[" ++ showGuardC c ++ "]"

/-- an action; the branches of a `choose` (`params.conditions`) are shown through the parser — their
guard (`guard` / `cond`) and their action list are config spellings too -/
partial def showAction (a : ActionRef) : String :=
  let showBranch : J → String := fun br =>
    match br with
    | .obj kvs =>
      "B(g=" ++ (match parseGuardOpt (rawGuardOf br) with
                 | .ok (some g) => showGuardC g | .ok none => "-" | .error e => "ERR:" ++ e) ++
      " a=" ++ (match parseActions (br.get? "actions") with
                | .ok as => "[" ++ ",".intercalate (as.map showAction) ++ "]" | .error e => "ERR:" ++ e) ++
      " rest={" ++ ",".intercalate ((kvs.filter (fun kv => kv.1 != "guard" && kv.1 != "cond" && kv.1 != "actions")).map
                    (fun kv => jstr kv.1 ++ ":" ++ showJ kv.2)) ++ "})"
    | j => showJ j
  a.type ++ "(" ++ (match a.params with
    | some (.obj kvs) =>
      "{" ++ ",".intercalate (kvs.map fun kv => jstr kv.1 ++ ":" ++
        (if kv.1 == "conditions" then (match kv.2 with | .arr brs => "[" ++ ",".intercalate (brs.map showBranch) ++ "]" | j => showJ j)
         else showJ kv.2)) ++ "}"
    | p => showOptJ p) ++ ")"

def showTarget (m : Machine) (src : Path) (robust : Bool) : Option String → String
  | none => "-"
  | some t =>
    if t = "" then "-" else
    match (if robust then resolveRobust m src t else resolveTarget m t src) with
    | some p => "->" ++ m.idOf p
    | none => "?" ++ t

def showTrans (m : Machine) (src : Path) (t : Trans) : String :=
  "T(" ++ t.event ++ " " ++ showTarget m src true t.target ++ " g=" ++ (match t.guard with | some g => showGuardC g | none => "-") ++
  " a=[" ++ ",".intercalate (t.actions.map showAction) ++ "]" ++ (if t.reenter then " reenter" else "") ++
  (if t.forbidden then " forbidden" else "") ++ ")"

def showBucket (m : Machine) (src : Path) (kv : String × List Trans) : String :=
  jstr kv.1 ++ ":[" ++ ",".intercalate (kv.2.map (showTrans m src)) ++ "]"

def showKind : Kind → String
  | .atomic => "atomic" | .compound => "compound" | .parallel => "parallel" | .final => "final" | .history => "history"

partial def showNode (m : Machine) (p : Path) : SNode → String
  | .mk d kids =>
    let on := d.on.filter (fun kv => kv.1 != "") ++ d.on.filter (fun kv => kv.1 == "")
    "{" ++ m.idOf p ++ " " ++ showKind d.kind ++ " init=" ++ d.initial.getD "-" ++
    " entry=[" ++ ",".intercalate (d.entry.map showAction) ++ "] exit=[" ++ ",".intercalate (d.exit.map showAction) ++ "]" ++
    " on={" ++ ",".intercalate (on.map (showBucket m p)) ++ "}" ++
    " done=" ++ (match d.onDone with | some t => showTrans m p t | none => "-") ++
    " after={" ++ ",".intercalate (d.after.map (showBucket m p)) ++ "}" ++
    " invoke=[" ++ ",".intercalate (d.invoke.map (fun i => i.id ++ "/" ++ i.src.getD "-" ++ "/" ++
        ",".intercalate (i.onDone.map (showTrans m p)) ++ "/" ++ ",".intercalate (i.onError.map (showTrans m p)))) ++ "]" ++
    (if d.kind == .history then " hist=" ++ (if d.deep then "deep" else "shallow") ++ " default=" ++ showTarget m p false d.historyTarget else "") ++
    " tags=[" ++ ",".intercalate d.tags ++ "]" ++
    " kids=[" ++ ",".intercalate (kids.map (fun kc => showNode m (p ++ [kc.1]) kc.2)) ++ "]}"

def showMachine (m : Machine) : String :=
  m.id ++ " maxIt=" ++ toString m.maxIterations ++ " ctx={" ++ ",".intercalate (m.ctx0.map (fun kv => kv.1 ++ "=" ++ toString kv.2)) ++ "} " ++
  showNode m [] m.root

def handle (cur : Option Machine) (line : String) : Option Machine × String :=
  if line.startsWith "P " then
    match parseJson (dropPrefix line 2) with
    | .error e => (cur, "{\"ok\":false,\"err\":" ++ jstr ("JSON " ++ e) ++ "}")
    | .ok j =>
      match createMachine j with
      | .ok mm => (cur, "{\"ok\":true,\"canon\":" ++ jstr (showMachine mm) ++ "}")
      | .error e => (cur, "{\"ok\":false,\"err\":" ++ jstr e ++ "}")
  else if line.startsWith "M " then
    match parseJson (dropPrefix line 2) with
    | .error e => (none, "{\"ok\":false,\"err\":" ++ jstr ("JSON " ++ e) ++ "}")
    | .ok j =>
      match createMachine j with
      | .ok mm => (some mm, "{\"ok\":true}")
      | .error e => (none, "{\"ok\":false,\"err\":" ++ jstr e ++ "}")
  else if line.startsWith "R " then
    match cur with
    | none => (cur, "{\"err\":\"nomachine\"}")
    | some mm =>
      let rest := dropPrefix line 2
      match rest.splitOn "] " with
      | a :: tl =>
        let tgt := "] ".intercalate tl
        (match parseJson (a ++ "]") with
         | .ok j =>
           let src := jsonStrings j
           let sh : Option Path → String := fun | some p => jstr (mm.idOf p) | none => "null"
           (cur, "{\"single\":" ++ sh (resolveTarget mm tgt src) ++ ",\"robust\":" ++ sh (resolveRobust mm src tgt) ++ "}")
         | .error e => (cur, "{\"err\":" ++ jstr e ++ "}"))
      | _ => (cur, "{\"err\":\"bad R\"}")
  else (cur, "{\"err\":\"cmd\"}")

partial def loop (h : IO.FS.Stream) (out : IO.FS.Stream) (cur : Option Machine) : IO Unit := do
  let line ← h.getLine
  if line.isEmpty then return ()
  let line := line.trimAsciiEnd.toString
  let line := if line.endsWith "\n" then (line.dropEnd 1).toString else line
  let (cur', o) := handle cur line
  out.putStrLn o
  loop h out cur'

def main : IO Unit := do
  let out ← IO.getStdout
  loop (← IO.getStdin) out none
