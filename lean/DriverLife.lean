import Xsm.Model.Lifecycle
import Xsm.Model.Parse
/-!
Line-protocol driver for the LIFECYCLE model (`Xsm/Model/Lifecycle.lean`); compiled as `driver_life`.

    M <machine-json>            -> {"ok":true} | {"ok":false,"err":...}      (also: a fresh interpreter)
    G g0=t g1=f g2=r            guard valuation
    F sync|async
    NEW                         a fresh interpreter of the loaded machine
    START | SEND <type> | SENDMANY <type> <type> ... | STOP | FAIL | RESTORE
        -> {"C":[ids],"S":status,"T":[records],"H":{..},"E":kind,"X":n,"K":{ctx},"Q":queue length,"L":loop attached}
    `E` is the library error class the call raised: `InvalidConfigError` for `start()` on a stopped
    interpreter, otherwise the class of the error that escaped the macrostep (sync) / start (async).

The helper functions `jstr … mkUEnv` are copies of those in `Driver.lean` (an executable root cannot
be imported).
-/
open XSM

def jstr (s : String) : String :=
  "\"" ++ s.foldl (fun acc c =>
    if c = '"' then acc ++ "\\\"" else if c = '\\' then acc ++ "\\\\"
    else if c = '\n' then acc ++ "\\n" else if c = '\t' then acc ++ "\\t" else if c = '\r' then acc ++ "\\r"
    else if c.toNat < 32 then acc ++ "\\u00" ++ (String.singleton (Nat.digitChar (c.toNat / 16))) ++ (String.singleton (Nat.digitChar (c.toNat % 16)))
    else acc.push c) "" ++ "\""

def jarr (xs : List String) : String := "[" ++ ",".intercalate xs ++ "]"

def render (m : Machine) (s : St) (err : String) : String :=
  let ids := jarr (s.cfg.map (fun p => jstr (m.idOf p)))
  let hist := "{" ++ ",".intercalate (s.hist.map (fun kv => jstr (m.idOf kv.1) ++ ":" ++ jarr (kv.2.map (fun p => jstr (m.idOf p))))) ++ "}"
  let tr := jarr (s.trace.reverse.map jstr)
  let ctx := "{" ++ ",".intercalate (s.ctx.map (fun kv => jstr kv.1 ++ ":" ++ toString kv.2)) ++ "}"
  "{\"C\":" ++ ids ++ ",\"S\":" ++ jstr s.status ++ ",\"T\":" ++ tr ++ ",\"H\":" ++ hist ++ ",\"E\":" ++ jstr err ++ ",\"X\":" ++ toString s.errors ++ ",\"K\":" ++ ctx ++ "}"

def errStr : EErr → String
  | .stateNotFound _ => "StateNotFoundError"
  | .invalidConfig _ => "InvalidConfigError"
  | .missingGuard _ => "ImplementationMissingError"
  | .missingAction _ => "ImplementationMissingError"
  | .notSupported _ => "NotSupportedError"

def runCmd (s : St) (act : St → St) : St × String :=
  let s' := act { s with trace := [], err := none, errors := 0 }
  (s', match s'.err with | some e => errStr e | none => "")

def dropPrefix (line : String) (n : Nat) : String := String.ofList (line.toList.drop n)

def jsonStrings : J → List String
  | .arr xs => xs.filterMap (fun | .str s => some s | _ => none)
  | _ => []

/-- the logic DSL shared with the Python harness (impl.py `RecorderActions` / `make_guard`):
    guards: valuation table, plus `lt:k:n`, `ge:k:n`, `eq:k:n` over the integer context;
    actions: built-in names and `missing:*` are not registered; `fail:*` raises; `async:*` is a
    coroutine; `inc:k`, `set:k:v` update the context; every other name is a marker action. -/
def mkUEnv (tbl : List (String × GOut)) : UEnv :=
  { g := fun n c _ev =>
      match (tbl.find? (fun kv => kv.1 = n)).map (·.2) with
      | some o => o
      | none =>
        match n.splitOn ":" with
        | ["lt", k, v] => (match v.toInt? with | some i => if ctxGet c k < i then .t else .f | none => .missing)
        | ["ge", k, v] => (match v.toInt? with | some i => if ctxGet c k ≥ i then .t else .f | none => .missing)
        | ["eq", k, v] => (match v.toInt? with | some i => if ctxGet c k = i then .t else .f | none => .missing)
        | _ => .missing
    a := fun n c _ev =>
      if (canonicalBuiltin n).isSome then .missing
      else match n.splitOn ":" with
        | "missing" :: _ => .missing
        | "fail" :: _ => .raises
        | "async" :: _ => .isAsync c
        | ["inc", k] => .ok (ctxSet c k (ctxGet c k + 1))
        | ["set", k, v] => (match v.toInt? with | some i => .ok (ctxSet c k i) | none => .ok c)
        | _ => .ok c }


structure DL where
  m : Option Machine := none
  env : List (String × GOut) := []
  fl : Flavor := .sync
  l : LSt := {}

def renderL (m : Machine) (l : LSt) (err : String) : String :=
  let base := render m l.st err
  -- splice the extra fields before the closing brace
  (String.ofList (base.toList.dropLast)) ++ ",\"Q\":" ++ toString l.st.queue.length ++ ",\"L\":" ++
    (if l.loop then "true" else "false") ++ "}"

def handleL (d : DL) (line : String) : DL × String :=
  let uenv : UEnv := mkUEnv d.env
  if line.startsWith "M " then
    match parseJson (dropPrefix line 2) with
    | .error e => ({ d with m := none, l := {} }, "{\"ok\":false,\"err\":" ++ jstr ("JSON " ++ e) ++ "}")
    | .ok j =>
      match parseMachine j with
      | .ok mm => ({ d with m := some mm, l := LSt.new mm }, "{\"ok\":true}")
      | .error e => ({ d with m := none, l := {} }, "{\"ok\":false,\"err\":" ++ jstr e ++ "}")
  else if line.startsWith "G" then
    let toks := (dropPrefix line 2).splitOn " "
    let env' := toks.filterMap (fun tk => match tk.splitOn "=" with
      | [n, "t"] => some (n, GOut.t) | [n, "f"] => some (n, GOut.f) | [n, "r"] => some (n, GOut.raises) | _ => none)
    ({ d with env := env' }, "{\"ok\":true}")
  else if line = "F sync" then ({ d with fl := .sync }, "{\"ok\":true}")
  else if line = "F async" then ({ d with fl := .async }, "{\"ok\":true}")
  else match d.m with
  | none => (d, "{\"err\":\"nomachine\"}")
  | some mm =>
    if line = "NEW" then ({ d with l := LSt.new mm }, "{\"ok\":true}")
    else
    let clear (l : LSt) : LSt := { l with st := { l.st with trace := [], err := none, errors := 0 } }
    let go (op : LOp) (raised : Bool) : DL × String :=
      let l' := lstep d.fl mm uenv (clear d.l) op
      let e := if raised then "InvalidConfigError" else (match l'.st.err with | some e => errStr e | none => "")
      ({ d with l := l' }, renderL mm l' e)
    let evs (s : String) : List Ev := ((s.splitOn " ").filter (· ≠ "")).map Ev.user
    if line = "START" then go .start (d.fl == .sync && startRaises d.l || d.fl == .async && !asyncResumes d.l && startRaises d.l)
    else if line.startsWith "SEND " then go (.send (.user (dropPrefix line 5))) false
    else if line = "SENDMANY" then go (.sendMany []) false
    else if line.startsWith "SENDMANY " then go (.sendMany (evs (dropPrefix line 9))) false
    else if line = "STOP" then go .stop false
    else if line = "FAIL" then go .fail false
    else if line = "RESTORE" then go .restore false
    else (d, "{\"err\":\"cmd\"}")

partial def loopL (h : IO.FS.Stream) (out : IO.FS.Stream) (d : DL) : IO Unit := do
  let line ← h.getLine
  if line.isEmpty then return ()
  let line := line.trimAsciiEnd.toString
  let (d', o) := handleL d line
  out.putStrLn o
  loopL h out d'

def main : IO Unit := do
  let out ← IO.getStdout
  loopL (← IO.getStdin) out {}
