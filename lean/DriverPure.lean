import Xsm.Model.Pure
import Xsm.Model.Validate
/-!
Line-protocol driver for the model of the PURE transition API (`Xsm/Model/Pure.lean`; C05). The shared
part (`jstr`, `errStr`, the logic DSL `mkUEnv`) is a verbatim copy of `Driver.lean`.

    M <machine-json>            -> {"ok":true} | {"ok":false,"err":"<kind>: ..."}
    G g0=t g1=f g2=r            guard valuation (absent = not implemented)
    PSTART                      `initial_transition(machine)`: `pureInitial m u`
    PSEND <type>                `transition(machine, <the snapshot the previous call returned>, type)`:
                                `pureTransition m u snap (.user type)`
                                -> {"C":[ids],"S":"active|done|error","K":{ctx},"H":{owner:[ids]},"A":[reported action names],"E":""}
                                 | {"E":"<exception class>"}   the call raised; no snapshot is held afterwards
                                 | {"E":"no-snapshot"}         PSEND without a held snapshot
-/
open XSM

def jstr (s : String) : String :=
  "\"" ++ s.foldl (fun acc c =>
    if c = '"' then acc ++ "\\\"" else if c = '\\' then acc ++ "\\\\"
    else if c = '\n' then acc ++ "\\n" else if c = '\t' then acc ++ "\\t" else if c = '\r' then acc ++ "\\r"
    else if c.toNat < 32 then acc ++ "\\u00" ++ (String.singleton (Nat.digitChar (c.toNat / 16))) ++ (String.singleton (Nat.digitChar (c.toNat % 16)))
    else acc.push c) "" ++ "\""

def jarr (xs : List String) : String := "[" ++ ",".intercalate xs ++ "]"

def errStr : EErr → String
  | .stateNotFound _ => "StateNotFoundError"
  | .invalidConfig _ => "InvalidConfigError"
  | .missingGuard _ => "ImplementationMissingError"
  | .missingAction _ => "ImplementationMissingError"
  | .notSupported _ => "NotSupportedError"

def dropPrefix (line : String) (n : Nat) : String := String.ofList (line.toList.drop n)

def jsonStrings : J → List String
  | .arr xs => xs.filterMap (fun | .str s => some s | _ => none)
  | _ => []

/-- the logic DSL shared with the Python harness (impl.py `RecorderActions` / `make_guard`):
    guards: valuation table, plus `lt:k:n`, `ge:k:n`, `eq:k:n` over the integer context;
    actions: built-in names and `missing:*` are not registered; `fail:*` raises; `async:*` is a
    coroutine; `inc:k`, `set:k:v` update the context; every other name is a marker action. -/
def mkUEnv (tbl : List (String × GOut)) : UEnv :=
  { g := fun n c _ev =>
      match (tbl.find? (fun kv => kv.1 = n)).map (·.2) with
      | some o => o
      | none =>
        match n.splitOn ":" with
        | ["lt", k, v] => (match v.toInt? with | some i => if ctxGet c k < i then .t else .f | none => .missing)
        | ["ge", k, v] => (match v.toInt? with | some i => if ctxGet c k ≥ i then .t else .f | none => .missing)
        | ["eq", k, v] => (match v.toInt? with | some i => if ctxGet c k = i then .t else .f | none => .missing)
        | _ => .missing
    a := fun n c _ev =>
      if (canonicalBuiltin n).isSome then .missing
      else match n.splitOn ":" with
        | "missing" :: _ => .missing
        | "fail" :: _ => .raises
        | "async" :: _ => .isAsync c
        | ["inc", k] => .ok (ctxSet c k (ctxGet c k + 1))
        | ["set", k, v] => (match v.toInt? with | some i => .ok (ctxSet c k i) | none => .ok c)
        | _ => .ok c }

structure DS where
  m : Option Machine := none
  env : List (String × GOut) := []
  snap : Option PureSnap := none

def renderPure (m : Machine) (p : PureSnap) (acts : List String) : String :=
  let ids := jarr (p.cfg.map (fun q => jstr (m.idOf q)))
  let hist := "{" ++ ",".intercalate (p.hist.map (fun kv => jstr (m.idOf kv.1) ++ ":" ++ jarr (kv.2.map (fun q => jstr (m.idOf q))))) ++ "}"
  let ctx := "{" ++ ",".intercalate (p.ctx.map (fun kv => jstr kv.1 ++ ":" ++ toString kv.2)) ++ "}"
  "{\"C\":" ++ ids ++ ",\"S\":" ++ jstr p.status ++ ",\"K\":" ++ ctx ++ ",\"H\":" ++ hist ++ ",\"A\":" ++ jarr (acts.map jstr) ++ ",\"E\":\"\"}"

def answer (d : DS) (mm : Machine) (r : Except EErr (PureSnap × List String)) : DS × String :=
  match r with
  | .ok (p, acts) => ({ d with snap := some p }, renderPure mm p acts)
  | .error e => ({ d with snap := none }, "{\"E\":" ++ jstr (errStr e) ++ "}")

def handle (d : DS) (line : String) : DS × String :=
  let uenv : UEnv := mkUEnv d.env
  if line.startsWith "M " then
    match parseJson (dropPrefix line 2) with
    | .error e => ({ d with m := none, snap := none }, "{\"ok\":false,\"err\":" ++ jstr ("JSON " ++ e) ++ "}")
    | .ok j =>
      match createMachine j with
      | .ok mm => ({ d with m := some mm, snap := none }, "{\"ok\":true}")
      | .error e => ({ d with m := none, snap := none }, "{\"ok\":false,\"err\":" ++ jstr e ++ "}")
  else if line.startsWith "G" then
    let toks := (dropPrefix line 2).splitOn " "
    let env' := toks.filterMap (fun tk => match tk.splitOn "=" with
      | [n, "t"] => some (n, GOut.t) | [n, "f"] => some (n, GOut.f) | [n, "r"] => some (n, GOut.raises) | _ => none)
    ({ d with env := env' }, "{\"ok\":true}")
  else match d.m with
  | none => (d, "{\"err\":\"nomachine\"}")
  | some mm =>
    if line = "PSTART" then answer d mm (pureInitial mm uenv)
    else if line.startsWith "PSEND " then
      match d.snap with
      | none => (d, "{\"E\":\"no-snapshot\"}")
      | some p => answer d mm (pureTransition mm uenv p (.user (dropPrefix line 6)))
    else (d, "{\"err\":\"cmd\"}")

partial def loop (h : IO.FS.Stream) (out : IO.FS.Stream) (d : DS) : IO Unit := do
  let line ← h.getLine
  if line.isEmpty then return ()
  let line := line.trimAsciiEnd.toString
  let (d', o) := handle d line
  out.putStrLn o
  loop h out d'

def main : IO Unit := do
  let out ← IO.getStdout
  loop (← IO.getStdin) out {}
