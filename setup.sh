#!/bin/sh
# Build the framework offline from files on disk: regenerate the tables from /repo's source,
# build the Lean library (model + proofs + property files) and the driver executable.
set -e
HERE="$(cd "$(dirname "$0")" && pwd)"
cd "$HERE"
export PYTHONPATH="$HERE/harness:/repo/src"
/venv/bin/python -m xsmverif.tables "$HERE/lean" >/dev/null
/venv/bin/python -m xsmverif.c17tables "$HERE/lean" >/dev/null
cd "$HERE/lean"
# every property module and every line-protocol driver, so that the checks start from a warm build
PROPS="$(ls Xsm/Properties/*.lean | sed -e 's#/#.#g' -e 's#\.lean$##')"
EXES="$(sed -n '/^\[\[lean_exe\]\]/,/^name/ s/^name = "\(.*\)"/\1/p' lakefile.toml)"
lake build Xsm $PROPS $EXES
