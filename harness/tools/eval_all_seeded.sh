#!/bin/sh
# eval_all_seeded.sh [dir-glob-prefix...] : run every seeded change under /verif/seeded against the quick check of
# the property it breaks (scratch copy, see eval_seeded.sh) and print one block per change.
cd /verif || exit 2
for D in ${@:-seeded/*}; do
  [ -f "$D/patch.diff" ] || continue
  P=$(basename "$D" | cut -d_ -f1)
  echo "=== $D ($P)"
  START=$(date +%s)
  sh harness/tools/eval_seeded.sh "/verif/$D" "$P" 2>&1 | cut -c1-400
  echo "  wall=$(( $(date +%s) - START ))s"
done
