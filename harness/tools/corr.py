"""Stand-alone correspondence run:  corr.py <profile> <n> <sync|async> [seed]
Uses the driver binary of the lean/ directory next to this harness."""
import sys, os, time, collections, json
HERE = os.path.dirname(os.path.abspath(__file__))
sys.path.insert(0, os.path.normpath(os.path.join(HERE, "..")))
from xsmverif import gen, core, modelio, oracles

def main():
    prof, n, fl = sys.argv[1], int(sys.argv[2]), sys.argv[3]
    seed = int(sys.argv[4]) if len(sys.argv) > 4 else 1
    cs = [gen.gen_case(seed, prof, i) for i in range(n)]
    ir = core.run_impl_many(fl, cs)
    mr = core.run_model_many(fl, cs)
    st = collections.Counter(); shown = 0
    for c, (a, o), m in zip(cs, ir, mr):
        if a != "ok":
            st[a] += 1
            if a == "hang" and m[0] == "ok" and any(x["S"] == "HANG" for x in m[1]): st["hang-agree"] += 1
            continue
        if m[0] != "ok":
            st["model-reject"] += 1; print(c["id"], "model rejects:", m[1]); continue
        cut = oracles.first_illegal(c, o)
        x = core.truncate_at(o, cut); y = m[1][:len(x)] if cut is None else core.truncate_at(m[1], cut)
        d = modelio.diff_obs(x, y, fl)
        if d is None: st["agree"] += 1
        else:
            st["diff"] += 1
            if shown < 3:
                shown += 1; print(c["id"], json.dumps(d, default=str)[:1200])
    print(prof, fl, dict(st)); core.close_pool()
main()
