"""orun.py <oracle> <profile> <n> <flavor> [seed]  — run one monitor over generated cases on the real code"""
import sys, os, collections, json
HERE = os.path.dirname(os.path.abspath(__file__))
sys.path.insert(0, os.path.normpath(os.path.join(HERE, "..")))
from xsmverif import gen, core, oracles
def main():
    name, prof, n, fl = sys.argv[1], sys.argv[2], int(sys.argv[3]), sys.argv[4]
    seed = int(sys.argv[5]) if len(sys.argv) > 5 else 1
    fn = getattr(oracles, name)
    cs = [gen.gen_case(seed, prof, i) for i in range(n)]
    ir = core.run_impl_many(fl, cs)
    st = collections.Counter(); kinds = collections.Counter(); shown = 0
    for c, (a, o) in zip(cs, ir):
        st[a] += 1
        if a != "ok": continue
        pr = fn(c, o, fl)
        if pr:
            st["flagged"] += 1
            for p in pr: kinds[p["kind"]] += 1
            if shown < int(os.environ.get("SHOW", "3")):
                shown += 1; print(c["id"], json.dumps(pr[0])[:600])
    print(name, prof, fl, dict(st), dict(kinds)); core.close_pool()
main()
