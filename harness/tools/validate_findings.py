"""validate_findings.py [src-root]: run every findings/*.json replay through its property's monitors against the
library found at src-root (default /repo/src) and print fail/pass per finding."""
import sys, os, json, subprocess
HERE = os.path.dirname(os.path.abspath(__file__))
VERIF = os.path.normpath(os.path.join(HERE, "..", ".."))
src = sys.argv[1] if len(sys.argv) > 1 else "/repo/src"
if os.environ.get("_VF_CHILD") != "1":
    env = dict(os.environ, PYTHONPATH=os.path.join(VERIF, "harness") + ":" + src, _VF_CHILD="1")
    sys.exit(subprocess.call([sys.executable, __file__, src], env=env))
sys.path.insert(0, os.path.join(VERIF, "harness"))
from xsmverif import core, props
import xstate_statemachine
print("library:", xstate_statemachine.__file__)
for f in sorted(os.listdir(os.path.join(VERIF, "findings"))):
    r = json.load(open(os.path.join(VERIF, "findings", f)))
    prop = r["property"]
    if prop not in props.PROPS:
        print(f"{f}: property {prop} has no registered monitors yet"); continue
    if "case" not in r:
        # a finding of a check with its own replayer (C17, C19, ...): go through `./check <prop> --replay`
        pr = subprocess.run([os.path.join(VERIF, "check"), prop, "--replay", os.path.join("findings", f)], cwd=VERIF,
                            env=dict(os.environ, XSM_REPO_SRC=src), capture_output=True, text=True, timeout=600)
        tail = [l for l in (pr.stdout + pr.stderr).strip().splitlines() if l.strip()][-1:] or [""]
        print(f"{f}: custom replay exit={pr.returncode} {tail[0][:160]}")
        continue
    res = []
    for fl in ([r["flavor"]] if r["flavor"] in ("sync", "async") else ["sync", "async"]):
        st, obs = core._impl_worker((fl, r["case"], 8))
        pr = props.run_oracles(prop, r["case"], st, obs, fl, replay=True)
        res.append(f"{fl}:{'FAIL ' + pr[0]['kind'] if pr else 'pass'}")
    print(f"{f}: {' '.join(res)}")
core.close_pool()
