#!/venv/bin/python
"""Regenerate /verif/MANIFEST.json from the registered checks.

Existing check entries are kept as they are; a property that is registered in the harness
(xsmverif.props.PROPS) but has no entry yet gets one from CLAIMS below; every property of
properties.jsonl without a check is listed under not_applicable with its reason.
"""
import json
import os
import sys

HERE = os.path.dirname(os.path.abspath(__file__))
ROOT = os.path.abspath(os.path.join(HERE, "..", ".."))
sys.path.insert(0, os.path.join(ROOT, "harness"))
os.environ.setdefault("XSM_SRC", "/repo/src")
sys.path.insert(0, os.environ["XSM_SRC"])

COMMON = ("Lean 4 theorems over an executable model of the interpreters (unbounded in machine size, nesting "
          "depth, number of regions and events, for every user-code environment), tied to the code on every run "
          "by tables regenerated from the source and by a model-vs-implementation correspondence check; the "
          "property's own monitor is evaluated on every implementation run. ")
NOTE = ("trusted: Lean kernel; axioms propext/Classical.choice/Quot.sound only (audited per theorem on every run); "
        "hand-written model tied to the code by differential testing (generator coverage bounds what it sees; "
        "feature histogram in the evidence); user code modelled as functions of (context, event)")

# text after "theorems:" for properties added after the first manifest was written
CLAIMS = {
    "C04": "theorems: send_appends_at_tail, drain_pops_head / async_loop_pops_head, raised_after_current, "
           "send_during_processing_only_enqueues, rtc_structure, external events are never dropped by either bound "
           "(sync: sync_external_never_dropped / external_exactly_once_sync / fifo_exactly_once without a bound "
           "hypothesis, sync_cut_discards_only_raised; async: async_external_never_dropped / external_exactly_once_async "
           "/ fifo_exactly_once_async), the full exactly-once statements incl. raised events under the bound hypothesis "
           "(fifo_exactly_once_clean, fifo_exactly_once_async_clean), async_start_settles_before_loop, "
           "mutual_exclusion_atomic, failed_macrostep_keeps_the_rest_queued (+ witness failed_macrostep_example: a macrostep "
           "whose error escapes the sync call leaves everything else queued, raised events of completed macrosteps included). Findings F10 F30 F42 are fixed in the library; the unlocked re-entrancy flag "
           "(mutual_exclusion_fails / flag_protocol_can_strand_an_event) is exhibited in the statement-granularity "
           "model only; the monitor follows raised events across calls that ended in an escaping failure. F70 (bound per "
           "busy period, not per causal chain) open",
    "C12": "theorems: restore_snap / restored_hist / restore_snap_equiv / snap_restore_snap / repeated_cycles (round "
           "trip), restore_rejects_nonobject / _unknown_state / _shape_* (corrupt snapshots give library errors), "
           "recorded_lists_sorted (unconditional: remembered lists of every reached state are in (depth, id) order), "
           "reached_runP (legal configuration and legal remembered selections at every cut of every run), "
           "resume_bisimilar / resume_bisimilar_run / resume_bisimilar_of_targets (a machine restored at ANY quiescent "
           "cut of ANY run continues like the original on every later event list; hypotheses left: quiescence and "
           "SnapOK, both evaluated by driver_snap at every explored cut) (30); cut-point and corrupt-snapshot checks "
           "on the code, exact accept/reject/error-class tie on ~125 corrupt texts per case; restore_rejects_shape_* for all "
           "seven keys incl. actors/system, restore_shape_first, restore_wellshaped_outcome; ACTOR TREES (Model/SnapshotTree, "
           "parametric in the per-interpreter payload): tree_restore_snap, tree_snap_restore, tree_cycle_fixed, "
           "tree_repeated_cycles, tree_registry_after_restore, tree_registered_iff, tree_degraded_cycle, tied through "
           "driver_snap TREE on the actors/system part of every real snapshot; the actor-tree monitor compares restored "
           "trees, registries, addressing and continuations on both engines (51). Findings F40 F43 F60 F63 fixed in the "
           "library; F76 (empty error text dropped on restore) fixed in the library; "
           "F61 (sync watcher of a restored child) and F62 (systemIds of parked records) open; snapshots taken in the ERROR "
           "status (failing invoked service, eight shapes of exception, four restore / re-snapshot cycles) are a monitor-only "
           "check, the snapshot model has no services",
    "C14": "theorems over the lifecycle model (start/stop/send/send_events/restore call sequences, both engines): "
           "status_edges(_run) (only the documented status edges), stop_idempotent, stop_from_any_status, "
           "start_after_stop_raises, start_idempotent_running, start_noop_when_finished, start_resumes_restored, "
           "send_noop_unless_running, async_presend_processed_at_start, nothing_processed_after_stop(_restores) "
           "(33, incl. stop_leaves_no_finished_status_below / stop_forgets_finished_below / finished_blocking_child_is_stopped_with_its_subtree over the actor-system model); every generated call sequence is run on both real engines and on the model driver; descendants: "
           "actor worlds (spawnChild / spawn_ / invoke trees, children that finish by themselves while they own live "
           "descendants) ended by stop() of the root, tied to the Lean actor model (parent_stop_stops_subtree, "
           "nothing_delivered_after_stop in Properties/C15), judged from the first stop() on; stop() inside a macrostep and "
           "stop() while a service teardown raises are directed checks. Findings F72-F74 fixed in the library; F52-C14 "
           "(sync: a child stopChild-ed before its watcher thread started it survives the parent's stop()) open with F52",
    "C08": "theorems over the timer model: an `after` timer is armed on entry and cancelled on exit, a cancelled "
           "timer never fires, timers fire in (deadline, arming order) order, re-entry re-arms; virtual-clock "
           "correspondence on the async engine and thread-shim correspondence on the sync engine",
    "C09": "theorems over the service model: an invoked service is started on entry and cancelled on exit, "
           "done/error events of a cancelled invocation are discarded, each invocation delivers at most one "
           "completion event; virtual-clock correspondence on the async engine",
    "C15": "see DESIGN.md",
    "C17": "see DESIGN.md",
    "C19": "see DESIGN.md",
}


# entries generated from CLAIMS that are rewritten on every run (the others are kept as they are)
REGENERATE = {"C04", "C12", "C14"}


def main():
    from xsmverif import props
    path = os.path.join(ROOT, "MANIFEST.json")
    man = json.load(open(path))
    have = {c["property_id"]: c for c in man["checks"]}
    all_ids = [json.loads(l)["id"] for l in open(os.path.join(ROOT, "properties.jsonl")) if l.strip()]
    old_na = {e["property_id"]: e["reason"] for e in man.get("not_applicable", [])}
    checks = []
    for pid in all_ids:
        ov = os.path.join(ROOT, "harness", "manifest_claims", pid + ".json")
        override = {}
        if os.path.exists(ov) and pid in props.PROPS:
            # a complete entry written next to the check it describes
            checks.append(json.load(open(ov)))
        elif pid in have and pid not in REGENERATE:
            checks.append(have[pid])
        elif pid in props.PROPS:
            checks.append({
                "property_id": pid,
                "quick_cmd": "./check %s quick" % pid,
                "thorough_cmd": "./check %s thorough" % pid,
                "evidence_file": "evidence/%s.json" % pid,
                "replay_cmd_template": "./check %s --replay {path}" % pid,
                "engine": "lean-proof+correspondence",
                "level_claimed": {
                    "category": "proof",
                    "text": COMMON + override.get("text", CLAIMS.get(pid, "")),
                    "design_ref": "DESIGN.md §6 " + pid,
                },
                "level_note": override.get("note", NOTE),
                "technique": "Lean 4 proof over executable model + model/implementation correspondence check",
            })
    man["checks"] = checks
    claimed = [c["property_id"] for c in checks]
    for e in man.get("engines", []):
        e["serves_properties"] = claimed
    man["not_applicable"] = [
        {"property_id": pid,
         "reason": old_na.get(pid, "check under construction in this round (not yet registered)")}
        for pid in all_ids if pid not in claimed]
    json.dump(man, open(path, "w"), indent=1)
    open(path, "a").write("\n")
    try:
        import jsonschema
        jsonschema.validate(man, json.load(open("/root/.vp/MANIFEST.schema.json")))
        print("schema ok")
    except ImportError:
        print("jsonschema not available here; validate with python3-vt")
    print("claimed:", claimed)
    print("not_applicable:", [e["property_id"] for e in man["not_applicable"]])


if __name__ == "__main__":
    main()
