#!/bin/sh
# eval_seeded.sh <seeded-dir> <check ids...> : apply the patch to /repo, run the demo and the quick checks, undo.
D="$1"; shift
cd /repo || exit 2
if [ -n "$(git status --short)" ]; then echo "/repo not clean"; exit 2; fi
git apply "$D/patch.diff" || { echo "patch does not apply"; exit 2; }
PYTHONPATH=/repo/src /venv/bin/python "$D/demo.py" >/dev/null 2>&1; echo "demo exit with change: $?"
cd /verif
for c in "$@"; do
  ./check "$c" quick 2>/dev/null | grep "VIOLATION" | head -2
  ./check "$c" quick >/dev/null 2>/tmp/eval_seeded_err.txt; echo "  check $c exit=$?  $(grep "^\[$c\]" /tmp/eval_seeded_err.txt)"
done
git -C /repo checkout -- .
PYTHONPATH=/repo/src /venv/bin/python "$D/demo.py" >/dev/null 2>&1; echo "demo exit without change: $?"
