#!/bin/sh
# eval_seeded.sh <seeded-dir> <check ids...> : apply the patch to a scratch copy of /repo's tree, run the demo and
# the quick checks against that copy (XSM_REPO_SRC), remove the copy.  (`--inplace` as first argument applies it
# to /repo itself with `git apply` and undoes it with `git checkout -- .` afterwards, as the brief describes.)
INPLACE=0
if [ "$1" = "--inplace" ]; then INPLACE=1; shift; fi
D="$1"; shift
if [ $INPLACE = 1 ]; then
  cd /repo || exit 2
  if [ -n "$(git status --short)" ]; then echo "/repo not clean"; exit 2; fi
  git apply "$D/patch.diff" || { echo "patch does not apply"; exit 2; }
  SRC=/repo/src
else
  W=$(mktemp -d /tmp/seedeval.XXXXXX)
  git -C /repo archive HEAD | tar -x -C "$W"
  (cd "$W" && patch -p1 -s < "$D/patch.diff") || { echo "patch does not apply"; rm -rf "$W"; exit 2; }
  SRC="$W/src"
fi
PYTHONPATH="$SRC" /venv/bin/python "$D/demo.py" >/dev/null 2>&1; echo "demo exit with change: $?"
cd /verif
for c in "$@"; do
  XSM_REPO_SRC="$SRC" ./check "$c" quick >/tmp/eval_seeded_out.txt 2>/tmp/eval_seeded_err.txt; rc=$?
  grep "VIOLATION" /tmp/eval_seeded_out.txt | head -2
  echo "  check $c exit=$rc  $(grep "^\[$c\]" /tmp/eval_seeded_err.txt)"
done
if [ $INPLACE = 1 ]; then git -C /repo checkout -- .; else rm -rf "$W"; fi
PYTHONPATH=/repo/src /venv/bin/python "$D/demo.py" >/dev/null 2>&1; echo "demo exit without change: $?"
