"""C19 — Python-defined machines and discovered logic equal their JSON counterparts.

q_checks (each `f(tier, seed) -> dict`, AGENT_GUIDE shape) and the property's runner (`run`), which does what
check.py does for a property whose exploration is entirely function-level: P (build + axiom audit), replays of the
findings, the q_checks (T = `ties`, O = `fails`), classification of monitor failures against the OPEN findings of
known_findings.json (a failure no classifier explains is a VIOLATION), evidence, verdict.
"""
from __future__ import annotations
import collections, itertools, json, keyword, logging, os, random, subprocess, sys, time, types

logging.disable(logging.CRITICAL)
from . import core, c19gen as G  # noqa: E402

DRIVER_PY = os.path.join(core.LEAN_DIR, ".lake", "build", "bin", "driver_py")


def ask(lines, timeout=600):
    r = subprocess.run([DRIVER_PY], input="\n".join(lines) + "\n", capture_output=True, text=True, timeout=timeout)
    if r.returncode != 0:
        raise RuntimeError(f"driver_py exit {r.returncode}: {r.stderr[:400]}")
    out = r.stdout.split("\n")
    if out and out[-1] == "":
        out.pop()
    if len(out) != len(lines):
        raise RuntimeError(f"driver_py answered {len(out)} lines for {len(lines)} commands")
    return [json.loads(x) for x in out]


def pool_map(fn, args, per_item=30):
    budget = 120 + per_item * (len(args) / 4 + 1)
    return core.pool().map_async(fn, args, chunksize=2).get(budget)


# ============================================================================================ 1. snake -> camel
def c19_snake(tier, seed):
    from xstate_statemachine import logic_loader, pythonic
    rng = random.Random(f"snake:{seed}")
    words = []
    maxlen = 6 if tier == "quick" else 7
    for n in range(0, maxlen + 1):
        words.extend("".join(t) for t in itertools.product("aB_1", repeat=n))
    for n in range(0, 5):
        words.extend("".join(t) for t in itertools.product("_zA9'.", repeat=n))
    alpha = "abcxyzABCXYZ__019$'.-"
    for _ in range(4000 if tier == "quick" else 40000):
        words.append("".join(rng.choice(alpha) for _ in range(rng.randint(1, 16))))
    words.extend(G.ACTION_FNS + G.GUARD_FNS + G.SERVICE_FNS + ["my_action_name", "_foo", "__x__", "is_HTTP_ok", "get_userID", "fetch_user2data"])
    words = list(dict.fromkeys(w for w in words if " " not in w and "\n" not in w))
    outs = ask(["Q snake2camel " + w if w else "Q snake2camel" for w in words])
    ties, fails, samples = [], [], []
    nontrivial = 0
    for w, o in zip(words, outs):
        a = logic_loader._snake_to_camel(w)
        b = pythonic._snake_to_camel(w)
        m = o.get("r")
        if a != w:
            nontrivial += 1
        if a != m or b != m:
            ties.append({"query": "snake2camel", "word": w, "logic_loader": a, "pythonic": b, "model": m})
        # the facts proved of the model (C19.snakeToCamel_*), monitored on the real function
        bad = None
        if "_" in a:
            bad = "underscore in result"
        elif logic_loader._snake_to_camel(a) != a:
            bad = "not idempotent"
        elif len(a) != len(w) - w.count("_"):
            bad = "length law"
        elif "_" not in w and a != w:
            bad = "changes an underscore-free name"
        elif a != G.ref_camel(w):
            bad = f"differs from the reference ({G.ref_camel(w)!r})"
        elif a != b:
            bad = "the two copies of _snake_to_camel differ"
        if bad:
            fails.append({"kind": "snake-to-camel", "detail": f"{w!r} -> {a!r}: {bad}", "case": {"word": w}})
        if len(samples) < 3 and "_" in w and any(c.isdigit() for c in w) and len(w) > 5:
            samples.append({"word": w, "camel": a})
    return {"evaluations": len(words), "nontrivial": nontrivial, "ties": ties, "fails": fails, "samples": samples, "exhaustive": True,
            "what": f"_snake_to_camel (both copies) vs the Lean model on all words of length <= {maxlen} over 'aB_1', all of length <= 4 over \"_zA9'.\" and random words"}


# ============================================================================================ 2. logic_map lookup
FN_POOL = ["do_it", "doIt", "do__it", "do_It", "_do_it", "check_ok", "checkOk", "step2_done", "step2Done", "step_2done", "run", "Run",
           "_private", "fetch_data", "fetchData", "x_y_z", "xYZ", "x_yZ", "assign", "log", "on_2nd", "trail_", "trail"]


def _mk_module(name, fns, tag):
    m = types.ModuleType(name)
    for fn in fns:
        src = f"def {fn}(*a, **k):\n    return {tag + ':' + fn!r}\n"
        exec(src, m.__dict__)
    return m


def _mk_provider(fns, tag):
    ns = {}
    for fn in fns:
        exec(f"def {fn}(self, *a, **k):\n    return {tag + ':' + fn!r}\n", ns)
    cls = type("Provider_" + tag, (), {k: v for k, v in ns.items() if callable(v)})
    return cls()


def scan_order(mod_fns, prov_fns):
    """(label, name) of every callable in the order discover_and_build_logic writes them into logic_map"""
    out = []
    for i, fns in enumerate(mod_fns):
        out.extend((f"m{i}:{f}", f) for f in sorted(set(fns)))      # inspect.getmembers sorts by name
    for i, fns in enumerate(prov_fns):
        out.extend((f"p{i}:{f}", f) for f in sorted(set(fns)))
    return out


def ref_lookup(scan, n):
    """reference semantics of the loader's lookup: last public callable named n or whose camelCase form is n"""
    hit = None
    for label, f in scan:
        if f.startswith("_"):
            continue
        if f == n or G.ref_camel(f) == n:
            hit = label
    return hit


def c19_lookup(tier, seed):
    from xstate_statemachine.logic_loader import LogicLoader
    from xstate_statemachine.exceptions import ImplementationMissingError
    rng = random.Random(f"lookup:{seed}")
    n_cases = 400 if tier == "quick" else 4000
    cases, lines = [], []
    for _ in range(n_cases):
        mod_fns = [rng.sample(FN_POOL, rng.randint(0, 5)) for _ in range(rng.randint(0, 2))]
        prov_fns = [rng.sample(FN_POOL, rng.randint(0, 4)) for _ in range(rng.randint(0, 2))]
        refs = rng.sample(FN_POOL + ["doIt", "checkOk", "xYZ", "missingOne", "step2Done", "on2Nd", "on2nd"], 3)
        scan = scan_order(mod_fns, prov_fns)
        for ref in refs:
            cases.append((mod_fns, prov_fns, scan, ref))
            lines.append("Q lookup " + json.dumps({"scan": [f for _, f in scan], "ref": ref}))
    outs = ask(lines)
    ties, fails, samples = [], [], []
    nontrivial = 0
    for (mod_fns, prov_fns, scan, ref), o in zip(cases, outs):
        mods = [_mk_module(f"c19mod{i}", fns, f"m{i}") for i, fns in enumerate(mod_fns)]
        provs = [_mk_provider(fns, f"p{i}") for i, fns in enumerate(prov_fns)]
        cfg = {"id": "m", "initial": "a", "states": {"a": {"entry": [ref] if ref not in ("assign", "log") else [], "on": {"E": {"guard": ref}}}}}
        try:
            lg = LogicLoader().discover_and_build_logic(cfg, logic_modules=mods, logic_providers=provs)
            impl = lg.guards[ref]()
        except ImplementationMissingError:
            impl = None
        want = ref_lookup(scan, ref)
        model = o.get("r")
        if impl is not None:
            nontrivial += 1
        if (impl.split(":", 1)[1] if impl else None) != model:
            ties.append({"query": "lookup", "scan": [f for _, f in scan], "ref": ref, "impl": impl, "model": model})
        if impl != want:
            fails.append({"kind": "lookup", "detail": f"ref {ref!r} over {scan}: bound {impl!r}, expected {want!r}",
                          "case": {"scan": scan, "ref": ref}})
        if len(samples) < 2 and impl and impl.split(":", 1)[1] != ref:
            samples.append({"scan": [l for l, _ in scan], "ref": ref, "bound": impl})
    return {"evaluations": len(cases), "nontrivial": nontrivial, "ties": ties, "fails": fails, "samples": samples, "exhaustive": False,
            "what": "which callable LogicLoader binds to a referenced name (modules + providers, either casing, private names, later source wins) vs the Lean `lookupImpl` and a reference"}


# ============================================================================================ 3. demanded names
BUILTINS_USED = ["assign", "raise", "log", "sendTo", "send_parent", "xstate.cancel", "stop", "enqueue_actions", "pure", "choose"]


def sprinkle(cfg, rng, feats):
    """add built-ins, spawn directives, composite / stateIn guards and invocations to a machine config (in place)"""
    def spice_actions(lst):
        r = rng.random()
        if r < 0.3:
            lst.append(rng.choice(BUILTINS_USED)); feats["builtin"] += 1
        elif r < 0.45:
            lst.append({"type": rng.choice(["assign", "xstate.raise"]), "params": {"assignment": {"q": 1}, "event": "Z"}}); feats["builtin"] += 1
        elif r < 0.65:
            lst.append(rng.choice(["spawn_worker", "spawn_blocking_worker2", "spawn_child", "spawn_blocking_"])); feats["spawn"] += 1
        return lst

    def spice_guard():
        r = rng.random()
        feats["composite"] += 1
        if r < 0.3:
            return {"type": "and", "children": ["gA", {"type": "or", "params": {"guards": ["gB", {"type": "stateIn", "params": {"state": "#m"}}]}}]}
        if r < 0.5:
            return {"type": "not", "params": {"guard": "gC"}}
        if r < 0.65:
            return "and"             # a bare string is a user predicate, even when called `and`
        if r < 0.8:
            return {"type": "stateIn", "params": {"state": "x"}}
        return {"type": "gD", "params": {"limit": 3}, "children": ["neverParsedAsUser"]}

    def visit(st):
        if rng.random() < 0.4:
            st["entry"] = spice_actions(list(st.get("entry", [])) if isinstance(st.get("entry", []), list) else [st["entry"]])
        if rng.random() < 0.2:
            st["exit"] = spice_actions(list(st.get("exit", [])) if isinstance(st.get("exit", []), list) else [st["exit"]])
        if rng.random() < 0.4:
            st.setdefault("on", {})["Q" + str(rng.randint(0, 3))] = {"guard": spice_guard(), "actions": spice_actions([])}
        if rng.random() < 0.15 and st.get("type") not in ("final", "history"):
            st["after"] = {"5000": {"guard": spice_guard(), "actions": spice_actions(["afterAct"])}}
        if rng.random() < 0.2 and st.get("type") not in ("final", "history"):
            inv = {"src": rng.choice(["svcA", "svcB", ""]), "onDone": {"actions": spice_actions(["doneAct"]), "guard": spice_guard()},
                   "onError": [{"actions": spice_actions([])}]}
            if not inv["src"]:
                del inv["src"]
            st["invoke"] = inv if rng.random() < 0.7 else [inv, {"src": "svcC"}]
            feats["invoke"] += 1
        for c in st.get("states", {}).values():
            visit(c)
    visit(cfg)
    return cfg


def ref_required(cfg):
    """what SHOULD be demanded, read off the raw config (independent of models.py): every referenced action that is
    neither built-in nor a spawn directive, the user leaves of every guard, every invoked / spawned service"""
    from xstate_statemachine.actions import BUILTIN_ACTION_ALIASES
    acts, guards, svcs = set(), set(), set()

    def as_list(x):
        return [] if x is None else (x if isinstance(x, list) else [x])

    def action(a):
        ty = a if isinstance(a, str) else a.get("type", "UnknownAction")
        if ty.startswith("spawn_"):
            svcs.add(ty[len("spawn_blocking_"):] if ty.startswith("spawn_blocking_") else ty[len("spawn_"):])
        elif ty not in BUILTIN_ACTION_ALIASES:
            acts.add(ty)

    def guard(g):
        if g is None:
            return
        if isinstance(g, str):
            if g != "stateIn":
                guards.add(g)
            return
        ty = g["type"]
        p = g.get("params") if isinstance(g.get("params"), dict) else {}
        kids = g.get("children") or p.get("guards") or p.get("children") or []
        if ty in ("and", "or", "not"):
            if not kids and p.get("guard") is not None:
                kids = [p["guard"]]
            for k in kids:
                guard(k)
        elif ty == "stateIn":
            for k in kids:
                guard(k)
        else:
            guards.add(ty)

    def trans(t):
        for tc in as_list(t):
            if isinstance(tc, dict):
                for a in as_list(tc.get("actions")):
                    action(a)
                guard(tc.get("guard", tc.get("cond")))

    def visit(st):
        for a in as_list(st.get("entry")) + as_list(st.get("exit")):
            action(a)
        for t in (st.get("on") or {}).values():
            trans(t)
        trans(st.get("always"))
        for t in (st.get("after") or {}).values():
            trans(t)
        if st.get("onDone"):
            trans(as_list(st["onDone"])[:1])
        for inv in as_list(st.get("invoke")):
            if inv.get("src"):
                svcs.add(inv["src"])
            trans(inv.get("onDone"))
            trans(inv.get("onError"))
        for c in (st.get("states") or {}).values():
            visit(c)
    visit(cfg)
    return {"a": sorted(acts), "g": sorted(guards), "s": sorted(svcs)}


def gen_logic_machine(seed, i):
    rng = random.Random(f"req:{seed}:{i}")
    D = G.gen_def(seed, 10_000 + i)
    cfg = G.denote_json(D)
    feats = collections.Counter()
    sprinkle(cfg, rng, feats)
    return cfg, feats


def c19_required(tier, seed):
    from xstate_statemachine.logic_loader import LogicLoader
    from xstate_statemachine.models import MachineNode
    from xstate_statemachine import MachineLogic
    n = 250 if tier == "quick" else 2500
    cfgs = [gen_logic_machine(seed, i) for i in range(n)]
    outs = ask(["Q required " + json.dumps(c) for c, _ in cfgs])
    ties, fails, samples = [], [], []
    nontrivial = 0
    feats = collections.Counter()
    for (cfg, ft), o in zip(cfgs, outs):
        feats.update(ft)
        a, g, s = set(), set(), set()
        try:
            LogicLoader._extract_logic_from_node(MachineNode(config=cfg, logic=MachineLogic()), a, g, s)
            impl = {"a": sorted(a), "g": sorted(g), "s": sorted(s)}
        except Exception as x:
            impl = {"err": type(x).__name__}
        model = {k: sorted(set(o[k])) for k in ("a", "g", "s")} if "a" in o else {"err": "InvalidConfigError" if "InvalidConfigError" in o.get("err", "") else o.get("err")}
        if impl != model:
            ties.append({"query": "required", "machine": cfg, "impl": impl, "model": model})
        if "err" in impl:
            continue
        if impl["a"] or impl["g"] or impl["s"]:
            nontrivial += 1
        want = ref_required(cfg)
        for k, what in (("a", "action"), ("g", "guard"), ("s", "service")):
            extra = sorted(set(impl[k]) - set(want[k]))
            missing = sorted(set(want[k]) - set(impl[k]))
            if extra:
                fails.append({"kind": "demands-excluded-name", "what": what, "names": extra,
                              "detail": f"discovery demands {what}(s) {extra} although they are built-ins / spawn directives / composite operators",
                              "case": {"machine": cfg}})
            if missing:
                fails.append({"kind": "referenced-name-not-demanded", "what": what, "names": missing,
                              "detail": f"{what}(s) {missing} are referenced by the config but not demanded", "case": {"machine": cfg}})
        if len(samples) < 2 and impl["s"] and impl["g"] and len(json.dumps(cfg)) < 1500:
            samples.append({"machine": cfg, "demanded": impl})
    return {"evaluations": n, "nontrivial": nontrivial, "ties": ties, "fails": fails, "samples": samples, "exhaustive": False,
            "features": dict(feats),
            "what": "LogicLoader._extract_logic_from_node (names demanded) vs the Lean `required` on the parsed machine, and vs a reference read off the raw config (built-ins, spawn_*, and/or/not, stateIn, invoke onDone/onError)"}


# ============================================================================================ 4. discovery end to end
def _discovery_case(args):
    """one machine x one way of supplying logic; runs inside a pool worker"""
    from . import c19run
    try:
        return c19run.guarded(_discovery_eval, args, 30)
    except BaseException as x:
        return ("hang", repr(x))


def _discovery_eval(args):
    from xstate_statemachine import create_machine, SyncInterpreter, MachineLogic
    from xstate_statemachine.exceptions import ImplementationMissingError
    cfg, channel, supply, shadow = args
    want = ref_required(cfg)
    ran = []
    # callables: `supply` maps referenced name -> python callable name (or None = leave unbound)
    def body(kind, pyname, self_=False):
        sig = {"a": "interpreter, context, event, action_def", "g": "context, event", "s": "interpreter, context, event"}[kind]
        if self_:
            sig = "self, " + sig
        ret = {"a": "", "g": "    return True\n", "s": "    return 1\n"}[kind]
        return f"def {pyname}({sig}):\n    RAN.append({pyname!r})\n{ret}"
    fns = []
    for kind in ("a", "g", "s"):
        for n in want[kind]:
            py = supply.get(kind + ":" + n)
            if py:
                fns.append((kind, py))
    for b in shadow:                       # user implementations named like a built-in
        fns.append(("a", b))
    fns = list(dict.fromkeys(fns))
    ns = {"RAN": ran}
    kw = {}
    if channel == "modules":
        m = types.ModuleType("c19_logic")
        m.RAN = ran
        for kind, py in fns:
            exec(body(kind, py), m.__dict__)
        kw["logic_modules"] = [m]
    elif channel == "providers":
        src = "class P:\n" + "".join("    " + l + "\n" for kind, py in fns for l in body(kind, py, True).splitlines()) + "    pass\n"
        exec(src, ns)
        kw["logic_providers"] = [ns["P"]()]
    else:
        src = "class L(MachineLogic):\n" + "".join("    " + l + "\n" for kind, py in fns for l in body(kind, py, True).splitlines()) + "    pass\n"
        ns["MachineLogic"] = MachineLogic
        exec(src, ns)
        kw["logic"] = ns["L"]()
    # expectation (reference semantics): a referenced name is bound by a public callable of that name or whose camelCase form it is
    pynames = [py for _, py in fns if not py.startswith("_")]
    def bound(n):
        return any(py == n or G.ref_camel(py) == n for py in pynames)
    unbound = sorted([("action", n) for n in want["a"] if not bound(n)] + [("guard", n) for n in want["g"] if not bound(n)]
                     + [("service", n) for n in want["s"] if not bound(n)])
    res = {"unbound": unbound, "channel": channel}
    try:
        machine = create_machine(cfg, **kw)
        res["created"] = True
    except ImplementationMissingError as x:
        res["created"] = False
        res["error"] = str(x)[:160]
        return res
    lg = machine.logic
    res["missing_after_create"] = sorted([("action", n) for n in want["a"] if n not in lg.actions] + [("guard", n) for n in want["g"] if n not in lg.guards]
                                         + [("service", n) for n in want["s"] if n not in lg.services])
    res["bound_builtin_names"] = sorted(b for b in shadow if b in lg.actions)
    # which implementation runs for a shadowed built-in: start the machine (entry actions of the initial states run)
    if shadow:
        try:
            it = SyncInterpreter(machine)
            it.start()
            res["ran"] = list(ran)
            res["ctx_flag"] = it.context.get("c19flag") if isinstance(it.context, dict) else None
            it.stop()
        except Exception as x:
            res["run_error"] = type(x).__name__
    return res


def c19_discovery(tier, seed):
    rng = random.Random(f"disc:{seed}")
    n = 120 if tier == "quick" else 1000
    args, metas = [], []
    for i in range(n):
        cfg, _ = gen_logic_machine(seed, 50_000 + i)
        if rng.random() < 0.7:
            # mostly names a python callable can carry (the rest exercise the raise path)
            txt = json.dumps(cfg)
            for a, b in (("custom.name-1", "customName1"), ("Weird Name", "weirdName"), ('"and"', '"andAlso"')):
                txt = txt.replace(a, b)
            cfg = json.loads(txt)
        want = ref_required(cfg)
        channel = ["modules", "providers", "subclass"][i % 3]
        supply = {}
        drop = rng.random() < 0.35
        for kind in ("a", "g", "s"):
            for nm in want[kind]:
                ident = nm.isidentifier() and not keyword.iskeyword(nm)
                r = rng.random()
                if not ident:
                    supply[kind + ":" + nm] = None            # cannot be a python name: stays unbound
                elif drop and r < 0.15:
                    supply[kind + ":" + nm] = None
                elif r < 0.5:
                    supply[kind + ":" + nm] = nm              # same spelling
                else:
                    # a snake_case spelling whose camelCase form is the referenced name (when one exists)
                    snake = "".join(("_" + c.lower()) if c.isupper() else c for c in nm)
                    supply[kind + ":" + nm] = snake if (G.ref_camel(snake) == nm and not snake.startswith("_")) else nm
        shadow = []
        if rng.random() < 0.5:
            # the initial state runs built-in `assign` (sets c19flag) and `log`; the user supplies actions of those names
            first = cfg.get("initial") or next(iter(cfg["states"]))
            st = cfg["states"][first]
            ent = st.get("entry", [])
            ent = list(ent) if isinstance(ent, list) else [ent]
            st["entry"] = [{"type": "assign", "params": {"assignment": {"c19flag": 1}}}, "log"] + ent
            shadow = ["assign", "log"]
        args.append((cfg, channel, supply, shadow))
    # directed: a two-state machine whose initial state runs `assign`, `log` and one user action
    for j, channel in enumerate(["modules", "providers", "subclass"] * 4):
        cfg = {"id": "m", "initial": "a", "context": {}, "states": {
            "a": {"entry": [{"type": "assign", "params": {"assignment": {"c19flag": 1}}}, "log", "userAct"], "on": {"GO": {"target": "b", "guard": "canGo"}}},
            "b": {}}}
        supply = {"a:userAct": ["userAct", "user_act"][j % 2], "g:canGo": ["can_go", "canGo"][(j // 2) % 2]}
        args.append((cfg, channel, supply, ["assign", "log"] if j % 4 != 3 else ["log"]))
    n = len(args)
    res = pool_map(_discovery_case, args, 20)
    # model side: `Q discover` with the callables the harness supplied
    lines = []
    for (cfg, channel, supply, shadow) in args:
        names = sorted(set([v for v in supply.values() if v] + shadow))
        lines.append("Q discover " + json.dumps({"scan": names, "machine": cfg}))
    mouts = ask(lines)
    ties, fails, samples = [], [], []
    nontrivial = 0
    stats = collections.Counter()
    for (cfg, channel, supply, shadow), (st, r), mo in zip(args, res, mouts):
        case = {"machine": cfg, "channel": channel, "supply": supply, "shadow": shadow}
        if st != "ok":
            fails.append({"kind": "hang" if st == "hang" else "harness-crash", "detail": str(r)[:300], "case": case})
            continue
        stats[channel] += 1
        stats["created" if r["created"] else "raised"] += 1
        if r["created"] and not r["unbound"]:
            nontrivial += 1
        # T: the model of discovery (modules / providers only: a MachineLogic subclass is not discovery through the loader)
        if channel != "subclass":
            mcreated = "ok" in mo
            if mcreated != r["created"]:
                ties.append({"query": "discover", "case": case, "impl_created": r["created"], "model": mo})
            elif mcreated and r.get("bound_builtin_names") != sorted(b for b in shadow if b in mo["ok"]["a"]):
                ties.append({"query": "discover-builtin-binding", "case": case, "impl": r.get("bound_builtin_names"), "model": mo})
        # O1: created  <->  nothing unbound ; otherwise ImplementationMissingError at creation
        if r["created"] and r["unbound"]:
            fails.append({"kind": "unbound-name-accepted", "channel": channel, "names": r["unbound"],
                          "detail": f"[{channel}] machine created although {r['unbound']} have no implementation (no ImplementationMissingError at creation)",
                          "case": case})
        if not r["created"] and not r["unbound"]:
            fails.append({"kind": "bound-name-rejected", "channel": channel,
                          "detail": f"[{channel}] ImplementationMissingError although every referenced name has an implementation: {r.get('error')}",
                          "case": case})
        if r["created"] and not r["unbound"] and r["missing_after_create"]:
            fails.append({"kind": "supplied-name-not-bound", "channel": channel, "names": r["missing_after_create"],
                          "detail": f"[{channel}] created, but {r['missing_after_create']} are not in machine.logic although an implementation was supplied",
                          "case": case})
        # O2: a user implementation named like a built-in wins
        if r["created"] and shadow and "ran" in r:
            stats["shadow_runs"] += 1
            user_ran = [b for b in shadow if b in r["ran"]]
            if set(user_ran) != set(shadow) or ("assign" in shadow and r.get("ctx_flag") is not None):
                fails.append({"kind": "builtin-shadows-user-action", "channel": channel, "user_ran": user_ran,
                              "detail": f"[{channel}] user supplied actions {shadow}; ran={r['ran'][:6]} built-in assign applied={r.get('ctx_flag') is not None}",
                              "case": case})
        if len(samples) < 2 and r["created"] and len(json.dumps(cfg)) < 1200:
            samples.append({"channel": channel, "supply": supply, "created": True})
    return {"evaluations": n, "nontrivial": nontrivial, "ties": ties, "fails": fails, "samples": samples, "exhaustive": False,
            "features": dict(stats),
            "what": "create_machine with logic_modules / logic_providers / a MachineLogic subclass generated on the fly: bound-or-ImplementationMissingError exactly when a name is unbound (either casing), built-ins/spawn/composites never demanded, user `assign`/`log` wins"}


# ============================================================================================ 5. subclass arity table
def c19_arity(tier, seed):
    from xstate_statemachine import MachineLogic
    rng = random.Random(f"arity:{seed}")
    n = 150 if tier == "quick" else 1500
    ties, fails, samples = [], [], []
    lines, cases = [], []
    for i in range(n):
        methods = [(rng.choice(["alpha", "beta", "gamma", "_hidden", "delta_x", "isOk", "run_it"]) + str(rng.randint(0, 2)), rng.randint(0, 6)) for _ in range(rng.randint(1, 6))]
        methods = list({m[0]: m for m in methods}.values())
        explicit = {"a": rng.sample([m[0] for m in methods], rng.randint(0, 1)), "g": rng.sample([m[0] for m in methods], rng.randint(0, 1)), "s": []}
        cases.append((methods, explicit))
        lines.append("Q subclass " + json.dumps({"explicit": explicit, "methods": [[a, b] for a, b in sorted(methods)]}))
    outs = ask(lines + [f"Q arity {k}" for k in range(0, 8)])
    table = {k: o["r"] for k, o in zip(range(0, 8), outs[len(lines):])}
    nontrivial = 0
    for (methods, explicit), o in zip(cases, outs):
        src = "class L(MachineLogic):\n" + "".join(f"    def {nm}(self{''.join(', p%d' % j for j in range(ar))}):\n        return None\n" for nm, ar in methods)
        ns = {"MachineLogic": MachineLogic}
        exec(src, ns)
        mark = lambda *a: None
        lg = ns["L"](actions={k: mark for k in explicit["a"]}, guards={k: mark for k in explicit["g"]})
        impl = {"a": sorted(lg.actions), "g": sorted(lg.guards), "s": sorted(lg.services)}
        model = {k: sorted(o[k]) for k in ("a", "g", "s")}
        if impl != model:
            ties.append({"query": "subclass", "methods": methods, "explicit": explicit, "impl": impl, "model": model})
        # O: the documented table (2 -> guard, 3 -> service, 4 -> action), private skipped, explicit entries kept
        for nm, ar in methods:
            reg = {2: "g", 3: "s", 4: "a"}.get(ar)
            for k in ("a", "g", "s"):
                should = (k == reg and not nm.startswith("_")) or nm in explicit[k]
                if (nm in impl[k]) != should:
                    fails.append({"kind": "arity-table", "detail": f"method {nm}/{ar}: in {k}={nm in impl[k]} expected {should}", "case": {"methods": methods, "explicit": explicit}})
            if lg.actions.get(nm) is mark and nm not in explicit["a"]:
                fails.append({"kind": "arity-table", "detail": "explicit entry clobbered", "case": {"methods": methods}})
        if any(ar in (2, 3, 4) for _, ar in methods):
            nontrivial += 1
    if table != {0: None, 1: None, 2: "guard", 3: "service", 4: "action", 5: None, 6: None, 7: None}:
        ties.append({"query": "arity", "model": table})
    return {"evaluations": n + 8, "nontrivial": nontrivial, "ties": ties, "fails": fails, "samples": [{"methods": cases[0][0], "explicit": cases[0][1]}], "exhaustive": False,
            "what": "MachineLogic subclass registration by arity vs the Lean `registerSubclass` / `arityRegistry` and the documented table"}


# ============================================================================================ 6. compile tie
def _compile_case(args):
    from . import c19run
    try:
        return c19run.guarded(_compile_eval, args, 30)
    except BaseException as x:
        return ("hang", repr(x))


def _compile_eval(args):
    """the config dict each Python style hands to create_machine (captured), as ordered JSON text"""
    from . import c19run
    from xstate_statemachine import pythonic
    D, seed = args
    out = {}
    real = pythonic._original_create_machine
    for st in ("class", "functional", "builder"):
        got = []

        def spy(config, logic=None, **kw):
            got.append(json.dumps(config))
            return real(config, logic=logic, **kw)
        pythonic._original_create_machine = spy
        try:
            build, _l, _s = c19run.make_build(st, D, seed)
            build()
            out[st] = got[-1] if got else None
        except Exception as x:
            out[st] = "ERR:" + type(x).__name__
        finally:
            pythonic._original_create_machine = real
    return out


def model_builder_ops(D):
    ops = []
    for op in G.builder_ops(D):
        op = dict(op)
        if op["op"] == "transition":
            op = {k: v for k, v in op.items() if v is not None or k == "target"}
        ops.append(op)
    return {"id": D["id"], "ops": ops}


def c19_compile(tier, seed):
    n = 150 if tier == "quick" else 1200
    defs = []
    for i in range(n):
        mode = i % 5
        defs.append(G.gen_def(seed, 20_000 + i, collide=(mode == 1), overlap=(mode == 2)))
    res = pool_map(_compile_case, [(D, i) for i, D in enumerate(defs)], 20)
    outs = ask(["Q compile " + json.dumps(G.pydef_for_model(D)) for D in defs])
    bouts = ask(["Q build " + json.dumps(model_builder_ops(D)) for D in defs])
    ties, samples = [], []
    nontrivial = 0
    stats = collections.Counter()

    def norm(txt):
        return json.dumps(json.loads(txt)) if txt and not txt.startswith("ERR:") else txt
    for D, (st, r), o, bo in zip(defs, res, outs, bouts):
        if st != "ok":
            ties.append({"query": "compile", "def": D, "impl": str(r)[:300], "model": None})
            continue
        mimpl = "ERR:InvalidConfigError" if "__err__" in o["impl"] else json.dumps(o["impl"])
        mden = "ERR:InvalidConfigError" if "__err__" in o["denote"] else json.dumps(o["denote"])
        for style in ("class", "functional"):
            if norm(r[style]) != mimpl:
                ties.append({"query": "compile/" + style, "def": D, "impl": r[style], "model": mimpl})
        mb = ("ERR:InvalidConfigError" if "err" in bo else json.dumps(bo["r"]))
        if norm(r["builder"]) != mb:
            ties.append({"query": "build", "def": D, "impl": r["builder"], "model": mb})
        dups = G.dup_names(D)
        stats["dup-names" if dups else "unique-names"] += 1
        # instance of `compile_eq_denote`: with unique names the two compilers of the model agree
        if not dups and mimpl != mden:
            ties.append({"query": "compile_eq_denote-instance", "def": D, "impl": mimpl, "model": mden})
        if dups and mimpl != mden:
            stats["model-exhibits-F17"] += 1
        if D["transitions"]:
            nontrivial += 1
        if len(samples) < 1 and len(mimpl) < 900:
            samples.append({"def": G.pydef_for_model(D), "compiled": json.loads(mimpl) if not mimpl.startswith("ERR") else mimpl})
    return {"evaluations": 3 * n, "nontrivial": nontrivial, "ties": ties, "fails": [], "samples": samples, "exhaustive": False, "features": dict(stats),
            "what": "the config dict each Python style passes to create_machine (captured from the real code, key order included) vs the Lean `compileImpl` (class-based, functional) and `buildImpl` (builder)"}


# ============================================================================================ 7. the four machines
def _styles_case(args):
    from . import c19run
    D, seed, stream = args[:3]
    r = c19run.worker((D, seed, True), *(args[3:4]))
    probs = r["problems"]
    sd = [p for p in probs if p["kind"] in ("structure-differs", "trace-differs", "build-fails")]
    if sd:
        # does the disagreement go away when the one suspected ingredient is removed?
        dups = G.dup_names(D)
        if dups:
            r2 = c19run.worker((G.decollide(D), seed, False))
            ok = not [p for p in r2["problems"] if p["kind"] in ("structure-differs", "trace-differs", "build-fails")]
            for p in sd:
                p["dup_names"] = dups
                p["passes_when_renamed"] = ok
        elif "on-overlap" in D["features"]:
            D2 = strip_overlap(D)
            r2 = c19run.worker((D2, seed, False))
            ok = not [p for p in r2["problems"] if p["kind"] in ("structure-differs", "trace-differs", "build-fails")]
            for p in sd:
                p["on_overlap"] = overlaps(D)
                p["passes_without_overlap"] = ok
    return r


def overlaps(D):
    out = []
    nodes = {p: n for p, n in G.paths_of(D)}
    for t in D["transitions"]:
        n = nodes[tuple(t["src"])]
        if n["on"] and t["event"] in n["on"]:
            out.append([".".join(t["src"]), t["event"]])
    return out


def strip_overlap(D):
    import copy
    D2 = copy.deepcopy(D)
    nodes = {p: n for p, n in G.paths_of(D2)}
    for t in D2["transitions"]:
        n = nodes[tuple(t["src"])]
        if n["on"] and t["event"] in n["on"]:
            del n["on"][t["event"]]
            if not n["on"]:
                n["on"] = None
    return D2


def c19_styles(tier, seed):
    scale = 1 if tier == "quick" else 8
    plan = [("unique", 110 * scale), ("collide", 45 * scale), ("overlap", 25 * scale)]
    args = []
    for stream, k in plan:
        for i in range(k):
            args.append((G.gen_def(seed, i, collide=(stream == "collide"), overlap=(stream == "overlap")), i, stream))
    res = pool_map(_styles_case, args, 70)
    # a watchdog expiry under load is re-examined alone with a generous limit before it counts as a hang
    slow = 0
    for i, r in enumerate(res):
        if any(p["kind"] == "hang" for p in r["problems"]):
            slow += 1
            res[i] = _styles_case(args[i] + (180,))
    fails, samples = [], []
    nontrivial = 0
    feats = collections.Counter()
    clean = 0
    equal = collections.Counter()
    for (D, i, stream), r in zip(args, res):
        feats.update(set(D["features"]))
        feats["stream:" + stream] += 1
        if r["info"].get("nontrivial"):
            nontrivial += 1
        if not r["problems"]:
            clean += 1
        if not [p for p in r["problems"] if p["kind"] != "not-independent"]:
            equal[stream] += 1
        for p in r["problems"]:
            fails.append({**p, "case": {"def": D, "seed": i, "stream": stream}})
        if len(samples) < 2 and not r["problems"] and len(json.dumps(D)) < 2500:
            samples.append({"def": G.pydef_for_model(D), "final": r["info"].get("final")})
    return {"evaluations": 4 * len(args), "nontrivial": nontrivial, "ties": [], "fails": fails, "samples": samples, "exhaustive": False,
            "features": dict(feats), "clean_definitions": clean, "four_machines_equal_by_stream": dict(equal), "slow_cases_retried": slow,
            "what": "one abstract definition rendered as StateMachine subclass / build_machine / MachineBuilder source (exec-ed) and as JSON: deep structural fingerprint, SyncInterpreter traces, independence of repeated builds"}


Q_CHECKS = [c19_snake, c19_lookup, c19_required, c19_arity, c19_compile, c19_discovery, c19_styles]


# ============================================================================================ classifiers (registered in props.CLASSIFIERS)
def cls_same_bare_name(prob, case, flavor):
    """F17: two State objects with the same bare name, and the disagreement disappears when they are renamed apart"""
    return (prob.get("kind") in ("structure-differs", "trace-differs") and prob.get("style") in ("class", "functional")
            and bool(prob.get("dup_names")) and prob.get("passes_when_renamed") is True)


def cls_on_overlap(prob, case, flavor):
    """F19b: `.state(name, on={EV: ..})` + `.transition(name, EV, ..)`: the builder appends where the other two styles
    (and the rule the repository's tests pin) replace; only top-level states can be affected"""
    return (prob.get("kind") in ("structure-differs", "trace-differs") and prob.get("style") == "builder"
            and any("." not in o[0] for o in (prob.get("on_overlap") or [])) and prob.get("passes_without_overlap") is True)


def cls_deep_shared(prob, case, flavor):
    if prob.get("kind") != "not-independent" or prob.get("level") != "deep":
        return False
    if prob.get("style") == "builder":
        return " at /context" in prob.get("detail", "")
    return prob.get("style") in ("class", "functional")


def cls_builtin_shadow(prob, case, flavor):
    return prob.get("kind") == "builtin-shadows-user-action" and prob.get("channel") in ("modules", "providers")


def _invoke_transition_actions(machine):
    inv = set()

    def visit(st):
        ivs = st.get("invoke")
        for iv in ([] if ivs is None else ivs if isinstance(ivs, list) else [ivs]):
            for key in ("onDone", "onError"):
                t = iv.get(key)
                for tc in ([] if t is None else t if isinstance(t, list) else [t]):
                    if isinstance(tc, dict):
                        acts = tc.get("actions")
                        for a in ([] if acts is None else acts if isinstance(acts, list) else [acts]):
                            inv.add(a if isinstance(a, str) else a.get("type"))
        for c in (st.get("states") or {}).values():
            visit(c)
    visit(machine)
    return inv


def _spawn_key(ty):
    return ty[len("spawn_blocking_"):] if ty.startswith("spawn_blocking_") else ty[len("spawn_"):]


def cls_spawn_in_invoke(prob, case, flavor):
    """F19e: a spawn_* directive in an invocation's onDone / onError action list is demanded as an ACTION, and its
    service key is not demanded as a service"""
    if prob.get("kind") not in ("demands-excluded-name", "referenced-name-not-demanded") or "machine" not in (case or {}):
        return False
    inv = {a for a in _invoke_transition_actions(case["machine"]) if isinstance(a, str) and a.startswith("spawn_")}
    names = prob.get("names", [])
    if prob.get("kind") == "demands-excluded-name" and prob.get("what") == "action":
        return bool(names) and all(n in inv for n in names)
    if prob.get("kind") == "referenced-name-not-demanded" and prob.get("what") == "service":
        return bool(names) and all(n in {_spawn_key(a) for a in inv} for n in names)
    return False


def cls_subclass_no_discovery(prob, case, flavor):
    """a MachineLogic subclass passed as `logic=`: names are registered verbatim (no snake->camel) and nothing is checked at creation"""
    return prob.get("kind") in ("unbound-name-accepted", "supplied-name-not-bound") and prob.get("channel") == "subclass"


def cls_discovery_spawn_unbound(prob, case, flavor):
    """consequence of F19e inside the end-to-end check: creation fails only because a spawn_* directive of an invoke onDone/onError is demanded as an action"""
    if prob.get("kind") != "bound-name-rejected":
        return False
    return "Action 'spawn_" in prob.get("detail", "")


CLASSIFIERS = {
    "c19-two-states-with-the-same-bare-name": cls_same_bare_name,
    "c19-builder-appends-where-other-styles-replace": cls_on_overlap,
    "c19-deep-shared-substructure-between-builds": cls_deep_shared,
    "c19-discovery-skips-user-action-named-like-builtin": cls_builtin_shadow,
    "c19-spawn-directive-in-invoke-transition-demanded-as-action": cls_spawn_in_invoke,
    "c19-spawn-directive-in-invoke-transition-rejected-at-creation": cls_discovery_spawn_unbound,
    "c19-machinelogic-subclass-verbatim-names-no-failfast": cls_subclass_no_discovery,
}


# ============================================================================================ replays
def replay(payload):
    """problems the C19 monitors report on a replay payload {"check": ..., ...}"""
    from . import c19run
    kind = payload["check"]
    if kind == "styles":
        r = _styles_case((payload["def"], payload.get("seed", 0), "replay"))
        return [{**p, "case": {"def": payload["def"]}} for p in r["problems"]]
    if kind == "required":
        from xstate_statemachine.logic_loader import LogicLoader
        from xstate_statemachine.models import MachineNode
        from xstate_statemachine import MachineLogic
        cfg = payload["machine"]
        a, g, s = set(), set(), set()
        LogicLoader._extract_logic_from_node(MachineNode(config=cfg, logic=MachineLogic()), a, g, s)
        want = ref_required(cfg)
        out = []
        for k, what, got in (("a", "action", a), ("g", "guard", g), ("s", "service", s)):
            extra = sorted(set(got) - set(want[k]))
            if extra:
                out.append({"kind": "demands-excluded-name", "what": what, "names": extra, "detail": f"demands {extra}", "case": {"machine": cfg}})
        return out
    if kind == "discovery":
        st, r = _discovery_case((payload["machine"], payload["channel"], payload["supply"], payload.get("shadow", [])))
        if st != "ok":
            return [{"kind": st, "detail": str(r)[:200]}]
        out = []
        case = {"machine": payload["machine"]}
        if r["created"] and r["unbound"]:
            out.append({"kind": "unbound-name-accepted", "channel": payload["channel"], "names": r["unbound"], "detail": str(r["unbound"]), "case": case})
        if not r["created"] and not r["unbound"]:
            out.append({"kind": "bound-name-rejected", "channel": payload["channel"], "detail": r.get("error", ""), "case": case})
        sh = payload.get("shadow", [])
        if r["created"] and sh and "ran" in r and (set(b for b in sh if b in r["ran"]) != set(sh) or ("assign" in sh and r.get("ctx_flag") is not None)):
            out.append({"kind": "builtin-shadows-user-action", "channel": payload["channel"], "detail": f"ran={r['ran']} flag={r.get('ctx_flag')}", "case": case})
        return out
    if kind == "snake":
        from xstate_statemachine import logic_loader, pythonic
        w = payload["word"]
        a, b = logic_loader._snake_to_camel(w), pythonic._snake_to_camel(w)
        m = ask(["Q snake2camel " + w if w else "Q snake2camel"])[0].get("r")
        if a != G.ref_camel(w) or a != b or a != m:
            return [{"kind": "snake-to-camel", "detail": f"{w!r}: logic_loader={a!r} pythonic={b!r} reference={G.ref_camel(w)!r} model={m!r}"}]
        return []
    if kind == "lookup":
        from xstate_statemachine.logic_loader import LogicLoader
        from xstate_statemachine.exceptions import ImplementationMissingError
        scan = [tuple(x) for x in payload["scan"]]
        ref = payload["ref"]
        mods, provs = {}, {}
        for label, f in scan:
            (mods if label[0] == "m" else provs).setdefault(label.split(":")[0], []).append(f)
        ms = [_mk_module("c19mod_" + k, v, k) for k, v in sorted(mods.items())]
        ps = [_mk_provider(v, k) for k, v in sorted(provs.items())]
        try:
            lg = LogicLoader().discover_and_build_logic({"id": "m", "initial": "a", "states": {"a": {"on": {"E": {"guard": ref}}}}}, logic_modules=ms, logic_providers=ps)
            impl = lg.guards[ref]()
        except ImplementationMissingError:
            impl = None
        want = ref_lookup(scan, ref)
        return [] if impl == want else [{"kind": "lookup", "detail": f"bound {impl!r}, expected {want!r}"}]
    raise ValueError(kind)


def payload_of(check_name, p):
    """a replayable payload for a monitor failure of one of the q_checks"""
    case = p.get("case") or {}
    if check_name == "c19_styles" or "def" in case:
        return {"check": "styles", "def": case.get("def"), "seed": case.get("seed", 0)}
    if check_name == "c19_required":
        return {"check": "required", "machine": case.get("machine")}
    if check_name == "c19_discovery":
        return {"check": "discovery", "machine": case.get("machine"), "channel": case.get("channel"), "supply": case.get("supply", {}),
                "shadow": case.get("shadow", [])}
    if check_name == "c19_snake":
        return {"check": "snake", "word": case.get("word", "")}
    if check_name == "c19_lookup":
        return {"check": "lookup", "scan": case.get("scan", []), "ref": case.get("ref", "")}
    return None


def replay_file(path):
    """`./check C19 --replay <file>`: re-run a findings/ file or a VIOLATION file against the real code"""
    r = json.load(open(path))
    if not r.get("replay"):
        print(json.dumps({k: v for k, v in r.items() if k != "problem"}, indent=1)[:3000])
        print("no replayable payload in this file")
        return 0
    try:
        ps = replay(r["replay"])
    finally:
        core.close_pool()
    for p in ps:
        p.pop("case", None)
    print(f"monitor problems: {len(ps)}")
    print(json.dumps(ps, indent=1)[:4000])
    return 1 if ps else 0


# ============================================================================================ runner
def log(*a):
    print(*a, file=sys.stderr, flush=True)


def run(prop, tier, seed):
    from . import props
    t0 = time.time()
    spec = props.PROPS[prop]
    findings = core.load_findings()
    open_f = [f for f in findings.get("open", []) if f["property"] == prop]
    fixed_f = [f for f in findings.get("fixed", []) if f["property"] == prop]
    pb = core.build_and_audit(prop, thorough=(tier == "thorough"), extra_targets=tuple(spec.get("lake_targets", ())))
    log(f"[P] {prop}: stage={pb['stage']} ok={pb['ok']} theorems={len(pb['theorems'])}")
    out_lines, violations = [], []
    known_hits, stale = {}, []
    stats = collections.Counter()
    qsummaries, samples, tie_breaks, unexplained = [], [], [], []
    exit_code = 0

    def explain(p):
        for f in open_f:
            fn = props.CLASSIFIERS.get(f.get("classifier"))
            try:
                if fn and fn(p, p.get("case"), "query"):
                    return f
            except Exception:
                pass
        return None
    try:
        if not os.path.exists(DRIVER_PY):
            log("[T] no driver_py binary: correspondence cannot run")
            tie_breaks.append(("build", {"detail": "driver_py missing"}))
        else:
            for f in fixed_f + open_f:
                r = json.load(open(os.path.join(core.VERIF, f["replay"])))
                probs = replay(r["replay"])
                if f in fixed_f and probs:
                    violations.append({"kind": "regression-of-fixed-finding", "finding": f["id"], "problems": probs[:3]})
                if f in open_f:
                    hit = [p for p in probs if explain(p) is f]
                    if hit:
                        known_hits[f["id"]] = f
                    else:
                        stale.append(f["id"])
                    unexplained.extend(("replay:" + f["id"], p) for p in probs if explain(p) is None)
            for qfn in Q_CHECKS:
                tq = time.time()
                qr = qfn(tier, seed)
                stats["evaluations"] += qr["evaluations"]
                stats["agree"] += qr["evaluations"] - len(qr["ties"])
                stats["nontrivial"] += qr["nontrivial"]
                known = 0
                bad = []
                for p in qr["fails"]:
                    f = explain(p)
                    if f is None:
                        bad.append(p)
                    else:
                        known += 1
                        known_hits[f["id"]] = f
                        stats["known:" + f["id"]] += 1
                stats["known_finding_cases"] += known
                qsummaries.append({"check": qfn.__name__, "what": qr["what"], "evaluations": qr["evaluations"], "nontrivial": qr["nontrivial"],
                                   "disagreements": len(qr["ties"]), "monitor_failures": len(qr["fails"]), "explained_by_open_findings": known,
                                   "exhaustive": qr["exhaustive"], "features": qr.get("features"), "wall_s": round(time.time() - tq, 1),
                                   **({k: qr[k] for k in ("clean_definitions", "four_machines_equal_by_stream", "slow_cases_retried") if k in qr})})
                log(f"[{qfn.__name__}] evals={qr['evaluations']} nontrivial={qr['nontrivial']} ties={len(qr['ties'])} fails={len(qr['fails'])} known={known} ({time.time() - tq:.1f}s)")
                for s in qr["samples"][:2]:
                    if len(samples) < 6:
                        samples.append({"query": qfn.__name__, **s})
                tie_breaks.extend((qfn.__name__, t) for t in qr["ties"][:50])
                unexplained.extend((qfn.__name__, p) for p in bad[:50])
    finally:
        core.close_pool()
    for fid, f in sorted(known_hits.items()):
        out_lines.append(f"KNOWN-FINDING: property={prop} [{fid}] {f['what']}")
    for fid in stale:
        log(f"note: open finding {fid} no longer reproduces from its replay (stale entry?)")
    for v in violations:
        path = core.write_replay(prop, f"regress_{v['finding']}", v)
        out_lines.append(f"VIOLATION property={prop} replay={path}")
        exit_code = 1
    if unexplained:
        name, p = unexplained[0]
        path = core.write_replay(prop, "oracle", {"property": prop, "kind": "property-monitor-failed-on-implementation", "flavor": "query",
                                               "check": name, "problem": p, "replay": payload_of(name, p), "count": len(unexplained),
                                               "others": [{"check": n, "kind": q.get("kind"), "detail": q.get("detail")} for n, q in unexplained[1:6]]})
        out_lines.append(f"VIOLATION property={prop} replay={path}")
        exit_code = 1
    broken = []
    if not pb["ok"]:
        broken.append({"obligation": "P", "stage": pb["stage"], "log": pb["log"][-2500:], "failed_at": pb.get("failed_at")})
    if tie_breaks:
        broken.append({"obligation": "T", "correspondence": "query/" + tie_breaks[0][0], "count": len(tie_breaks), "first_difference": tie_breaks[0][1]})
    if broken and exit_code == 0:
        path = core.write_replay(prop, "broken", {"property": prop, "kind": "proof-or-correspondence-no-longer-checks", "broken": broken,
                                               "note": "no unexplained monitor failure on anything explored; the property is no longer shown to hold"})
        out_lines.append(f"VIOLATION property={prop} replay={path} no-failing-input-found")
        exit_code = 1
    elif broken:
        core.write_replay(prop, "broken", {"property": prop, "broken": broken})
    wall = time.time() - t0
    n_thm = len(pb["theorems"]) if pb["theorems"] else len(core.property_theorems(prop))
    coverage = {
        "obligations": max(1, n_thm), "discharged": n_thm if pb["ok"] else 0,
        "checker_cmd": f"cd lean && lake build Xsm.Properties.{prop} driver_py && lake env lean .work/Audit_{prop}.lean  (#print axioms)" + (" && lake env leanchecker" if tier == "thorough" else ""),
        "trusted_base": ["Lean 4.33.0 kernel", "axioms: propext, Classical.choice, Quot.sound (audited per theorem)",
                         "tables translator harness/xsmverif/tables.py", "hand-written model lean/Xsm/Model/Pythonic.lean (tied by c19_snake / c19_lookup / c19_required / c19_arity / c19_compile / c19_discovery)",
                         "renderers + JSON denotation harness/xsmverif/c19gen.py (independent of pythonic.py)"],
        "theorems": pb["theorems"], "axioms": pb["axioms"],
        "evaluations": stats["evaluations"], "distinct_nontrivial": stats["nontrivial"],
        "function_level_checks": qsummaries,
        "rule": "an evaluation is one (input, real function or real build) pair compared with the model and/or judged by the monitor; non-trivial = the function changed its input / a name was bound / the machine left its initial configuration or ran an action",
        "traces_validated_against_impl": stats["agree"], "tie_disagreements": len(tie_breaks), "oracle_failures": len(unexplained),
        "known_finding_cases": stats["known_finding_cases"], "known_by_finding": {k[6:]: v for k, v in stats.items() if k.startswith("known:")},
        "samples": samples or [{"note": "none"}], "tables_changed_this_run": pb.get("tables_changed", False),
    }
    core.write_evidence(prop, tier, seed, coverage, wall, 1 if exit_code else 0, props.ASSUMPTIONS.get(prop, props.ASSUMPTIONS["*"]))
    for l in out_lines:
        print(l)
    log(f"[{prop}] {tier} seed={seed} wall={wall:.1f}s evals={stats['evaluations']} agree={stats['agree']} tie_breaks={len(tie_breaks)} "
        f"unexplained={len(unexplained)} known={len(known_hits)} exit={exit_code}")
    return exit_code


if __name__ == "__main__":
    if len(sys.argv) >= 3 and sys.argv[1] == "--replay":
        r = json.load(open(sys.argv[2]))
        ps = replay(r["replay"])
        for p in ps:
            p.pop("case", None)
        print(json.dumps(ps, indent=1)[:4000])
        core.close_pool()
        sys.exit(1 if ps else 0)
