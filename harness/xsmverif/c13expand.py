"""C13, clause "self-enqueueing pure / choose / enqueueActions expansion ... is cut ... leaving a legal configuration and an
interpreter that still answers the next event" (monitor on the real code, both engines).

`pure` and `enqueueActions` take Python callables, so no JSON machine of the generators can re-enqueue itself; here the
machines are Python dicts.  A built-in action whose callback returns / enqueues ITSELF `width` times:

  width 1   a chain: the depth counter (`MAX_ACTION_DEPTH`) cuts it after ~50 levels;
  width 2+  a tree: the depth counter bounds the DEPTH of the expansion, not its size (2^51 leaves).

Expected for every width, kind and engine: `send()` returns (watchdog: 10 s), the cut is logged, the marker action of
the expansion ran a number of times that is bounded by a small multiple of the depth bound, the action that follows the
runaway built-in in the same list still runs, the transition completes (legal configuration) and the next event is
answered.
"""
from __future__ import annotations
import asyncio
import logging

from . import impl

KINDS = ("pure", "enqueueActions")
WIDTHS = (1, 2, 3)


def _machine(kind, width, log):
    def act(n):
        return lambda i, c, e, a: log.append(n)
    if kind == "pure":
        runaway = {"type": "xstate.pure", "params": {}}
        runaway["params"]["get"] = lambda a: ["tick"] + [runaway] * width
    else:
        runaway = {"type": "xstate.enqueueActions", "params": {}}

        def cb(a):
            a["enqueue"]("tick")
            for _ in range(width):
                a["enqueue"](runaway)
        runaway["params"]["callback"] = cb
    cfg = {"id": "m", "initial": "a", "states": {
        "a": {"on": {"GO": {"target": "b", "actions": [runaway, "behind"]}, "PING": {"actions": ["pong"]}}},
        "b": {"entry": ["enB"], "on": {"PING": {"actions": ["pong"]}}}}}
    return cfg, {k: act(k) for k in ("tick", "behind", "pong", "enB")}


class _Cuts(logging.Handler):
    def __init__(self):
        super().__init__(level=logging.ERROR)
        self.n = 0

    def emit(self, record):
        try:
            if "Nested action expansion exceeded" in record.getMessage():
                self.n += 1
        except Exception:
            pass


def _run(args, timeout=10):
    flavor, kind, width = args

    def runner(_case):
        from xstate_statemachine import Interpreter, MachineLogic, SyncInterpreter, create_machine
        log = impl.BoundedLog()
        cuts = _Cuts()
        lib = logging.getLogger("xstate_statemachine")
        lib.addHandler(cuts)
        res = {}
        try:
            cfg, acts = _machine(kind, width, log)
            m = create_machine(cfg, logic=MachineLogic(actions=acts))
            if flavor == "sync":
                it = SyncInterpreter(m).start()
                try:
                    it.send("GO")
                    res["exc"] = ""
                except Exception as x:      # noqa: BLE001
                    res["exc"] = type(x).__name__
                res["after_go"] = {"ticks": log.count("tick"), "behind": log.count("behind"), "C": sorted(it.current_state_ids), "S": it.status, "cuts": cuts.n}
                del log[:]
                it.send("PING")
                res["pong"] = log.count("pong")
                it.stop()
                return res

            async def go():
                it = Interpreter(m)
                await it.start()
                await it.send("GO")
                await impl._drain(it)
                res["exc"] = ""
                res["after_go"] = {"ticks": log.count("tick"), "behind": log.count("behind"), "C": sorted(it.current_state_ids), "S": it.status, "cuts": cuts.n}
                del log[:]
                await it.send("PING")
                await impl._drain(it)
                res["pong"] = log.count("pong")
                await it.stop()
                return res
            loop = impl.VirtualLoop()
            loop.set_exception_handler(lambda _l, _c: None)
            asyncio.set_event_loop(loop)
            try:
                return loop.run_until_complete(go())
            finally:
                loop.close()
                asyncio.set_event_loop(None)
        finally:
            lib.removeHandler(cuts)
    impl.RUNNERS["c13expand"] = runner
    try:
        return impl.run_guarded("c13expand", None, timeout)
    finally:
        impl.RUNNERS.pop("c13expand", None)


def problems_of(flavor, kind, width, timeout=10):
    st, r = _run((flavor, kind, width), timeout)
    base = {"builtin": kind, "width": width}
    if st == "hang":
        return [dict(base, kind="expansion-not-cut", detail=f"[{flavor}] a `{kind}` action whose callback re-enqueues itself {width} time(s): send(GO) had not "
                     f"returned after {timeout} s (the depth counter bounds the depth of the expansion, its size is {width}^depth)")]
    if st != "ok":
        return [dict(base, kind="raw-exception", detail=f"[{flavor}] {st}: {str(r)[:200]}")]
    out = []
    a = r["after_go"]
    if r["exc"]:
        out.append(dict(base, kind="expansion-cut-escapes", detail=f"[{flavor}] send(GO) raised {r['exc']}"))
    if a["cuts"] < 1:
        out.append(dict(base, kind="expansion-cut-not-logged", detail=f"[{flavor}] no error log for the cut; {a}"))
    if not (1 <= a["ticks"] <= 60 * max(1, width)):
        out.append(dict(base, kind="expansion-size", detail=f"[{flavor}] the marker of the expansion ran {a['ticks']} times (depth bound 50, width {width})"))
    if a["behind"] != 1 or a["C"] != ["m.b"] or a["S"] != "running":
        out.append(dict(base, kind="expansion-cut-disturbs-transition", detail=f"[{flavor}] after the cut: the action behind the built-in ran {a['behind']} time(s), "
                        f"configuration {a['C']}, status {a['S']} (expected once, ['m.b'], running)"))
    if r["pong"] != 1:
        out.append(dict(base, kind="next-event-not-answered", detail=f"[{flavor}] PING after the cut: handler ran {r['pong']} time(s)"))
    return out


def _job(args):
    return problems_of(*args)


def c13_self_expanding_actions(tier, seed):
    from . import core
    fails, samples = [], []
    evals = nontrivial = 0
    jobs = [(flavor, kind, width, 10 if tier == "thorough" else 5) for flavor in ("sync", "async") for kind in KINDS
            for width in (WIDTHS if tier == "thorough" else WIDTHS[:2])]
    # in worker processes (a runaway expansion is what this check expects to meet), all at once
    for (flavor, kind, width, _t), probs in zip(jobs, core.pool().map(_job, jobs, chunksize=1)):
        evals += 1
        for p in probs:
            fails.append(dict(p, flavor=flavor, case={"c13expand": {"builtin": kind, "width": width}}))
        if not probs:
            nontrivial += 1
            if len(samples) < 1:
                samples.append({"flavor": flavor, "builtin": kind, "width": width, "outcome": "cut, logged, transition completed, next event answered"})
    return {"evaluations": evals, "nontrivial": nontrivial, "ties": [], "fails": fails, "samples": samples, "exhaustive": True,
            "what": f"built-in actions {list(KINDS)} whose Python callback re-enqueues the action itself {list(WIDTHS)} time(s), both engines: send() returns, "
                    "the cut is logged, the expansion's size is bounded, the rest of the list and the transition complete, the next event is answered"}


def replay_problems(payload, flavor):
    out = []
    for fl in ([flavor] if flavor in ("sync", "async") else ["sync", "async"]):
        out += [dict(p, step=-1, at=None) for p in problems_of(fl, payload["builtin"], payload["width"])]
    return out


def cls_width_runaway(prob, case, flavor):
    """F77: the callback re-enqueues the action MORE THAN ONCE: the depth bound does not bound the size of the expansion"""
    return prob.get("kind") == "expansion-not-cut" and int(prob.get("width", 0)) >= 2 and prob.get("builtin") in KINDS
