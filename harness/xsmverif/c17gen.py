"""Machine families for C17 (code generator): every construct the generator's IR claims to model,
hostile / colliding names, the engine generator's machines, the shipped Stately exports.

A family case is {"id", "machine", "features": [...], "origin": "feature|combo|hostile|engine|stately", and for
hostile cases "twin": the same machine with benign names and "names": the hostile strings used}.
Every random choice derives from the seed handed in.
"""
from __future__ import annotations
import copy, json, os, random

STATELY_DIR = "/repo/tests/tests_cli/stately_machines"
TEMPLATES = ["pythonic-functional", "pythonic-builder", "pythonic-class", "class-json", "function-json"]


def base_machine():
    return {
        "id": "fam", "initial": "idle", "context": {"n": 0},
        "states": {
            "idle": {"on": {"GO": "work", "SKIP": {"target": "done"}}},
            "work": {"initial": "w1", "onDone": "done", "on": {"BACK": "idle"},
                     "states": {"w1": {"on": {"NEXT": "w2"}}, "w2": {"type": "final"}}},
            "done": {"type": "final"},
        },
    }


# ---- one mutator per construct ------------------------------------------------------------------
def f_hierarchy3(m):
    m["states"]["work"]["states"]["w1"] = {"initial": "x", "on": {"NEXT": "w2"},
                                           "states": {"x": {"on": {"DEEP": "y", "UP": "#fam.idle"}}, "y": {"on": {"COUSIN": "#fam.work.w2"}}}}


def f_parallel(m):
    m["states"]["par"] = {"type": "parallel", "onDone": "done", "states": {
        "r1": {"initial": "a", "states": {"a": {"on": {"R1": "b"}}, "b": {"type": "final"}}},
        "r2": {"initial": "c", "states": {"c": {"on": {"R2": "d"}}, "d": {"type": "final"}}}}}
    m["states"]["idle"]["on"]["PAR"] = "par"


def f_parallel_root(m):
    m.clear()
    m.update({"id": "fam", "type": "parallel", "states": {
        "r1": {"initial": "a", "states": {"a": {"on": {"T": "b"}}, "b": {}}},
        "r2": {"initial": "c", "states": {"c": {"on": {"T": "d"}}, "d": {"on": {"U": "c"}}}}}})


def f_history_shallow(m):
    m["states"]["work"]["states"]["h"] = {"type": "history"}
    m["states"]["idle"]["on"]["RESUME"] = "work.h"


def f_history_deep(m):
    f_hierarchy3(m)
    m["states"]["work"]["states"]["hd"] = {"type": "history", "history": "deep"}
    m["states"]["idle"]["on"]["RESUME"] = "#fam.work.hd"


def f_history_default_target(m):
    m["states"]["work"]["states"]["h"] = {"type": "history", "target": "w1"}
    m["states"]["idle"]["on"]["RESUME"] = "work.h"


def f_after_numeric(m):
    m["states"]["idle"]["after"] = {"1000": "work", "2500": {"target": "done", "actions": ["late"]}}


def f_after_named(m):
    m["states"]["idle"]["after"] = {"SHORT_DELAY": {"target": "work"}}


def f_after_multi(m):
    m["states"]["idle"]["after"] = {"3000": [{"target": "work", "guard": "ready"}, {"target": "done"}]}


def f_always(m):
    m["states"]["idle"]["always"] = [{"target": "work", "guard": "ready"}]


def f_always_legacy(m):
    m["states"]["idle"]["on"][""] = {"target": "work", "guard": "ready"}


def f_invoke_basic(m):
    m["states"]["work"]["states"]["w1"]["invoke"] = {"src": "fetchData", "onDone": {"target": "w2", "actions": ["store"]},
                                                     "onError": "#fam.idle"}


def f_invoke_id_input(m):
    m["states"]["work"]["states"]["w1"]["invoke"] = {"id": "fetcher", "src": "fetchData", "input": {"url": "u", "n": [1, 2]},
                                                     "onDone": "w2"}


def f_invoke_multi(m):
    m["states"]["work"]["states"]["w1"]["invoke"] = [{"id": "i1", "src": "svcA", "onDone": "w2"},
                                                     {"id": "i2", "src": "svcB", "onError": {"target": "w2", "guard": "ready"}}]


def f_invoke_id_eq_src(m):
    # an explicit invoke id spelled like its src (NOT redundant: the default id is the hosting state's id), with an
    # ordinary `on` handler keyed by the id-dependent completion event
    m["states"]["work"]["states"]["w1"]["invoke"] = {"id": "fetchData", "src": "fetchData"}
    m["states"]["work"]["states"]["w1"].setdefault("on", {})["done.invoke.fetchData"] = {"target": "w2", "actions": ["store"]}
    m["states"]["work"]["states"]["w1"]["on"]["error.platform.fetchData"] = "#fam.idle"


def f_guard_named(m):
    m["states"]["idle"]["on"]["GO"] = {"target": "work", "guard": "ready"}


def f_guard_object(m):
    m["states"]["idle"]["on"]["GO"] = {"target": "work", "guard": {"type": "ready"}}


def f_guard_cond_alias(m):
    m["states"]["idle"]["on"]["GO"] = {"target": "work", "cond": "ready"}


def f_guard_params(m):
    m["states"]["idle"]["on"]["GO"] = {"target": "work", "guard": {"type": "inRange", "params": {"min": 1, "max": 5}}}


def f_guard_composite_params_guards(m):
    m["states"]["idle"]["on"]["GO"] = {"target": "work", "guard": {"type": "and", "params": {"guards": ["ready", {"type": "not", "params": {"guards": ["busy"]}}]}}}


def f_guard_composite_children(m):
    m["states"]["idle"]["on"]["GO"] = {"target": "work", "guard": {"type": "and", "children": ["ready", {"type": "not", "children": ["busy"]}]}}


def f_guard_not_params_guard(m):
    m["states"]["idle"]["on"]["GO"] = {"target": "work", "guard": {"type": "not", "params": {"guard": "busy"}}}


def f_guard_or_params_children(m):
    m["states"]["idle"]["on"]["GO"] = {"target": "work", "guard": {"type": "or", "params": {"children": ["ready", "busy"]}}}


def f_guard_composite_with_param_leaf(m):
    m["states"]["idle"]["on"]["GO"] = {"target": "work", "guard": {"type": "or", "params": {"guards": [{"type": "inRange", "params": {"min": 2}}, "busy"]}}}


def f_guard_statein(m):
    f_parallel(m)
    m["states"]["par"]["states"]["r1"]["states"]["a"]["on"]["R1"] = {"target": "b", "guard": {"type": "stateIn", "params": {"state": "#fam.par.r2.d"}}}


def f_actions_list(m):
    m["states"]["idle"]["on"]["GO"] = {"target": "work", "actions": ["logIt", "countIt"]}


def f_action_single_string(m):
    m["states"]["idle"]["on"]["GO"] = {"target": "work", "actions": "logIt"}


def f_action_params(m):
    m["states"]["idle"]["on"]["GO"] = {"target": "work", "actions": [{"type": "notify", "params": {"level": "hi", "n": 3, "deep": {"a": [1, None, True]}}}]}


def f_entry_exit(m):
    m["states"]["work"]["entry"] = ["enterWork", {"type": "mark", "params": {"k": 1}}]
    m["states"]["work"]["exit"] = "leaveWork"


def f_onentry_legacy(m):
    m["states"]["work"]["onEntry"] = ["enterWork"]
    m["states"]["work"]["onExit"] = ["leaveWork"]


def f_builtin_raise(m):
    m["states"]["idle"]["on"]["GO"] = {"target": "work", "actions": [{"type": "xstate.raise", "params": {"event": {"type": "NEXT"}}}]}


def f_builtin_assign(m):
    m["states"]["idle"]["on"]["GO"] = {"target": "work", "actions": [{"type": "assign", "params": {"assignment": {"n": 5}}}, "after_assign"]}


def f_builtin_choose(m):
    m["states"]["idle"]["on"]["GO"] = {"target": "work", "actions": [{"type": "xstate.choose", "params": {"conditions": [
        {"guard": "ready", "actions": ["picked"]}, {"actions": ["fallback"]}]}}]}


def f_tags(m):
    m["states"]["idle"]["tags"] = ["waiting", "visible"]
    m["states"]["work"]["tags"] = "busy"


def f_meta(m):
    m["states"]["idle"]["meta"] = {"view": "Idle", "nested": {"order": [3, 1, 2], "flag": False, "none": None}}


def f_context_nested(m):
    m["context"] = {"n": 0, "user": {"name": "x", "roles": ["a", "b"]}, "ratio": 0.5, "none": None, "t": True}


def f_context_placeholder(m):
    m["context"] = "{{initialContext}}"


def f_root_on(m):
    m["on"] = {"RESET": ".idle", "PANIC": {"target": "#fam.done", "actions": ["alarm"]}}


def f_root_entry_exit(m):
    m["entry"] = ["boot"]
    m["exit"] = ["shutdown"]


def f_root_tags_meta(m):
    m["tags"] = ["root-tag"]
    m["meta"] = {"title": "Fam"}


def f_custom_id(m):
    m["states"]["work"]["states"]["w2"]["id"] = "finished"
    m["states"]["idle"]["on"]["JUMP"] = "#finished"


def f_custom_id_statein(m):
    f_parallel(m)
    m["states"]["par"]["states"]["r2"]["states"]["d"]["id"] = "dee"
    m["states"]["par"]["states"]["r1"]["states"]["a"]["on"]["R1"] = {"target": "b", "guard": {"type": "stateIn", "params": {"state": "#dee"}}}


def f_target_abs(m):
    m["states"]["idle"]["on"]["JUMP"] = "#fam.work.w2"


def f_target_dotted(m):
    m["states"]["idle"]["on"]["JUMP"] = "work.w2"


def f_target_relative_dot(m):
    m["states"]["work"]["states"]["w1"]["on"]["REL"] = ".w2"


def f_reenter(m):
    m["states"]["work"]["on"]["AGAIN"] = {"target": "work", "reenter": True}


def f_internal_false(m):
    m["states"]["work"]["on"]["AGAIN"] = {"target": "work", "internal": False}


def f_forbidden(m):
    m["on"] = {"NEXT": "idle"}
    m["states"]["work"]["states"]["w1"]["on"]["NEXT"] = None


def f_wildcard(m):
    m["states"]["idle"]["on"]["*"] = {"actions": ["unknownEvent"]}
    m["states"]["idle"]["on"]["sys.*"] = "done"


def f_multi_candidates(m):
    m["states"]["idle"]["on"]["GO"] = [{"target": "work", "guard": "ready"}, {"target": "done", "guard": "busy", "actions": ["a1"]}, "idle"]


def f_targetless(m):
    m["states"]["idle"]["on"]["PING"] = {"actions": ["pong"]}


def f_description(m):
    m["description"] = "a machine"
    m["states"]["idle"]["description"] = "waiting for GO"


def f_unsupported_output(m):
    m["states"]["done"]["output"] = {"result": 1}


def f_unsupported_max_iterations(m):
    m["maxIterations"] = 5


def f_transition_description(m):
    m["states"]["idle"]["on"]["GO"] = {"target": "work", "description": "start working"}


def f_ondone_actions(m):
    m["states"]["work"]["onDone"] = {"target": "done", "actions": ["finished"], "guard": "ready"}


def f_event_spaces(m):
    m["states"]["idle"]["on"]["go now"] = "work"
    m["states"]["idle"]["on"]["done.custom"] = "done"


def f_initial_missing(m):
    del m["states"]["work"]["initial"]


def f_final_with_children(m):
    m["states"]["done"] = {"type": "final", "initial": "q", "states": {"q": {}}}


def f_delay_zero_and_big(m):
    m["states"]["idle"]["after"] = {"0": "work", "86400000": "done"}


FEATURES = {k[2:]: v for k, v in list(globals().items()) if k.startswith("f_") and callable(v)}
# constructs that exclude each other (they rewrite the same place)
_REWRITES_GO = [k for k in FEATURES if k.startswith(("guard_", "action", "builtin_", "multi_cand", "transition_desc"))]
_ROOT_REPLACERS = ["parallel_root"]


def feature_case(name):
    m = base_machine()
    FEATURES[name](m)
    return {"id": f"feature:{name}", "machine": m, "features": [name], "origin": "feature"}


def combo_case(seed, idx):
    rng = random.Random((seed << 16) ^ (idx * 2654435761 % (1 << 31)))
    names = [n for n in FEATURES if n not in _ROOT_REPLACERS and not n.startswith("unsupported") and n != "history_default_target"]
    k = rng.randint(2, 6)
    pick, used_go, used_after, used_inv, used_par = [], False, False, False, False
    for n in rng.sample(names, len(names)):
        if len(pick) >= k:
            break
        if n in _REWRITES_GO:
            if used_go:
                continue
            used_go = True
        if n.startswith("after") or n == "delay_zero_and_big":
            if used_after:
                continue
            used_after = True
        if n.startswith("invoke"):
            if used_inv:
                continue
            used_inv = True
        if n in ("parallel", "guard_statein", "custom_id_statein"):
            if used_par:
                continue
            used_par = True
        if n in ("history_deep", "hierarchy3") and any(p in ("history_deep", "hierarchy3", "invoke_basic", "invoke_id_input", "invoke_multi", "invoke_id_eq_src", "target_relative_dot", "forbidden") for p in pick):
            continue
        if n in ("invoke_basic", "invoke_id_input", "invoke_multi", "invoke_id_eq_src", "target_relative_dot", "forbidden") and any(p in ("history_deep", "hierarchy3") for p in pick):
            continue
        if n == "always" and "always_legacy" in pick or n == "always_legacy" and "always" in pick:
            continue
        if n == "entry_exit" and "onentry_legacy" in pick or n == "onentry_legacy" and "entry_exit" in pick:
            continue
        if n in ("root_on", "forbidden") and any(p in ("root_on", "forbidden") for p in pick):
            continue
        pick.append(n)
    m = base_machine()
    for n in pick:
        FEATURES[n](m)
    return {"id": f"combo:{seed}:{idx}", "machine": m, "features": sorted(pick), "origin": "combo"}


# ---- hostile and colliding names ------------------------------------------------------------------
HOSTILE = [
    "class", "None", "import", "lambda", "match", "type", "id", "_", "__", "and", "not", "True",
    "it's", 'say "hi"', "back\\slash", "line\nbreak", "tab\there", "cr\rlf", '"""', "'''", "\\", "\\'", '\\"',
    "__import__('os').system('touch PWNED_C17')", "'); __import__('os').system('touch PWNED_C17'); ('",
    '"""\nimport os; os.system("touch PWNED_C17")\n"""', "{__import__('os')}", "%s %(x)s {0} {}", "${x}", "#hash", "# comment",
    "a;b", "x = 1", "exit()", "print", "eval", "exec", "self", "cls", "build", "State", "machine", "logger", "logging", "asyncio",
    "Any", "Dict", "main", "interpreter", "context", "event", "action", "guard", "service", "json", "Path", "time",
    "café", "naïve", "日本語", "рус", "\U0001F600", "ﬁx", "①②", "áb", "½", "İ", "ß", "ſ",
    "​", " ", " ", "‮", "﻿", "\x00", "\x1b[31m", "\x7f",
    "1st", "2", "007", "3.14", "-1", "1e3",
    "my-state", "my_state", "my state", "myState", "MyState", "MYSTATE", "my.state", "my__state", "_my_state_", "my-state!", "my/state",
    "HTTPError", "getHTTPResponse", "snake_case", "camelCase", "kebab-case", "dot.ted", "a b", "a  b", "A", "a",
    "", " ", "   ", "-", "--", "...", "!", "é", "éé",
    "x" * 300,
]


def _rename_walk(j, mp):
    """rename keys/strings in name positions of a machine config"""
    def act(a):
        if isinstance(a, str):
            return mp("action", a)
        if isinstance(a, dict) and isinstance(a.get("type"), str) and not a["type"].startswith("xstate.") and a["type"] not in ("assign", "raise", "choose"):
            b = dict(a)
            b["type"] = mp("action", a["type"])
            return b
        return a

    def acts(v):
        if isinstance(v, list):
            return [act(x) for x in v]
        return act(v)

    def guard(g):
        if isinstance(g, str):
            return mp("guard", g)
        if isinstance(g, dict):
            h = dict(g)
            t = g.get("type")
            if t in ("and", "or", "not"):
                if isinstance(g.get("children"), list):
                    h["children"] = [guard(c) for c in g["children"]]
                p = g.get("params")
                if isinstance(p, dict):
                    q = dict(p)
                    for k in ("guards", "children"):
                        if isinstance(p.get(k), list):
                            q[k] = [guard(c) for c in p[k]]
                    if "guard" in p:
                        q["guard"] = guard(p["guard"])
                    h["params"] = q
            elif t == "stateIn":
                pass
            elif isinstance(t, str):
                h["type"] = mp("guard", t)
            return h
        return g

    def trans(t):
        if isinstance(t, list):
            return [trans(x) for x in t]
        if isinstance(t, str):
            return mp("target", t)
        if isinstance(t, dict):
            u = dict(t)
            if isinstance(t.get("target"), str):
                u["target"] = mp("target", t["target"])
            if "actions" in t:
                u["actions"] = acts(t["actions"])
            for gk in ("guard", "cond"):
                if gk in t:
                    u[gk] = guard(t[gk])
            return u
        return t

    def state(s):
        if not isinstance(s, dict):
            return s
        o = {}
        for k, v in s.items():
            if k == "states" and isinstance(v, dict):
                o[k] = {mp("state", sk): state(sv) for sk, sv in v.items()}
            elif k == "initial" and isinstance(v, str):
                o[k] = mp("state", v)
            elif k == "on" and isinstance(v, dict):
                o[k] = {(mp("event", ek) if ek not in ("", "*") else ek): trans(ev) for ek, ev in v.items()}
            elif k == "after" and isinstance(v, dict):
                o[k] = {(dk if dk.isdigit() else mp("delay", dk)): trans(dv) for dk, dv in v.items()}
            elif k in ("always", "onDone"):
                o[k] = trans(v)
            elif k in ("entry", "exit", "onEntry", "onExit"):
                o[k] = acts(v)
            elif k == "invoke":
                def inv(i):
                    if not isinstance(i, dict):
                        return i
                    q = dict(i)
                    if isinstance(i.get("src"), str):
                        q["src"] = mp("service", i["src"])
                    if isinstance(i.get("id"), str):
                        q["id"] = mp("invokeid", i["id"])
                    for hk in ("onDone", "onError"):
                        if hk in i:
                            q[hk] = trans(i[hk])
                    return q
                o[k] = [inv(i) for i in v] if isinstance(v, list) else inv(v)
            elif k == "tags":
                o[k] = [mp("tag", x) for x in v] if isinstance(v, list) else mp("tag", v)
            elif k == "meta" and isinstance(v, dict):
                o[k] = {mp("metakey", mk): (mp("metaval", mv) if isinstance(mv, str) else mv) for mk, mv in v.items()}
            elif k == "context" and isinstance(v, dict):
                o[k] = {mp("ctxkey", ck): (mp("ctxval", cv) if isinstance(cv, str) else cv) for ck, cv in v.items()}
            elif k == "id" and isinstance(v, str):
                o[k] = mp("id", v)
            else:
                o[k] = v
        return o
    return state(j)


def hostile_base(rng):
    """a benign machine with a name in every name position (unique, innocuous)"""
    m = {
        "id": "hmachine", "initial": "sta", "context": {"ckey": "cval", "n": 1}, "tags": ["rtag"], "meta": {"mkey": "mval"},
        "entry": ["actboot"],
        "on": {"evreset": {"target": ".sta", "actions": ["actreset"]}},
        "states": {
            "sta": {"tags": ["tagone", "tagtwo"], "meta": {"mk2": "mv2"}, "entry": ["actenter", {"type": "actparam", "params": {"p": "v"}}],
                    "exit": "actexit",
                    "on": {"evgo": {"target": "stb", "guard": "grdready", "actions": ["actgo"]},
                           "evmulti": [{"target": "stc", "guard": {"type": "and", "params": {"guards": ["grdready", {"type": "not", "params": {"guards": ["grdbusy"]}}]}}},
                                       {"target": "stb"}]},
                    "after": {"1500": "stb", "dlynamed": {"target": "stc", "actions": ["actlate"]}},
                    "always": [{"target": "stc", "guard": "grdnever"}]},
            "stb": {"initial": "stba", "onDone": {"target": "stc", "actions": ["actdone"]},
                    "invoke": {"id": "invone", "src": "svcfetch", "onDone": {"target": "stc", "actions": ["actfetched"]}, "onError": "sta"},
                    "states": {"stba": {"on": {"evnext": "stbb"}}, "stbb": {"type": "final"},
                               "sthist": {"type": "history"}}},
            "stc": {"type": "final"},
        },
    }
    if rng.random() < 0.5:
        m["states"]["par"] = {"type": "parallel", "states": {"rega": {"initial": "ra1", "states": {"ra1": {"on": {"evra": "ra2"}}, "ra2": {}}},
                                                             "regb": {"initial": "rb1", "states": {"rb1": {}, "rb2": {}}}}}
        m["states"]["sta"]["on"]["evpar"] = "par"
    return m


KIND_POS = ["state", "event", "action", "guard", "service", "delay", "tag", "metakey", "metaval", "ctxkey", "ctxval", "id", "invokeid"]


def hostile_case(seed, idx, focus=None):
    """rename a random subset of the name positions of the benign base with hostile strings; `focus` restricts the
    renaming to one kind of position (so that a failure is attributable)"""
    rng = random.Random((seed << 18) ^ (idx * 40503 + 7))
    twin = hostile_base(rng)
    kinds = [focus] if focus else rng.sample(KIND_POS, rng.randint(1, 4))
    table = {}
    used = set()
    collide = rng.random() < 0.35
    colliders = ["my-state", "my_state", "my state", "myState", "MyState", "my.state", "my__state", "my-state!"] if collide else []

    def mp(kind, s):
        if kind == "target":
            # targets name states: rewrite the segments that are renamed states, keep '#', '.' structure
            if s.startswith("#hmachine"):
                head = "#" + table.get(("id", "hmachine"), "hmachine")
                rest = s[len("#hmachine"):]
                return head + ".".join(table.get(("state", seg), seg) for seg in rest.split("."))
            lead = len(s) - len(s.lstrip("."))
            return "." * lead + ".".join(table.get(("state", seg), seg) for seg in s[lead:].split("."))
        if kind not in kinds:
            return s
        key = (kind, s)
        if key not in table:
            for _ in range(50):
                pool = colliders if colliders and rng.random() < 0.7 else HOSTILE
                h = rng.choice(pool)
                if kind in ("state", "id") and ("." in h or h.startswith("#") or h == ""):
                    continue          # dotted / '#' / empty keys change what a target MEANS; the target family covers them
                if kind in ("action",) and (h in ("assign", "raise", "choose", "log", "stop", "cancel", "emit", "pure") or h.startswith("spawn_")):
                    continue
                if kind == "guard" and h in ("and", "or", "not", "stateIn", ""):
                    continue
                if kind in ("event",) and h in ("", "*"):
                    continue
                if kind == "delay" and (h.isdigit() or h == ""):
                    continue
                if kind in ("service", "action", "guard") and h == "":
                    continue
                if (kind, h) in used:
                    continue
                used.add((kind, h))
                table[key] = h
                break
            else:
                table[key] = s
        return table[key]

    # states first so that targets can be rewritten consistently
    def collect_states(s):
        for k, v in (s.get("states") or {}).items():
            mp("state", k)
            collect_states(v)
    mp("id", "hmachine")
    collect_states(twin)
    machine = _rename_walk(twin, mp)
    names = sorted({v for (_k, _s), v in table.items()})
    return {"id": f"hostile:{seed}:{idx}:{'+'.join(kinds)}", "machine": machine, "twin": twin, "names": names,
            "features": ["hostile:" + k for k in kinds] + (["colliding"] if collide else []), "origin": "hostile"}


def engine_case(seed, profile, idx):
    from . import gen
    c = gen.gen_case(seed, profile, idx)
    m = copy.deepcopy(c["machine"])
    keep = (idx % 5 == 0)
    if not keep:
        m.pop("maxIterations", None)       # an unsupported key: kept in one case out of five (refusal path)
    return {"id": f"engine:{profile}:{seed}:{idx}", "machine": m, "features": ["engine:" + profile] + (["maxIterations"] if keep else []),
            "origin": "engine", "events": c["events"], "guards": c["guards"]}


def stately_files():
    return sorted(f for f in os.listdir(STATELY_DIR) if f.endswith(".json"))


def stately_case(fname):
    with open(os.path.join(STATELY_DIR, fname), encoding="utf-8") as f:
        m = json.load(f)
    return {"id": f"stately:{fname}", "machine": m, "features": ["stately"], "origin": "stately", "fname": fname}


def all_strings(j, out=None):
    """every string (keys and values) of a JSON value"""
    out = set() if out is None else out
    if isinstance(j, str):
        out.add(j)
    elif isinstance(j, dict):
        for k, v in j.items():
            out.add(k)
            all_strings(v, out)
    elif isinstance(j, list):
        for v in j:
            all_strings(v, out)
    return out
