"""C13, clause "self-enqueueing pure / choose / enqueueActions expansion": once the depth bound tripped, the REST OF THE
EXPANSION produces no further follow-ups (`_expansion_cut`, F77) - tied to the Lean model (`St.expCut`), both engines.

JSON machines cannot carry callables, so the only built-in that produces follow-ups here is `choose`.  A directed family:

  * `choose` nested D deep (D around the bound: the chooses sit at depths 0 .. D-1, the cut level is depth
    MAX_ACTION_DEPTH + 1 = 51), generated programmatically; the innermost follow-up is the marker `deep`;
  * at several shallower levels, AFTER the deep `choose` of that level, sibling actions: a `choose` with a marker
    (`late:<depth>`: the trace shows whether it expanded), a `choose` whose branch guard has no implementation (after a
    trip its guards are not even evaluated: no failure; without a trip it fails and stops that list), an `assign` and a
    `raise` (not affected by the flag - but `assign`, like every built-in, is skipped AT the cut level), a marker;
  * a SECOND top-level `choose` (`fresh`) and a marker (`behind`) after the runaway one: a top-level built-in starts a
    fresh expansion;
  * the whole list as transition actions, as entry actions and as exit actions.

Every case runs on the real engine and on the model; the observations (configuration, status, context, ordered record
list, error) must be identical.  Two monitors on the code's run say what is expected independently of the model:
with a trip (D >= 52) no `late:*` record and no `deep` record appears and `fresh` and `behind` do; without one
(D <= 51 and no sibling `choose` at the cut level) `deep` and every planted `late:*` appear.
"""
from __future__ import annotations
import json

from . import core, modelio

MAXD = 50           # MAX_ACTION_DEPTH (the tables of the model read it from the source; asserted below)


def _choose(acts, guard=None):
    br = {"actions": acts}
    if guard is not None:
        br["guard"] = guard
    return {"type": "choose", "params": {"conditions": [br]}}


def _siblings(depth, kind):
    """what follows the deep `choose` in the list that runs at `depth`"""
    if kind == "late":
        return [_choose([f"late:{depth}"]), f"m:{depth}"]
    if kind == "badguard":
        return [_choose([f"late:{depth}"], guard="gMissing"), f"m:{depth}"]
    if kind == "assign":
        return [{"type": "assign", "params": {"assignment": {f"k{depth}": depth}}}, _choose([f"late:{depth}"]), f"m:{depth}"]
    if kind == "raise":
        return [{"type": "raise", "params": {"event": "PING"}}, _choose([f"late:{depth}"])]
    raise ValueError(kind)


def nest(D, sib_levels, kind):
    """the runaway action: `choose` nested D deep; the choose of depth d has the follow-up list (run at depth d + 1)
    [choose of depth d + 1 | `deep`] + siblings (if d + 1 in sib_levels)"""
    inner = "deep"
    for d in range(D - 1, -1, -1):
        lst = [inner] + (_siblings(d + 1, kind) if (d + 1) in sib_levels else [])
        inner = _choose(lst)
    return inner


def make_cases():
    cases = []
    levels = {"few": (1, 2, 25, 49, 50), "cutlevel": (1, 30, 50, 51), "all": tuple(range(1, 56)), "none": ()}
    for D in (49, 50, 51, 52, 53, 55):
        for lname, lv in levels.items():
            for kind in ("late", "badguard", "assign", "raise"):
                if lname in ("all", "none") and kind != "late":
                    continue
                sib = tuple(x for x in lv if x <= D)
                acts = [nest(D, sib, kind), _choose(["fresh"]), "behind"]
                for where in ("transition", "entry", "exit"):
                    m = {"id": "m", "initial": "a", "context": {},
                         "states": {"a": {"on": {"GO": {"target": "b", "actions": ["tr"]}, "PING": {"actions": ["pong"]}}},
                                    "b": {"on": {"PING": {"actions": ["pong"]}, "GO": {"target": "a"}}}}}
                    if where == "transition":
                        m["states"]["a"]["on"]["GO"]["actions"] = acts
                    elif where == "entry":
                        m["states"]["b"]["entry"] = acts
                    else:
                        m["states"]["a"]["exit"] = acts
                    cases.append({"id": f"deep-{D}-{lname}-{kind}-{where}", "machine": m, "guards": {},
                                  "events": ["GO", "PING", "GO", "GO"],
                                  "c13deep": {"D": D, "sib": list(sib), "kind": kind, "where": where}})
    return cases


def expectations(case, obs):
    """independent of the model: what the record list of the step that ran the runaway list must (not) contain"""
    info = case["c13deep"]
    D, sib, kind = info["D"], info["sib"], info["kind"]
    names = [r.split("@")[0] for o in obs[1:3] for r in o["T"]]      # the first GO (and the PING it may have raised)
    out = []

    def need(n, why):
        if n not in names:
            out.append({"kind": "expansion-cut-wrong", "detail": f"`{n}` did not run: {why}"})

    def forbid(pred, why):
        bad = [n for n in names if pred(n)]
        if bad:
            out.append({"kind": "expansion-cut-wrong", "detail": f"{bad[:4]} ran: {why}"})
    need("fresh", "the second top-level choose starts a fresh expansion")
    need("behind", "the action after the runaway built-in runs")
    # the list at depth d runs iff d <= MAXD + 1; a choose at depth MAXD + 1 trips
    deepest_choose = D - 1
    sib_choose_at_cut = (MAXD + 1) in sib and D >= MAXD + 1
    tripped = deepest_choose >= MAXD + 1 or sib_choose_at_cut
    if deepest_choose >= MAXD + 1:
        forbid(lambda n: n == "deep", "the bound cut the expansion above it")
        forbid(lambda n: n.startswith("late:"), "the bound tripped before any sibling choose was reached: none may expand")
        if kind == "badguard":
            forbid(lambda n: n.startswith("#aerr"), "after a trip the guards of a choose are not evaluated")
    elif not tripped:
        need("deep", "the expansion is not deeper than the bound")
        if kind in ("late", "assign", "raise"):
            for d in sib:
                need(f"late:{d}", "nothing tripped: every sibling choose expands")
    return out


def replay_problems(info_case, flavor):
    st, obs = core.impl_isolated((flavor, info_case, 20))
    if st != "ok":
        return [{"kind": "hang" if st == "hang" else "raw-exception", "detail": f"run ended with {st}"}]
    return expectations(info_case, obs)


def c13_deep_choose_siblings(tier, seed):
    from xstate_statemachine.base_interpreter import BaseInterpreter
    assert BaseInterpreter.MAX_ACTION_DEPTH == MAXD, "the directed family is built around MAX_ACTION_DEPTH = 50"
    cases = make_cases()
    ties, fails, samples = [], [], []
    evals = nontrivial = 0
    for flavor in ("sync", "async"):
        irs = core.run_impl_many(flavor, cases, timeout=10)
        mrs = core.run_model_many(flavor, cases)
        for c, (ist, iobs), mres in zip(cases, irs, mrs):
            evals += 1
            if ist != "ok":
                fails.append({"kind": "hang" if ist == "hang" else "raw-exception", "flavor": flavor, "case": c,
                              "detail": f"the run ended with {ist}"})
                continue
            if mres[0] != "ok":
                ties.append({"flavor": flavor, "case": c, "diff": {"model": mres[1]}})
                continue
            d = modelio.diff_obs(iobs, mres[1][:len(iobs)], flavor)
            if d is not None:
                ties.append({"flavor": flavor, "case": c["id"], "diff": d})
            pr = expectations(c, iobs)
            if pr:
                fails.append(dict(pr[0], flavor=flavor, case=c))
            elif c["c13deep"]["D"] >= MAXD + 2:
                nontrivial += 1
    small = next((c for c in cases if c["c13deep"]["D"] == 53 and c["id"].endswith("few-late-transition")), cases[0])
    samples.append({"case": {"id": small["id"], "c13deep": small["c13deep"], "events": small["events"],
                             "machine_size": len(json.dumps(small["machine"]))}})
    return {"evaluations": evals, "nontrivial": nontrivial, "ties": ties, "fails": fails, "samples": samples, "exhaustive": True,
            "what": "`choose` nested 49..55 deep (generated) with sibling choose / unimplemented-guard choose / assign / raise actions AFTER the "
                    "deep one at several shallower levels (and at the cut level), a second top-level choose and a marker after the runaway "
                    "one, as transition, entry and exit lists, both engines: model and code agree observation by observation; once the "
                    "bound tripped no sibling choose of the expansion expands (its guards are not evaluated), assign / raise / markers "
                    "are unaffected, the next top-level built-in expands again"}
