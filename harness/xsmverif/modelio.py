"""Client of the Lean driver (line protocol) + canonicalisation + diff."""
from __future__ import annotations
import json, os, subprocess

HERE = os.path.dirname(os.path.abspath(__file__))
LEAN_DIR = os.path.normpath(os.path.join(HERE, "..", "..", "lean"))
DRIVER = os.path.join(LEAN_DIR, ".lake", "build", "bin", "driver")


def case_lines(case, flavor):
    gv = case.get("guards", {})
    lines = ["M " + json.dumps(case["machine"]),
             "G " + " ".join(f"{k}={v}" for k, v in gv.items()),
             f"F {flavor}", "START"]
    ops = case["ops"] if "ops" in case else [["send", e] for e in case["events"]]
    for op in ops:
        if op[0] == "send":
            lines.append("SEND " + op[1])
        elif op[0] == "after":
            lines.append("AFTER " + op[1])
        elif op[0] == "done":
            lines.append(f"DONE {op[1]} {op[2]}")
        else:
            raise ValueError(op)
    return lines


def run_driver(lines, timeout=600):
    r = subprocess.run([DRIVER], input="\n".join(lines) + "\n", capture_output=True, text=True, timeout=timeout)
    if r.returncode != 0:
        raise RuntimeError(f"driver exit {r.returncode}: {r.stderr[:500]}")
    return r.stdout.split("\n")[:-1] if r.stdout.endswith("\n") else r.stdout.split("\n")


def run_model_batch(cases, flavor):
    """returns, per case, ('ok', [obs...]) | ('reject', err) ; one driver process for the whole batch"""
    lines = []
    spans = []
    for c in cases:
        ls = case_lines(c, flavor)
        spans.append((len(lines), len(ls)))
        lines.extend(ls)
    out = run_driver(lines)
    if len(out) != len(lines):
        raise RuntimeError(f"driver answered {len(out)} lines for {len(lines)} commands")
    res = []
    for (a, n) in spans:
        chunk = [json.loads(x) for x in out[a:a + n]]
        if not chunk[0].get("ok"):
            res.append(("reject", chunk[0].get("err", "")))
        else:
            res.append(("ok", chunk[3:]))
    return res


def _canon_rec(r):
    from .impl import canon_ev
    if r.startswith("#t:"):
        return "#t:" + ",".join(sorted(x for x in r[3:].split(",") if x))
    if "@" in r:
        a, e = r.rsplit("@", 1)
        return a + "@" + canon_ev(e)
    return r


def canon_obs(o, flavor, side):
    """canonical, comparable form of one observation (impl or model side)"""
    d = {
        "C": sorted(o["C"]),
        "S": o["S"],
        "T": [_canon_rec(r) for r in o["T"]],
        "H": {k: list(v) for k, v in sorted(o["H"].items())},
        "K": {k: v for k, v in sorted((o.get("K") or {}).items())},
    }
    if o.get("can") is not None:
        d["can"] = o["can"]
    if flavor == "sync":
        d["E"] = o.get("E", "")
    else:
        # the async engine logs a failed event and carries on; the count is compared
        d["X"] = o.get("X", 0)
        d["E"] = o.get("E", "") if o.get("S") == "stopped" else ""
    return d


def diff_obs(impl_obs, model_obs, flavor):
    """first difference between two observation lists, or None"""
    n = min(len(impl_obs), len(model_obs))
    for i in range(n):
        a = canon_obs(impl_obs[i], flavor, "impl")
        b = canon_obs(model_obs[i], flavor, "model")
        if a != b:
            keys = [k for k in a if a[k] != b.get(k)]
            return {"step": i, "fields": keys, "impl": {k: a[k] for k in keys}, "model": {k: b.get(k) for k in keys}}
    if len(impl_obs) != len(model_obs):
        return {"step": n, "fields": ["len"], "impl": len(impl_obs), "model": len(model_obs)}
    return None
