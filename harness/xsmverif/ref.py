"""Independent reference semantics used by the monitors (written from the property texts and the
README, over the machine *config JSON*; shares no code with the library or the Lean model)."""
from __future__ import annotations
from .oracles import Tree

INTERNAL = ("done.", "error.", "after.", "xstate.")


def norm_transitions(v):
    """config value of one `on` key -> list of dicts; None marks a forbidden transition"""
    if v is None:
        return [None]
    if isinstance(v, str):
        return [{"target": v}]
    if isinstance(v, dict):
        return [v]
    out = []
    for x in v:
        out.append({"target": x} if isinstance(x, str) else x)
    return out


def matching_keys(keys, ev):
    """documented order: exact > partial 'p.*' by decreasing prefix length > '*'; internal events exact only"""
    if not keys or not ev:
        return []
    out = [ev] if ev in keys else []
    if ev.startswith(INTERNAL):
        return out
    parts = [k for k in keys if k != "*" and k.endswith(".*") and (ev == k[:-2] or ev.startswith(k[:-2] + "."))]
    parts.sort(key=len, reverse=True)
    out += parts
    if "*" in keys:
        out.append("*")
    return out


class Missing(Exception):
    pass


def guard_children(g):
    p = g.get("params") if isinstance(g.get("params"), dict) else {}
    c = g.get("children") or p.get("guards") or p.get("children")
    if not c and g.get("type") in ("and", "or", "not") and p.get("guard") is not None:
        c = [p["guard"]]
    if c is None:
        return []
    return c if isinstance(c, list) else [c]


def eval_guard(g, active, gv):
    """ordinary boolean meaning; a raising guard is false; an unimplemented one raises Missing"""
    if g is None:
        return True
    if isinstance(g, str):
        g = {"type": g, "_bare": True}
    t = g.get("type")
    if t in ("and", "or", "not") and not g.get("_bare"):
        kids = guard_children(g)
        if t == "and":
            return all(eval_guard(k, active, gv) for k in kids)
        if t == "or":
            return any(eval_guard(k, active, gv) for k in kids)
        return not eval_guard(kids[0], active, gv)
    if t == "stateIn" and "stateIn" not in gv:
        p = g.get("params")
        tgt = p.get("state", p.get("value")) if isinstance(p, dict) else p
        if not isinstance(tgt, str) or not tgt:
            return False
        tgt = tgt[1:] if tgt.startswith("#") else tgt
        # a full id, or a relative dotted name: whole trailing segments of an active id
        return any(a == tgt or a.endswith("." + tgt) for a in active)
    v = gv.get(t)
    if v is None:
        raise Missing(t)
    return v == "t"


def transition_guard(t):
    return t["guard"] if "guard" in t else t.get("cond")


def always_list(node_cfg):
    out = []
    on = node_cfg.get("on") or {}
    if "" in on:
        out += norm_transitions(on[""])
    if node_cfg.get("always") is not None:
        out += norm_transitions(node_cfg["always"])
    return out


def leaves(tree: Tree, active):
    ls = [s for s in active if tree.kind.get(s) in ("atomic", "final") or not tree.kids.get(s)]
    return sorted(ls, key=lambda s: (-s.count("."), s))


def nominees(tree: Tree, active, ev, gv):
    """list of (source id, key, index) in firing order, or None when an always-transition is enabled
    somewhere on an active chain (configuration not settled: the property does not apply)"""
    act = set(active)
    sel = []
    # a configuration in which some eventless transition is enabled is not settled (an `always`
    # chain was cut by the bound): the engine resumes it after any event; the property is silent there
    for st in act:
        for a in always_list(tree.cfg.get(st, {})):
            if a is not None and eval_guard(transition_guard(a), act, gv):
                return None
    for leaf in leaves(tree, act):
        cur = leaf
        winner = None
        while cur is not None and winner is None:
            ncfg = tree.cfg[cur]
            on = {k: v for k, v in (ncfg.get("on") or {}).items()}
            blocked = False
            for key in matching_keys([k for k in on.keys() if k != ""], ev):
                for i, t in enumerate(norm_transitions(on[key])):
                    if t is None:
                        blocked = True
                        break
                    if eval_guard(transition_guard(t), act, gv):
                        winner = (cur, key, i)
                        break
                if winner or blocked:
                    break
            if blocked and not winner:
                break
            if winner:
                break
            cur = tree.parent[cur]
        if winner and winner not in sel:
            sel.append(winner)
    sel.sort(key=lambda w: -w[0].count("."))
    return sel


def rel(sid, mid):
    """state id -> the dotted path used in marker action names ('' for the root)"""
    return sid[len(mid) + 1:] if sid != mid else ""


def resolve_simple(tree: Tree, src, target):
    """targets as the generator spells them: '#m.path', or 'key(.key)*' relative to the source's parent"""
    if target.startswith("#"):
        t = target[1:]
        return t if t in tree.kind else None
    par = tree.parent.get(src)
    base = par if par is not None else src
    cand = base + "." + target
    return cand if cand in tree.kind else None
