"""C07 / C06, supplement: a guard whose PARAMS are computed by a user callable that raises.

Guard params may be a callable of {context, event}.  The property says a guard that raises counts as false: the
candidate is skipped, later candidates are still tried, nothing escapes to the caller of send(), and a `choose`
branch guarded that way falls through to the next branch without aborting the outer action list.  JSON cannot carry
callables, so the generated streams never exercise this; here the machines are Python dicts.  Both engines.
"""
from __future__ import annotations
import asyncio
import copy

from . import core, impl


def _boom(_args):
    raise KeyError("params callable failed")


def _fine(_args):
    return {"min": 1}


def _scenarios():
    out = []
    for gname, gtype in (("user", "atLeast"), ("stateIn", "stateIn")):
        for params_kind in ("raises", "fine"):
            params = _boom if params_kind == "raises" else (_fine if gtype != "stateIn" else (lambda a: {"state": "m.idle"}))
            guard = {"type": gtype, "params": params}
            m = {"id": "m", "initial": "idle", "context": {"n": 5},
                 "states": {"idle": {"on": {
                     "GO": [{"target": "fast", "guard": guard, "actions": ["tookFast"]}, {"target": "slow", "actions": ["tookSlow"]}],
                     "NOTE": {"actions": ["first", {"type": "choose", "params": {"conditions": [
                         {"guard": guard, "actions": ["big"]}, {"actions": ["small"]}]}}, "last"]}}},
                     "fast": {}, "slow": {}}}
            passes = params_kind == "fine"
            out.append({"id": f"{gname}-{params_kind}", "machine": m,
                        "expect_go": "m.fast" if passes else "m.slow",
                        "expect_note": ["first", "big" if passes else "small", "last"]})
    return out


def _run(args):
    flavor, sc = args

    def runner(_case):
        from xstate_statemachine import Interpreter, MachineLogic, PluginBase, SyncInterpreter, create_machine
        log, errs = [], []

        class P(PluginBase):
            def on_action_error(self, interpreter, action, error):
                errs.append([getattr(action, "type", str(action)), type(error).__name__])

        def act(n):
            return lambda i, c, e, a: log.append(n)
        logic = MachineLogic(actions={k: act(k) for k in ("tookFast", "tookSlow", "first", "big", "small", "last")},
                             guards={"atLeast": lambda c, e, p=None: c["n"] >= (p or {}).get("min", 0)})
        res = {}

        def build():
            return create_machine(copy.deepcopy(sc["machine"]) if False else _clone(sc["machine"]), logic=logic)
        if flavor == "sync":
            for ev in ("NOTE", "GO"):
                it = SyncInterpreter(build())
                it.use(P())
                it.start()
                del log[:]
                try:
                    it.send(ev)
                    exc = ""
                except Exception as x:          # noqa: BLE001
                    exc = type(x).__name__
                res[ev] = {"log": list(log), "C": sorted(it.current_state_ids), "exc": exc, "errs": list(errs)}
                del errs[:]
                it.stop()
            return res

        async def go():
            for ev in ("NOTE", "GO"):
                it = Interpreter(build())
                it.use(P())
                await it.start()
                del log[:]
                n0 = impl._COUNTER.n
                await it.send(ev)
                await impl._drain(it)
                res[ev] = {"log": list(log), "C": sorted(it.current_state_ids), "exc": "logged" if impl._COUNTER.n > n0 else "", "errs": list(errs)}
                del errs[:]
                await it.stop()
            return res
        loop = impl.VirtualLoop()
        loop.set_exception_handler(lambda _l, _c: None)
        asyncio.set_event_loop(loop)
        try:
            return loop.run_until_complete(go())
        finally:
            loop.close()
            asyncio.set_event_loop(None)
    impl.RUNNERS["c07params"] = runner
    try:
        return impl.run_guarded("c07params", None, 20)
    finally:
        impl.RUNNERS.pop("c07params", None)


def _clone(x):
    """deep copy that keeps callables (they are the point of these machines)"""
    if isinstance(x, dict):
        return {k: _clone(v) for k, v in x.items()}
    if isinstance(x, list):
        return [_clone(v) for v in x]
    return x


def c07_raising_guard_params(tier, seed):
    scen = [(fl, sc) for sc in _scenarios() for fl in ("sync", "async")]
    res = [_run(a) for a in scen]
    fails, samples = [], []
    nontrivial = 0
    for (flavor, sc), (st, r) in zip(scen, res):
        key = {"scenario": sc["id"]}
        if st != "ok":
            fails.append({"kind": "hang" if st == "hang" else "raw-exception", "flavor": flavor, "case": key, "detail": f"{st}: {r}"})
            continue

        def bad(kind, detail):
            fails.append({"kind": kind, "flavor": flavor, "case": key, "detail": detail})
        if r["GO"]["exc"]:
            bad("guard-failure-escapes", f"send(GO) {'raised ' + r['GO']['exc'] if flavor == 'sync' else 'was logged as a failed event'}: a raising guard must count as false")
        if r["GO"]["C"] != [sc["expect_go"]]:
            bad("later-candidate-not-tried", f"after GO the configuration is {r['GO']['C']}, expected [{sc['expect_go']!r}]")
        if r["NOTE"]["log"] != sc["expect_note"]:
            bad("choose-branch-guard-failure", f"NOTE ran {r['NOTE']['log']}, expected {sc['expect_note']}")
        if r["NOTE"]["errs"] or r["NOTE"]["exc"]:
            bad("guard-failure-reported-as-action-error", f"on_action_error / error log after NOTE: {r['NOTE']['errs']} {r['NOTE']['exc']} although no action raised")
        if "raises" in sc["id"]:
            nontrivial += 1
        if len(samples) < 1 and not fails:
            samples.append({"scenario": sc["id"], "flavor": flavor, "GO": r["GO"]["C"], "NOTE": r["NOTE"]["log"]})
    return {"evaluations": len(scen), "nontrivial": nontrivial, "ties": [], "fails": fails, "samples": samples, "exhaustive": True,
            "what": "guards whose params are computed by a user callable that raises (user guard and built-in stateIn; on a transition with a later "
                    "candidate, and on a non-last `choose` branch inside an action list), both engines: counts as false, later candidate / branch taken, "
                    "nothing escapes, no action error reported"}


def replay_problems(scenario_id, flavor):
    """problems of one scenario (finding replays carry `case["c07params"]`)"""
    sc = next(x for x in _scenarios() if x["id"] == scenario_id)
    out = []
    for fl in ([flavor] if flavor in ("sync", "async") else ["sync", "async"]):
        st, r = _run((fl, sc))
        if st != "ok":
            out.append({"kind": st, "step": -1, "at": None, "detail": str(r)[:200]})
            continue
        if r["GO"]["exc"] or r["GO"]["C"] != [sc["expect_go"]]:
            out.append({"kind": "guard-failure-escapes", "step": -1, "at": None,
                        "detail": f"[{fl}] GO: exc={r['GO']['exc']!r} configuration={r['GO']['C']} expected [{sc['expect_go']!r}]"})
        if r["NOTE"]["log"] != sc["expect_note"] or r["NOTE"]["errs"]:
            out.append({"kind": "choose-branch-guard-failure", "step": -1, "at": None,
                        "detail": f"[{fl}] NOTE ran {r['NOTE']['log']} errs={r['NOTE']['errs']} expected {sc['expect_note']}"})
    return out
