"""C15 — actor messaging and supervision: generator, model client, tie and monitor (q_check shape).

T  the same (commands, op sequence) through `lean/.lake/build/bin/driver_actors` (the executable definitions
   of `Xsm/Model/Actors.lean`, about which `Xsm/Properties/C15.lean` proves its theorems) and through the
   real engines (`c15_impl`): after every op the DFS of the children maps with every actor's status and
   received log, the system registry, the detached (unreachable) actors, the warnings and the events
   processed after a stop notification must be identical.
O  the monitor of `c15_impl` (exactly-once / addressee-only / per-sender order / nothing after stop /
   registry + children-map hygiene / child status after a stop / warnings iff dropped), evaluated on the
   live interpreter objects, independent of the model.
Children that END BY THEMSELVES while they own live descendants (ops fin / fail, families `completion-directed` and
`completion`, F71): the same tie (model extension `Xsm/Model/ActorsDone.lean`, variant by the ledger: `f71_fixed`) and
the same monitor, plus the rule `running-under-dropped-finished-ancestor` (a running actor below an actor that finished
by itself, was dropped from its parent's children map and never stopped: no stop() can reach it).
"""
from __future__ import annotations
import json, os, random, subprocess

from . import core

DRIVER = os.path.join(core.LEAN_DIR, ".lake", "build", "bin", "driver_actors")

KINDS = ["k1", "k2"]
EIDS = ["a", "b", "k1"]            # explicit ids (one collides with a service key)
SIDS = ["S1", "S2", "a", "r:a"]    # systemIds (one collides with an explicit id, one with a full actor id)
SENDIDS = ["x", "y"]
PROFILES = ("messaging", "supervision", "timers", "invoke", "mixed")


# ------------------------------------------------------------------------------------------ generator
class _Shadow:
    """rough prediction of the actor tree, only to aim ops at actors that probably exist"""

    def __init__(self):
        self.kids = {"r": []}       # id -> list of child ids
        self.kind = {"r": "r"}
        self.sid = {}               # systemId -> id
        self.fresh = 0
        self.now = 0
        self.dues = set()
        self.ininv = set()
        self.ever = set()           # every id ever spawned

    def depth(self, a):
        return a.count(":") if ":u" not in a else len([s for s in a.split(":")[1:] if not (s.startswith("u") and s[1:].isdigit())])

    def alive(self):
        return list(self.kids.keys())

    def drop(self, a):
        for c in list(self.kids.get(a, [])):
            self.drop(c)
        self.kids.pop(a, None)
        for p in self.kids.values():
            if a in p:
                p.remove(a)
        for s, v in list(self.sid.items()):
            if v == a:
                del self.sid[s]

    def add(self, p, cid, kind, sid):
        if cid in self.kids:
            self.drop(cid)
        self.ever.add(cid)
        self.kids[cid] = []
        self.kind[cid] = kind
        self.kids[p].append(cid)
        if sid:
            self.sid[sid] = cid


def _targets(rng, sh, p):
    """addressing forms for a send/stop issued by actor p"""
    forms = []
    for c in sh.kids.get(p, []):
        segs = c[len(p) + 1:].split(":")
        forms += [c, segs[0], sh.kind[c]]
    forms += list(sh.sid.keys())
    forms += ["parent", "#parent", "zz", rng.choice(KINDS), rng.choice(EIDS)]
    if p != "r":
        forms.append(p.split(":")[1])
    return forms


def gen_case(seed, profile, i):
    rng = random.Random(f"c15/{seed}/{profile}/{i}")
    sh = _Shadow()
    inv = {"r": rng.choice([None, "k1", "k2"]) if profile in ("invoke", "mixed") else None,
           "k1": rng.choice([None, "k2"]) if profile == "invoke" else None, "k2": None}
    cmds, ops = {}, []
    nops = rng.randint(5, 12)
    w = {"messaging": dict(spawn=3, send=8, stop=1, timer=0, cancel=0),
         "supervision": dict(spawn=5, send=3, stop=4, timer=0, cancel=0),
         "timers": dict(spawn=2, send=2, stop=1, timer=6, cancel=3),
         "invoke": dict(spawn=2, send=4, stop=2, timer=1, cancel=0),
         "mixed": dict(spawn=3, send=4, stop=2, timer=3, cancel=1)}[profile]
    msg = [0]
    respawn = rng.random() < 0.2          # may this case spawn twice under one explicit id?

    def gen_action(p):
        kinds = [k for k, v in w.items() for _ in range(v)]
        k = rng.choice(kinds)
        d = sh.depth(p)
        if k == "spawn":
            if d >= 3 or len(sh.kids.get(p, [])) >= 3 and rng.random() < 0.7:
                k = "send"
            else:
                key = rng.choice(KINDS)
                eid = rng.choice(EIDS) if rng.random() < 0.55 else None
                if eid and not respawn and f"{p}:{eid}" in sh.ever:
                    eid = None
                sid = rng.choice(SIDS) if rng.random() < 0.4 else None
                form = rng.random()
                if form < 0.45:
                    src = key if rng.random() < 0.8 else "blocking_" + key
                    act = ["spawnChild", src, eid, sid]
                else:
                    act = ["spawn", key, eid, sid, rng.random() < 0.3]
                if eid:
                    cid = f"{p}:{eid}"
                else:
                    sh.fresh += 1
                    cid = f"{p}:{key}:u{sh.fresh}"
                sh.add(p, cid, key, sid)
                return act
        if k == "send":
            r = rng.random()
            msg[0] += 1
            if r < 0.6:
                return ["sendTo", rng.choice(_targets(rng, sh, p)), msg[0], None, None]
            if r < 0.75:
                return ["sendParent", msg[0], None, None]
            if r < 0.9:
                return ["forwardTo", rng.choice(_targets(rng, sh, p))]
            return ["escalate"]
        if k == "timer":
            msg[0] += 1
            delay = 10 * rng.randint(1, 5) + rng.choice([6, 7, 8, 9])
            due = sh.now + delay
            if due in sh.dues:
                return ["sendTo", rng.choice(_targets(rng, sh, p)), msg[0], None, None]
            sh.dues.add(due)
            sid = rng.choice(SENDIDS) if rng.random() < 0.7 else None
            if rng.random() < 0.8:
                return ["sendTo", rng.choice(_targets(rng, sh, p)), msg[0], delay, sid]
            return ["sendParent", msg[0], delay, sid]
        if k == "cancel":
            return ["cancel", rng.choice(SENDIDS)]
        # stop
        t = rng.choice([x for x in _targets(rng, sh, p) if x not in ("parent", "#parent") and not (x in sh.sid and p.startswith(sh.sid[x]))])
        for c in list(sh.kids.get(p, [])):
            if t == c or t in c[len(p) + 1:].split(":") or sh.sid.get(t) == c:
                sh.drop(c)
                break
        if rng.random() < 0.35:
            msg[0] += 2
            return [["sendTo", t, msg[0] - 1, None, None], ["sendTo", t, msg[0], None, None], ["stopChild", t]]
        return ["stopChild", t]

    # the first op always builds something to talk to
    for j in range(nops):
        alive = sh.alive()
        p = "r" if (j == 0 or rng.random() < 0.45) else rng.choice(alive)
        r = rng.random()
        if j > 0 and r < 0.12 and (w["timer"] or profile == "invoke"):
            dt = rng.choice([10, 20, 30, 50])
            sh.now += dt
            ops.append(["adv", dt])
            continue
        if j > 1 and r < 0.18:
            ops.append(["stop", p])
            if p != "r" or rng.random() < 0.5:
                sh.drop(p) if p != "r" else None
            if p == "r":
                for c in list(sh.kids["r"]):
                    sh.drop(c)
            continue
        if inv.get(sh.kind.get(p, "r")) and r < 0.4:
            if p in sh.ininv:
                sh.ininv.discard(p)
                ops.append(["cmd", p, "LEAVE"])
            else:
                sh.ininv.add(p)
                ops.append(["cmd", p, "GOINV"])
            continue
        if cmds and rng.random() < 0.15:
            name = rng.choice(list(cmds))            # an existing command run by (possibly) another actor
            if any(a[0] in ("sendTo", "sendParent") and a[-2] for a in cmds[name]):
                name = None
        else:
            name = None
        if name is None:
            name = f"C{len(cmds)}"
            n_act = 1 if j and rng.random() < 0.3 else rng.randint(1, 4)
            if j == 0:
                cmds[name] = [a for a in (gen_action_spawn(rng, sh, p) for _ in range(rng.randint(1, 3)))]
            else:
                acts = []
                for _ in range(n_act):
                    a = gen_action(p)
                    acts.extend(a if a and isinstance(a[0], list) else [a])
                cmds[name] = acts
        ops.append(["cmd", p, name])
    if w["timer"]:
        ops.append(["adv", 60])
    return {"id": f"c15-{profile}-{seed}-{i}", "kinds": KINDS, "invoke": inv, "cmds": cmds, "ops": ops,
            "eager": rng.random() < 0.75, "profile": profile}


def gen_action_spawn(rng, sh, p):
    key = rng.choice(KINDS)
    eid = rng.choice(EIDS) if rng.random() < 0.6 else None
    if eid and f"{p}:{eid}" in sh.ever:
        eid = None
    sid = rng.choice(SIDS) if rng.random() < 0.4 else None
    if eid:
        cid = f"{p}:{eid}"
    else:
        sh.fresh += 1
        cid = f"{p}:{key}:u{sh.fresh}"
    sh.add(p, cid, key, sid)
    return ["spawnChild", key, eid, sid] if rng.random() < 0.5 else ["spawn", key, eid, sid, False]


def directed_cases():
    """fixed scenarios run on every check: one per precedence step / timer rule, so that a change of the
    resolution order or of the cancel/supersede rules is seen whatever the seed"""
    base = {"kinds": KINDS, "invoke": {"r": None, "k1": None, "k2": None}, "eager": True, "profile": "directed"}
    D = []

    def add(name, cmds, ops, **kw):
        D.append(dict(base, id="c15-directed-" + name, cmds=cmds, ops=ops, **kw))
    add("sysid-over-exact-id", {"C0": [["spawnChild", "k1", "a", None], ["spawnChild", "k2", "b", "r:a"]], "C1": [["sendTo", "r:a", 1, None, None]]},
        [["cmd", "r", "C0"], ["cmd", "r", "C1"]])
    add("exact-id", {"C0": [["spawnChild", "k1", "a", None], ["spawn", "k1", None, None, True]], "C1": [["sendTo", "r:a", 1, None, None], ["sendTo", "r:k1:u1", 2, None, None]]},
        [["cmd", "r", "C0"], ["cmd", "r", "C1"]])
    add("segment-over-source-key", {"C0": [["spawnChild", "k1", "k2", None], ["spawnChild", "k2", "b", None]], "C1": [["sendTo", "k2", 1, None, None], ["sendTo", "k1", 2, None, None]]},
        [["cmd", "r", "C0"], ["cmd", "r", "C1"]])
    add("ambiguous-auto-ids", {"C0": [["spawn", "k1", None, None, True], ["spawn", "k1", None, None, True]], "C1": [["sendTo", "k1", 1, None, None], ["forwardTo", "k1"], ["stopChild", "k1"]]},
        [["cmd", "r", "C0"], ["cmd", "r", "C1"]])
    add("parent-forms", {"C0": [["spawnChild", "k1", "a", None]], "C1": [["sendTo", "parent", 1, None, None], ["sendTo", "#parent", 2, None, None], ["sendParent", 3, None, None], ["escalate"], ["forwardTo", "parent"]],
                         "C2": [["sendTo", "parent", 4, None, None], ["sendParent", 5, None, None], ["escalate"]]},
        [["cmd", "r", "C0"], ["cmd", "r:a", "C1"], ["cmd", "r", "C2"]])
    add("cancel-only-that-id", {"C0": [["spawnChild", "k1", "a", None], ["sendTo", "a", 1, 26, "x"], ["sendTo", "a", 2, 37, "y"], ["sendTo", "a", 3, 48, None]],
                                "C1": [["cancel", "x"], ["cancel", "zz"]]},
        [["cmd", "r", "C0"], ["adv", 10], ["cmd", "r", "C1"], ["adv", 20], ["adv", 20], ["adv", 20]])
    add("reused-id-supersedes", {"C0": [["spawnChild", "k1", "a", None], ["sendTo", "a", 1, 26, "x"]], "C1": [["sendTo", "a", 2, 37, "x"]], "C2": [["cancel", "x"]],
                                 "C3": [["sendTo", "a", 3, 16, "x"]]},
        [["cmd", "r", "C0"], ["adv", 10], ["cmd", "r", "C1"], ["adv", 20], ["adv", 40], ["cmd", "r", "C3"], ["cmd", "r", "C2"], ["adv", 30]])
    add("delay-vs-stop", {"C0": [["spawnChild", "k1", "a", None], ["spawnChild", "k2", "b", None], ["sendTo", "a", 1, 26, "x"], ["sendTo", "b", 2, 37, None]],
                          "C1": [["sendParent", 3, 28, None], ["sendParent", 4, 49, "y"]], "C2": [["stopChild", "a"]]},
        [["cmd", "r", "C0"], ["cmd", "r:a", "C1"], ["cmd", "r:b", "C1"], ["adv", 10], ["cmd", "r", "C2"], ["adv", 30], ["stop", "r"], ["adv", 30]])
    add("deep-stop", {"C0": [["spawnChild", "k1", "a", "S1"]], "C1": [["spawnChild", "k2", "b", None], ["spawn", "k2", None, None, True]], "C2": [["spawnChild", "k1", "c", None]],
                      "C3": [["sendTo", "S1", 1, None, None], ["stopChild", "a"], ["sendTo", "S1", 2, None, None], ["sendTo", "a", 3, None, None]]},
        [["cmd", "r", "C0"], ["cmd", "r:a", "C1"], ["cmd", "r:a:b", "C2"], ["cmd", "r", "C3"], ["cmd", "r:a", "C2"]])
    add("invoke-machine", {"C0": [["sendTo", "k1", 1, None, None], ["sendTo", "iv", 2, None, None]]},
        [["cmd", "r", "GOINV"], ["cmd", "r", "C0"], ["adv", 10], ["cmd", "r", "LEAVE"], ["adv", 10], ["cmd", "r", "C0"], ["stop", "r"]],
        invoke={"r": "k1", "k1": None, "k2": None})
    return D


# ------------------------------------------------------------------------------------------ children that END BY THEMSELVES
# (F71) A child machine that reaches its top-level final state (status `done`) or fails (`error`) while it owns live
# descendants.  Nobody calls stop() on it at that moment; who tears its subtree down, and when?  Cases carry
# `completion: true` (every machine gets a final and a failing state, c15_impl.machine_config) and the ops
# ["fin", actor] / ["fail", actor].  The ids of invoked children differ between the engines (async: generated,
# sync: `<parent>:iv`), so these cases are built per flavor.
def _iv(flavor, parent, src, n):
    """id of the n-th machine invoked in the run (counting the uuid4 calls of the async engine: these cases use explicit
    ids for every spawn)"""
    return f"{parent}:iv" if flavor == "sync" else f"{parent}:{src}:u{n}"


def completion_directed(flavor):
    base = {"kinds": KINDS, "eager": True, "profile": "completion-directed", "completion": True}
    none = {"r": None, "k1": None, "k2": None}
    D = []

    def add(name, cmds, ops, invoke=none, **kw):
        D.append(dict(base, id=f"c15-completion-{name}", cmds=cmds, ops=ops, invoke=invoke, **kw))
    c = _iv(flavor, "r", "k1", 1)
    G = ["spawnChild", "k2", "g", "S2"]
    # 1. the shape of F71: r invokes C, C spawns G, C completes; then the parent's stop()
    add("invoked-child-completes-owning-a-child", {"C0": [["spawnChild", "k2", "g", None]]},
        [["cmd", "r", "GOINV"], ["cmd", c, "C0"], ["fin", c], ["stop", "r"]], invoke={"r": "k1", "k1": None, "k2": None})
    add("invoked-child-fails-owning-a-child", {"C0": [["spawnChild", "k2", "g", None]]},
        [["cmd", "r", "GOINV"], ["cmd", c, "C0"], ["fail", c], ["stop", "r"]], invoke={"r": "k1", "k1": None, "k2": None})
    # 2. ... G has a systemId and pending delayed sends: is it still addressable, does it still send, after C is gone
    #    and after the root is stopped?
    add("grandchild-still-addressable-and-sending",
        {"C0": [G, ["spawn", "k2", "h", None, True]], "C1": [["sendTo", "S2", 1, None, None]], "C2": [["sendParent", 2, 36, None], ["sendTo", "S1", 3, 47, "x"], ["sendTo", "S1", 5, 98, "y"]],
         "C3": [["spawnChild", "k2", "s", "S1"]]},
        [["cmd", "r", "C3"], ["cmd", "r", "GOINV"], ["cmd", c, "C0"], ["cmd", c + ":g", "C2"], ["fin", c], ["cmd", "r", "C1"], ["adv", 50], ["stop", "r"], ["adv", 50]],
        invoke={"r": "k1", "k1": None, "k2": None})
    # 3. three levels below the completing child
    add("deep-subtree-below-completed-child", {"C0": [G], "C1": [["spawnChild", "k1", "x", "S1"]], "C2": [["spawn", "k2", "y", None, True]]},
        [["cmd", "r", "GOINV"], ["cmd", c, "C0"], ["cmd", c + ":g", "C1"], ["cmd", c + ":g:x", "C2"], ["fin", c], ["adv", 20], ["stop", "r"]],
        invoke={"r": "k1", "k1": None, "k2": None})
    # 4. the completing child was SPAWNED (who watches it? sync non-blocking: the watcher thread; else nobody)
    for nm, sp in (("spawnChild", ["spawnChild", "k1", "a", "S1"]), ("spawn", ["spawn", "k1", "a", None, False]),
                   ("spawn-blocking", ["spawn", "k1", "a", None, True]), ("spawnChild-blocking", ["spawnChild", "blocking_k1", "a", None])):
        add(f"{nm}-child-completes-owning-a-child", {"C0": [sp], "C1": [G], "C2": [["sendTo", "S2", 1, None, None], ["sendTo", "a", 2, None, None]]},
            [["cmd", "r", "C0"], ["cmd", "r:a", "C1"], ["fin", "r:a"], ["cmd", "r", "C2"], ["adv", 20], ["stop", "r"]])
        add(f"{nm}-child-fails-then-is-stopped-by-id", {"C0": [sp], "C1": [G], "C2": [["stopChild", "a"]]},
            [["cmd", "r", "C0"], ["cmd", "r:a", "C1"], ["fail", "r:a"], ["cmd", "r", "C2"], ["adv", 20]])
    # 5. the grandchild completes first, then the child
    add("grandchild-then-child-complete", {"C0": [G], "C1": [["spawn", "k1", "z", None, True]]},
        [["cmd", "r", "GOINV"], ["cmd", c, "C0"], ["cmd", c + ":g", "C1"], ["fin", c + ":g"], ["fin", c], ["stop", "r"]],
        invoke={"r": "k1", "k1": None, "k2": None})
    # 6. the invoking state is left (the child is STOPPED, not completed), entered again, the second activation completes
    c2 = _iv(flavor, "r", "k1", 2)
    add("second-activation-completes", {"C0": [G]},
        [["cmd", "r", "GOINV"], ["cmd", c, "C0"], ["cmd", "r", "LEAVE"], ["adv", 10], ["cmd", "r", "GOINV"], ["cmd", c2, "C0"], ["fin", c2], ["adv", 10], ["stop", "r"]],
        invoke={"r": "k1", "k1": None, "k2": None})
    # 7. the completing child is itself in its invoking state (its invoked machine is stopped by the exit), and owns a spawned child
    cc = _iv(flavor, c, "k2", 2)
    add("completes-from-its-own-invoking-state", {"C0": [G], "C1": [["spawnChild", "k1", "w", None]]},
        [["cmd", "r", "GOINV"], ["cmd", c, "GOINV"], ["cmd", c, "C0"], ["cmd", cc, "C1"], ["fin", c], ["adv", 10], ["stop", "r"]],
        invoke={"r": "k1", "k1": "k2", "k2": None})
    # 8. a completing child that owns nothing; the root itself completes; a finished actor is sent to / completed again
    add("childless-completions", {"C0": [["spawnChild", "k1", "a", "S1"]], "C1": [["sendTo", "S1", 1, None, None], ["sendTo", "a", 2, 27, None]]},
        [["cmd", "r", "GOINV"], ["cmd", "r", "C0"], ["fin", c], ["cmd", "r", "C1"], ["fin", "r:a"], ["fin", "r:a"], ["adv", 30], ["fin", "r"], ["adv", 10]],
        invoke={"r": "k1", "k1": None, "k2": None})
    return D


def gen_completion_case(seed, i, flavor):
    """root r, a sibling with a systemId, a child C created in one of the five ways (invoke / spawnChild / spawn_, blocking
    or not), 1-2 grandchildren below C (one possibly invoked by C, sometimes a great-grandchild), delayed sends pending in
    the subtree, then C - or a grandchild first - ends by itself (fin / fail), then: sends through the systemIds, the clock,
    stopChild / stop of C, the parent's stop().  No delayed send is due inside the POLL window of a fin op and no two at
    one instant (the model fires watchers before timers, and an instant at once)."""
    rng = random.Random(f"c15done/{seed}/{i}")          # the same scenario for both flavors; only the invoked ids differ
    how = rng.choice(["invoke", "invoke", "invoke", "spawnChild", "spawn", "spawn-blocking", "spawnChild-blocking"])
    ckind = rng.choice(KINDS)
    gk_inv = rng.choice(KINDS) if rng.random() < 0.3 else None          # C itself invokes a machine
    inv = {"r": ckind if how == "invoke" else None, "k1": None, "k2": None}
    if gk_inv:
        inv[ckind] = gk_inv
    n_uuid = [0]
    cmds, ops = {}, []
    now = [0]
    dues = []

    def cmd(actor, acts):
        name = f"C{len(cmds)}"
        cmds[name] = acts
        ops.append(["cmd", actor, name])

    def delay():
        for _ in range(50):
            d = 10 * rng.randint(1, 9) + rng.choice([6, 7, 8, 9])
            if now[0] + d not in dues:
                dues.append(now[0] + d)
                return d
        return None

    def adv(dt):
        ops.append(["adv", dt])
        now[0] += dt

    def fin(actor, kind):
        from .c15_impl import POLL_MS
        while any(now[0] < d <= now[0] + POLL_MS for d in dues):
            adv(10)
        ops.append([kind, actor])
        now[0] += POLL_MS

    sib = rng.random() < 0.7
    if sib:
        cmd("r", [["spawnChild", rng.choice(KINDS), "s", "S1"]])
    if how == "invoke":
        ops.append(["cmd", "r", "GOINV"])
        n_uuid[0] += 1
        C = _iv(flavor, "r", ckind, n_uuid[0])
        csid = None
    else:
        csid = rng.choice([None, "S3"])
        sp = {"spawnChild": ["spawnChild", ckind, "a", csid], "spawn": ["spawn", ckind, "a", csid, False],
              "spawn-blocking": ["spawn", ckind, "a", csid, True], "spawnChild-blocking": ["spawnChild", "blocking_" + ckind, "a", csid]}[how]
        cmd("r", [sp])
        C = "r:a"
    below = []          # (id, systemId)
    acts = []
    for eid in rng.sample(["g", "h"], rng.choice([1, 1, 2])):
        gsid = "S2" if not any(b[1] for b in below) and rng.random() < 0.7 else None
        k = rng.choice(KINDS)
        acts.append(rng.choice([["spawnChild", k, eid, gsid], ["spawn", k, eid, gsid, rng.random() < 0.5], ["spawnChild", "blocking_" + k, eid, gsid]]))
        below.append((f"{C}:{eid}", gsid))
    cmd(C, acts)
    if gk_inv:
        ops.append(["cmd", C, "GOINV"])
        n_uuid[0] += 1
        below.append((_iv(flavor, C, gk_inv, n_uuid[0]), None))
    if rng.random() < 0.35:
        p = rng.choice(below)[0]
        cmd(p, [["spawnChild", rng.choice(KINDS), "x", None]])
        below.append((p + ":x", None))
    msg = [0]

    def sends(actor, is_below):
        out = []
        for _ in range(rng.choice([1, 2, 2, 3])):
            msg[0] += 1
            d = delay() if rng.random() < 0.75 else None
            sid = rng.choice(SENDIDS) if d and rng.random() < 0.5 else None
            tgts = ["S1", "S2", "S3", "parent"] + (["g", "h"] if actor == C else [])
            if is_below and rng.random() < 0.4:
                out.append(["sendParent", msg[0], d, sid])
            else:
                out.append(["sendTo", rng.choice(tgts), msg[0], d, sid])
        return out
    for b, _sid in rng.sample(below, min(len(below), rng.choice([1, 2]))):
        cmd(b, sends(b, True))
    if rng.random() < 0.5:
        cmd(C, sends(C, False))
    if rng.random() < 0.3:
        adv(rng.choice([10, 20]))
    # ---- somebody ends by itself
    enders = [C] if rng.random() < 0.7 else [rng.choice(below)[0], C]
    for e in enders:
        fin(e, "fail" if rng.random() < 0.25 else "fin")
        if rng.random() < 0.3:
            adv(rng.choice([10, 20]))
    # ---- afterwards
    for _ in range(rng.randint(1, 4)):
        r = rng.random()
        if r < 0.35:
            msg[0] += 1
            cmd("r", [["sendTo", rng.choice(["S2", "S2", "S1", "S3", "a", "iv", ckind]), msg[0], None, None]])
        elif r < 0.6:
            adv(rng.choice([20, 30, 50]))
        elif r < 0.7 and how != "invoke":
            cmd("r", [["stopChild", rng.choice(["a", "S3", ckind])]])
        elif r < 0.8:
            ops.append(["stop", rng.choice([C] + [b[0] for b in below])])
        elif r < 0.9 and how == "invoke":
            ops.append(["cmd", "r", "LEAVE"])
        else:
            cmd("r", [["stopChild", "S2"]])
    ops.append(["stop", "r"])
    adv(rng.choice([30, 100]))
    return {"id": f"c15-completion-{seed}-{i}", "kinds": KINDS, "invoke": inv, "cmds": cmds, "ops": ops, "completion": True,
            "eager": rng.random() < 0.75, "profile": "completion"}


# ------------------------------------------------------------------------------------------ model client
def f71_fixed():
    """the model follows the code (`Xsm/Model/ActorsDone.lean`, `SysD.fixed`): while F71 is OPEN in the ledger the async
    managing task of an invoked machine drops a child that finished by itself WITHOUT stopping it; once the finding has moved
    to `fixed` it stops it (`await child.stop()` whatever the status)"""
    return "F71" not in {f["id"] for f in core.load_findings().get("open", [])}


def model_lines(case, flavor):
    head = {"flavor": flavor, "eager": bool(case.get("eager", True)), "invoke": case.get("invoke") or {}, "cmds": case["cmds"],
            "f71fixed": f71_fixed()}
    return ["CASE " + json.dumps(head)] + ["OP " + json.dumps(op) for op in case["ops"]]


def run_model_many(cases, flavor):
    lines, spans = [], []
    for c in cases:
        ls = model_lines(c, flavor)
        spans.append((len(lines), len(ls)))
        lines.extend(ls)
    r = subprocess.run([DRIVER], input="\n".join(lines) + "\n", capture_output=True, text=True, timeout=600)
    if r.returncode != 0:
        raise RuntimeError(f"driver_actors exit {r.returncode}: {r.stderr[:400]}")
    out = r.stdout.split("\n")
    if out and out[-1] == "":
        out.pop()
    if len(out) != len(lines):
        raise RuntimeError(f"driver_actors answered {len(out)} lines for {len(lines)} commands")
    return [[json.loads(x) for x in out[a:a + n]] for a, n in spans]


def canon(o):
    return {"tree": o["tree"], "reg": sorted(o["reg"]), "det": sorted(o["det"]), "warn": sorted(o["warn"]),
            "afterstop": sorted(o["afterstop"])}


def diff(impl_obs, model_obs):
    """first difference, or None; comparison stops where the model leaves its fragment (`oos`)"""
    for i, (a, b) in enumerate(zip(impl_obs, model_obs)):
        if b.get("oos"):
            return None
        if b.get("inv") is False:
            # the hypotheses WF / Settled / Tidy of the supervision theorems must hold at every observation
            return {"step": i, "fields": ["inv"], "impl": None, "model": "invB = false: an observation point violates WF/Settled/Tidy"}
        ca, cb = canon(a), canon(b)
        if ca != cb:
            keys = [k for k in ca if ca[k] != cb[k]]
            return {"step": i, "fields": keys, "impl": {k: ca[k] for k in keys}, "model": {k: cb[k] for k in keys}}
    if len(impl_obs) != len(model_obs):
        return {"step": min(len(impl_obs), len(model_obs)), "fields": ["len"], "impl": len(impl_obs), "model": len(model_obs)}
    return None


# ------------------------------------------------------------------------------------------ pool
def _worker(args):
    from . import c15_impl
    return c15_impl.worker(args)


def run_impl_many(flavor, cases, timeout=8, batch=120):
    """every case on the real engine in the worker pool, in small batches: a worker that stops answering costs one
    batch deadline (then that batch is redone case by case), never the whole run"""
    import multiprocessing as mp
    out = []
    for i in range(0, len(cases), batch):
        args = [(flavor, c, timeout) for c in cases[i:i + batch]]
        try:
            out.extend(core.pool().map_async(_worker, args, chunksize=2).get(40 + 3 * (timeout + 1)))
            continue
        except mp.TimeoutError:
            core.close_pool()
        for a in args:
            try:
                out.append(core.pool().apply_async(_worker, (a,)).get(timeout * 2 + 10))
            except mp.TimeoutError:
                core.close_pool()
                out.append(("hang", "worker did not answer"))
    return out


# ------------------------------------------------------------------------------------------ known findings
def _open_findings():
    return [f for f in core.load_findings().get("open", []) if f["property"] == "C15"]


def classify(prob, case, flavor, open_f=None):
    from . import props
    for f in (open_f if open_f is not None else _open_findings()):
        fn = props.CLASSIFIERS.get(f.get("classifier"))
        if fn is None or f.get("flavor") not in (None, "any", flavor):
            continue
        try:
            if fn(prob, case, flavor):
                return f["id"]
        except Exception:
            continue
    return None


# ------------------------------------------------------------------------------------------ the check
def c15_actors(tier, seed, n_quick=120, scale=10):
    n = n_quick * (scale if tier == "thorough" else 1)
    open_f = _open_findings()
    ties, fails, samples = [], [], []
    evals = nontrivial = 0
    known = {}
    feats = {"actors": 0, "sends": 0, "ops": 0, "oos_cases": 0, "hang": 0}
    for flavor in ("sync", "async"):
        for prof in ("directed", "completion-directed") + PROFILES + ("completion",):
            cases = (directed_cases() if prof == "directed" else completion_directed(flavor) if prof == "completion-directed"
                     else [gen_completion_case(seed, i, flavor) for i in range(n)] if prof == "completion"
                     else [gen_case(seed, prof, i) for i in range(n)])
            ir = run_impl_many(flavor, cases)
            mr = run_model_many(cases, flavor)
            for c, (st, res), mobs in zip(cases, ir, mr):
                evals += 1
                if st != "ok":
                    # rule out a slow worker (loaded machine) before calling it a hang: once more, alone, generous watchdog
                    try:
                        st, res = core.pool().apply_async(_worker, ((flavor, c, 40),)).get(90)
                        feats["retried"] = feats.get("retried", 0) + 1
                    except Exception:
                        core.close_pool()
                if st != "ok":
                    feats["hang"] += 1
                    fails.append({"kind": "hang" if st == "hang" else "raw-exception", "flavor": flavor, "case": c,
                                  "detail": f"the real engine did not complete the op sequence: {st} {res}"})
                    continue
                feats["actors"] += res["n_actors"]
                feats["sends"] += res["n_sends"]
                feats["ops"] += len(c["ops"])
                if any(o.get("oos") for o in mobs):
                    feats["oos_cases"] += 1
                if c.get("completion"):
                    feats["completions"] = feats.get("completions", 0) + sum(1 for o in c["ops"] if o[0] in ("fin", "fail"))
                    if not any(o.get("oos") for o in mobs):
                        feats["completion_cases_tied_to_the_end"] = feats.get("completion_cases_tied_to_the_end", 0) + 1
                d = diff(res["obs"], mobs)
                if d is not None:
                    ties.append({"query": "actors", "flavor": flavor, "case": c, "first_difference": d})
                elif res["n_actors"] >= 3 and res["n_sends"] >= 2:
                    nontrivial += 1
                    if len(samples) < 2 and len(json.dumps(c)) < 1800:
                        samples.append({"flavor": flavor, "case": c, "final_tree": res["obs"][-1]["tree"]})
                oos_at = next((i for i, o in enumerate(mobs) if o.get("oos")), None)
                for p in res["problems"]:
                    if oos_at is not None and p["step"] >= oos_at:
                        continue            # the actor stopped itself / an ancestor through a systemId: outside the property
                    fid = classify(p, c, flavor, open_f)
                    if fid:
                        known[fid] = known.get(fid, 0) + 1
                    else:
                        fails.append({"kind": p["kind"], "flavor": flavor, "detail": p["detail"], "case": c, "problem": p})
    return {"evaluations": evals, "nontrivial": nontrivial, "ties": ties, "fails": fails, "samples": samples, "exhaustive": False,
            "known_finding_hits": known, "features": feats,
            "what": f"actor trees (depth<=3, fan-out<=3) x op sequences (spawnChild/spawn_/invoke, sendTo/sendParent/forwardTo/escalate "
                    f"with every addressing form, delayed sends, cancel, stopChild, stop) on both engines, {len(PROFILES)} profiles x {n} cases; "
                    f"children that END BY THEMSELVES (final state / failure) while they own live descendants - invoked, spawned, blocking or "
                    f"not, then sends through systemIds, stopChild, the parent's stop(): {len(completion_directed('sync'))} directed + {n} generated "
                    f"cases per engine, {feats.get('completions', 0)} completions, {feats.get('completion_cases_tied_to_the_end', 0)} of those runs "
                    f"tied to the model to the end (variant F71 {'fixed' if f71_fixed() else 'open'}); "
                    f"{feats['actors']} actors, {feats['sends']} sends/stops observed, known-finding hits {known}"}


# ------------------------------------------------------------------------------------------ replay of a finding
def replay_problems(c15case, flavor):
    from . import c15_impl
    st, res = c15_impl.run_guarded(flavor, c15case, 20)
    if st != "ok":
        return [{"kind": st, "step": -1, "detail": str(res)}]
    return res["problems"]


def main(argv):
    """python -m xsmverif.c15 --replay <file>: re-run a finding file (case.c15) or a VIOLATION replay written by
    ./check C15 (query.query.case) on the real engines and on the model, print problems and first difference"""
    if len(argv) < 3 or argv[1] != "--replay":
        print("usage: python -m xsmverif.c15 --replay <file>")
        return 2
    r = json.load(open(argv[2]))
    items = []
    if "case" in r and "c15" in r["case"]:
        fl = r.get("flavor", "any")
        items += [(f, r["case"]["c15"]) for f in (("sync", "async") if fl not in ("sync", "async") else (fl,))]
    q = (r.get("query") or {}).get("query") or {}
    if "case" in q:
        items.append((q.get("flavor", "sync"), q["case"]))
    for b in r.get("broken", []):
        fd = b.get("first_difference") or {}
        if isinstance(fd, dict) and "case" in fd:
            items.append((fd.get("flavor", "sync"), fd["case"]))
    rc = 0
    from . import c15_impl
    for fl, case in items:
        st, res = c15_impl.run_guarded(fl, case, 20)
        if st != "ok":
            print(f"[{fl}] implementation: {st} {res}")
            rc = 1
            continue
        if case.get("react"):
            # reacting machines: the model is driven with every reaction as an explicit command (c15react.py)
            from . import c15react
            why = c15react.tied(case, res)
            print(f"[{fl}] reactions run: {json.dumps(res['reacts'])[:1200]}")
            print(f"[{fl}] model/impl difference: " + (f"not compared ({why})" if why else json.dumps(c15react.tie_one(case, fl, res)[0])[:1500]))
        else:
            mobs = run_model_many([case], fl)[0]
            print(f"[{fl}] model/impl difference: {json.dumps(diff(res['obs'], mobs))[:1500]}")
        for p in res["problems"]:
            fid = classify(p, case, fl)
            print(f"[{fl}] {'known ' + fid if fid else 'VIOLATION'}: {p['kind']} step {p['step']}: {p['detail']}")
            if not fid:
                rc = 1
    core.close_pool()
    return rc


if __name__ == "__main__":
    import sys
    sys.exit(main(sys.argv))
