"""C12 for machines WITH child actors — q_check `c12_actor_trees` (code only + the tree model through `driver_snap TREE`).

A case (plain JSON, so that a finding file carries everything):
  machines : {"r": <config>, "k1": <config>, "k2": <config>}   root machine "r"; every other key is a `services` key
             whose value is the machine built from that config (one MachineLogic shared by all, as a user would write it)
  events   : [type, ...]                 sent to the ROOT interpreter, one after the other (public `send`)
  eager    : bool                        sync engine only: schedule of the watcher thread of a non-blocking spawn
  adv      : ms of virtual time that pass after every event (watcher threads / managing tasks poll)
  missing  : [service key, ...]          OPTIONAL — the keys left out of `services` when the snapshot is restored: the documented
                                         degraded mode (records are PARKED in `_pending_actor_snapshots` and re-emitted)
  factories: [service key, ...]          OPTIONAL — keys registered as a (synchronous) factory returning the machine
User actions: `inc` (context.n += 1), `rec` (context.log.append(event type)); everything else is a library built-in
(`spawnChild`, `spawn_<key>`, `spawn_blocking_<key>`, `sendTo`, `sendParent`, `stopChild`), with plain JSON params.

What is checked at every quiescent cut k (after start and after every event), on both engines:
  * `get_snapshot()` is a JSON object, equals `get_persisted_snapshot()`, and the dict taken at the cut has not changed when
    the original interpreter has finished its run (isolation);
  * `from_snapshot(snapshot, fresh machine)` + `start()`: the actor TREE (ids, parent/child structure, per actor: machine,
    status, configuration, context, remembered history, recorded service key), the systemId registry (`system.get_all()`:
    systemId -> actor id, and that the registered object IS the actor of the tree) and the resolution table (which actor each
    addressing form — full id, own segment, service key, systemId, `parent` — resolves to from each actor, i.e. what `sendTo`
    reaches) equal those of the original at the cut;
  * the re-snapshot of the restored interpreter equals the snapshot; also after a second save/restore cycle;
  * every continuation step (the remaining events, among them `sendTo` by id / key / systemId, spawns, `stopChild`,
    completions): tree + registry of the restored run equal those of the uninterrupted run after the same event.

DOCUMENTED EXCEPTIONS (not flagged; counted in the summary):
  * `from_snapshot`: "This method performs a static restoration. It does not re-run entry actions of the restored states or
    restart any invoked services or `after` timers that were active when the snapshot was taken."  A child MACHINE started by
    `invoke` is an in-flight service: a cut at which such an actor is alive is compared on the part of the tree outside the
    invoked actors only, and its continuation is not compared (the uninterrupted run receives `done.invoke.*`, the restored
    one cannot). The generated machines have no `after` timers and no delayed sends.
  * `_persist_actors`: "actors parked in `_pending_actor_snapshots` (their service was absent when this interpreter was
    restored) are re-emitted verbatim." / `__init__`: "Snapshots of child actors that could not be rebuilt on restore (their
    service was not registered). Preserved rather than dropped so no data is lost and the caller can recover them."  With
    `missing` keys the restored tree must be the original MINUS the parked subtrees, the registry the original minus the
    systemIds inside parked subtrees; the continuation is not compared (sends to a parked actor are dropped, as documented);
    the re-snapshot must reproduce the snapshot (that is what "re-emitted verbatim ... survive an arbitrary number of
    save/restore cycles" promises) and restoring THAT with every service present must give back the original tree and registry.
CUT HYPOTHESIS (C15's `RegLive`, counted as `insane`): every object in the registry is an actor of the tree. It fails only through
the open C15 finding F52 (sync, lazily scheduled watcher thread: a child stopped before it was started keeps running, unlisted);
an orphan is in no snapshot, so such a cut is skipped.
Everything else is a problem.  Open findings of this check: F60 F61 F62 F63 (classifiers at the end of this file; a difference that
one of them explains is put right BY HAND in the restored interpreter - F60: the lost registry entries - or re-run with the missing
piece supplied - F61: the watcher threads - so that every other check still runs on that cut).

T: the `actors` / `system` part of every real cut snapshot is round-tripped through the Lean tree model (`driver_snap TREE`,
`lean/Xsm/Model/SnapshotTree.lean`) with every / no / single services registered and compared with the library's own
`from_snapshot` + `get_snapshot` (`tie_trees`).
"""
from __future__ import annotations
import asyncio, copy, json, logging, os, random, signal, subprocess

from . import core, impl
from . import c15_impl as ci          # virtual-thread scheduler + threading/time shims of the sync engine, uuid counter

ROOT = "r"
INVOKE_ID = "iv"
DRIVER_SNAP = os.path.join(core.LEAN_DIR, ".lake", "build", "bin", "driver_snap")


# ------------------------------------------------------------------------------------------ logic + machines
def _logic():
    from xstate_statemachine import MachineLogic

    def inc(i, c, e, a):
        c["n"] = int(c.get("n", 0)) + 1

    def rec(i, c, e, a):
        c.setdefault("log", []).append(e.type)
    lg = MachineLogic()
    lg.actions = {"inc": inc, "rec": rec}
    lg.guards = {}
    lg.services = {}
    return lg


def build(case, missing=()):
    """root MachineNode over a FRESH logic; `services` holds every child kind not listed in `missing`"""
    from xstate_statemachine import create_machine
    lg = _logic()
    kinds = [k for k in case["machines"] if k != ROOT]
    nodes = {k: create_machine(copy.deepcopy(case["machines"][k]), logic=lg) for k in kinds}
    for k in kinds:
        if k in missing:
            continue
        if k in (case.get("factories") or ()):
            lg.services[k] = (lambda i, c, e, _n=nodes[k]: _n)
        else:
            lg.services[k] = nodes[k]
    return create_machine(copy.deepcopy(case["machines"][ROOT]), logic=lg)


# ------------------------------------------------------------------------------------------ observation
def _jsonable(v):
    try:
        return json.loads(json.dumps(v, default=str))
    except Exception:
        return repr(v)


def walk(root):
    """(depth, parent, child id in the parent's map, interpreter) in DFS / insertion order"""
    out, seen = [], set()

    def go(it, d, p, key):
        if id(it) in seen:
            return
        seen.add(id(it))
        out.append((d, p, key, it))
        for cid, c in list(it._actors.items()):
            go(c, d + 1, it, cid)
    go(root, 0, None, None)
    return out


def is_invoked(flavor, parent, cid):
    """was this child created by a machine-`invoke` (an in-flight service)?"""
    if parent is None:
        return False
    if flavor == "sync":
        return cid == f"{parent.id}:{INVOKE_ID}"
    return cid not in parent._actor_sources


def obs_tree(flavor, root, skip_invoked=False):
    def node(it, parent, cid):
        kids = []
        for k, c in list(it._actors.items()):
            if skip_invoked and is_invoked(flavor, it, k):
                continue
            kids.append(node(c, it, k))
        return {"id": it.id, "key": cid, "m": it.machine.id, "st": it.status,
                "cfg": sorted(n.id for n in it._active_state_nodes), "ctx": _jsonable(it.context),
                "hist": {k: [n.id for n in v] for k, v in it._history.items()},
                "out": _jsonable(it.output), "err": None if it.error is None else str(it.error),
                "src": None if parent is None else parent._actor_sources.get(cid),
                "parent_ok": (it.parent is parent), "parked": sorted(it._pending_actor_snapshots), "kids": kids}
    return node(root, None, None)


def tree_ids(t, depth=0, out=None):
    out = {} if out is None else out
    out.setdefault(t["id"], depth)
    for k in t["kids"]:
        tree_ids(k, depth + 1, out)
    return out


def obs_reg(root, skip_ids=()):
    """systemId -> [actor id, is the registered object the actor found under that id in the tree?]"""
    by_id = {}
    for _d, _p, _k, it in walk(root):
        by_id.setdefault(it.id, it)
    out = {}
    for sid, a in root.system.get_all().items():
        if any(a.id == s or a.id.startswith(s + ":") for s in skip_ids):
            continue
        out[sid] = [a.id, by_id.get(a.id) is a, a.status]
    return out


SPECS_FIXED = ["parent", "#parent", "zz"]


def specs_of(case):
    """every addressing form the case can use"""
    s = set(SPECS_FIXED) | {k for k in case["machines"] if k != ROOT}
    for cfg in case["machines"].values():
        for acts in _all_action_lists(cfg):
            for a in acts:
                if isinstance(a, dict):
                    p = a.get("params") or {}
                    for key in ("id", "systemId", "to"):
                        if isinstance(p.get(key), str):
                            s.add(p[key])
    return sorted(s)


def _all_action_lists(cfg):
    out = []

    def go(n):
        for ev, t in (n.get("on") or {}).items():
            for tt in (t if isinstance(t, list) else [t]):
                if isinstance(tt, dict) and tt.get("actions"):
                    out.append(tt["actions"])
        for k in ("entry", "exit"):
            if n.get(k):
                out.append(n[k])
        for s in (n.get("states") or {}).values():
            go(s)
    go(cfg)
    return out


def obs_resolve(flavor, root, specs, skip_invoked=False, skip_ids=()):
    """what `sendTo(spec)` issued by each actor of the tree would reach: {sender id: {spec: target id | None}}; full actor
    ids of the tree are added to the specs"""
    from xstate_statemachine.events import Event
    ev = Event(type="__probe__")
    nodes = walk(root)
    ids = [it.id for _d, _p, _k, it in nodes]
    out = {}
    for _d, p, k, it in nodes:
        if skip_invoked and _under_invoked(flavor, it):
            continue
        if any(it.id == s or it.id.startswith(s + ":") for s in skip_ids):
            continue
        if it.id in out:
            continue
        row = {}
        for spec in list(specs) + ids:
            try:
                t = it._resolve_actor_target(spec, ev)
            except Exception as x:  # noqa: BLE001
                t = None
                row[spec] = "EXC:" + type(x).__name__
                continue
            tid = None if t is None else t.id
            if tid is not None and skip_invoked and _under_invoked(flavor, t):
                tid = "<invoked>"
            if tid is not None and any(tid == s or tid.startswith(s + ":") for s in skip_ids):
                tid = "<parked>"
            row[spec] = tid
        out[it.id] = row
    return out


def _under_invoked(flavor, it):
    while it is not None and it.parent is not None:
        for cid, c in it.parent._actors.items():
            if c is it and is_invoked(flavor, it.parent, cid):
                return True
        it = it.parent
    return False


def invoked_alive(flavor, root):
    return [it.id for _d, p, k, it in walk(root) if p is not None and is_invoked(flavor, p, k)]


def first_diff(a, b, path=""):
    """first path at which two JSON-like values differ"""
    if type(a) != type(b):
        return f"{path or '.'}: {json.dumps(a, default=str)[:160]} vs {json.dumps(b, default=str)[:160]}"
    if isinstance(a, dict):
        for k in list(a) + [k for k in b if k not in a]:
            if k not in a:
                return f"{path}/{k}: <absent> vs {json.dumps(b[k], default=str)[:200]}"
            if k not in b:
                return f"{path}/{k}: {json.dumps(a[k], default=str)[:200]} vs <absent>"
            d = first_diff(a[k], b[k], f"{path}/{k}")
            if d:
                return d
        if list(a) != list(b):
            return f"{path or '.'}: key order {list(a)} vs {list(b)}"
        return None
    if isinstance(a, list):
        for i, (x, y) in enumerate(zip(a, b)):
            d = first_diff(x, y, f"{path}[{i}]")
            if d:
                return d
        if len(a) != len(b):
            return f"{path or '.'}: length {len(a)} vs {len(b)}"
        return None
    return None if a == b else f"{path or '.'}: {a!r} vs {b!r}"


# ------------------------------------------------------------------------------------------ engines
class _Engine:
    def __init__(self, flavor, case):
        self.flavor = flavor
        self.case = case
        self.uuid = ci._Uuid()
        self.adv_ms = int(case.get("adv", 30))
        self.roots = []

    def all_objs(self):
        out = []
        for r in self.roots:
            for _d, _p, _k, it in walk(r):
                if not any(it is x for x in out):
                    out.append(it)
        return out


class SyncEngine(_Engine):
    def __init__(self, case):
        super().__init__("sync", case)
        self.sched = ci.Sched(bool(case.get("eager", True)))

    def cls(self):
        from xstate_statemachine import SyncInterpreter
        return SyncInterpreter

    def __enter__(self):
        self.saved = (ci._si.uuid, ci._si.threading, ci._si.time)
        ci._si.uuid = self.uuid
        ci._si.threading = ci._ThreadingShim(self.sched)
        ci._si.time = ci._TimeShim(self.sched)
        return self

    def __exit__(self, *a):
        self.sched.kill()
        ci._si.uuid, ci._si.threading, ci._si.time = self.saved

    async def settle(self):
        self.sched.run_ready()
        if self.adv_ms:
            self.sched.advance(self.adv_ms / 1000.0)
            self.sched.run_ready()

    async def start(self, it):
        if not any(it is r for r in self.roots):
            self.roots.append(it)
        it.start()
        await self.settle()

    async def send(self, it, ev):
        it.send(ev)
        await self.settle()

    async def stop(self, it):
        it.stop()
        self.sched.run_ready()

    def quiescent(self, root):
        for _d, _p, _k, it in walk(root):
            if len(it._event_queue) or it._is_processing or it.status == "uninitialized":
                return False
        return True

    def watched(self):
        """ids of the children that have a live watcher thread (non-blocking spawns)"""
        return sorted(vt.name[len("actor-"):] for vt in self.sched.threads
                      if isinstance(vt.name, str) and vt.name.startswith("actor-") and vt.started and not vt.done)


class AsyncEngine(_Engine):
    def __init__(self, case):
        super().__init__("async", case)

    def cls(self):
        from xstate_statemachine import Interpreter
        return Interpreter

    def __enter__(self):
        self.saved = ci._ai.uuid
        ci._ai.uuid = self.uuid
        return self

    def __exit__(self, *a):
        ci._ai.uuid = self.saved

    async def _drain(self, rounds=3):
        for _ in range(20000):
            if impl._HUNG[0]:
                raise impl.Hang()
            await asyncio.sleep(0)
            busy = False
            for it in self.all_objs():
                if it.status == "running" and (it._processing or not it._event_queue.empty()):
                    busy = True
            if not busy:
                rounds -= 1
                if rounds <= 0:
                    return
        raise impl.Hang()

    async def settle(self):
        await self._drain()
        if self.adv_ms:
            await asyncio.sleep(self.adv_ms / 1000.0)
            await self._drain()

    async def start(self, it):
        if not any(it is r for r in self.roots):
            self.roots.append(it)
        await it.start()
        await self.settle()

    async def send(self, it, ev):
        await it.send(ev)
        await self.settle()

    async def stop(self, it):
        await it.stop()
        await self._drain(1)

    def quiescent(self, root):
        for _d, _p, _k, it in walk(root):
            if it.status == "running" and (it._processing or not it._event_queue.empty()):
                return False
            if it.status == "uninitialized":
                return False
        return True


def make_engine(flavor, case):
    return SyncEngine(case) if flavor == "sync" else AsyncEngine(case)


# ------------------------------------------------------------------------------------------ the cut-point run
def _observe(eng, root, specs, skip_invoked=False, skip_ids=()):
    return {"tree": obs_tree(eng.flavor, root, skip_invoked), "reg": obs_reg(root, skip_ids),
            "res": obs_resolve(eng.flavor, root, specs, skip_invoked, skip_ids)}


def _prune(tree, ids):
    """the tree without the subtrees rooted at `ids`"""
    t = dict(tree)
    t["kids"] = [_prune(k, ids) for k in tree["kids"] if k["id"] not in ids]
    return t


class ResumeRaised(Exception):
    """start() of a restored interpreter (the documented way to resume it) raised a library error"""


def _under(aid, ids):
    return any(aid == x or aid.startswith(x + ":") for x in ids)


def _lost_deep(snap_system, r_root):
    """entries of the snapshot's `system` that the restored root does not have although the actor they name was restored
    (is alive in the restored tree): [(systemId, actor id, depth, interpreter)]"""
    have = r_root.system.get_all()
    by_id = {}
    for d, _p, _k, it in walk(r_root):
        by_id.setdefault(it.id, (d, it))
    lost = []
    for sid, aid in (snap_system or {}).items():
        if sid not in have and aid in by_id:
            lost.append((sid, aid, by_id[aid][0], by_id[aid][1]))
    return lost


async def _restore(eng, case, snap_str, missing=(), uuid_n=None):
    """fresh machine, `from_snapshot`, `start()` (the documented way to resume). Returns (root, lost): `lost` lists the
    systemIds recorded in the snapshot for actors that WERE restored but sit below depth 1, and did not come back (classification
    of that one difference: they are put back by hand, so that every OTHER check still runs on this cut; with the library
    repaired there is nothing to put back)"""
    from xstate_statemachine.exceptions import XStateMachineError
    it = eng.cls().from_snapshot(snap_str, build(case, missing))
    if uuid_n is not None:
        eng.uuid.n = uuid_n
    try:
        await eng.start(it)
    except XStateMachineError as x:
        try:
            await eng.stop(it)
        except Exception:  # noqa: BLE001
            pass
        raise ResumeRaised(f"{type(x).__name__}: {x}") from x
    lost = []
    snap_system = json.loads(snap_str).get("system") or {}
    for sid, aid, depth, obj in _lost_deep(snap_system, it):
        if depth >= 2:
            lost.append({"system_id": sid, "actor": aid, "depth": depth})
            it._system[sid] = obj
    if lost:
        # ... in the order of the snapshot, which is the order the original registered them in
        entries = sorted(it._system.items(), key=lambda kv: list(snap_system).index(kv[0]) if kv[0] in snap_system else len(snap_system))
        it._system.clear()
        it._system.update(entries)
    return it, lost


def _attach_watchers(eng, root, watched):
    """CLASSIFICATION ONLY (sync engine): give the restored children listed in `watched` the watcher thread that
    `SyncInterpreter._spawn_actor` starts for a non-blocking spawn (minus `child.start()`), through the same shims"""
    n = 0
    for _d, p, cid, it in walk(root):
        if p is None or cid not in watched:
            continue

        def _runner(parent=p, child=it, actor_id=cid):
            try:
                while child.status == "running":
                    if any(s.is_final and s.parent == child.machine for s in child._active_state_nodes):
                        break
                    ci._si.time.sleep(0.01)
            finally:
                child.stop()
                if parent._actors.get(actor_id) is child:
                    parent._actors.pop(actor_id, None)
        ci._si.threading.Thread(target=_runner, daemon=True, name=f"actor-{cid}").start()
        n += 1
    return n


async def _cut_run(eng, case):
    from xstate_statemachine.exceptions import XStateMachineError
    events = list(case["events"])
    specs = specs_of(case)
    missing = tuple(case.get("missing") or ())
    res = {"status": "ok", "problems": [], "n_cuts": 0, "n_skipped": 0, "excepted_invoke_cuts": 0, "parked_cuts": 0,
           "continuations": 0, "cont_steps": 0, "max_actors": 0, "max_depth": 0, "sysids": 0, "deep_sysids": 0, "snaps": [],
           "order_only": 0, "insane_cuts": 0, "roundtrips": []}

    def problem(kind, k, detail, **kw):
        res["problems"].append({"kind": kind, "k": k, "detail": str(detail)[:900], **kw})

    base = eng.cls()(build(case))
    try:
        await eng.start(base)
    except XStateMachineError as x:
        res["status"] = "start-rejected:" + type(x).__name__
        return res
    cuts = []

    def take_cut(k):
        cut = {"k": k, "quiescent": eng.quiescent(base), "uuid": eng.uuid.n}
        s = base.get_snapshot()
        cut["snap"] = s
        try:
            dec = json.loads(s)
            if not isinstance(dec, dict):
                raise ValueError("not an object")
        except Exception as e:  # noqa: BLE001
            problem("snapshot-not-json", k, f"get_snapshot() is not a JSON object: {e}")
            cut["quiescent"] = False
            return cut
        cut["dec"] = dec
        cut["live_dict"] = base.get_persisted_snapshot()
        cut["dict_copy"] = copy.deepcopy(cut["live_dict"])
        if _jsonable(cut["dict_copy"]) != dec:
            problem("snapshot-forms-disagree", k, "get_snapshot() and get_persisted_snapshot() differ: " + str(first_diff(_jsonable(cut["dict_copy"]), dec)))
        cut["inv"] = invoked_alive(eng.flavor, base)
        cut["watched"] = eng.watched() if eng.flavor == "sync" else []
        cut["obs"] = _observe(eng, base, specs)
        ids = tree_ids(cut["obs"]["tree"])
        res["max_actors"] = max(res["max_actors"], len(ids))
        res["max_depth"] = max(res["max_depth"], max(ids.values()))
        res["sysids"] = max(res["sysids"], len(cut["obs"]["reg"]))
        res["deep_sysids"] = max(res["deep_sysids"], sum(1 for v in cut["obs"]["reg"].values() if ids.get(v[0], 0) >= 2))
        return cut

    cuts.append(take_cut(0))
    for i, ev in enumerate(events):
        try:
            await eng.send(base, ev)
        except XStateMachineError:
            res["send_errors"] = res.get("send_errors", 0) + 1
        cuts.append(take_cut(i + 1))
    # ---- the base run is over: everything below happens AFTER the original interpreter moved on
    for cut in cuts:
        k = cut["k"]
        if "live_dict" in cut and cut["live_dict"] != cut["dict_copy"]:
            problem("snapshot-aliased", k, "a persisted snapshot dict changed while the interpreter it was taken from went on: "
                    + str(first_diff(_jsonable(cut["dict_copy"]), _jsonable(cut["live_dict"]))))
        if not cut["quiescent"]:
            res["n_skipped"] += 1
            continue
        if any(not v[1] for v in cut["obs"]["reg"].values()):
            # hypothesis of the cut (C15's `RegLive`): every registered object is an actor of the tree. It fails only through
            # the open C15 finding F52 (sync, lazily scheduled watcher thread: a child stopped before it was started keeps
            # running, unlisted, and keeps its systemId) - an orphan is in no snapshot, nothing can be said about restoring it
            res["insane_cuts"] += 1
            continue
        res["n_cuts"] += 1
        if len(res["snaps"]) < 40:
            res["snaps"].append(cut["dec"])
            kinds = [x for x in case["machines"] if x != ROOT]
            subsets = [[x for x in kinds if x not in missing], []] + [[x] for x in kinds]
            for av in subsets[:(4 if k % 2 == 0 else 2)]:
                try:
                    res["roundtrips"].append(_lib_roundtrip(eng, case, cut["snap"], av))
                except XStateMachineError as x:
                    problem("own-snapshot-rejected", k, f"from_snapshot (services {av}) rejected the interpreter's own snapshot: {type(x).__name__}: {x}")
        await _check_cut(eng, case, cut, cuts, events, specs, missing, res, problem)
    await eng.stop(base)
    return res


def _lib_roundtrip(eng, case, snap_str, avail):
    """the library's own round trip of a snapshot with `avail` as the registered services (no start(): nothing runs):
    what the tree model is compared with"""
    kinds = [x for x in case["machines"] if x != ROOT]
    it = eng.cls().from_snapshot(snap_str, build(case, [x for x in kinds if x not in avail]))
    nodes = walk(it)
    return {"snap": json.loads(snap_str), "services": list(avail), "resnap": json.loads(it.get_snapshot()),
            "live": [n.id for _d, _p, _k, n in nodes[1:]],
            "parked": [pid for _d, _p, _k, n in nodes for pid in n._pending_actor_snapshots],
            "sys": {sid: a.id for sid, a in it._system.items()}, "pend": dict(getattr(it, "_pending_system_ids", {}))}


def _sorted_kids(t):
    """the tree with every children list sorted by id (the order of `_actors` is compared separately)"""
    t = dict(t)
    t.pop("parked", None)
    t["kids"] = sorted((_sorted_kids(c) for c in t["kids"]), key=lambda c: c["id"])
    return t


def _kid_order(t, out=None):
    out = [] if out is None else out
    out.append([t["id"], [c["id"] for c in t["kids"]]])
    for c in t["kids"]:
        _kid_order(c, out)
    return out


async def _check_cut(eng, case, cut, cuts, events, specs, missing, res, problem):
    from xstate_statemachine.exceptions import XStateMachineError
    k = cut["k"]
    O = cut["obs"]
    snap = cut["snap"]
    dec = cut["dec"]
    inv = list(cut["inv"])
    lost_seen = []

    def note_lost(lost, where):
        for l in lost:
            key = (l["system_id"], l["actor"])
            if key not in lost_seen:
                lost_seen.append(key)
                problem("system-entry-of-deep-actor-lost-on-restore", k,
                        f"{where}: systemId {l['system_id']!r} -> {l['actor']} (depth {l['depth']}) is in the snapshot's `system` and the actor "
                        f"was restored, but system.get_all() of the restored root has no such entry", lost=l, where=where)

    try:
        R, lost = await _restore(eng, case, snap, missing, cut["uuid"])
    except XStateMachineError as x:
        problem("own-snapshot-rejected", k, f"from_snapshot rejected the interpreter's own snapshot: {type(x).__name__}: {x}")
        return
    except ResumeRaised as x:
        problem("start-of-restored-raises", k, f"from_snapshot accepted the snapshot, start() of the restored interpreter raised {x}", message=str(x),
                stopped_listed=[a[0] for a in _facts(O["tree"]) if a[1] == "stopped"])
        return
    note_lost(lost, "restore")
    parked = sorted(pid for _d, _p, _k, it in walk(R) for pid in it._pending_actor_snapshots)
    # ---- which part of the tree the documented exceptions take out of the comparison
    #   invoked child machines (in-flight services): not restarted; the async engine parks their record (it has no `src`)
    #   records whose service key is in `missing`: parked, with everything below them (it stays inside the record)
    expected_parked = []

    def find(t):
        for c in t["kids"]:
            if c["id"] in inv:
                if eng.flavor == "async":
                    expected_parked.append(c["id"])
            elif c["src"] in missing:
                expected_parked.append(c["id"])
            else:
                find(c)
    find(O["tree"])
    if inv:
        res["excepted_invoke_cuts"] += 1
    if any(not _under(p, inv) for p in expected_parked):
        res["parked_cuts"] += 1
    skip_ids = tuple(expected_parked) + tuple(inv)
    o_tree = _prune(O["tree"], skip_ids)
    if sorted(parked) != sorted(expected_parked):
        problem("parked-set-differs", k, f"parked records {parked}, expected {sorted(expected_parked)} (service key in `missing` {list(missing)}, "
                f"or an invoked machine on the async engine: {inv})", missing=list(missing))

    # addressing forms that can match an excepted actor (its id segments, its service key / machine id): whether they are
    # unique, ambiguous or unresolved depends on that actor being there
    tainted = set()

    def taint(t):
        for c in t["kids"]:
            if c["id"] in skip_ids:
                tainted.update(c["id"].split(":"))
                tainted.update(x for x in (c["m"], c["src"]) if x)
            else:
                taint(c)
    taint(O["tree"])

    def expected(Ofull):
        """the original's registry / resolution table with the excepted parts taken out; a (sender, spec) whose target in the
        ORIGINAL is excepted, or whose spec can match an excepted actor, is not compared"""
        reg = {s: v for s, v in Ofull["reg"].items() if not _under(v[0], skip_ids)}
        resm, dropped = {}, set()
        for sender, row in Ofull["res"].items():
            if _under(sender, skip_ids):
                continue
            resm[sender] = {}
            for sp, t in row.items():
                if sp in tainted or _under(sp, skip_ids) or (isinstance(t, str) and _under(t, skip_ids)):
                    dropped.add((sender, sp))
                    continue
                resm[sender][sp] = t
        return reg, resm, dropped

    def got(root, dropped):
        g = _observe(eng, root, specs)
        t = _prune(g["tree"], skip_ids)
        reg = {s: v for s, v in g["reg"].items() if not _under(v[0], skip_ids)}
        resm = {}
        for sender, row in g["res"].items():
            if _under(sender, skip_ids):
                continue
            resm[sender] = {sp: tt for sp, tt in row.items() if (sender, sp) not in dropped and not _under(sp, skip_ids)}
        return t, reg, resm

    def compare_state(root, where):
        ereg, eres, dropped = expected(O)
        t, reg, resm = got(root, dropped)
        d = first_diff(_sorted_kids(o_tree), _sorted_kids(t))
        if d:
            problem("restored-tree-differs", k, f"{where}: actor tree (original vs restored) differs at {d}", where=where)
            return True
        if _kid_order(o_tree) != _kid_order(t):
            if missing:
                res["order_only"] += 1          # parked records are re-emitted after the live ones: documented degraded mode
            else:
                problem("actor-order-differs", k, f"{where}: order of the children maps {_kid_order(o_tree)} vs {_kid_order(t)}", where=where)
        d = first_diff(ereg, reg)
        if d:
            problem("restored-registry-differs", k, f"{where}: system.get_all() (original vs restored) differs at {d}", where=where,
                    original=ereg, restored=reg)
            return True
        d = first_diff(eres, resm)
        if d:
            problem("restored-addressing-differs", k, f"{where}: what sendTo resolves to (/sender/spec: original vs restored) differs at {d}", where=where)
            return True
        return False

    bad0 = compare_state(R, "at the cut")
    # ---- re-snapshot reproduces the snapshot (1 cycle), and again after a second save/restore (2 cycles)
    real_parked = [p for p in expected_parked if not _under(p, inv)]

    def snap_diff(rs_text, where):
        try:
            b = json.loads(rs_text)
        except Exception:
            problem("resnapshot-not-json", k, where)
            return
        a = dec
        if a == b and (expected_parked or first_diff(a, b) is None):
            return          # parked records are re-emitted after the live ones (documented degraded mode): key order only
        if a == b:
            problem("resnapshot-key-order-differs", k, f"{where}: {first_diff(a, b)}", where=where)
            return
        keys = sorted(kk for kk in set(a) | set(b) if a.get(kk) != b.get(kk))
        if real_parked and keys == ["system"]:
            # systemIds that point INTO parked records: reported under their own kind
            sa, sb = a.get("system") or {}, b.get("system") or {}
            gone = {s: v for s, v in sa.items() if s not in sb}
            if gone and all(_under(v, real_parked) for v in gone.values()) and {s: v for s, v in sa.items() if s not in gone} == sb:
                problem("system-entry-of-parked-actor-dropped", k, f"{where}: the re-snapshot carries the parked records {sorted(real_parked)} "
                        f"forward verbatim but not the systemIds that name them or actors inside them: {gone}", gone=gone, where=where, missing=list(missing))
                return
        problem("resnapshot-differs", k, f"{where}: keys {keys}: first difference (snapshot vs re-snapshot) {first_diff(a, b)}", keys=keys, where=where)

    rs1 = R.get_snapshot()
    snap_diff(rs1, "re-snapshot of the restored interpreter")
    try:
        R2, lost2 = await _restore(eng, case, rs1, missing, cut["uuid"])
        note_lost(lost2, "second restore")
        if not bad0:
            compare_state(R2, "after two save/restore cycles")
        snap_diff(R2.get_snapshot(), "re-snapshot after two save/restore cycles")
        await eng.stop(R2)
    except (XStateMachineError, ResumeRaised) as x:
        problem("own-snapshot-rejected", k, f"from_snapshot / start() rejected the re-snapshot: {type(x).__name__}: {x}")
    # ---- parked records must come back alive when the service is there again ("the caller can recover them")
    if real_parked and not inv:
        try:
            R3, lost3 = await _restore(eng, case, rs1, (), cut["uuid"])
            note_lost(lost3, "restore of the re-snapshot with every service present")
            t3 = _observe(eng, R3, specs)
            d = first_diff(_sorted_kids(O["tree"]), _sorted_kids(t3["tree"]))
            if d:
                problem("parked-record-not-recoverable", k, f"restoring the re-snapshot (taken with {list(missing)} missing) with every service present: tree differs at {d}")
            gone = {s: v[0] for s, v in O["reg"].items() if s not in t3["reg"]}
            kept = {s: v for s, v in O["reg"].items() if s not in gone}
            other = None if kept == t3["reg"] else first_diff(kept, t3["reg"])      # (degraded mode: the order is not compared)
            if gone or other:
                inside = all(_under(v, real_parked) for v in gone.values())
                problem("system-entry-of-parked-actor-dropped" if (inside and not other) else "restored-registry-differs", k,
                        f"restoring the re-snapshot (taken with {list(missing)} missing) with every service present: the actors are back, "
                        f"their systemIds {gone} are not" + (f"; other difference {other}" if other else ""), gone=gone, where="recovery", missing=list(missing))
            await eng.stop(R3)
        except (XStateMachineError, ResumeRaised) as x:
            problem("own-snapshot-rejected", k, f"from_snapshot / start() rejected the re-snapshot with parked records: {type(x).__name__}: {x}")
    # ---- every continuation (not with a degraded `services`, not while an invoked machine is in flight)
    if inv or missing or bad0:
        await eng.stop(R)
        return
    res["continuations"] += 1

    async def run_cont(root, count):
        for j, ev in enumerate(events[k:]):
            try:
                await eng.send(root, ev)
            except XStateMachineError:
                pass
            oc = cuts[k + 1 + j]
            if "obs" not in oc or oc["inv"]:
                return None     # an invoke started in the continuation is in flight in both runs: compared up to here
            if count:
                res["cont_steps"] += 1
            t = _observe(eng, root, specs)
            d = first_diff(_sorted_kids(oc["obs"]["tree"]), _sorted_kids(t["tree"]))
            what = "tree"
            if not d and _kid_order(oc["obs"]["tree"]) != _kid_order(t["tree"]):
                d = f"order of the children maps {_kid_order(oc['obs']['tree'])} vs {_kid_order(t['tree'])}"
                what = "order"
            if not d:
                d = first_diff(oc["obs"]["reg"], t["reg"])
                what = "registry"
            if not d:
                d = first_diff(oc["obs"]["res"], t["res"])
                what = "addressing"
            if d:
                return {"step": j, "what": what, "event": ev, "d": d, "original": _facts(oc["obs"]["tree"]), "restored": _facts(t["tree"])}
        return None

    diff = await run_cont(R, True)
    await eng.stop(R)
    if diff is not None:
        vanishes = None
        unwatched = [w for w in cut["watched"] if w in tree_ids(O["tree"])]
        if eng.flavor == "sync" and unwatched:
            # classification: does the difference disappear when the restored children get back the watcher thread that a
            # non-blocking spawn gave them in the original?
            R4, _l4 = await _restore(eng, case, snap, missing, cut["uuid"])
            _attach_watchers(eng, R4, unwatched)
            vanishes = (await run_cont(R4, False)) is None
            await eng.stop(R4)
        problem("continuation-differs", k, f"cut after {k} events, continuation step {diff['step']} ({diff['event']}): {diff['what']} "
                f"(uninterrupted vs restored) differs at {diff['d']}", step=diff["step"], what=diff["what"], event=diff["event"],
                original=diff["original"], restored=diff["restored"], children_without_watcher_thread=unwatched,
                vanishes_with_watcher_threads=vanishes)


def _facts(tree):
    """flat view of a tree for classifiers: [[id, status, src, depth]]"""
    out = []

    def go(t, d):
        out.append([t["id"], t["st"], t["src"], d])
        for c in t["kids"]:
            go(c, d + 1)
    go(tree, 0)
    return out


# ------------------------------------------------------------------------------------------ guarded execution
def _run_in_loop(coro_fn, *a):
    loop = impl.VirtualLoop()
    loop.set_exception_handler(lambda _l, _c: None)
    asyncio.set_event_loop(loop)
    try:
        return loop.run_until_complete(coro_fn(*a))
    finally:
        try:
            for t in asyncio.all_tasks(loop):
                t.cancel()
            loop.run_until_complete(asyncio.sleep(0))
        except BaseException:
            pass
        loop.close()
        asyncio.set_event_loop(None)


def _run(flavor, case):
    logging.disable(logging.ERROR)
    try:
        with make_engine(flavor, case) as eng:
            return _run_in_loop(_cut_run, eng, case)
    finally:
        logging.disable(logging.WARNING)


def run_guarded(flavor, case, timeout=30):
    """one case under the SIGALRM watchdog: ('ok', res) | ('hang', None) | ('crash', text)"""
    old = signal.signal(signal.SIGALRM, impl._alarm)
    impl._HUNG[0] = False
    signal.setitimer(signal.ITIMER_REAL, timeout, 0.2)
    try:
        r = _run(flavor, case)
        signal.setitimer(signal.ITIMER_REAL, 0)
        if impl._HUNG[0]:
            return ("hang", None)
        return ("ok", r)
    except impl.Hang:
        signal.setitimer(signal.ITIMER_REAL, 0)
        return ("hang", None)
    except Exception as x:  # noqa: BLE001 — a raw exception escaping the public API
        signal.setitimer(signal.ITIMER_REAL, 0)
        if impl._HUNG[0]:
            return ("hang", None)
        import traceback
        return ("crash", f"RAW:{type(x).__name__}: {x} @ {traceback.format_exc()[-600:]}")
    finally:
        signal.setitimer(signal.ITIMER_REAL, 0)
        signal.signal(signal.SIGALRM, old)


def worker(args):
    flavor, case, timeout = args
    try:
        return run_guarded(flavor, case, timeout)
    except impl.Hang:
        for _ in range(10):
            try:
                signal.setitimer(signal.ITIMER_REAL, 0)
                break
            except impl.Hang:
                continue
        return ("hang", None)
    except BaseException as e:  # noqa: BLE001
        return ("crash", f"HARNESS:{type(e).__name__}: {e}"[:300])


# ------------------------------------------------------------------------------------------ machines of a case
def machine_config(kind, cmds, invoke=None, entry=None):
    """one machine kind: a compound state with history + a final state (so that the child's own snapshot has something to
    restore), PING/PONG recorders, and the command events `cmds` = {event: [action, ...]} on the machine root"""
    on = {ev: {"actions": acts} for ev, acts in cmds.items()}
    on.setdefault("PING", {"actions": ["rec", "inc"]})
    on.setdefault("PONG", {"actions": ["rec"]})
    cfg = {"id": kind, "initial": "a", "context": {"n": 0, "log": []}, "on": on,
           "states": {
               "a": {"on": {"T": "b", "H": "b.h", "GOINV": "inv"}},
               "b": {"initial": "b1", "on": {"T": "a", "FIN": "fin"},
                     "states": {"b1": {"on": {"U": "b2"}}, "b2": {"on": {"U": "b1"}}, "h": {"type": "history"}}},
               "inv": {"on": {"LEAVE": "a"}},
               "fin": {"type": "final"}}}
    if entry:
        cfg["entry"] = entry
    if invoke:
        cfg["states"]["inv"]["invoke"] = {"src": invoke, "id": INVOKE_ID, "onDone": {"target": "a", "actions": ["rec"]}}
    return cfg


def A_spawn(key, eid=None, sid=None, form="spawnChild"):
    if form == "spawnChild":
        return {"type": "spawnChild", "params": {"src": key, "id": eid, "systemId": sid}}
    return {"type": ("spawn_blocking_" if form == "blocking" else "spawn_") + key, "params": {"id": eid, "systemId": sid}}


def A_send(to, ev):
    return {"type": "sendTo", "params": {"to": to, "event": {"type": ev}}}


def A_stop(target):
    return {"type": "stopChild", "params": {"id": target}}


A_PARENT = {"type": "sendParent", "params": {"event": {"type": "PONG"}}}


# ------------------------------------------------------------------------------------------ generator
KINDS = ["k1", "k2"]
EIDS = ["a", "b"]
GIDS = ["g", "h"]
SIDS = ["S1", "S2"]
GSIDS = ["G1", "G2"]
CHILD_EVS = ["PING", "T", "U", "H", "FIN", "T", "PING"]
PROFILES = ("spawn", "deep", "lifecycle", "invoke", "missing", "mixed")


def gen_case(seed, profile, i):
    rng = random.Random(f"c12a/{seed}/{profile}/{i}")
    deep = profile in ("deep", "mixed", "missing", "lifecycle") or rng.random() < 0.3
    forms = ["spawnChild", "spawn", "blocking"]

    def spawn_action(eids, sids, p_sid):
        key = rng.choice(KINDS)
        eid = rng.choice(eids) if rng.random() < 0.6 else None
        sid = rng.choice(sids) if rng.random() < p_sid else None
        return A_spawn(key, eid, sid, rng.choice(forms))

    # ---- commands of the child kinds (run by a child when its parent sends X<j>)
    child_cmds = {}
    for kind in KINDS:
        cmds = {}
        for j in range(3):
            acts = []
            for _ in range(rng.randint(1, 2)):
                r = rng.random()
                if deep and (r < 0.45 or (j == 0 and not acts)):
                    acts.append(spawn_action(GIDS, GSIDS, 0.6 if profile in ("deep", "missing") else 0.4))
                elif r < 0.65:
                    acts.append(A_send(rng.choice(GIDS + GSIDS + KINDS + SIDS), rng.choice(CHILD_EVS)))
                elif r < 0.75 and profile in ("lifecycle", "mixed"):
                    acts.append(A_stop(rng.choice(GIDS + GSIDS + KINDS)))
                elif r < 0.9:
                    acts.append(dict(A_PARENT))
                else:
                    acts.append("inc")
            cmds[f"X{j}"] = acts
        child_cmds[kind] = cmds
    # ---- commands of the root
    n_cmd = rng.randint(4, 7)
    root_cmds = {}
    targets = EIDS + ["r:a", "r:b"] + KINDS + SIDS + GSIDS + ["zz", "r:k1:u1", "r:k2:u2", "u1"]
    for j in range(n_cmd):
        acts = []
        for _ in range(rng.randint(1, 3)):
            r = rng.random()
            if j == 0 or r < 0.25:
                acts.append(spawn_action(EIDS, SIDS, 0.5))
            elif r < 0.8:
                evs = CHILD_EVS + ["X0", "X1", "X2", "X0"]
                if profile in ("lifecycle",):
                    evs = evs + ["FIN", "FIN"]
                if profile == "invoke":
                    evs = evs + ["GOINV", "LEAVE"]
                acts.append(A_send(rng.choice(targets), rng.choice(evs)))
            elif r < 0.92 and profile in ("lifecycle", "mixed", "spawn"):
                acts.append(A_stop(rng.choice(EIDS + SIDS + KINDS + GSIDS)))
            else:
                acts.append(rng.choice(["inc", "rec"]))
        root_cmds[f"E{j}"] = acts
    inv = {ROOT: None, "k1": None, "k2": None}
    if profile == "invoke":
        inv[ROOT] = rng.choice(KINDS)
        if rng.random() < 0.4:
            inv["k1"] = "k2"
    machines = {ROOT: machine_config(ROOT, root_cmds, invoke=inv[ROOT])}
    for kind in KINDS:
        machines[kind] = machine_config(kind, child_cmds[kind], invoke=inv[kind])
    # ---- events
    n_ev = rng.randint(5, 9)
    pool = list(root_cmds) * 3 + ["T", "U", "H", "PING"]
    if profile == "invoke":
        pool += ["GOINV", "LEAVE", "GOINV"]
    if rng.random() < 0.15:
        pool.append("FIN")
    events = ["E0"] + [rng.choice(pool) for _ in range(n_ev - 1)]
    case = {"id": f"c12a-{profile}-{seed}-{i}", "profile": profile, "machines": machines, "events": events,
            "eager": rng.random() < 0.75, "adv": 30}
    if profile == "missing":
        case["missing"] = [rng.choice(KINDS)] if rng.random() < 0.8 else list(KINDS)
    if rng.random() < 0.15:
        case["factories"] = [rng.choice(KINDS)]
    return case


def directed_cases():
    """fixed scenarios run on every check, whatever the seed"""
    D = []

    def add(name, root_cmds, k1_cmds, k2_cmds, events, **kw):
        inv = kw.pop("invoke", {})
        D.append(dict({"id": "c12a-directed-" + name, "profile": "directed", "eager": True, "adv": 30, "events": events,
                       "machines": {ROOT: machine_config(ROOT, root_cmds, invoke=inv.get(ROOT)),
                                    "k1": machine_config("k1", k1_cmds, invoke=inv.get("k1")),
                                    "k2": machine_config("k2", k2_cmds)}}, **kw))
    add("grandchild-systemid", {"E0": [A_spawn("k1", "a", "S1")], "E1": [A_send("a", "X0")], "E2": [A_send("G1", "PING")], "E3": [A_send("S1", "PING")]},
        {"X0": [A_spawn("k2", "g", "G1")]}, {}, ["E0", "E1", "E2", "E3", "T"])
    add("auto-ids", {"E0": [A_spawn("k1", None, "S1"), A_spawn("k1", None, None, "blocking")], "E1": [A_send("S1", "X0")], "E2": [A_send("k1", "PING")],
                     "E3": [A_stop("S1")], "E4": [A_spawn("k2", None, None)]},
        {"X0": [A_spawn("k2", None, None), dict(A_PARENT)]}, {}, ["E0", "E1", "E2", "E4", "E3", "E2", "E4"])
    add("child-completes", {"E0": [A_spawn("k1", "a", "S1", "spawn"), A_spawn("k2", "b", "S2", "blocking")], "E1": [A_send("a", "T"), A_send("b", "T")],
                            "E2": [A_send("a", "FIN"), A_send("b", "FIN")], "E3": [A_send("S1", "PING"), A_send("S2", "PING")]},
        {}, {}, ["E0", "E1", "E2", "E3", "E0"])
    add("stop-child", {"E0": [A_spawn("k1", "a", "S1"), A_spawn("k2", "b", "S2")], "E1": [A_send("a", "X0")], "E2": [A_stop("S1")], "E3": [A_send("G1", "PING"), A_send("S2", "PING")]},
        {"X0": [A_spawn("k2", "g", "G1")]}, {}, ["E0", "E1", "E3", "E2", "E3", "E0"])
    add("sibling-by-systemid", {"E0": [A_spawn("k1", "a", "S1"), A_spawn("k2", "b", "S2")], "E1": [A_send("a", "X0")], "E2": [A_send("a", "X1")]},
        {"X0": [A_send("S2", "PING")], "X1": [A_spawn("k2", "g", "G1"), A_send("G1", "T")]}, {}, ["E0", "E1", "E2", "E1", "H"])
    add("missing-service", {"E0": [A_spawn("k1", "a", "S1"), A_spawn("k2", "b", "S2")], "E1": [A_send("a", "X0")], "E3": [A_send("S1", "PING")]},
        {"X0": [A_spawn("k2", "g", "G1")]}, {}, ["E0", "E1", "E3"], missing=["k1"])
    add("invoke-machine", {"E0": [A_spawn("k2", "b", "S2")], "E1": [A_send("k1", "FIN")], "E2": [A_send(INVOKE_ID, "T")]}, {}, {},
        ["E0", "GOINV", "E2", "E1", "T", "GOINV", "LEAVE", "E0"], invoke={ROOT: "k1"})
    add("factory", {"E0": [A_spawn("k1", "a", "S1", "blocking")], "E1": [A_send("a", "T")], "E2": [A_send("S1", "PING")]}, {}, {}, ["E0", "E1", "E2"], factories=["k1"])
    return D


# ------------------------------------------------------------------------------------------ the q_check
def _pool_map(args, per_item=6):
    import multiprocessing as mp
    budget = 90 + per_item * (len(args) / 4 + 1)
    try:
        return core.pool().map_async(worker, args, chunksize=2).get(budget)
    except mp.TimeoutError:
        core.close_pool()
        out = []
        for a in args:
            try:
                out.append(core.pool().apply_async(worker, (a,)).get(a[-1] * 2 + 10))
            except mp.TimeoutError:
                core.close_pool()
                out.append(("hang", None))
        return out


def _explained(prob, flavor, open_f):
    for f in open_f:
        fn = CLASSIFIERS.get(f.get("classifier"))
        if fn is None or f.get("flavor") not in (None, "any", flavor):
            continue
        try:
            if fn(prob, prob.get("case") or {}, flavor):
                return f["id"]
        except Exception:
            continue
    return None


def c12_actor_trees(tier, seed, n_quick=50, scale=8):
    n = n_quick * (scale if tier == "thorough" else 1)
    fails, ties, samples = [], [], []
    evals = nontrivial = 0
    tot = {"cuts": 0, "skipped": 0, "insane": 0, "invoke_cuts": 0, "parked_cuts": 0, "continuations": 0, "cont_steps": 0, "order_only": 0,
           "max_actors": 0, "max_depth": 0, "deep_sysid_cases": 0}
    snaps = []
    open_f = [f for f in core.load_findings().get("open", []) if f.get("property") == "C12"]
    known, known_rep = {}, {}
    for flavor in ("sync", "async"):
        cases = directed_cases() + [gen_case(seed, prof, i) for prof in PROFILES for i in range(n)]
        rs = _pool_map([(flavor, c, 40) for c in cases])
        retried = 0
        for c, (st, res) in zip(cases, rs):
            evals += 1
            if st == "hang" and retried < 12:
                # a watchdog cut (or an unanswered worker) on a loaded machine is not a verdict: once more, alone
                retried += 1
                st, res = worker((flavor, c, 120))
            if st != "ok":
                fails.append({"kind": "hang" if st == "hang" else "raw-exception", "flavor": flavor, "case": _payload(c),
                              "detail": f"cut-point run over an actor tree ended with {st}: {res}"})
                continue
            if res["status"] != "ok":
                continue
            tot["cuts"] += res["n_cuts"]
            tot["skipped"] += res["n_skipped"]
            tot["insane"] += res["insane_cuts"]
            tot["invoke_cuts"] += res["excepted_invoke_cuts"]
            tot["parked_cuts"] += res["parked_cuts"]
            tot["continuations"] += res["continuations"]
            tot["cont_steps"] += res["cont_steps"]
            tot["order_only"] += res["order_only"]
            tot["max_actors"] = max(tot["max_actors"], res["max_actors"])
            tot["max_depth"] = max(tot["max_depth"], res["max_depth"])
            tot["deep_sysid_cases"] += 1 if res["deep_sysids"] else 0
            if res["max_actors"] >= 3 and res["n_cuts"] >= 3:
                nontrivial += 1
            snaps.extend((flavor, c, rt) for rt in res["roundtrips"])
            for p in res["problems"]:
                f = dict(p, flavor=flavor, case=_payload(c))
                fid = _explained(f, flavor, open_f)
                if fid is None:
                    fails.append(f)
                else:
                    known[fid] = known.get(fid, 0) + 1
                    known_rep.setdefault(fid, f)
            if len(samples) < 2 and res["max_depth"] >= 2 and not res["problems"] and len(json.dumps(c)) < 6000:
                samples.append({"flavor": flavor, "case_id": c["id"], "events": c["events"], "cuts": res["n_cuts"], "actors": res["max_actors"],
                                "last_snapshot_actors_system": {k: res["snaps"][-1].get(k) for k in ("actors", "system")} if res["snaps"] else None})
    # check.py looks at the first 200 failures only: the unexplained ones come first, then ONE representative per open finding
    # (check.py classifies it again and prints the KNOWN-FINDING line)
    fails.extend(known_rep.values())
    n_tree, tree_ties = tie_trees(snaps)
    ties.extend(tree_ties)
    what = (f"{evals} (engine, case) runs over machines whose actions spawn child machines (explicit / generated ids, with / without systemId, "
            f"spawnChild / spawn_ / spawn_blocking_, two levels, children that complete or are stopped, machine-invoke, factories, restore with a "
            f"service missing): {tot['cuts']} quiescent cuts ({tot['skipped']} non-quiescent and {tot['insane']} with a registered object outside the tree - open C15 finding F52 - skipped), up to {tot['max_actors']} actors / depth "
            f"{tot['max_depth']}, {tot['deep_sysid_cases']} runs with a systemId below depth 1; at every cut: snapshot is JSON and isolated, "
            f"from_snapshot + start(): tree / registry / addressing table equal the original's, re-snapshot identical after 1 and 2 cycles, "
            f"{tot['continuations']} continuations ({tot['cont_steps']} steps) equal to the uninterrupted run. Documented exceptions: "
            f"{tot['invoke_cuts']} cuts with an invoked machine in flight (its subtree and the continuation not compared), {tot['parked_cuts']} cuts "
            f"restored with a service missing (parked records: tree minus parked subtrees, re-snapshot must carry them forward, recovery with the "
            f"service present; {tot['order_only']} with only the order of the children map changed). {n_tree} actors/system parts of real snapshots "
            f"round-tripped through the Lean tree model (driver_snap TREE, variant {model_variant()}: it follows the open findings) with every / no / single services registered and compared with the library's from_snapshot + get_snapshot (re-snapshot text, restored ids, parked ids, registry). Failures explained by open findings: {known}")
    return {"evaluations": evals, "nontrivial": nontrivial, "ties": ties, "fails": fails, "samples": samples, "exhaustive": False, "what": what,
            "totals": tot, "known_finding_failures": known}


def _payload(c):
    """the shape a replay file needs: the generic runners get a trivial machine, the payload is under `c12a`"""
    return {"machine": {"id": "m", "initial": "a", "states": {"a": {}}}, "guards": {}, "events": [], "c12a": c}


def model_variant():
    """the tree model follows the code: an OPEN finding means the code still has the defect"""
    open_ids = {f["id"] for f in core.load_findings().get("open", [])}
    return {"deep": "F60" not in open_ids, "keep": "F62" not in open_ids}


def tie_trees(items):
    """items: [(flavor, case, roundtrip)]. The `actors` / `system` part of REAL snapshots through the Lean tree model
    (`driver_snap TREE`: snapTree (restoreV variant services snapshot)) against the library's own from_snapshot +
    get_snapshot with the same services registered: re-snapshot (whole text, key order included), ids of the restored and of
    the parked actors, registry, pending systemIds"""
    if not items:
        return 0, []
    v = model_variant()
    lines = ["TREE " + json.dumps({"services": rt["services"], "deep": v["deep"], "keep": v["keep"], "snap": rt["snap"]}, separators=(",", ":"))
             for _f, _c, rt in items]
    r = subprocess.run([DRIVER_SNAP], input="\n".join(lines) + "\n", capture_output=True, text=True, timeout=900)
    if r.returncode != 0:
        raise core.CheckError(f"driver_snap exit {r.returncode}: {r.stderr[:400]}")
    out = r.stdout.split("\n")
    out = out[:-1] if r.stdout.endswith("\n") else out
    if len(out) != len(lines):
        raise core.CheckError(f"driver_snap answered {len(out)} lines for {len(lines)} TREE queries")
    ties = []
    for (flavor, case, rt), o in zip(items, out):
        m = json.loads(o)
        if "err" in m:
            ties.append({"what": "tree/model-error", "flavor": flavor, "case": _payload(case), "model": m})
            continue
        bad = []
        if json.dumps(m["snap"]) != json.dumps(rt["resnap"]):
            bad.append("re-snapshot: " + str(first_diff(rt["resnap"], m["snap"])))
        for key in ("live", "parked"):
            if m[key] != rt[key]:
                bad.append(f"{key}: impl {rt[key]} model {m[key]}")
        if list(m["sys"].items()) != list(rt["sys"].items()):
            bad.append(f"registry: impl {rt['sys']} model {m['sys']}")
        if v["keep"] and list(m["pend"].items()) != list(rt["pend"].items()):
            bad.append(f"pending systemIds: impl {rt['pend']} model {m['pend']}")
        if bad:
            ties.append({"what": "tree/" + bad[0].split(":")[0], "flavor": flavor, "services": rt["services"], "variant": v, "detail": bad,
                         "snapshot": rt["snap"], "case": _payload(case)})
    return len(items), ties


# ------------------------------------------------------------------------------------------ replay
def replay_problems(c, flavor):
    fl = flavor if flavor in ("sync", "async") else "sync"
    st, res = run_guarded(fl, c, 40)
    if st != "ok":
        return [{"kind": st, "step": -1, "at": None, "detail": str(res)}]
    return [dict({"step": p.get("k", -1), "at": None}, **p) for p in res["problems"]]


# ------------------------------------------------------------------------------------------ open findings (classifiers)
def _cls_deep_sysid(prob, case, flavor):
    """F60: a systemId recorded in the snapshot for an actor below depth 1 is not re-registered although the actor is restored"""
    return prob.get("kind") == "system-entry-of-deep-actor-lost-on-restore" and (prob.get("lost") or {}).get("depth", 0) >= 2


def _cls_no_watcher(prob, case, flavor):
    """F61: sync engine; the continuation of a restored run differs from the uninterrupted one, and the difference vanishes when
    the restored non-blocking children are given back their watcher threads"""
    return (flavor == "sync" and prob.get("kind") == "continuation-differs" and prob.get("vanishes_with_watcher_threads") is True
            and bool(prob.get("children_without_watcher_thread")))


def _cls_parked_sysid(prob, case, flavor):
    """F62: restore with a service missing; the re-snapshot carries the parked record forward but drops the systemIds that
    name it or actors inside it (and nothing else differs)"""
    return prob.get("kind") == "system-entry-of-parked-actor-dropped" and bool(prob.get("missing")) and bool(prob.get("gone"))


def _cls_resume_stopped(prob, case, flavor):
    """F63: async engine; start() of the restored hierarchy raises because a persisted child is listed with status `stopped`"""
    return (flavor == "async" and prob.get("kind") == "start-of-restored-raises" and bool(prob.get("stopped_listed"))
            and "has been stopped and cannot be restarted" in prob.get("message", ""))


CLASSIFIERS = {
    "c12a-async-resume-raises-on-stopped-child": _cls_resume_stopped,
    "c12a-system-entry-of-deep-actor-lost-on-restore": _cls_deep_sysid,
    "c12a-sync-restored-child-has-no-watcher-thread": _cls_no_watcher,
    "c12a-system-entry-of-parked-actor-dropped": _cls_parked_sysid,
}
