"""./check <Cnn> --replay <file>: re-run a replay file against the real code and print what the monitors say."""
from __future__ import annotations
import json, sys
from . import core, props, modelio, oracles


def main(prop, path):
    spec = props.PROPS.get(prop) or {}
    if spec.get("replayer") or spec.get("replay"):
        # a property explored by function-level checks only replays its own payloads
        return (spec.get("replayer") or spec.get("replay"))(prop, path)
    r = json.load(open(path))
    cases = []
    if "case" in r:
        cases.append((r.get("flavor", "sync"), r["case"]))
    q = r.get("query", {}).get("query") if isinstance(r.get("query"), dict) else None
    if isinstance(q, dict) and "case" in q:          # a q_check failure / disagreement that carries its case
        cases.append((q.get("flavor", r.get("flavor", "sync")), q["case"]))
    for b in r.get("broken", []):
        fd = b.get("first_difference")
        if "case" in b:
            cases.append((b.get("flavor", "sync"), b["case"]))
        elif isinstance(fd, dict) and isinstance(fd.get("case"), dict) and "agenda" in fd["case"]:
            # a model/code disagreement found by a q_check of C08 / C09: the case travels inside `first_difference`
            cases.append((fd.get("flavor", "async"), fd["case"]))
        else:
            print(json.dumps(b, indent=1)[:3000])
    rc = 0
    for flavor, case in cases:
        flavors = [flavor] if flavor in ("sync", "async") else ["sync", "async"]
        for fl in flavors:
            st, obs = core.impl_isolated((fl, case, 20))
            probs = props.run_oracles(prop, case, st, obs, fl, replay=True)
            print(f"[{fl}] impl status={st} monitor problems={json.dumps(probs)[:1500]}")
            if probs:
                rc = 1
            try:
                if "agenda" in case:                     # C08 / C09: the runtime model, through driver_rt
                    from . import c08
                    ist, iout = c08.run_guarded(fl, case, 20)
                    mr = c08.run_model_many(fl, [case])[0]
                    if ist == "ok" and mr[0] == "ok":
                        print(f"[{fl}] runtime model/impl difference: {json.dumps(c08.diff_run(iout, mr[1], case['horizon'] - c08.CUT), default=str)[:1500]}")
                    continue
                mr = core.run_model_many(fl, [case])[0]
                if st == "ok" and mr[0] == "ok":
                    d = modelio.diff_obs(obs, mr[1], fl)
                    print(f"[{fl}] model/impl difference: {json.dumps(d, default=str)[:1500]}")
            except Exception as e:
                print(f"[{fl}] model not run: {e}")
            if probs:
                rc = 1
    core.close_pool()
    return rc
