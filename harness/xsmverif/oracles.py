"""Executable monitors, one per property, evaluated on IMPLEMENTATION observations only.

They are written against the machine *config JSON* (not the library's parsed objects) and the
Recorder log, so they are independent both of the Lean model and of the library's own helpers.
Each returns a list of problem dicts: {"kind": str, "step": int, "at": int|None, "detail": str}.
"""
from __future__ import annotations


class Tree:
    """independent reading of a machine config: ids, kinds, parents, children in document order"""

    def __init__(self, cfg):
        self.mid = cfg["id"]
        self.kind = {}
        self.parent = {}
        self.kids = {}
        self.initial = {}
        self.cfg = {}
        self._walk(cfg, self.mid, None)

    def _walk(self, n, sid, parent):
        if "states" in n and isinstance(n["states"], dict):
            k = "parallel" if n.get("type") == "parallel" else "compound"
        elif n.get("type") == "final":
            k = "final"
        elif n.get("type") == "history":
            k = "history"
        else:
            k = "atomic"
        self.kind[sid] = k
        self.parent[sid] = parent
        self.cfg[sid] = n
        self.kids[sid] = []
        self.initial[sid] = n.get("initial")
        for key, c in (n.get("states") or {}).items():
            cid = sid + "." + key
            self.kids[sid].append(cid)
            self._walk(c, cid, sid)

    def legal_problems(self, ids):
        act = set(ids)
        probs = []
        if self.mid not in act:
            probs.append("root inactive")
        for i in sorted(act):
            if i not in self.kind:
                probs.append(f"unknown state {i}")
                continue
            p = self.parent[i]
            if p is not None and p not in act:
                probs.append(f"parent of {i} inactive")
            k = self.kind[i]
            if k == "history":
                probs.append(f"history state {i} active")
            kids = self.kids[i]
            ak = [c for c in kids if c in act]
            if k == "compound" and kids and len(ak) != 1:
                probs.append(f"compound {i} has {len(ak)} active children")
            if k == "parallel":
                for c in kids:
                    if self.kind[c] != "history" and c not in act:
                        probs.append(f"parallel {i}: region {c} inactive")
        return probs


def c01_legal(case, obs, flavor):
    """C01: every observable configuration is legal (quiescent points and on_transition hooks)."""
    tree = Tree(case["machine"])
    out = []
    if obs and obs[0].get("E"):
        return out              # start() raised: the library refused to start this machine
    for step, o in enumerate(obs):
        if o["S"] in ("uninitialized",):
            continue
        for at, r in enumerate(o["T"]):
            if r.startswith("#t:"):
                ids = [x for x in r[3:].split(",") if x]
                pr = tree.legal_problems(ids)
                if pr:
                    out.append({"kind": "illegal-configuration", "step": step, "at": at, "where": "on_transition", "detail": "; ".join(pr[:4]), "config": ids})
        pr = tree.legal_problems(o["C"])
        if pr:
            out.append({"kind": "illegal-configuration", "step": step, "at": None, "where": "quiescent", "detail": "; ".join(pr[:4]), "config": o["C"]})
        # what a subscriber callback saw, and the snapshot it took there
        for k, (ids, snap) in enumerate(o.get("SUB") or []):
            pr = tree.legal_problems(ids)
            if pr:
                out.append({"kind": "illegal-configuration", "step": step, "at": None, "where": f"subscriber call {k}", "detail": "; ".join(pr[:4]), "config": ids})
                break
            if snap != ids:
                out.append({"kind": "snapshot-differs-from-configuration", "step": step, "at": None, "where": f"subscriber call {k}",
                            "detail": f"get_persisted_snapshot() inside the subscriber records {snap}, the configuration there is {ids}", "config": snap})
                break
    return out


def first_illegal(case, obs):
    """(step, at) of the first illegal configuration seen, or None — behaviour after that point
    depends on set iteration order in the implementation and is not compared with the model"""
    pr = c01_legal(case, obs, "")
    if not pr:
        return None
    p = pr[0]
    return (p["step"], p["at"])


# =================================================================================================
# trace walking shared by the monitors below
# =================================================================================================
def _segments(T):
    """split one observation's log into microstep segments, each ending with its '#t:' record"""
    segs, cur = [], []
    for r in T:
        cur.append(r)
        if r.startswith("#t:"):
            segs.append(cur)
            cur = []
    return segs, cur          # cur = trailing records of a microstep that did not complete (error)


def _ev_of(r):
    return r.rsplit("@", 1)[1] if "@" in r else None


def _name_of(r):
    return r.rsplit("@", 1)[0] if "@" in r else r


def _sid(mid, path):
    return mid if path == "" else mid + "." + path


def _clean(o):
    """steps the order/accounting monitors can judge: no failed transition (rollback leaves no records)"""
    return not o.get("E") and not o.get("X")


def c03_order_accounting(case, obs, flavor):
    """C03: exit -> transition -> entry; children exit first / parents enter first; one event per
    microstep; exactly-once accounting against the observed configurations; frame."""
    from . import ref
    tree = Tree(case["machine"])
    mid = tree.mid
    out = []
    if not obs or obs[0].get("E"):
        return out
    # only states that carry both marker actions can be accounted for
    def _has(lst, name):
        return name in (lst if isinstance(lst, list) else [lst])
    inst = {sid for sid, n in tree.cfg.items()
            if _has(n.get("entry", []), "en:" + ref.rel(sid, mid)) and _has(n.get("exit", []), "ex:" + ref.rel(sid, mid))}
    active = None
    for step, o in enumerate(obs):
        if not _clean(o):
            active = set(o["C"]) & inst
            continue
        if step == 0:
            active = set()
        segs, tail = _segments(o["T"])
        sent = None
        groups = segs + ([tail] if tail else [])
        if step == 0:
            # the initial entry is its own group: the leading records carrying the synthetic start event
            T = o["T"]
            k = 0
            while k < len(T) and (T[k].startswith("#aerr:") or (not T[k].startswith("#") and _ev_of(T[k]) == "<init>")):
                k += 1
            segs2, tail2 = _segments(T[k:])
            groups = [T[:k]] + segs2 + ([tail2] if tail2 else [])
        for gi, seg in enumerate(groups):
            phase = 0       # 0 exits, 1 transition actions, 2 entries
            evs = set()
            exits, enters, tmark = [], [], None
            for at, r in enumerate(seg):
                if r.startswith("#"):
                    continue
                name, ev = _name_of(r), _ev_of(r)
                evs.add(ev)
                kind = name.split(":", 1)[0]
                if kind == "ex":
                    if phase > 0:
                        out.append({"kind": "order", "step": step, "at": at, "detail": f"exit action {name} after transition/entry actions"})
                    exits.append(name[3:])
                elif kind == "en":
                    phase = 2
                    enters.append(name[3:])
                elif kind in ("tr", "done", "alw"):
                    if phase == 2:
                        out.append({"kind": "order", "step": step, "at": at, "detail": f"transition action {name} after an entry action"})
                    phase = max(phase, 1)
                    if tmark is None:
                        tmark = name
            if len(evs) > 1 and step > 0:
                out.append({"kind": "event-identity", "step": step, "at": None, "detail": f"one microstep handed different events to its actions: {sorted(map(str, evs))}"})
            for i in range(len(exits)):
                for j in range(i + 1, len(exits)):
                    a, b = _sid(mid, exits[i]), _sid(mid, exits[j])
                    if b.startswith(a + "."):
                        out.append({"kind": "order", "step": step, "at": None, "detail": f"{a} exited before its descendant {b}"})
            for i in range(len(enters)):
                for j in range(i + 1, len(enters)):
                    a, b = _sid(mid, enters[i]), _sid(mid, enters[j])
                    if a.startswith(b + "."):
                        out.append({"kind": "order", "step": step, "at": None, "detail": f"{a} entered before its ancestor {b}"})
            # accounting against the tracked configuration
            for p in exits:
                s = _sid(mid, p)
                if s not in active:
                    out.append({"kind": "accounting", "step": step, "at": None, "detail": f"exit actions of inactive state {s} ran"})
                active.discard(s)
            for p in enters:
                s = _sid(mid, p)
                if s in active:
                    out.append({"kind": "accounting", "step": step, "at": None, "detail": f"state {s} entered while already active"})
                active.add(s)
            if seg and seg[-1].startswith("#t:"):
                seen = set(x for x in seg[-1][3:].split(",") if x)
                hist_free = {s for s in seen if tree.kind.get(s) != "history"} & inst
                if hist_free != active:
                    out.append({"kind": "accounting", "step": step, "at": None,
                                "detail": f"entry/exit actions do not account for the configuration change: unexplained {sorted(hist_free ^ active)[:4]}"})
                    active = set(hist_free)
            # frame: everything exited/entered lies in the inclusive subtree of LCA(source, target)
            if tmark is not None and step > 0:
                src, tgt = _marker_transition(tree, tmark)
                if src is not None and tgt is not None:
                    lca = _lca(src, tgt)
                    for p in exits + enters:
                        s = _sid(mid, p)
                        if not (s == lca or s.startswith(lca + ".")):
                            out.append({"kind": "frame", "step": step, "at": None,
                                        "detail": f"{tmark}: state {s} outside the subtree of {lca} was exited/entered"})
        if (set(o["C"]) & inst) != active:
            extra = sorted((set(o["C"]) & inst) ^ active)
            if _clean(o):
                out.append({"kind": "accounting", "step": step, "at": None, "detail": f"quiescent configuration not explained by entry/exit actions: {extra[:4]}"})
            active = set(o["C"]) & inst
    return out[:8]


def _lca(a, b):
    pa, pb = a.split("."), b.split(".")
    n = 0
    while n < len(pa) and n < len(pb) and pa[n] == pb[n]:
        n += 1
    return ".".join(pa[:max(n, 1)])


def _marker_transition(tree, marker):
    """(source id, resolved target id | None) of the transition whose first action is `marker`"""
    from . import ref
    mid = tree.mid
    parts = marker.split(":")
    kind = parts[0]
    try:
        if kind == "tr":
            path, ev, idx = parts[1], ":".join(parts[2:-1]), int(parts[-1])
            src = _sid(mid, path)
            t = ref.norm_transitions(tree.cfg[src]["on"][ev])[idx]
        elif kind == "done":
            src = _sid(mid, parts[1])
            t = ref.norm_transitions(tree.cfg[src]["onDone"])[0]
        elif kind == "alw":
            src = _sid(mid, parts[1])
            t = ref.always_list(tree.cfg[src])[0]
        else:
            return None, None
    except Exception:
        return None, None
    tg = t.get("target") if t else None
    if not tg:
        return src, None
    return src, ref.resolve_simple(tree, src, tg)


def c02_selection(case, obs, flavor):
    """C02: exactly the nominated transitions fire, in order, stale ones skipped; no nominee = no-op."""
    from . import ref
    tree = Tree(case["machine"])
    mid = tree.mid
    gv = case.get("guards", {})
    ops = case["ops"] if "ops" in case else [["send", e] for e in case["events"]]
    out = []
    for step in range(1, len(obs)):
        prev, o = obs[step - 1], obs[step]
        op = ops[step - 1]
        if op[0] != "send" or prev["S"] != "running" or not _clean(o) or not _clean(prev):
            continue
        if oracles_illegal(tree, prev["C"]):
            continue
        ev = op[1]
        try:
            noms = ref.nominees(tree, prev["C"], ev, gv)
        except ref.Missing:
            continue
        if o.get("can_mutated"):
            out.append({"kind": "can", "step": step, "at": None, "detail": f"can({ev}) changed the interpreter (configuration / context / history / queue) or ran an action"})
        if noms is None:
            continue
        T = [r for r in o["T"] if not r.startswith("#recv:") and not r.startswith("#aerr:")]
        if not noms:
            if T or o["C"] != prev["C"] or o["H"] != prev["H"] or o.get("K") != prev.get("K") or o["S"] != prev["S"]:
                out.append({"kind": "unhandled-not-noop", "step": step, "at": None,
                            "detail": f"event {ev} has no nominee but something changed / ran: {T[:3]}"})
            if o.get("can") is True:
                out.append({"kind": "can", "step": step, "at": None, "detail": f"can({ev}) is true without a nominee"})
            continue
        if o.get("can") is False:
            out.append({"kind": "can", "step": step, "at": None, "detail": f"can({ev}) is false although {noms[0]} is nominated"})
        segs, tail = _segments(T)
        cur = set(prev["C"])
        si = 0
        for (src, key, idx) in noms:
            marker = f"tr:{ref.rel(src, mid)}:{key}:{idx}"
            if len(noms) > 1 and src not in cur:
                continue                      # stale: must be skipped
            if si >= len(segs):
                out.append({"kind": "nominee-not-fired", "step": step, "at": None, "detail": f"{marker} was nominated but did not run"})
                break
            seg = segs[si]
            si += 1
            fired = [_name_of(r) for r in seg if _name_of(r).split(":", 1)[0] in ("tr", "alw", "done")]
            if fired[:1] != [marker]:
                out.append({"kind": "wrong-transition", "step": step, "at": None, "detail": f"expected {marker} to fire, saw {fired[:2]}"})
                break
            if any(_ev_of(r) not in (ev,) for r in seg if "@" in r):
                out.append({"kind": "event-identity", "step": step, "at": None, "detail": f"actions of {marker} did not receive event {ev}"})
            cur = set(x for x in seg[-1][3:].split(",") if x)
        # anything that fires with THIS event type after the nominees is an extra transition
        for seg in segs[si:]:
            evs = {_ev_of(r) for r in seg if "@" in r}
            if evs == {ev} and not any(r.startswith("#recv:" + ev) for r in o["T"][1:]):
                fired = [_name_of(r) for r in seg if _name_of(r).startswith("tr:")]
                if fired:
                    out.append({"kind": "extra-transition", "step": step, "at": None, "detail": f"{fired[0]} fired for {ev} but was not nominated"})
                    break
    return out[:6]


def oracles_illegal(tree, ids):
    return bool(tree.legal_problems(ids))


def c05_engines_agree(case, obs_by_flavor):
    """C05: same configurations, context, ordered (action, event) list, status at every drained point"""
    out = []
    a, b = obs_by_flavor.get("sync"), obs_by_flavor.get("async")
    if a is None or b is None:
        return out
    from .impl import canon_ev
    limit = int(case["machine"].get("maxIterations", 1000))
    for step, (x, y) in enumerate(zip(a, b)):
        if x.get("E") or y.get("E") or x.get("X") or y.get("X"):
            break       # error reporting differs by design (raised vs logged)
        # a macrostep long enough to have hit a maxIterations cut is governed by C13, not compared here:
        # the two engines bound different things (queued events vs. chained raises)
        if x.get("cuts") or y.get("cuts") or max(sum(1 for r in o["T"] if r.startswith("#t:") or r.startswith("#recv:")) for o in (x, y)) >= limit:
            break
        ta = [r for r in x["T"] if not r.startswith("#")]
        tb = [r for r in y["T"] if not r.startswith("#")]
        diffs = []
        if sorted(x["C"]) != sorted(y["C"]):
            diffs.append("configuration")
        if x["S"] != y["S"]:
            diffs.append("status")
        if x.get("K") != y.get("K"):
            diffs.append("context")
        if ta != tb:
            diffs.append("actions")
        if diffs:
            k = next((i for i, (p, q) in enumerate(zip(ta, tb)) if p != q), min(len(ta), len(tb)))
            out.append({"kind": "engines-disagree", "step": step, "at": k, "detail": f"sync vs async differ in {diffs}; first differing action sync={ta[k:k+2]} async={tb[k:k+2]}",
                        "sync_C": x["C"], "async_C": y["C"], "sync_S": x["S"], "async_S": y["S"]})
            break
    return out


def c10_completion(case, obs, flavor):
    """C10: status `done` exactly when a top-level final state is active; afterwards nothing runs."""
    tree = Tree(case["machine"])
    out = []
    rootk = tree.kind[tree.mid]
    finished_at = None
    for step, o in enumerate(obs):
        if o.get("E") and step == 0:
            return out
        top_final = [c for c in tree.kids[tree.mid] if tree.kind[c] == "final" and c in o["C"]]
        if finished_at is not None:
            recs = [r for r in o["T"] if not r.startswith("#recv:")]
            if recs or o["S"] != "done":
                out.append({"kind": "activity-after-done", "step": step, "at": None, "detail": f"after completion: status={o['S']} records={recs[:3]}"})
            continue
        if rootk == "compound" and _clean(o) and o["S"] in ("running", "done"):
            if top_final and o["S"] != "done" and not tree.legal_problems(o["C"]):
                out.append({"kind": "not-completed", "step": step, "at": None, "detail": f"top-level final state {top_final[0]} is active but status is {o['S']}"})
            if o["S"] == "done" and not top_final:
                tops = {c for c in tree.kids[tree.mid] if tree.kind[c] == "final"}
                passed = any(r.startswith("#t:") and tops & set(r[3:].split(",")) for r in o["T"])
                out.append({"kind": "done-without-final", "step": step, "at": None, "final_was_entered_in_step": passed,
                            "detail": "status done but no top-level final state is active" +
                                      (" (a top-level final state was entered and left again by a later transition of the same event)" if passed else "")})
        if o["S"] == "done":
            finished_at = step
            # user code after the completing entry within this very macrostep
            T = o["T"]
            idx = None
            for i, r in enumerate(T):
                nm = _name_of(r)
                if nm.startswith("en:") and _sid(tree.mid, nm[3:]) in top_final:
                    idx = i
                    break
            if idx is not None:
                later_recv = [r for r in T[idx + 1:] if r.startswith("#recv:")]
                if later_recv:
                    out.append({"kind": "activity-after-done", "step": step, "at": idx, "detail": f"events processed after the machine completed: {later_recv[:3]}"})
    return out[:4]


def _ref_done(tree, s, active):
    """reference done-ness: final; compound: its active child is done; parallel: every region done"""
    k = tree.kind[s]
    if k == "final":
        return True
    if k == "compound":
        ak = [c for c in tree.kids[s] if c in active]
        return len(ak) == 1 and _ref_done(tree, ak[0], active)
    if k == "parallel":
        regs = [c for c in tree.kids[s] if tree.kind[c] != "history"]
        return all(c in active and _ref_done(tree, c, active) for c in regs)
    return False


def c10_ondone(case, obs, flavor):
    """C10: a done.state.<S> event is processed only if S was done at some configuration of the
    macrostep that raised it ("never while any region is not final"), and at most once per completion"""
    tree = Tree(case["machine"])
    out = []
    active = set()
    for step, o in enumerate(obs):
        if not _clean(o) or (step == 0 and o.get("E")):
            active = set(o["C"])
            continue
        window = [set(active)]          # configurations seen since the previous dequeued event
        prev_recv_done = None
        cur = set(active)
        for at, r in enumerate(o["T"]):
            if r.startswith("#t:"):
                cur = {x for x in r[3:].split(",") if x}
                window.append(set(cur))
            elif r.startswith("#recv:"):
                ev = r[6:]
                if ev.startswith("done.state."):
                    sid = ev[len("done.state."):]
                    if sid in tree.kind and not any(_ref_done(tree, sid, c) for c in window if not tree.legal_problems(sorted(c))) \
                            and all(not tree.legal_problems(sorted(c)) for c in window):
                        out.append({"kind": "done-event-for-unfinished-state", "step": step, "at": at,
                                    "detail": f"{ev} was raised although {sid} was not done in any configuration since the command started"})
                # (no reset: a done event may have been raised by any earlier macrostep of this command)
            elif "@" in r and step == 0 and _ev_of(r) == "<init>":
                nm = _name_of(r)
                if nm.startswith("en:"):
                    cur = set(cur) | {_sid(tree.mid, nm[3:])}
                    window.append(set(cur))
        active = set(o["C"])
    return out[:3]


def c10_ondone_raised(case, obs, flavor):
    """C10, positive direction: when a final state is entered, its parent's done event (if the parent
    declares onDone) and the done event of every parallel ancestor with onDone that became done by this
    entry must be processed later in the same command."""
    tree = Tree(case["machine"])
    mid = tree.mid
    limit = int(case["machine"].get("maxIterations", 1000))
    out = []
    active = set()
    for step, o in enumerate(obs):
        if not _clean(o) or (step == 0 and o.get("E")):
            active = set(o["C"])
            continue
        T = o["T"]
        if o.get("cuts") or sum(1 for r in T if r.startswith("#t:") or r.startswith("#recv:")) >= limit:
            active = set(o["C"])          # a maxIterations cut discards queued events (C13 governs that)
            continue
        cur = set(active)
        seg_start = set(active)
        expected = []           # (event type, index after which it must be received, shadowed_by)
        finals_in_seg = []
        for at, r in enumerate(T):
            if r.startswith("#t:") or at == len(T) - 1:
                if r.startswith("#t:"):
                    cur = {x for x in r[3:].split(",") if x}
                if not tree.legal_problems(sorted(cur)):
                    for (f, fat) in finals_in_seg:
                        if f not in cur:
                            continue
                        par = tree.parent[f]
                        near = None
                        if par is not None and tree.kind[par] == "compound" and tree.cfg[par].get("onDone"):
                            expected.append(("done.state." + par, fat, None))
                            near = par
                        anc = (par if tree.kind[par] == "parallel" else tree.parent[par]) if par is not None else None
                        while anc is not None:
                            if tree.kind[anc] == "parallel" and tree.cfg[anc].get("onDone") and _ref_done(tree, anc, cur) \
                                    and not _ref_done(tree, anc, seg_start):
                                # a done state strictly below `anc` that declares onDone too takes the event instead
                                below = [y for y in cur if y.startswith(anc + ".") and tree.cfg[y].get("onDone")
                                         and tree.kind[y] in ("compound", "parallel") and _ref_done(tree, y, cur)]
                                expected.append(("done.state." + anc, fat, near or (sorted(below)[0] if below else None)))
                                near = near or anc
                            anc = tree.parent[anc]
                finals_in_seg = []
                seg_start = set(cur)
            elif "@" in r:
                nm = _name_of(r)
                if nm.startswith("en:"):
                    sid = _sid(mid, nm[3:])
                    cur = cur | {sid}
                    if tree.kind.get(sid) == "final":
                        finals_in_seg.append((sid, at))
        if o["S"] == "running":
            for ev, at, shadow in expected:
                if not any(r == "#recv:" + ev for r in T[at:]):
                    out.append({"kind": "done-event-missing", "step": step, "at": at, "missing": ev, "shadowed_by": shadow,
                                "detail": f"{ev[11:]} completed but {ev} was never processed" + (f" (the nearer ancestor {shadow} declares onDone too)" if shadow else "")})
        active = set(o["C"])
    return out[:3]


def c11_history(case, obs, flavor):
    """C11: a history target entered from outside its parent restores the recorded sub-configuration
    (shallow: the recorded child + its default descent; deep: exactly the recorded leaves), or the
    default / normal entry when never exited."""
    from . import ref
    tree = Tree(case["machine"])
    mid = tree.mid
    out = []
    recorded = {}          # parent id -> set of strict descendants active at its last exit
    active = set()
    for step, o in enumerate(obs):
        if not _clean(o) or (step == 0 and o.get("E")):
            active = set(o["C"])
            continue
        segs, tail = _segments(o["T"])
        segs = segs + ([tail] if tail else [])
        if step == 0 and segs:
            # start(): the initial entry is not a transition and reports no `#t:`; its `en:` records lead the first
            # segment. They are applied first, so that an eventless transition taken right after them sees (and
            # records the history of) the states the initial entry activated.
            k = 0
            while k < len(segs[0]) and _name_of(segs[0][k]).startswith("en:"):
                k += 1
            if 0 < k < len(segs[0]) and any(_name_of(r).startswith("ex:") for r in segs[0][k:]):
                segs = [segs[0][:k], segs[0][k:]] + segs[1:]
        for seg in segs:
            before = set(active)
            exits = [_sid(mid, _name_of(r)[3:]) for r in seg if _name_of(r).startswith("ex:")]
            enters = [_sid(mid, _name_of(r)[3:]) for r in seg if _name_of(r).startswith("en:")]
            tmark = next((_name_of(r) for r in seg if _name_of(r).split(":", 1)[0] in ("tr", "done", "alw")), None)
            expected = None
            owner = None
            if tmark and step > 0:
                src, tgt = _marker_transition(tree, tmark)
                if tgt is not None and tree.kind.get(tgt) == "history":
                    owner = tree.parent[tgt]
                    if owner not in before and not tree.legal_problems(sorted(before)):
                        expected = _expected_restore(tree, tgt, recorded.get(owner))
            for s in exits:
                if any(tree.kind[c] == "history" for c in tree.kids.get(s, [])):
                    recorded[s] = {x for x in before if x.startswith(s + ".")}
                active.discard(s)
            for s in enters:
                active.add(s)
            if seg and seg[-1].startswith("#t:"):
                active = {x for x in seg[-1][3:].split(",") if x}
            if expected is not None:
                got = {x for x in active if x == owner or x.startswith(owner + ".")}
                if got != expected:
                    out.append({"kind": "history-restore", "step": step, "at": None,
                                "detail": f"{tmark} -> history of {owner}: expected {sorted(expected)} got {sorted(got)}"})
                dup = [s for s in enters if enters.count(s) > 1]
                if dup:
                    out.append({"kind": "history-restore", "step": step, "at": None, "detail": f"restored state entered twice: {dup[0]}"})
        active = set(o["C"])
    return out[:4]


def _default_descent(tree, s, acc):
    acc.add(s)
    k = tree.kind[s]
    if k == "compound" and tree.kids[s]:
        ini = tree.initial.get(s)
        if not ini:
            cands = [c for c in tree.kids[s] if tree.kind[c] != "history"]
            ini = cands[0].rsplit(".", 1)[1] if len(cands) == 1 else None
        if ini and s + "." + ini in tree.kind:
            _default_descent(tree, s + "." + ini, acc)
    elif k == "parallel":
        for c in tree.kids[s]:
            if tree.kind[c] != "history":
                _default_descent(tree, c, acc)
    return acc


def _expected_restore(tree, hist, rec):
    """expected active set inside the owner's inclusive subtree after targeting `hist` from outside"""
    from . import ref
    owner = tree.parent[hist]
    deep = tree.cfg[hist].get("history") == "deep"
    acc = {owner}
    def add_path(x):
        cur = x
        while cur != owner:
            acc.add(cur)
            cur = tree.parent[cur]
    if not rec:
        dflt = tree.cfg[hist].get("target")
        t = ref.resolve_simple(tree, hist, dflt) if isinstance(dflt, str) and dflt else None
        if t is not None and t.startswith(owner + "."):
            add_path(t)
            starts = [t]
        else:
            return _default_descent(tree, owner, set())
    elif deep:
        lv = [x for x in rec if tree.kind[x] in ("atomic", "final") or not tree.kids[x]]
        for x in lv:
            add_path(x)
        return _fill_regions(tree, acc, owner)
    else:
        starts = [x for x in rec if tree.parent[x] == owner]
        for x in starts:
            acc.add(x)
    # default descent below the explicitly named states; other regions of parallel ancestors by default
    for x in starts:
        _default_descent(tree, x, acc)
    return _fill_regions(tree, acc, owner)


def _fill_regions(tree, acc, owner):
    """every parallel state in `acc` has all its regions entered (default descent when not named)"""
    changed = True
    while changed:
        changed = False
        for s in list(acc):
            if tree.kind[s] == "parallel":
                for c in tree.kids[s]:
                    if tree.kind[c] != "history" and c not in acc:
                        _default_descent(tree, c, acc)
                        changed = True
            if tree.kind[s] == "compound" and tree.kids[s] and not any(c in acc for c in tree.kids[s]):
                before = len(acc)
                _default_descent(tree, s, acc)
                changed = changed or len(acc) != before
    return acc


def c13_short_chain_not_cut(case, obs, flavor):
    """C13: "chains shorter than the bound run to their natural end".  The queue / raise-chain breaker may only fire
    in a step in which MORE than `maxIterations` self-sent events come up, on both engines.
    sync (second repair of F10): `_process_event_queue` counts the dequeues of MARKED events only - events enqueued by
    `send()` / `send_events()` while a drain was in flight (`_raised_in_drain`: every `raise`, `done.state.*`, send made
    by an action; also during `start()`) - and a cut happens when a marked event is dequeued as the
    `maxIterations + 1`-st of the drain since the last cut.  The marks OUTLIVE a drain that ended with an error, so the
    marked events a step finds queued count too: a cut needs `(marked entries queued when the drain starts) + (events
    enqueued while draining) > maxIterations` (Lean: `C13.short_chain_not_cut_sync` / `sync_cut_needs_long_chain`,
    hypothesis `cntSelf s.queue + |drainRaised| <= maxIterations`).  The observation has the LENGTH of the queue left by
    the previous step (`qlen`), an upper bound of the marked entries in it; the external event of the step is never
    marked and never counts.  async: the counter must EXCEED the bound (`C13.short_chain_not_cut_async`); every step
    starts from a drained queue.  `self_sends` counts the interpreter's own send() calls in the step, `chain_cuts` the
    breaker's error logs (not the always-settling bound).
    This is the reading per BUSY PERIOD (one event per step here, so a step is one chain). Many chains sharing one busy
    period - a `send_events` burst - are held to the per-CAUSAL-CHAIN reading by the rule `short-chains-cut-by-burst` of
    `c14.c04_monitor` (q_check `c14.c13_bursts_of_short_chains`; open finding F70)."""
    out = []
    limit = case["machine"].get("maxIterations", 1000)
    for i, o in enumerate(obs):
        left = obs[i - 1].get("qlen", 0) if (flavor == "sync" and i > 0) else 0
        if o.get("chain_cuts") and o.get("self_sends", 1 << 30) + left <= limit:
            out.append({"kind": "short-chain-cut", "step": i, "at": None,
                        "detail": f"the chain breaker fired ({o['chain_cuts']} time(s)) in a step in which the machine sent itself only "
                                  f"{o['self_sends']} event(s)" + (f" and found {left} event(s) queued" if left else "") +
                                  f"; maxIterations={limit}",
                        "self_sends": o["self_sends"], "left_queued": left, "limit": limit})
    return out


def c13_queue_growth(case, obs, flavor):
    """C13, the regression of the FIRST repair of F10 (real code, both engines): what a step leaves queued, and the work
    one step does, must stay within what ONE drain can do - whatever earlier steps left behind.

    The first repair (`budget = maxIterations + len(queue at drain start)`) exempted the events LEFT QUEUED by a sync
    drain that ended with an error - mostly self-raised ones - from the bound: the next `send()` processed ALL of them,
    each enqueuing several more, and with a fan-out machine the queue grew geometrically from send to send
    (24 -> 473 -> 10,467 -> 232,817; corpus/000_f10b_loopfaults_0_100.json).  Lean (`Xsm/Properties/C13.lean`):
      * `sync_drain_work_bounded` / `drainLoop_bound`: one `_process_event_queue()` PROCESSES at most
        `B = n*(maxIterations+1) + maxIterations` events, `n` the EXTERNAL events queued when it starts - independent of
        the number of marked leftovers (async, `asyncStep_measure`: at most `(n+1)*(maxIterations+4)` iterations);
      * `leftovers_stay_bounded`: the marked events queued when it returns are at most those queued when it started - NONE
        of them if the bound cut, a cut purges them all - plus what this drain enqueued, at most `K` per processed event.
    On the run: `n <= i` in step `i` (one external event per step; `start()`: none - what it queues is marked; async: the
    queue is drained between steps, `n <= 1 + qlen` left by the previous step, and what `start()` itself queues is
    unmarked there: `n <= self_sends`), the events processed are the `#recv:` records of the step, what the step enqueued
    is `self_sends`, so its fan-out per processed event is `K = ceil(self_sends / recv)`.  Two rules:
      * `drain-processes-too-many-events`: `recv > B`;
      * `queue-grows-across-sends`: `qlen > n + carry + K*B` with `carry` = the previous `qlen` (0 after a cut) - a bound
        proportional to what one drain can enqueue, the tighter form of `(maxIterations+2)*(max self-sends of a step+1)`.
    Both hold of every run of the current engines; the first repair breaks both in the second step of the corpus case."""
    out = []
    limit = case["machine"].get("maxIterations", 1000)
    prev_q = 0
    for i, o in enumerate(obs):
        if "qlen" not in o or "self_sends" not in o:
            prev_q = o.get("qlen", 0)
            continue
        recv = sum(1 for r in o["T"] if r.startswith("#recv:"))
        ss = o["self_sends"]
        if flavor == "sync":
            n = i
            bound = n * (limit + 1) + limit
        else:
            n = (ss if i == 0 else 1) + prev_q
            bound = (n + 1) * (limit + 4)
        carry = 0 if o.get("chain_cuts") else prev_q
        k = -(-ss // max(1, recv))
        if recv > bound:
            out.append({"kind": "drain-processes-too-many-events", "step": i, "at": None,
                        "detail": f"step {i} processed {recv} events; one drain processes at most {bound} "
                                  f"(external events queued <= {n}, maxIterations={limit}) whatever was left queued before "
                                  f"({prev_q} event(s))", "received": recv, "bound": bound, "limit": limit, "left_queued": prev_q})
        qb = n + carry + k * bound
        if o["qlen"] > qb:
            out.append({"kind": "queue-grows-across-sends", "step": i, "at": None,
                        "detail": f"step {i} left {o['qlen']} events queued (the previous step left {prev_q}); bound {qb} = "
                                  f"{n} external + {carry} carried over + {k} (self-sends per processed event: {ss}/{recv}) x {bound} "
                                  f"(events one drain may process, maxIterations={limit})",
                        "qlen": o["qlen"], "bound": qb, "self_sends": ss, "received": recv, "limit": limit, "left_queued": prev_q})
        prev_q = o["qlen"]
    return out
