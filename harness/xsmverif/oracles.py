"""Executable monitors, one per property, evaluated on IMPLEMENTATION observations only.

They are written against the machine *config JSON* (not the library's parsed objects) and the
Recorder log, so they are independent both of the Lean model and of the library's own helpers.
Each returns a list of problem dicts: {"kind": str, "step": int, "at": int|None, "detail": str}.
"""
from __future__ import annotations


class Tree:
    """independent reading of a machine config: ids, kinds, parents, children in document order"""

    def __init__(self, cfg):
        self.mid = cfg["id"]
        self.kind = {}
        self.parent = {}
        self.kids = {}
        self.initial = {}
        self.cfg = {}
        self._walk(cfg, self.mid, None)

    def _walk(self, n, sid, parent):
        if "states" in n and isinstance(n["states"], dict):
            k = "parallel" if n.get("type") == "parallel" else "compound"
        elif n.get("type") == "final":
            k = "final"
        elif n.get("type") == "history":
            k = "history"
        else:
            k = "atomic"
        self.kind[sid] = k
        self.parent[sid] = parent
        self.cfg[sid] = n
        self.kids[sid] = []
        self.initial[sid] = n.get("initial")
        for key, c in (n.get("states") or {}).items():
            cid = sid + "." + key
            self.kids[sid].append(cid)
            self._walk(c, cid, sid)

    def legal_problems(self, ids):
        act = set(ids)
        probs = []
        if self.mid not in act:
            probs.append("root inactive")
        for i in sorted(act):
            if i not in self.kind:
                probs.append(f"unknown state {i}")
                continue
            p = self.parent[i]
            if p is not None and p not in act:
                probs.append(f"parent of {i} inactive")
            k = self.kind[i]
            if k == "history":
                probs.append(f"history state {i} active")
            kids = self.kids[i]
            ak = [c for c in kids if c in act]
            if k == "compound" and kids and len(ak) != 1:
                probs.append(f"compound {i} has {len(ak)} active children")
            if k == "parallel":
                for c in kids:
                    if self.kind[c] != "history" and c not in act:
                        probs.append(f"parallel {i}: region {c} inactive")
        return probs


def c01_legal(case, obs, flavor):
    """C01: every observable configuration is legal (quiescent points and on_transition hooks)."""
    tree = Tree(case["machine"])
    out = []
    for step, o in enumerate(obs):
        if o["S"] in ("uninitialized",):
            continue
        if o["S"] == "stopped" and o.get("E"):
            continue            # the library refused to start this machine
        for at, r in enumerate(o["T"]):
            if r.startswith("#t:"):
                ids = [x for x in r[3:].split(",") if x]
                pr = tree.legal_problems(ids)
                if pr:
                    out.append({"kind": "illegal-configuration", "step": step, "at": at, "where": "on_transition", "detail": "; ".join(pr[:4]), "config": ids})
        pr = tree.legal_problems(o["C"])
        if pr:
            out.append({"kind": "illegal-configuration", "step": step, "at": None, "where": "quiescent", "detail": "; ".join(pr[:4]), "config": o["C"]})
    return out


def first_illegal(case, obs):
    """(step, at) of the first illegal configuration seen, or None — behaviour after that point
    depends on set iteration order in the implementation and is not compared with the model"""
    pr = c01_legal(case, obs, "")
    if not pr:
        return None
    p = pr[0]
    return (p["step"], p["at"])
