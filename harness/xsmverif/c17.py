"""C17 — code generator (`xsm generate-template`): the output rebuilds the source machine exactly, or nothing
is written.

  c17_naming   T  `naming.to_identifier` / `IdentifierAllocator` of /repo/src  vs  the Lean model (drivergen)
               O  results are real Python identifiers (`str.isidentifier`, not `keyword.iskeyword`, not soft/shadow
                  words), distinct names get distinct bindings, the table `keyword.kwlist` is the one the theorems use
  c17_cli      O  the monitor of c17run.check_config on the REAL CLI over generated families x hostile names x Stately
                  exports x 5 templates x sync/async x 1/2 files
               T  the state bindings found in the generated AST  vs  the model allocator's outputs

`run_check` is the property's runner (PROPS["C17"]["runner"]): P (tables, build, axiom audit) + the two checks +
known-finding classification + evidence, same verdict contract as check.py.
"""
from __future__ import annotations
import collections, json, keyword, multiprocessing as mp, os, random, shutil, subprocess, sys, time

from . import core, c17gen, c17tables

DRIVERGEN = os.path.join(core.LEAN_DIR, ".lake", "build", "bin", "drivergen")
PROP = "C17"


def run_drivergen(lines, timeout=300):
    r = subprocess.run([DRIVERGEN], input="\n".join(lines) + "\n", capture_output=True, text=True, timeout=timeout, encoding="utf-8")
    if r.returncode != 0:
        raise RuntimeError("drivergen exit %s: %s" % (r.returncode, r.stderr[:300]))
    out = r.stdout.split("\n")
    return out[:-1] if out and out[-1] == "" else out


def _encodable(s):
    try:
        s.encode("utf-8")
        return True
    except UnicodeEncodeError:
        return False


# ------------------------------------------------------------------------------------------------ naming
ALPHA = ("abzAZ059__ --..!'\"\\\n\t()" "éüñçøåßſİıǆ" "日本語한글" "①②½¾Ⅷⅻ" "̧́̀̈" "ﬁﬂ" " ​‮﻿"
         "𝔘𝒜𝟙😀" "ａｂ１" "㈱㍿№™" "ΑαЖж" "\x00\x7f")


def _rand_name(rng):
    n = rng.choice([0, 1, 1, 2, 3, 4, 6, 9, 14])
    return "".join(rng.choice(ALPHA) for _ in range(n))


def _rand_codepoints(rng):
    out = []
    for _ in range(rng.randint(1, 5)):
        while True:
            cp = rng.choice([rng.randint(0, 0x2FF), rng.randint(0x300, 0x36F), rng.randint(0x370, 0xFFFF), rng.randint(0x1D400, 0x1D7FF),
                             rng.randint(0xAC00, 0xD7A3), rng.randint(0x2000, 0x33FF), rng.randint(0xFB00, 0xFFEF), rng.randint(0x10000, 0x10FFFF)])
            if not (0xD800 <= cp <= 0xDFFF):
                break
        out.append(chr(cp))
    return "".join(out)


def c17_naming(tier, seed):
    from xstate_statemachine.cli.naming import to_identifier, IdentifierAllocator, _SOFT_KEYWORDS, _SHADOW_RISK
    from xstate_statemachine.cli.emit import RESERVED_BINDINGS
    rng = random.Random(seed * 7919 + 17)
    n_rand = 6000 if tier == "quick" else 120000
    names = list(c17gen.HOSTILE) + list(keyword.kwlist) + sorted(_SOFT_KEYWORDS) + sorted(_SHADOW_RISK) + sorted(RESERVED_BINDINGS)
    names += [k + "_" for k in keyword.kwlist] + ["_" + k for k in keyword.kwlist] + [k.upper() for k in keyword.kwlist]
    names += [_rand_name(rng) for _ in range(n_rand)] + [_rand_codepoints(rng) for _ in range(n_rand // 2)]
    if tier == "thorough":
        # every single code point the transliteration table distinguishes, alone and between letters
        names += [chr(cp) for cp in range(0x80, 0x3000)] + ["a" + chr(cp) + "b" for cp in range(0x80, 0x3000, 3)]
    names = [n for n in names if _encodable(n)]
    fallbacks = ["state", "", "a.b", "日", "1x", "class", "_", "s t"]
    ties, fails, samples = [], [], []
    lines, meta = [], []
    for i, n in enumerate(names):
        fb = fallbacks[i % len(fallbacks)] if i % 3 == 0 else "state"
        lines.append("Q ident " + json.dumps([n, fb], ensure_ascii=False))
        meta.append((n, fb))
    out = run_drivergen(lines)
    nontrivial = 0
    for (n, fb), o in zip(meta, out):
        model = json.loads(o).get("r")
        got = to_identifier(n, fallback=fb)
        if got != model:
            ties.append({"query": "ident", "name": n, "fallback": fb, "impl": got, "model": model})
        if got != n:
            nontrivial += 1
        ok = got.isidentifier() and got.isascii() and not keyword.iskeyword(got) and got not in _SOFT_KEYWORDS and got not in _SHADOW_RISK and not got.startswith("_")
        if not ok:
            fails.append({"kind": "identifier-unsafe", "construct": "identifier-unsafe", "detail": "to_identifier(%r, fallback=%r) = %r" % (n, fb, got),
                          "case": {"name": n, "fallback": fb}})
        if len(samples) < 2 and n in ("__import__('os').system('touch PWNED_C17')", "日本語"):
            samples.append({"name": n, "fallback": fb, "identifier": got})
    # the keyword table the theorems are stated over is the running interpreter's
    tbl = c17tables.extract()
    if tbl["keywords"] != list(keyword.kwlist):
        ties.append({"query": "kwlist", "impl": list(keyword.kwlist), "model": tbl["keywords"]})
    # allocator: request sequences with repeats and collisions, several reserved sets
    n_seq = 150 if tier == "quick" else 2500
    pool = [n for n in names[:len(c17gen.HOSTILE) + 120]]
    alines, ameta = [], []
    for k in range(n_seq):
        base = rng.sample(pool, rng.randint(1, 10)) + rng.sample(["my-state", "my_state", "my state", "my.state", "State", "build", "s_1", "1", "s-1", "class", "class_", "class_2"], rng.randint(0, 6))
        reqs = [[rng.choice(base), rng.choice(["state", "a_b", ""])] for _ in range(rng.randint(1, 30))]
        reserved = None if k % 3 else sorted(rng.sample(sorted(RESERVED_BINDINGS) + ["my_state", "my_state_2", "class_", "state"], rng.randint(0, 8)))
        payload = {"req": reqs} if reserved is None else {"req": reqs, "reserved": reserved}
        alines.append("Q alloc " + json.dumps(payload, ensure_ascii=False))
        ameta.append((reqs, reserved))
    aout = run_drivergen(alines)
    for (reqs, reserved), o in zip(ameta, aout):
        model = json.loads(o).get("r")
        al = IdentifierAllocator(reserved=frozenset(reserved) if reserved is not None else RESERVED_BINDINGS)
        got = [al.allocate(n, fallback=fb) for n, fb in reqs]
        if got != model:
            ties.append({"query": "alloc", "req": reqs, "reserved": reserved, "impl": got, "model": model})
        by = {}
        for (n, _fb), b in zip(reqs, got):
            by.setdefault(b, set()).add(n)
        res = set(reserved) if reserved is not None else set(RESERVED_BINDINGS)
        if any(len(v) > 1 for v in by.values()) or any(b in res for b in got) or any(not b.isidentifier() or keyword.iskeyword(b) for b in got):
            fails.append({"kind": "allocator-collision", "construct": "allocator-collision", "detail": "requests %r -> %r" % (reqs[:6], got[:6]),
                          "case": {"req": reqs, "reserved": reserved}})
        if len(set(got)) < len(got) or any(b[-1].isdigit() for b in got):
            nontrivial += 1
    if len(samples) < 3 and ameta:
        samples.append({"alloc_requests": ameta[0][0][:6], "bindings": json.loads(aout[0]).get("r")[:6]})
    return {"evaluations": len(meta) + len(ameta) + 1, "nontrivial": nontrivial, "ties": ties, "fails": fails, "samples": samples, "exhaustive": False,
            "what": f"to_identifier on {len(meta)} hostile/keyword/random-Unicode strings and IdentifierAllocator on {len(ameta)} request sequences "
                    f"(repeats, collisions, reserved sets) vs the Lean model; results checked with str.isidentifier / keyword.iskeyword"}


# ------------------------------------------------------------------------------------------------ guard fragment of the IR
def _guard_pool(tier, seed):
    from . import qchecks
    rng = random.Random(seed * 31 + 3)
    fs = qchecks.gen_formulas(2 if tier == "quick" else 3, rng, 1200 if tier == "quick" else 9000)
    extra = ["g", "and", "stateIn", "", {"type": "g"}, {"type": "g", "params": {"k": 1}}, {"type": "g", "params": None}, {"type": "g", "params": []},
             {"type": 5}, {"params": {"guards": ["a"]}}, None, 7, ["a"], {"type": "and", "params": {"guards": "a"}}, {"type": "and", "params": {"guards": []}},
             {"type": "and", "params": {"guards": [None, "a", 3, {"type": "b"}]}}, {"type": "custom", "params": {"guards": ["a"], "k": 2}},
             {"type": "or", "params": {"guards": ["a"], "children": ["b"]}, "children": ["c"]}, {"type": "not", "params": {"guard": "a", "guards": ["b"]}},
             {"type": "and", "params": {"guards": [{"type": "and", "params": {"guards": [{"type": "not", "children": ["x"]}]}}]}},
             {"type": "it's \"q\"\n", "params": {"guards": ["\\", "日本"]}}]
    return fs + extra


def c17_guard_ir(tier, seed):
    """T: `emit.render_guard(ir.parse_guard(g))` as DATA vs the Lean `renderGuard (irGuard g)`;
    O: the rendered guard must parse (GuardDefinition) to what the source guard parses to"""
    import ast as _ast
    from xstate_statemachine.cli.ir import parse_guard
    from xstate_statemachine.cli.emit import render_guard
    from xstate_statemachine.models import GuardDefinition
    from . import c17fp
    pool = _guard_pool(tier, seed)
    lines = ["Q irguard " + json.dumps(g, ensure_ascii=False) for g in pool]
    out = run_drivergen(lines)
    ties, fails, samples, nontrivial = [], [], [], 0
    for g, o in zip(pool, out):
        model = json.loads(o).get("r")
        ir = parse_guard(g)
        txt = render_guard(ir)
        impl = None if txt is None else _ast.literal_eval(txt)
        if impl != model:
            ties.append({"query": "irguard", "guard": g, "impl": impl, "model": model})
        if impl is None or g is None:
            continue
        try:
            src = c17fp.guard_fp(GuardDefinition(g))
        except Exception:
            continue                      # the source guard itself is rejected by the library
        try:
            gen = c17fp.guard_fp(GuardDefinition(impl))
        except Exception as e:
            gen = {"$g": "error", "type": type(e).__name__}
        if isinstance(g, dict):
            nontrivial += 1
        if src != gen:
            construct = c17fp.classify_guard_diff(src, gen) if gen.get("$g") != "error" else "rendered-guard-rejected"
            fails.append({"kind": "guard-roundtrip", "construct": construct, "template": None,
                          "detail": "source guard %s is emitted as %s" % (json.dumps(g)[:200], json.dumps(impl)[:120]), "case": {"guard": g}})
        elif len(samples) < 1 and isinstance(g, dict) and g.get("type") == "and":
            samples.append({"guard": g, "emitted": impl})
    return {"evaluations": len(pool), "nontrivial": nontrivial, "ties": ties, "fails": fails, "samples": samples, "exhaustive": False,
            "what": f"ir.parse_guard + emit.render_guard on {len(pool)} guard formulas (all operand spellings, params, stateIn, junk) vs the Lean "
                    f"irGuard/renderGuard; the emitted guard must parse to the source guard (GuardDefinition, full structure)"}


# ------------------------------------------------------------------------------------------------ CLI matrix
def _task(case, template, asy, files, seed, fast=True, n_traces=3):
    return {"id": "%s|%s|%s|%d" % (case["id"], template, "async" if asy else "sync", files), "machine": case["machine"], "template": template,
            "async": asy, "files": files, "fast": fast, "twin": case.get("twin"), "names": case.get("names"), "seed": seed,
            "origin": case["origin"], "features": case.get("features", []), "n_traces": n_traces, "timeout": 90 if not fast else 60}


def build_tasks(tier, seed):
    rng = random.Random(seed * 104729 + 5)
    tasks = []
    modes = [(a, f) for a in (False, True) for f in (1, 2)]
    T = c17gen.TEMPLATES
    # 1. one machine per construct: every template, mode rotating (all four modes in thorough)
    for i, name in enumerate(sorted(c17gen.FEATURES)):
        case = c17gen.feature_case(name)
        for j, tpl in enumerate(T):
            for (a, f) in (modes if tier == "thorough" else [modes[(i + j) % 4]]):
                tasks.append(_task(case, tpl, a, f, seed))
    # 3. hostile / colliding names: one kind of position at a time, then mixtures; with the benign twin
    n_host = 32 if tier == "quick" else 300
    for i in range(n_host):
        focus = c17gen.KIND_POS[i % len(c17gen.KIND_POS)] if i % 2 == 0 else None
        case = c17gen.hostile_case(seed, i, focus)
        for j, tpl in enumerate(T if tier == "thorough" else [T[i % 5], T[(i + 2) % 5]]):
            a, f = modes[(i + j) % 4]
            tasks.append(_task(case, tpl, a, f, seed, n_traces=2))
    # 2. random combinations of constructs
    for i in range(20 if tier == "quick" else 200):
        case = c17gen.combo_case(seed, i)
        for j, tpl in enumerate(T):
            for (a, f) in (modes if tier == "thorough" and i < 40 else [modes[(i + j) % 4]]):
                tasks.append(_task(case, tpl, a, f, seed))
    # 5. Stately exports x 5 templates x sync/async x 1/2 files
    files = c17gen.stately_files()
    sample = files if tier == "thorough" else rng.sample(files, 12)
    for fn in sample:
        case = c17gen.stately_case(fn)
        for tpl in T:
            for (a, f) in modes:
                tasks.append(_task(case, tpl, a, f, seed, n_traces=2))
    # 4. machines of the engine generator (other name alphabets: `tr:a.b:E:0`, history, wildcards, built-ins)
    profs = ["core", "history", "done", "select", "actions", "descr", "loops"]
    for i in range(14 if tier == "quick" else 150):
        case = c17gen.engine_case(seed, profs[i % len(profs)], i)
        for j, tpl in enumerate(T if tier == "thorough" else [T[i % 5], T[(i + 1) % 5]]):
            a, f = modes[(i + j) % 4]
            tasks.append(_task(case, tpl, a, f, seed))
    # 6. a sample through the REAL formatter path (`python -m black` subprocess), bytes compared with the in-process one
    k = 10 if tier == "quick" else 80
    for t in rng.sample(tasks, k):
        t2 = dict(t)
        t2["fast"] = False
        t2["id"] += "|realblack"
        t2["timeout"] = 120
        tasks.append(t2)
    return tasks


def _pool_size():
    return max(2, min(10, (os.cpu_count() or 4) - 2))


def run_tasks(tasks, deadline, workers=None):
    from . import c17run
    shutil.rmtree(c17run.SCRATCH, ignore_errors=True)
    os.makedirs(c17run.SCRATCH, exist_ok=True)
    ctx = mp.get_context("fork")
    try:                              # imported once in the parent, inherited by the forked workers
        import black  # noqa: F401
        import xstate_statemachine.cli.__main__  # noqa: F401
    except Exception:
        pass
    results = []
    pool = ctx.Pool(workers or _pool_size(), maxtasksperchild=60)
    try:
        pend = [(t, pool.apply_async(c17run.run_task, (t,))) for t in tasks]
        for t, ar in pend:
            left = deadline - time.time()
            try:
                if left <= 0 and not ar.ready():
                    raise mp.TimeoutError()          # budget used up: what has not finished is not waited for
                results.append(ar.get(min(max(left, 0.01), t.get("timeout", 60) * 2 + 30)))
            except mp.TimeoutError:
                results.append({"id": t["id"], "exit": "hang", "problems": [] if time.time() > deadline else
                                [{"kind": "hang", "construct": "hang", "detail": "worker did not answer"}],
                                "stats": {"deadline": 1} if time.time() > deadline else {}, "files": [], "refusal": None, "bindings": None,
                                "key": {k: t[k] for k in ("template", "async", "files", "origin")}, "features": t.get("features", []), "wall": 0})
    finally:
        pool.terminate()
        shutil.rmtree(c17run.SCRATCH, ignore_errors=True)
    return results


def c17_cli(tier, seed, tasks=None):
    budget = 70 if tier == "quick" else 800
    deadline = time.time() + budget
    tasks = build_tasks(tier, seed) if tasks is None else tasks
    by_id = {t["id"]: t for t in tasks}
    results = run_tasks(tasks, deadline)
    # a watchdog expiry on a loaded machine is not yet a hang: run those configurations again, few at a time, with a longer
    # watchdog; only what expires twice is reported (what cannot be re-run within the budget counts as not explored)
    slow = [i for i, r in enumerate(results) if r.get("exit") == "hang" and not (r.get("stats") or {}).get("deadline")]
    if slow:
        again = []
        for i in slow:
            t2 = dict(tasks[i])
            t2["timeout"] = 100
            again.append(t2)
        redo = run_tasks(again, max(deadline, time.time() + 10) + (30 if tier == "quick" else 120), workers=4)
        for i, r in zip(slow, redo):
            if r.get("exit") == "hang" and not r["problems"]:
                r["stats"] = {"deadline": 1}
            r.setdefault("stats", {})["watchdog_retried"] = 1
            results[i] = r
    ties, fails, samples = [], [], []
    stats = collections.Counter()
    refusals = collections.Counter()
    per_tpl = collections.Counter()
    feats = collections.Counter()
    # model tie on the state bindings found in the generated files
    blines, bmeta = [], []
    for r in results:
        stats["configs"] += 1
        k = r.get("key", {})
        per_tpl["%s/%s/%d-file" % (k.get("template"), "async" if k.get("async") else "sync", k.get("files", 0))] += 1
        stats["origin:" + str(k.get("origin"))] += 1
        stats["cpu_s:" + str(k.get("origin"))] += r.get("wall", 0)
        for f in r.get("features", []):
            feats[f] += 1
        for s, v in (r.get("stats") or {}).items():
            if isinstance(v, (int, float)) and not isinstance(v, bool):
                stats[s] += v
            else:
                stats[s + ":count"] += 1
                if s == "harness_error":
                    raise core.CheckError("c17 worker: " + str(v))
        if r.get("refusal") and r["exit"] != 0:
            refusals[r["refusal"][:90]] += 1
        if r.get("bindings"):
            blines.append("Q alloc " + json.dumps({"req": r["bindings"]["req"]}, ensure_ascii=False))
            bmeta.append(r)
        for p in r["problems"]:
            t = by_id.get(r["id"], {})
            fails.append({**p, "template": k.get("template"), "async": k.get("async"), "files": k.get("files"), "config": r["id"],
                          "case": {"machine": t.get("machine"), "template": k.get("template"), "async": k.get("async"), "files": k.get("files")}})
        if len(samples) < 2 and r["exit"] == 0 and not r["problems"] and (r.get("stats") or {}).get("traces") and k.get("origin") in ("combo", "hostile"):
            samples.append({"config": r["id"], "features": r.get("features"), "exit": 0, "files": r["files"], "states": r["stats"].get("states"),
                            "traces": r["stats"].get("traces")})
    if blines:
        for r, o in zip(bmeta, run_drivergen(blines)):
            model = json.loads(o).get("r")
            got = [b for b, _k in r["bindings"]["got"] if b not in ("_root", "machine_root")]
            stats["binding_sets_compared"] += 1
            if sorted(got) != sorted(model):
                ties.append({"query": "bindings-in-generated-file", "config": r["id"], "impl": sorted(got)[:20], "model": sorted(model)[:20]})
    nontrivial = int(stats["built"])
    return {"evaluations": len(results), "nontrivial": nontrivial, "ties": ties, "fails": fails, "samples": samples, "exhaustive": False,
            "what": f"real `xsm generate-template` on {len(results)} configurations (construct families, hostile names with benign twins, engine-generator "
                    f"machines, Stately exports) x templates x sync/async x 1/2 files: refusal writes nothing; output parses, imports cleanly, rebuilds the "
                    f"machine (deep fingerprint + traces), binds every name, regenerates byte-identically, --check silent, strings only as data",
            "stats": dict(stats), "refusals": dict(refusals.most_common(12)), "per_template": dict(per_tpl), "features": dict(feats.most_common())}


# ------------------------------------------------------------------------------------------------ known findings
def _is(prob, kinds, constructs=None, templates=None):
    if prob.get("kind") not in kinds:
        return False
    if constructs is not None and not any(c in str(prob.get("construct")) for c in constructs):
        return False
    if templates is not None and prob.get("template") not in templates:
        return False
    return True


PYTHONIC = ("pythonic-functional", "pythonic-builder", "pythonic-class")
JSONT = ("class-json", "function-json")


def _only(prob, allowed):
    """every construct named by the problem (a trace diff lists all fingerprint constructs of its configuration) is allowed"""
    cs = str(prob.get("construct", "")).split("+")
    return all(c in allowed for c in cs)


F16_CONSTRUCTS = {"guard-params-dropped", "stateIn-params-dropped", "composite-operands-dropped", "composite-operands-misread"}


def f16_guard_structure_lost(prob, case, flavor):
    """pythonic templates: a guard's params / operands written under `children` are lost (fingerprint, or the trace that follows from it);
    the same loss seen at function level (`render_guard(parse_guard(g))`)"""
    if prob.get("kind") == "guard-roundtrip":
        return _only(prob, F16_CONSTRUCTS)
    return prob.get("template") in PYTHONIC and prob.get("kind") in ("fingerprint-diff", "trace-diff") and _only(prob, F16_CONSTRUCTS)


def f16_statein_stub(prob, case, flavor):
    return prob.get("template") in PYTHONIC and prob.get("kind") == "builtin-shadowed" and prob.get("construct") == "stateIn-stub"


def f40_not_extracted(prob, case, flavor):
    return prob.get("template") in JSONT and prob.get("kind") == "unbound-name" and "not-extracted" in str(prob.get("construct")).split("+")


def f45b_operator_named_guard(prob, case, flavor):
    """F45b: the ONLY names without a stub are named guards spelled exactly like a composite operator (a bare string
    `"and"` / `"or"` / `"not"`): the extractor takes the string for the operator, the engine for a guard name"""
    ne = prob.get("not_extracted") or []
    return (prob.get("template") in JSONT and prob.get("kind") == "unbound-name" and "not-extracted" in str(prob.get("construct")).split("+")
            and bool(ne) and set(ne) <= {"and", "or", "not"})


def f41_not_discoverable(prob, case, flavor):
    return prob.get("template") in JSONT and prob.get("kind") == "unbound-name" and "not-discoverable" in str(prob.get("construct")).split("+")


def f42_unverified_file_invalid(prob, case, flavor):
    """the files nobody parses before they are written: the merged single-file module and the 2-file runner"""
    return prob.get("kind") == "invalid-python" and ((prob.get("files") == 1 and prob.get("role") == "single") or
                                                     (prob.get("files") == 2 and prob.get("role") == "runner"))


def f44_stub_name_collision(prob, case, flavor):
    return prob.get("kind") == "import-error" and prob.get("construct") == "stub-name-collision" and prob.get("files") == 1 and bool(prob.get("collisions"))


def f43_service_alias(prob, case, flavor):
    return prob.get("template") in JSONT and prob.get("kind") == "json-string-as-identifier" and prob.get("construct") == "service-alias"


CLASSIFIERS = {
    "c17-service-alias-raw-identifier": f43_service_alias,
    "c17-guard-structure-lost-pythonic": f16_guard_structure_lost,
    "c17-stateIn-stub-overrides-builtin": f16_statein_stub,
    "c17-json-template-name-not-extracted": f40_not_extracted,
    "c17-json-template-operator-named-guard-not-extracted": f45b_operator_named_guard,
    "c17-json-template-name-not-discoverable": f41_not_discoverable,
    "c17-single-file-invalid-python": f42_unverified_file_invalid,
    "c17-single-file-stub-name-collision": f44_stub_name_collision,
}


# ------------------------------------------------------------------------------------------------ runner
def replay_finding(path, seed=0):
    """re-run the configuration(s) of a finding file against the real CLI; returns the problems found"""
    from . import c17run
    r = json.load(open(path))
    out = []
    for cfg in r.get("configs") or [r["config"]]:
        case = {"id": "replay", "machine": cfg["machine"], "origin": "replay", "features": []}
        t = _task(case, cfg["template"], bool(cfg.get("async")), int(cfg.get("files", 2)), seed)
        res = c17run.run_task(t)
        for p in res["problems"]:
            out.append({**p, "template": cfg["template"], "async": bool(cfg.get("async")), "files": int(cfg.get("files", 2))})
        if (res.get("stats") or {}).get("harness_error"):
            raise core.CheckError(res["stats"]["harness_error"])
    return out


def run_check(prop, tier, seed):
    from . import props
    t0 = time.time()

    def log(*a):
        print(*a, file=sys.stderr, flush=True)
    findings = core.load_findings()
    open_f = [f for f in findings.get("open", []) if f["property"] == prop]
    fixed_f = [f for f in findings.get("fixed", []) if f["property"] == prop]
    # ---- P (with the code-generator tables regenerated first)
    try:
        changed, _tbl = c17tables.regenerate(core.LEAN_DIR)
        pb = core.build_and_audit(prop, thorough=(tier == "thorough"), extra_targets=tuple(props.PROPS[prop].get("lake_targets", ())))
        pb["tables_changed"] = bool(pb.get("tables_changed")) or changed
    except Exception as e:  # TableError of either extractor
        pb = {"ok": False, "stage": "tables", "log": "table extractor: %s" % e, "theorems": [], "axioms": {}}
    log(f"[P] {prop}: stage={pb['stage']} ok={pb['ok']} theorems={len(pb['theorems'])}")
    out_lines, exit_code = [], 0
    known_hits, violations, tie_breaks, oracle_fails, qsummaries, samples = {}, [], [], [], [], []
    reproduced = set()
    stats = collections.Counter()
    extra = {}

    def classify(prob):
        for f in open_f:
            fn = CLASSIFIERS.get(f.get("classifier"))
            try:
                if fn and fn(prob, prob.get("case"), "any"):
                    return f
            except Exception:
                pass
        return None
    if not os.path.exists(DRIVERGEN):
        log("[T] no drivergen binary: correspondence cannot run")
    else:
        # fixed findings must stay fixed; open findings are replayed (a stale one is reported on stderr, it suppresses nothing):
        # their configurations run first in the same worker pool as the exploration
        replay_tasks = []
        for f in fixed_f + open_f:
            r = json.load(open(os.path.join(core.VERIF, f["replay"])))
            for n, cfg in enumerate(r.get("configs") or [r["config"]]):
                case = {"id": "replay:%s:%d" % (f["id"], n), "machine": cfg["machine"], "origin": "replay", "features": ["replay:" + f["id"]]}
                replay_tasks.append(_task(case, cfg["template"], bool(cfg.get("async")), int(cfg.get("files", 2)), seed))
        from . import c17xproc
        for qfn in (c17_naming, c17_guard_ir, c17_cli, c17xproc.c17_regen_across_processes):
            tq = time.time()
            qr = qfn(tier, seed, tasks=replay_tasks + build_tasks(tier, seed)) if qfn is c17_cli else qfn(tier, seed)
            log(f"[{qfn.__name__}] {qr['evaluations']} evaluations, {len(qr['ties'])} disagreements, {len(qr['fails'])} monitor failures, {time.time() - tq:.1f}s")
            stats["evaluations"] += qr["evaluations"]
            stats["agree"] += qr["evaluations"] - len(qr["ties"])
            stats["nontrivial"] += qr["nontrivial"]
            unexplained = []
            for p in qr["fails"]:
                rid = str(p.get("config", "")).split(":")
                if rid[0] == "replay" and any(f["id"] == rid[1] for f in fixed_f):
                    violations.append({"kind": "regression-of-fixed-finding", "finding": rid[1], "problems": [{k: v for k, v in p.items() if k != "case"}]})
                    continue
                f = classify(p)
                if rid[0] == "replay" and f is not None and f["id"] == rid[1]:
                    reproduced.add(rid[1])
                if f is None:
                    unexplained.append(p)
                else:
                    known_hits[f["id"]] = f
                    stats["known_finding_problems"] += 1
            qsummaries.append({"check": qfn.__name__, "what": qr["what"], "evaluations": qr["evaluations"], "disagreements": len(qr["ties"]),
                               "monitor_failures": len(qr["fails"]), "unexplained_monitor_failures": len(unexplained), "exhaustive": qr["exhaustive"]})
            for k in ("stats", "refusals", "per_template", "features"):
                if k in qr:
                    extra[k] = qr[k]
            samples.extend({"query": qfn.__name__, **s} for s in qr["samples"][:2])
            tie_breaks.extend(qr["ties"][:50])
            oracle_fails.extend(unexplained)
    for f in open_f:
        if os.path.exists(DRIVERGEN) and f["id"] not in reproduced:
            log(f"[note] open finding {f['id']} no longer reproduces from its replay file (stale entry; it suppresses nothing)")
    # ---- verdict
    for fid, f in sorted(known_hits.items()):
        out_lines.append(f"KNOWN-FINDING: property={prop} {f['what']}")
    for v in violations:
        path = core.write_replay(prop, f"regress_{v['finding']}", v)
        out_lines.append(f"VIOLATION property={prop} replay={path}")
        exit_code = 1
    if oracle_fails:
        # smallest failing machine first; group by (kind, construct, template)
        oracle_fails.sort(key=lambda p: len(json.dumps(p.get("case"), default=str)))
        groups = collections.Counter((p.get("kind"), p.get("construct"), p.get("template")) for p in oracle_fails)
        first = oracle_fails[0]
        path = core.write_replay(prop, "oracle", {"property": prop, "kind": "property-monitor-failed-on-implementation", "flavor": "cli",
                                               "config": first.get("case"), "problems": [{k: v for k, v in p.items() if k != "case"} for p in oracle_fails[:40]],
                                               "groups": [{"kind": k[0], "construct": k[1], "template": k[2], "count": n} for k, n in groups.most_common(40)],
                                               "count": len(oracle_fails)})
        out_lines.append(f"VIOLATION property={prop} replay={path}")
        exit_code = 1
    broken = []
    if not pb["ok"]:
        broken.append({"obligation": "P", "stage": pb["stage"], "log": pb["log"][-2500:], "failed_at": pb.get("failed_at")})
    if tie_breaks:
        broken.append({"obligation": "T", "correspondence": "query/" + str(tie_breaks[0].get("query")), "count": len(tie_breaks), "first_difference": tie_breaks[0]})
    if broken and exit_code == 0:
        path = core.write_replay(prop, "broken", {"property": prop, "kind": "proof-or-correspondence-no-longer-checks", "broken": broken,
                                               "note": "the property monitor passed on every configuration explored; the property is no longer shown to hold"})
        out_lines.append(f"VIOLATION property={prop} replay={path} no-failing-input-found")
        exit_code = 1
    elif broken:
        core.write_replay(prop, "broken", {"property": prop, "broken": broken})
    wall = time.time() - t0
    n_thm = len(pb["theorems"]) if pb["theorems"] else len(core.property_theorems(prop))
    coverage = {
        "obligations": max(1, n_thm), "discharged": n_thm if pb["ok"] else 0,
        "checker_cmd": f"cd lean && lake build Xsm.Properties.{prop} drivergen && lake env lean .work/Audit_{prop}.lean  (#print axioms)",
        "trusted_base": ["Lean 4.33.0 kernel", "axioms: propext, Classical.choice, Quot.sound (audited per theorem)",
                         "tables translator harness/xsmverif/c17tables.py (keyword.kwlist, unicodedata of the running Python, cli/naming.py, cli/emit.py)",
                         "hand-written model lean/Xsm/Model/Codegen.lean (naming only; the IR/emitters are validated, not modelled)",
                         "Python's ast / repr / black (the emitted text denotes the objects it spells)"],
        "theorems": pb["theorems"], "axioms": pb["axioms"],
        "evaluations": stats["evaluations"], "distinct_nontrivial": stats["nontrivial"],
        "function_level_checks": qsummaries,
        "rule": "c17_cli: one evaluation = one (machine, template, sync/async, 1/2 files) configuration run through the real CLI three times (generate, "
                "regenerate, --check); non-trivial = exit 0 and the written module built a machine that was fingerprinted and traced. "
                "c17_naming: one evaluation = one string or one allocator request sequence; non-trivial = the identifier differs from the input / a suffix was needed",
        "traces_validated_against_impl": stats["agree"], "tie_disagreements": len(tie_breaks), "oracle_failures": len(oracle_fails),
        "known_finding_cases": stats["known_finding_problems"], "impl_hangs": int((extra.get("stats") or {}).get("hang", 0)), "corpus_cases": 0,
        "feature_histogram": extra.get("features", {}), "cli_stats": extra.get("stats", {}), "refusal_reasons": extra.get("refusals", {}),
        "per_template": extra.get("per_template", {}),
        "samples": samples or [{"note": "no sample"}], "tables_changed_this_run": pb.get("tables_changed", False),
    }
    core.write_evidence(prop, tier, seed, coverage, wall, 1 if exit_code else 0, props.ASSUMPTIONS.get(prop, props.ASSUMPTIONS["*"]))
    for l in out_lines:
        print(l)
    log(f"[{prop}] {tier} seed={seed} wall={wall:.1f}s evals={stats['evaluations']} tie_breaks={len(tie_breaks)} oracle_fails={len(oracle_fails)} "
        f"known={len(known_hits)} ({stats['known_finding_problems']} problems) exit={exit_code}")
    return exit_code


def replay_main(prop, path):
    probs = replay_finding(path)
    for p in probs:
        print(json.dumps({k: v for k, v in p.items() if k != "case"}, default=str)[:1200])
    print(f"[{prop}] replay {path}: {len(probs)} problem(s)")
    return 1 if probs else 0


if __name__ == "__main__":
    if len(sys.argv) >= 3 and sys.argv[1] == "--replay":
        sys.exit(replay_main(PROP, sys.argv[2]))
    print("usage: python -m xsmverif.c17 --replay <finding.json>", file=sys.stderr)
    sys.exit(2)
