"""C14, directed supplement: stop() while an invoked service is in flight and its teardown misbehaves.

The lifecycle model (Model/Lifecycle.lean) has no services; this check drives the REAL async engine only and judges
it with the property's own words: after stop() returns the status is `stopped` and stays `stopped`, stop() is
idempotent (plugins are told once), start() on a stopped interpreter is refused with a library error, send() after
stop is ignored, and nothing is delivered to plugins / subscribers after stop() returned.

Scenarios = service behaviour on cancellation x error handler declared or not x when stop() lands:
  * `finally` that raises an ordinary exception, `except CancelledError: raise SomeError`, a service that swallows
    the cancellation and returns a value, one that swallows it and then raises, a well-behaved one, one that already
    returned / already failed before stop();
  * the invoke declares onError or not (an unhandled failure is what `_fail` turns into status `error` while running);
  * stop() at virtual time 0 (task not started), mid-flight, and right at the service's own deadline.
Every run is on the virtual-time loop under the watchdog; durations come from `seed`.
"""
from __future__ import annotations
import asyncio
import json
import random

from . import core, impl


KINDS = ["finally-raises", "except-cancel-raises", "swallow-return", "swallow-then-raise", "well-behaved", "returns-early", "fails-early"]


def _service(kind, dur, log):
    async def svc(interpreter, context, event):
        log.append("svc-start")
        try:
            if kind == "returns-early":
                await asyncio.sleep(dur / 4000.0)
                return "early"
            if kind == "fails-early":
                await asyncio.sleep(dur / 4000.0)
                raise ValueError("service failed on its own")
            await asyncio.sleep(dur / 1000.0)
            return "ok"
        except asyncio.CancelledError:
            log.append("svc-cancelled")
            if kind == "except-cancel-raises":
                raise RuntimeError("translated cancellation")
            if kind == "swallow-return":
                return "late"
            if kind == "swallow-then-raise":
                raise KeyError("late failure")
            raise
        finally:
            if kind == "finally-raises":
                raise RuntimeError("cleanup failed")
    return svc


def _machine(with_on_error):
    inv = {"src": "work", "onDone": {"target": "finished", "actions": ["sawDone"]}}
    if with_on_error:
        inv["onError"] = {"target": "failed", "actions": ["sawError"]}
    return {"id": "job", "initial": "idle",
            "states": {"idle": {"on": {"GO": "working"}},
                       "working": {"invoke": inv, "on": {"PING": "idle"}},
                       "finished": {}, "failed": {}}}


async def _scenario(kind, with_on_error, dur, stop_at):
    from xstate_statemachine import Interpreter, MachineLogic, PluginBase, create_machine
    from xstate_statemachine.exceptions import XStateMachineError
    log = []
    marks = {"stop_returned": None}

    class Census(PluginBase):
        def on_interpreter_stop(self, interpreter):
            log.append("plugin-stop")

        def on_error(self, interpreter, error):
            log.append("plugin-error")

        def on_transition(self, interpreter, from_states, to_states, transition):
            log.append("plugin-transition")

        def on_event_received(self, interpreter, event):
            log.append("plugin-recv:" + str(getattr(event, "type", event)))

    def act(name):
        def f(i, c, e, a):
            log.append("action:" + name)
        return f
    logic = MachineLogic(actions={"sawDone": act("sawDone"), "sawError": act("sawError")}, services={"work": _service(kind, dur, log)})
    it = Interpreter(create_machine(_machine(with_on_error), logic=logic))
    it.use(Census())
    it.subscribe(lambda snapshot: log.append("subscriber"))
    statuses = [it.status]

    def note():
        if statuses[-1] != it.status:
            statuses.append(it.status)
    await it.start(); note()
    await it.send("GO"); note()
    await asyncio.sleep(stop_at / 1000.0); note()
    status_before_stop = it.status
    await it.stop(); note()
    marks["stop_returned"] = len(log)
    status_after_stop = it.status
    # let everything that is still alive run: a cancelled task's late failure, a swallowed cancellation's return value
    for _ in range(5):
        await asyncio.sleep((dur + 50) / 1000.0); note()
    late = log[marks["stop_returned"]:]
    before2 = len(log)
    await it.stop(); note()
    second_stop = log[before2:]
    restart = "no-exception"
    try:
        await it.start(); note()
    except XStateMachineError as x:
        restart = "lib:" + type(x).__name__
    except Exception as x:
        restart = "RAW:" + type(x).__name__
    before3 = len(log)
    try:
        await it.send("PING"); note()
        await asyncio.sleep(0.01); note()
        send_exc = ""
    except Exception as x:
        send_exc = type(x).__name__
    after_send = log[before3:]
    alive = [t.get_name() for t in asyncio.all_tasks() if t is not asyncio.current_task() and not t.done()]
    return {"statuses": statuses, "status_before_stop": status_before_stop, "status_after_stop": status_after_stop,
            "final": it.status, "late": late, "second_stop": second_stop, "restart": restart, "after_send": after_send,
            "send_exc": send_exc, "alive": len(alive), "log_head": log[:12]}


def _run(args):
    kind, with_on_error, dur, stop_at = args

    def runner(_case):
        loop = impl.VirtualLoop()
        loop.set_exception_handler(lambda _l, _c: None)
        asyncio.set_event_loop(loop)
        try:
            return loop.run_until_complete(_scenario(kind, with_on_error, dur, stop_at))
        finally:
            try:
                for t in asyncio.all_tasks(loop):
                    t.cancel()
                loop.run_until_complete(asyncio.sleep(0))
            except BaseException:
                pass
            loop.close()
            asyncio.set_event_loop(None)
    impl.RUNNERS["c14svc"] = runner
    try:
        return impl.run_guarded("c14svc", None, 20)
    finally:
        impl.RUNNERS.pop("c14svc", None)


def judge(sc, r):
    """problems of one scenario, in the property's own terms"""
    out = []

    def bad(kind, detail):
        out.append({"kind": kind, "detail": detail, "scenario": sc})
    if r["status_before_stop"] in ("running", "done", "error"):
        if r["status_after_stop"] != "stopped":
            bad("status-after-stop", f"status is {r['status_after_stop']!r} when stop() returns (was {r['status_before_stop']!r})")
        if r["final"] != "stopped":
            bad("stopped-is-not-final", f"status moved on after stop(): {r['statuses']}")
        i = r["statuses"].index("stopped") if "stopped" in r["statuses"] else None
        if i is not None and r["statuses"][i + 1:]:
            bad("stopped-is-not-final", f"status trace {r['statuses']}")
    if any(x.startswith(("plugin-", "subscriber", "action:")) for x in r["late"]):
        bad("delivered-after-stop", f"after stop() returned: {r['late'][:6]}")
    if any(x == "plugin-stop" for x in r["second_stop"]):
        bad("stop-not-idempotent", f"second stop() told the plugins again: {r['second_stop'][:4]}")
    if r["status_after_stop"] == "stopped" and not r["restart"].startswith("lib:"):
        bad("restart-not-refused", f"start() on a stopped interpreter: {r['restart']}")
    if r["after_send"] or r["send_exc"]:
        bad("send-after-stop-not-ignored", f"send() after stop: {r['after_send'][:4]} {r['send_exc']}")
    if r["alive"]:
        bad("task-alive-after-stop", f"{r['alive']} task(s) of the interpreter still pending at the end")
    return out


def c14_raising_service_teardown(tier, seed):
    rng = random.Random(seed * 7919 + 17)
    scen = []
    reps = 3 if tier == "quick" else 20
    for kind in KINDS:
        for with_on_error in (False, True):
            for _ in range(reps):
                dur = rng.choice([40, 100, 250, 800])
                for stop_at in (0, rng.randint(1, max(1, dur - 1)), dur, dur + rng.randint(1, 30)):
                    scen.append((kind, with_on_error, dur, stop_at))
    res = core.pool().map(_run, scen, chunksize=4)
    fails, samples = [], []
    nontrivial = 0
    hist = {}
    for sc, (st, r) in zip(scen, res):
        key = {"kind": sc[0], "onError": sc[1], "dur": sc[2], "stop_at": sc[3]}
        if st != "ok":
            st2, r2 = _run(sc)                      # once more, alone (a loaded machine)
            if st2 != "ok":
                fails.append({"kind": "hang" if st2 == "hang" else "raw-exception", "detail": f"{st2}: {r2}", "scenario": key})
                continue
            r = r2
        probs = judge(key, r)
        fails.extend(probs)
        if "svc-cancelled" in r["log_head"] or "svc-cancelled" in r["late"]:
            nontrivial += 1
        hist[r["status_before_stop"]] = hist.get(r["status_before_stop"], 0) + 1
        if len(samples) < 2 and not probs and sc[0] == "finally-raises":
            samples.append({"scenario": key, "statuses": r["statuses"], "restart": r["restart"]})
    return {"evaluations": len(scen), "nontrivial": nontrivial, "ties": [], "fails": fails, "samples": samples, "exhaustive": False,
            "what": f"stop() while an invoked service is in flight, {len(KINDS)} teardown behaviours x onError declared or not x 4 placements of "
                    f"stop() (async engine, virtual time): status after stop and later, idempotence, restart refused, send ignored, nothing "
                    f"delivered after stop, no task left; status before stop: {json.dumps(hist, sort_keys=True)}"}
