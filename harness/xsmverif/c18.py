"""C18 — config front end: spellings are equivalent, malformed input fails loudly.

Three checks in the q_check shape (AGENT_GUIDE):

  c18_spellings    metamorphic: generated machines x random NON-EMPTY sets of spelling rewrites; the
                   ORIGINAL and the REWRITTEN config are run on the real engines with the same events and
                   must be observed identically (configurations, status, ordered log, history, context) -> `fails`;
                   the model parses both (`M` on `driver`, canonical dump `P` on `driver_c18`) -> `ties`.
  c18_targets      function level: every spelling of every (source, target) pair of small machines —
                   including deliberately ambiguous ones — through `resolve_target_state` and the
                   engines' robust resolution vs the model's `resolveTarget` / `resolveRobust` -> `ties`;
                   under the hypotheses of theorem `target_spellings_agree` all spellings must name the
                   target -> `fails`.
  c18_corruptions  ALL single-point type corruptions of a set of base configs; outcome classified as
                   library error (stage) | raw exception (site) | accepted; a raw exception is a `fail`
                   (one per distinct SITE); accept/reject + error class vs the model's `M` verdict -> `ties`.

Raw-exception sites that are recorded as OPEN findings in known_findings.json (classifier
`c18-raw-site:<key>`) are reported through KNOWN-FINDING lines by check.py (their replays run there)
and are taken out of `fails` here with the same classifier registry (props.CLASSIFIERS); any OTHER site
is still a violation.
"""
from __future__ import annotations
import copy, json, os, random, signal, sys, traceback, collections, logging

from . import core, gen, impl, modelio

DRIVER_C18 = os.path.join(modelio.LEAN_DIR, ".lake", "build", "bin", "driver_c18")

# =================================================================================================
# shared helpers
# =================================================================================================

def _guarded(fn, timeout):
    """run fn() under the SIGALRM watchdog of impl.py; returns ('ok', r) | ('hang', None)"""
    old = signal.signal(signal.SIGALRM, impl._alarm)
    impl._HUNG[0] = False
    signal.setitimer(signal.ITIMER_REAL, timeout, 0.2)
    try:
        r = fn()
        signal.setitimer(signal.ITIMER_REAL, 0)
        if impl._HUNG[0]:
            return ("hang", None)
        return ("ok", r)
    except impl.Hang:
        return ("hang", None)
    finally:
        signal.setitimer(signal.ITIMER_REAL, 0)
        signal.signal(signal.SIGALRM, old)


def _pool_map(fn, args, per_item=4.0):
    """map in the shared worker pool; a worker that stops answering makes the batch fall back to one by one"""
    import multiprocessing as mp
    budget = 60 + per_item * (len(args) / 4 + 1)
    try:
        return core.pool().map_async(fn, args, chunksize=8).get(budget)
    except mp.TimeoutError:
        core.close_pool()
        out = []
        for a in args:
            try:
                out.append(core.pool().apply_async(fn, (a,)).get(per_item * 3 + 10))
            except mp.TimeoutError:
                core.close_pool()
                out.append({"out": "hang", "stage": "?", "cls": "", "msg": "", "site": "hang"})
        return out


def _int_delay_keys(cfg):
    """the Python-only spelling of delays: `after: {1000: ...}` instead of `after: {"1000": ...}`"""
    if isinstance(cfg, dict):
        out = {}
        for k, v in cfg.items():
            if k == "after" and isinstance(v, dict):
                out[k] = {(int(d) if isinstance(d, str) and d.isdigit() else d): _int_delay_keys(t) for d, t in v.items()}
            else:
                out[k] = _int_delay_keys(v)
        return out
    if isinstance(cfg, list):
        return [_int_delay_keys(x) for x in cfg]
    return cfg


def _model_json(j):
    """the model's JSON has integers only: a float is sent as its integer part (Python's own `int()` and
    truthiness treat 1.5 like 1 everywhere the parser looks at a number)"""
    if isinstance(j, float):
        return int(j)
    if isinstance(j, dict):
        return {k: _model_json(v) for k, v in j.items()}
    if isinstance(j, list):
        return [_model_json(v) for v in j]
    return j


def model_verdicts(cfgs):
    """`M <json>` on the engine driver for every config -> list of ('ok', None) | ('err', text)"""
    lines = ["M " + json.dumps(_model_json(c)) for c in cfgs]
    out = []
    for i in range(0, len(lines), 2000):
        for o in modelio.run_driver(lines[i:i + 2000]):
            d = json.loads(o)
            out.append(("ok", None) if d.get("ok") else ("err", d.get("err", "")))
    return out


def run_driver_c18(lines, timeout=600):
    import subprocess
    r = subprocess.run([DRIVER_C18], input="\n".join(lines) + "\n", capture_output=True, text=True, timeout=timeout)
    if r.returncode != 0:
        raise RuntimeError(f"driver_c18 exit {r.returncode}: {r.stderr[:500]}")
    out = r.stdout.split("\n")
    if out and out[-1] == "":
        out = out[:-1]
    if len(out) != len(lines):
        raise RuntimeError(f"driver_c18 answered {len(out)} lines for {len(lines)} commands")
    return out


def _known_classifiers():
    """open C18 findings with their classifier functions (same registry check.py uses)"""
    from . import props
    res = []
    for f in core.load_findings().get("open", []):
        if f.get("property") == "C18":
            fn = props.CLASSIFIERS.get(f.get("classifier"))
            if fn is not None:
                res.append((f, fn))
    return res


def split_known(fails):
    """(unexplained, {finding id: count}) — a fail is explained only by an OPEN finding whose classifier matches"""
    known = _known_classifiers()
    rest, hits = [], collections.Counter()
    for p in fails:
        fid = None
        for f, fn in known:
            try:
                if fn(p, p.get("case") or {}, "sync"):
                    fid = f["id"]
                    break
            except Exception:
                pass
        if fid is None:
            rest.append(p)
        else:
            hits[fid] += 1
    return rest, dict(hits)


# =================================================================================================
# (ii) single-point type corruptions
# =================================================================================================

RICH = {
    "id": "m", "initial": "a", "context": {"n": 0}, "maxIterations": 20,
    "states": {
        "a": {"entry": ["enA"], "exit": "exA", "tags": ["t1"], "meta": {"k": 1},
              "on": {"GO": {"target": "b", "actions": ["act1", {"type": "act2", "params": {"p": 1}}], "guard": "g0"},
                     "ALT": [{"target": "#m.c", "cond": {"type": "and", "children": ["g0", {"type": "not", "children": ["g1"]}]}}, "b"],
                     "NOPE": None,
                     "IN": {"target": ".b.b1", "guard": {"type": "stateIn", "params": {"state": "#m.a"}}}},
              "always": {"target": "c", "guard": "g1"},
              "after": {"3600000": {"target": "b", "actions": ["late"]}}},
        "b": {"id": "bee", "initial": "b1", "onDone": {"target": "c", "actions": "doneB"},
              "states": {"b1": {"on": {"NEXT": "b2", "UP": {"target": "#bee", "reenter": True}}},
                         "b2": {"type": "final"},
                         "h": {"type": "history", "history": "deep", "target": "b1"}},
              "on": {"BACK": "#m.a", "": {"target": "c", "guard": "g1"}}},
        "c": {"type": "parallel",
              "states": {"r1": {"initial": "x", "states": {"x": {"on": {"T": "y"}}, "y": {"type": "final"}}},
                         "r2": {"states": {"only": {"invoke": {"id": "inv", "src": "svc", "onDone": {"actions": ["svcDone"]},
                                                               "onError": "#m.a"}}}}},
              "on": {"H": "#m.b.h", "GO": "a", "SET": {"actions": [{"type": "xstate.assign", "params": {"assignment": {"n": 3}}},
                                                                   {"type": "xstate.raise", "params": {"event": {"type": "PING"}}}]}}},
    }}
RICH_EVENTS = ["GO", "ALT", "NOPE", "IN", "NEXT", "UP", "BACK", "ALT", "T", "SET", "H"]
RICH_GUARDS = {"g0": "t", "g1": "f"}

REPLACEMENTS = [None, True, 0, 1.5, "x", [], ["x"], {}, {"x": 1}]


def subtrees(j, path=()):
    yield path
    if isinstance(j, dict):
        for k, v in j.items():
            yield from subtrees(v, path + (k,))
    elif isinstance(j, list):
        for i, v in enumerate(j):
            yield from subtrees(v, path + (i,))


def get_at(j, path):
    for k in path:
        j = j[k]
    return j


def replace_at(j, path, v):
    if not path:
        return copy.deepcopy(v)
    j = copy.deepcopy(j)
    cur = j
    for k in path[:-1]:
        cur = cur[k]
    cur[path[-1]] = copy.deepcopy(v)
    return j


def _same_json(a, b):
    return type(a) is type(b) and a == b


def corruptions(base):
    """every (path, replacement, corrupted config) with the replacement different from what is there"""
    for p in subtrees(base):
        cur = get_at(base, p)
        for r in REPLACEMENTS:
            if _same_json(cur, r):
                continue
            yield p, r, replace_at(base, p, r)


def _site_of(exc):
    """innermost frame of the LIBRARY in the traceback: (file, qualified function, line)"""
    fr = None
    tb = exc.__traceback__
    while tb is not None:
        fn = tb.tb_frame.f_code.co_filename
        if os.sep + "xstate_statemachine" + os.sep in fn:
            fr = (os.path.basename(fn), tb.tb_frame.f_code.co_qualname, tb.tb_lineno)
        tb = tb.tb_next
    return fr


def _mk_logic(log, gv):
    lg = impl.mklogic(log, gv)
    lg.services = {"svc": lambda i, c, e: 7}
    return lg


def classify_config(cfg, gv, events, int_keys=False):
    """create_machine -> start -> send every event, on the real SyncInterpreter.
    returns {"out": accepted|lib|raw, "stage": create|start|send:<ev>, "cls", "msg", "site", "line"}"""
    from xstate_statemachine import create_machine, SyncInterpreter
    from xstate_statemachine.exceptions import XStateMachineError
    log = []

    def outcome(kind, stage, x):
        s = _site_of(x) if kind == "raw" else None
        return {"out": kind, "stage": stage, "cls": type(x).__name__, "msg": str(x)[:160],
                "site": (f"{type(x).__name__}@{s[0]}:{s[1]}" if s else ""), "line": (s[2] if s else 0)}
    c = copy.deepcopy(cfg)
    if int_keys:
        c = _int_delay_keys(c)
    try:
        m = create_machine(c, logic=_mk_logic(log, gv))
    except XStateMachineError as x:
        return outcome("lib", "create", x)
    except impl.Hang:
        raise
    except Exception as x:
        return outcome("raw", "create", x)
    it = SyncInterpreter(m)
    res = {"out": "accepted", "stage": "", "cls": "", "msg": "", "site": "", "line": 0}
    try:
        try:
            it.start()
        except XStateMachineError as x:
            return outcome("lib", "start", x)
        except impl.Hang:
            raise
        except Exception as x:
            return outcome("raw", "start", x)
        for e in events:
            try:
                it.send(e)
            except XStateMachineError as x:
                return outcome("lib", "send:" + e, x)
            except impl.Hang:
                raise
            except Exception as x:
                return outcome("raw", "send:" + e, x)
        res["final"] = sorted(n.id for n in it._active_state_nodes)
        res["status"] = it.status
        return res
    finally:
        try:
            it.stop()
        except BaseException:
            pass


def _corr_worker(args):
    cfg, gv, events = args[:3]
    timeout = args[3] if len(args) > 3 else 6
    try:
        st, r = _guarded(lambda: classify_config(cfg, gv, events), timeout)
        if st == "hang":
            return {"out": "hang", "stage": "?", "cls": "", "msg": "", "site": "hang", "line": 0}
        return r
    except BaseException as e:   # never let a worker die silently
        return {"out": "harness", "stage": "?", "cls": type(e).__name__, "msg": str(e)[:200], "site": "harness", "line": 0}


# keys under which the tie with the model's `M` verdict is NOT taken, with the reason ---------------
def _tie_excluded(base, path):
    """the model reads the operand container of a guard object with `ensureList` (a non-list is ONE operand);
    the code iterates it (str -> characters, dict -> keys, bool/number -> raw TypeError). `parseGuard` is shared
    with the C06 proofs, so the difference is left in the model and these positions are excluded from the tie."""
    if not path:
        return None
    k = path[-1]
    if k in ("children", "guards") and _inside_guard(base, path):
        return "guard-operand-container"
    return None


def _inside_guard(base, path):
    return any(k in ("guard", "cond") for k in path[:-1])


def corruption_bases(tier, seed):
    """(name, config, guards, events): the hand-written rich config + generated ones"""
    bases = [("rich", RICH, RICH_GUARDS, RICH_EVENTS)]
    want = 3 if tier == "quick" else 14
    idx = 0
    profs = ["core", "select", "history", "actions"]
    while len(bases) < 1 + want and idx < 400:
        prof = profs[idx % len(profs)]
        c = gen.gen_case(seed, prof, 9000 + idx)
        idx += 1
        n = sum(1 for _ in subtrees(c["machine"]))
        if 60 <= n <= (260 if tier == "quick" else 420):
            bases.append((c["id"], c["machine"], c["guards"], c["events"]))
    return bases


def norm_message(msg):
    """an exception message without the concrete values: quoted words and `<class ...>` become `_`"""
    import re
    msg = re.sub(r"<class '[^']*'>", "_", msg)
    msg = re.sub(r"'[^']*'", "_", msg)
    return msg[:90]


def c18_corruptions(tier, seed):
    bases = corruption_bases(tier, seed)
    items = []       # (base name, path, replacement, cfg, gv, events)
    for name, base, gv, events in bases:
        for p, r, c in corruptions(base):
            items.append((name, p, r, c, gv, events))
    outs = list(_pool_map(_corr_worker, [(c, gv, ev) for (_n, _p, _r, c, gv, ev) in items]))
    # a hang must be repeatable to count (a loaded machine can stall a worker): second run, long watchdog
    hung = [i for i, o in enumerate(outs) if o["out"] == "hang"]
    for i, o in zip(hung, _pool_map(_corr_worker, [(items[i][3], items[i][4], items[i][5], 40) for i in hung], per_item=45.0)):
        outs[i] = o
    verdicts = model_verdicts([it[3] for it in items])
    base_by_name = {b[0]: b[1] for b in bases}
    ties, samples = [], []
    hist = collections.Counter()
    by_site = collections.OrderedDict()
    excluded = collections.Counter()
    accepted_by_key = collections.Counter()
    for (name, p, r, c, gv, events), o, (mv, merr) in zip(items, outs, verdicts):
        hist[(o["out"], o["stage"].split(":")[0], o["cls"])] += 1
        if o["out"] in ("raw", "hang", "harness"):
            skey = (o["site"], norm_message(o["msg"]))
            e = by_site.setdefault(skey, {"n": 0, "examples": [], "stages": collections.Counter(), "lines": set()})
            e["n"] += 1
            e["stages"][o["stage"].split(":")[0]] += 1
            e["lines"].add(o["line"])
            if len(e["examples"]) < 3:
                e["examples"].append({"base": name, "path": list(p), "replacement": r, "stage": o["stage"], "message": o["msg"]})
            if "case" not in e or len(json.dumps(c)) < len(json.dumps(e["case"]["machine"])):
                e["case"] = {"machine": c, "guards": gv, "events": events}
                e["where"] = {"base": name, "path": list(p), "replacement": r, "stage": o["stage"], "message": o["msg"], "line": o["line"]}
        if o["out"] == "accepted":
            accepted_by_key[str(p[-1]) if p and isinstance(p[-1], str) else "<item>"] += 1
        # ---- tie: accept/reject + error class at create_machine
        why = _tie_excluded(base_by_name[name], p)
        if why:
            excluded[why] += 1
            continue
        if o["out"] in ("hang", "harness"):
            continue
        if o["stage"] == "create":
            want = (o["cls"] + ":") if o["out"] == "lib" else ("RAW:" + o["cls"])
            agree = mv == "err" and (merr or "").startswith(want)
        else:
            agree = mv == "ok"
        if not agree:
            ties.append({"query": "corruption", "base": name, "path": list(p), "replacement": r,
                         "impl": {k: o[k] for k in ("out", "stage", "cls", "msg")}, "model": {"verdict": mv, "err": merr}})
    fails = []
    for (site, msg), e in by_site.items():
        kind = "hang" if site == "hang" else ("harness-error" if site == "harness" else "raw-exception")
        fails.append({"kind": kind, "site": site, "message": msg, "count": e["n"], "stages": dict(e["stages"]), "lines": sorted(e["lines"]),
                      "detail": f"{site}: {msg} ({e['n']} corruptions; e.g. {json.dumps(e['examples'][0])[:300]})",
                      "examples": e["examples"], "case": e["case"], "where": e["where"]})
    rest, hits = split_known(fails)
    n_lib = sum(v for k, v in hist.items() if k[0] == "lib")
    n_raw = sum(v for k, v in hist.items() if k[0] == "raw")
    n_acc = sum(v for k, v in hist.items() if k[0] == "accepted")
    stage_hist = collections.Counter()
    for (o_, st_, cls_), v in hist.items():
        stage_hist[f"{o_}/{st_}/{cls_}" if o_ != "accepted" else "accepted"] += v
    samples.append({"bases": [b[0] for b in bases], "outcomes": dict(stage_hist.most_common()),
                    "raw_sites": {f"{s[0]}: {s[1]}": e["n"] for s, e in by_site.items()}, "known_finding_sites": hits,
                    "tie_exclusions": dict(excluded), "accepted_by_last_key": dict(accepted_by_key.most_common(12))})
    return {"evaluations": len(items), "nontrivial": n_lib + n_raw, "ties": ties, "fails": rest, "samples": samples,
            "exhaustive": True,
            "what": (f"ALL single-point type corruptions (every JSON subtree x {len(REPLACEMENTS)} replacement values) of {len(bases)} base configs "
                     f"({', '.join(b[0] for b in bases)}): create_machine -> SyncInterpreter.start -> every event; {len(items)} corrupted configs: "
                     f"{n_lib} library errors, {n_raw} raw exceptions at {len(by_site)} distinct sites ({sum(hits.values())} sites are open findings), "
                     f"{n_acc} accepted; accept/reject + error class compared with the model's M verdict except {sum(excluded.values())} "
                     f"guard-operand-container positions")}


# =================================================================================================
# reference semantics of a target string (independent of resolver.py: written from its docstring)
# =================================================================================================

def _node_at(cfg, path):
    n = cfg
    for k in path:
        st = n.get("states") if isinstance(n, dict) else None
        if not isinstance(st, dict) or k not in st:
            return None
        n = st[k]
    return n


def _descend(cfg, base, segs):
    n = _node_at(cfg, base)
    if n is None:
        return None
    return list(base) + list(segs) if _node_at(n, segs) is not None else None


def custom_ids(cfg, path=()):
    """custom id -> path (document order, first wins; the library rejects duplicates)"""
    out = {}
    for k, c in (cfg.get("states") or {}).items():
        p = tuple(path) + (k,)
        if isinstance(c, dict):
            if isinstance(c.get("id"), str) and c["id"] and c["id"] not in out:
                out[c["id"]] = list(p)
            for i, q in custom_ids(c, p).items():
                out.setdefault(i, q)
    return out


def ref_resolve(cfg, src, target):
    """the state a target string names when written on state `src` (key paths); None = unresolvable.
    #abs (machine key first, then custom ids) | '.' | '.rel' from the parent | plain id bubbling up"""
    if not isinstance(target, str) or target == "":
        return None
    mid = cfg["id"]
    src = list(src)
    if target.startswith("#"):
        segs = target[1:].split(".")
        if any(s == "" for s in segs):
            return None
        if segs[0] == mid:
            r = _descend(cfg, [], segs[1:])
            if r is not None:
                return r
        cids = custom_ids(cfg)
        if segs[0] in cids:
            return cids[segs[0]] if len(segs) == 1 else _descend(cfg, cids[segs[0]], segs[1:])
        return None
    parent = src[:-1]
    if target == ".":
        return parent
    if target.startswith("."):
        segs = target[1:].split(".")
        if any(s == "" for s in segs):
            return None
        return _descend(cfg, parent, segs)
    segs = target.split(".")
    if any(s == "" for s in segs):
        return None
    cur = src
    while True:
        r = _descend(cfg, cur, segs)
        if r is not None:
            return r
        key = cur[-1] if cur else mid
        if len(segs) == 1 and segs[0] == key:
            return cur
        if not cur:
            return None
        cur = cur[:-1]


def target_spellings(cfg, src, p, cid=None):
    """candidate spellings (kind, string) of state `p` written on state `src`; not yet checked for ambiguity"""
    mid = cfg["id"]
    src, p = list(src), list(p)
    out = [("abs", "#" + mid + "".join("." + k for k in p))]
    # plain id: relative to any ancestor-or-self of the source (bubbling), or that state's own key
    for i in range(len(src), -1, -1):
        q = src[:i]
        if p[:len(q)] == q and len(p) > len(q):
            out.append(("plain", ".".join(p[len(q):])))
        elif p == q:
            out.append(("key", q[-1] if q else mid))
    par = src[:-1]
    if p[:len(par)] == par and len(p) > len(par):
        out.append(("dot", "." + ".".join(p[len(par):])))
    elif p == par:
        out.append(("dot", "."))
    if cid is not None:
        anchor, name = cid
        if p[:len(anchor)] == list(anchor):
            out.append(("custom", "#" + name + "".join("." + k for k in p[len(anchor):])))
    return out


# =================================================================================================
# (i) spelling rewrites
# =================================================================================================

REWRITE_KINDS = ["trans-str", "trans-obj", "trans-list", "trans-unlist", "always->on", "on->always", "always+on-merge",
                 "cond->guard", "guard->cond", "action-str->obj", "action-obj->str", "actions-unlist", "actions-list",
                 "initial-drop", "initial-add", "target-abs", "target-plain", "target-key", "target-dot", "target-custom",
                 "delay-int-keys"]


class Rewriter:
    """applies spelling rewrites to a machine config; every random choice comes from `rng`.
    `p` is the per-site probability; `applied` counts what was done, by kind."""

    def __init__(self, cfg, rng, p=0.5, kinds=None):
        self.cfg = cfg
        self.rng = rng
        self.p = p
        self.kinds = set(kinds) if kinds is not None else None
        self.applied = collections.Counter()
        self.cids = {}                     # path tuple -> custom id to add
        self.existing = {tuple(v): k for k, v in custom_ids(cfg).items()}
        self.n_cid = 0

    def flip(self, kind):
        if self.kinds is not None and kind.split(":")[0] not in self.kinds:
            return False
        return self.rng.random() < self.p

    def did(self, kind):
        self.applied[kind] += 1

    # ---- actions -----------------------------------------------------------------------------
    def action_item(self, a):
        if isinstance(a, str) and a and self.flip("action-str->obj"):
            self.did("action-str->obj")
            return {"type": a}
        if isinstance(a, dict):
            if list(a.keys()) == ["type"] and isinstance(a["type"], str) and a["type"] and self.flip("action-obj->str"):
                self.did("action-obj->str")
                return a["type"]
            a = dict(a)
            pr = a.get("params")
            if isinstance(pr, dict) and isinstance(pr.get("conditions"), list):      # choose: branches are guarded action lists
                pr = dict(pr)
                pr["conditions"] = [self.branch(b) for b in pr["conditions"]]
                a["params"] = pr
            return a
        return a

    def branch(self, b):
        if not isinstance(b, dict):
            return b
        b = self.guard_key(dict(b))
        if "actions" in b:
            b["actions"] = self.actions(b["actions"])
        return b

    def actions(self, v):
        if v is None or v == [] or v == "":
            return v
        if isinstance(v, list):
            items = [self.action_item(a) for a in v]
            if len(items) == 1 and isinstance(items[0], (str, dict)) and items[0] and self.flip("actions-unlist"):
                self.did("actions-unlist")
                return items[0]
            return items
        item = self.action_item(v)
        if isinstance(item, (str, dict)) and self.flip("actions-list"):
            self.did("actions-list")
            return [item]
        return item

    # ---- guards --------------------------------------------------------------------------------
    def guard_key(self, t):
        """t is a fresh dict"""
        if "guard" in t and "cond" not in t and t["guard"] is not None and self.flip("guard->cond"):
            self.did("guard->cond")
            return {("cond" if k == "guard" else k): v for k, v in t.items()}
        if "cond" in t and "guard" not in t and t["cond"] is not None and self.flip("cond->guard"):
            self.did("cond->guard")
            return {("guard" if k == "cond" else k): v for k, v in t.items()}
        return t

    # ---- targets -------------------------------------------------------------------------------
    def cid_for(self, p):
        """an (anchor path, custom id) usable to spell `p`: an existing id on p or an ancestor, or a new one on p"""
        p = tuple(p)
        for i in range(len(p), 0, -1):
            q = p[:i]
            if q in self.existing:
                return q, self.existing[q]
            if q in self.cids:
                return q, self.cids[q]
        if not p:
            return None
        return p, None          # a new id would be put on p itself

    def target(self, t, src, single):
        """another spelling of target string `t` written on state `src`, naming the same state"""
        p = ref_resolve(self.cfg, src, t)
        if p is None:
            return t
        if self.rng.random() >= self.p:
            return t
        anchor = self.cid_for(p)
        name_new = None
        cid = None
        if anchor is not None:
            if anchor[1] is None:
                name_new = f"cid{self.n_cid}"
                cid = (anchor[0], name_new)
            else:
                cid = anchor
        cands = []
        for kind, s in target_spellings(self.cfg, src, p, cid):
            if s == t:
                continue
            if self.kinds is not None and ("target-" + kind) not in self.kinds:
                continue
            if kind == "custom":
                # checked after the id exists; a custom id never collides with the machine id or another id here
                cands.append((kind, s))
            elif ref_resolve(self.cfg, src, s) == p:
                cands.append((kind, s))
        if not cands:
            return t
        kind, s = self.rng.choice(cands)
        if kind == "custom" and name_new is not None and cid[1] == name_new:
            self.cids[tuple(cid[0])] = name_new
            self.n_cid += 1
        self.did("target-" + kind)
        return s

    # ---- transitions ---------------------------------------------------------------------------
    def trans_item(self, t, src):
        """one transition config (str or dict) -> rewritten dict/str"""
        if isinstance(t, str):
            t = {"target": t}
            was_str = True
        elif isinstance(t, dict):
            t = dict(t)
            was_str = False
        else:
            return t
        if isinstance(t.get("target"), str) and t["target"]:
            t["target"] = self.target(t["target"], src, True)
        t = self.guard_key(t)
        if "actions" in t:
            t["actions"] = self.actions(t["actions"])
        only_target = list(t.keys()) == ["target"] and isinstance(t["target"], str)
        if only_target:
            if was_str:
                if self.flip("trans-obj"):
                    self.did("trans-obj")
                    return t
                return t["target"]
            if self.flip("trans-str"):
                self.did("trans-str")
                return t["target"]
        return t

    def transitions(self, v, src, single_only=False):
        """a transition config value: None | str | dict | list"""
        if v is None:
            return v
        if isinstance(v, list):
            items = [self.trans_item(x, src) for x in v]
            if len(items) == 1 and isinstance(items[0], (str, dict)) and self.flip("trans-unlist"):
                self.did("trans-unlist")
                return items[0]
            return items
        if isinstance(v, (str, dict)):
            item = self.trans_item(v, src)
            if self.flip("trans-list"):
                self.did("trans-list")
                return [item]
            return item
        return v

    # ---- states --------------------------------------------------------------------------------
    def state(self, n, path):
        if not isinstance(n, dict):
            return n
        out = {}
        for k, v in n.items():
            if k in ("entry", "exit"):
                out[k] = self.actions(v)
            elif k == "on" and isinstance(v, dict):
                out[k] = {ev: self.transitions(tc, path) for ev, tc in v.items()}
            elif k == "after" and isinstance(v, dict):
                out[k] = {d: self.transitions(tc, path) for d, tc in v.items()}
            elif k == "always":
                out[k] = self.transitions(v, path)
            elif k == "onDone":
                # only the first entry of a list is used by the library: keep lists of several as they are
                out[k] = v if (isinstance(v, list) and len(v) != 1) or not v else self.transitions(v, path)
            elif k == "invoke":
                out[k] = self.invoke(v, path)
            elif k == "states" and isinstance(v, dict):
                out[k] = {ck: self.state(c, path + [ck]) for ck, c in v.items()}
            elif k == "target" and n.get("type") == "history" and isinstance(v, str) and v:
                out[k] = self.target(v, path, True)
            else:
                out[k] = copy.deepcopy(v)
        self.always_vs_on(out)
        self.initial(out)
        return out

    def invoke(self, v, path):
        def one(i):
            if not isinstance(i, dict):
                return i
            i = dict(i)
            for k in ("onDone", "onError"):
                if k in i:
                    i[k] = self.transitions(i[k], path)
            return i
        if isinstance(v, list):
            return [one(i) for i in v]
        return one(v)

    @staticmethod
    def _as_items(v):
        if isinstance(v, list):
            return list(v)
        return [v]

    def always_vs_on(self, out):
        on = out.get("on")
        has_on_empty = isinstance(on, dict) and "" in on
        has_always = out.get("always") is not None and "always" in out
        if has_always and not has_on_empty and (on is None or isinstance(on, dict)) and self.flip("always->on"):
            self.did("always->on")
            a = out.pop("always")
            out["on"] = dict(on or {})
            out["on"][""] = a
        elif has_on_empty and not has_always and on[""] is not None and self.flip("on->always"):
            self.did("on->always")
            new_on = {k: v for k, v in on.items() if k != ""}
            items = list(out.items())
            res = {}
            for k, v in items:
                if k == "on":
                    res["on"] = new_on
                    res["always"] = on[""]
                elif k != "always":
                    res[k] = v
            out.clear()
            out.update(res)
        elif has_on_empty and has_always and on[""] is not None and self.flip("always+on-merge"):
            # the library puts the `on[""]` entries first, then the `always` entries
            self.did("always+on-merge")
            merged = self._as_items(on[""]) + self._as_items(out.pop("always"))
            out["on"] = {k: (merged if k == "" else v) for k, v in on.items()}

    def initial(self, out):
        st = out.get("states")
        if not isinstance(st, dict) or out.get("type") == "parallel":
            return
        real = [k for k, c in st.items() if not (isinstance(c, dict) and c.get("type") == "history")]
        if len(real) != 1:
            return
        if out.get("initial") == real[0] and self.flip("initial-drop"):
            self.did("initial-drop")
            del out["initial"]
        elif "initial" not in out and self.flip("initial-add"):
            self.did("initial-add")
            out["initial"] = real[0]

    def run(self):
        root = self.state(self.cfg, [])
        for p, name in self.cids.items():
            n = _node_at(root, p)
            assert n is not None and "id" not in n
            n["id"] = name
        return root


def rewrite(cfg, rng, kinds=None):
    """a rewritten config with a NON-EMPTY set of applied rewrites, or None when no site applies"""
    for p in (0.35, 0.6, 0.9, 1.0):
        rw = Rewriter(cfg, random.Random(rng.random()), p, kinds)
        out = rw.run()
        if sum(rw.applied.values()) > 0:
            return out, dict(rw.applied)
    return None


# ---- hand-written bases for the spellings that the generator does not emit ----------------------
SPELL_BASES = [
    # string transitions, `always`, `cond`, single actions, inferred initial, custom id, leading-dot targets
    {"id": "sp0", "machine": RICH, "guards": RICH_GUARDS, "events": RICH_EVENTS, "sync_only": True},
    {"id": "sp1", "guards": {"g0": "t", "g1": "f", "g2": "t"}, "events": ["S", "R", "E", "F", "G", "S", "E", "H", "F", "E", "G", "S"],
     "machine": {"id": "m", "initial": "p", "states": {
         "p": {"initial": "p1", "entry": "enP", "exit": ["exP"],
               "states": {"p1": {"on": {"E": "p2", "F": ".p3", "G": "#m.q", "S": "p1", "R": {"target": "p1", "reenter": True}},
                                 "entry": {"type": "enP1"}, "exit": "exP1"},
                          "p2": {"on": {"E": [{"target": "p3", "cond": "g1"}, "p1"], "H": "#deep"}, "always": [{"target": "p3", "guard": "g1"}]},
                          "p3": {"id": "three", "on": {"E": "#m", "F": "m", "G": "."}}},
               "on": {"H": {"target": "q.q1.q2", "actions": "toDeep"}}},
         "q": {"states": {"q1": {"states": {"q2": {"id": "deep", "on": {"E": "#three", "F": "#m.p.p1", "": {"target": "#m.p", "guard": "g1"}},
                                                   "always": {"target": "#m.p.p2", "cond": {"type": "not", "children": ["g2"]}}}}}},
               "on": {"G": {"target": "p"}, "H": [{"target": ".p.p2"}]}, "exit": [{"type": "exQ"}]}}}},
    # both `on[""]` and `always` on one state, both enabled: the order of the merged bucket decides
    {"id": "sp3", "guards": {"g0": "t", "g1": "t", "g2": "f"}, "events": ["E", "B", "E", "B"],
     "machine": {"id": "m", "initial": "a", "states": {
         "a": {"on": {"E": "b", "B": "c"}},
         "b": {"on": {"": {"target": "x", "guard": "g0", "actions": "viaOn"}}, "always": {"target": "y", "guard": "g1", "actions": ["viaAlways"]}},
         "c": {"on": {"": [{"target": "x", "guard": "g2"}, {"target": "y", "cond": "g0", "actions": "second"}]},
               "always": [{"target": "x", "guard": "g1", "actions": "third"}]},
         "x": {"on": {"B": {"target": "a"}, "E": "a"}, "entry": "enX"}, "y": {"on": {"B": "a", "E": [{"target": "#m.a"}]}, "entry": [{"type": "enY"}]}}}},
    # delays: string vs int keys (Python dict literal only), delivered explicitly as AfterEvents
    {"id": "sp2", "guards": {"g0": "t"}, "sync_only": True,
     "ops": [["send", "E"], ["after", "after.500000.m.b"], ["send", "E"], ["after", "after.900000.m.a"], ["after", "after.700000.m.b"]],
     "machine": {"id": "m", "initial": "a", "states": {
         "a": {"on": {"E": "b"}, "after": {"900000": {"target": "b", "actions": ["lateA"]}}},
         "b": {"after": {"500000": "a", "700000": [{"target": "a", "guard": "g0", "actions": "lateB"}]}, "on": {"E": "a"}}}}},
]


# a history pseudo-state's default `target` is resolved at its own call site (`_resolve_history_target`), not where
# transition targets are: every spelling of it, on a history child of a top-level and of a nested compound state,
# shallow and deep, entered before anything was recorded (and again afterwards)
HIST_DEFAULT_BASE = {"id": "m", "initial": "start", "states": {
    "start": {"on": {"GO": "#m.box.hist", "GO2": "#m.box.inner.hh"}},
    "box": {"initial": "low", "on": {"BACK": "#m.start"}, "entry": "enBox",
            "states": {"low": {"on": {"E": "high"}}, "high": {"id": "hi", "entry": "enHigh"},
                       "inner": {"initial": "u", "entry": "enInner",
                                 "states": {"u": {"on": {"E": "v"}}, "v": {"id": "vv", "entry": "enV"}, "w": {},
                                            "hh": {"type": "history", "history": "deep", "target": "#m.box.inner.v"}}},
                       "hist": {"type": "history", "history": "shallow", "target": "#m.box.high"}}}}}
HIST_DEFAULT_SITES = [(["box", "hist"], ["box", "high"]), (["box", "hist"], ["box", "inner", "v"]), (["box", "hist"], ["box", "inner"]),
                      (["box", "inner", "hh"], ["box", "inner", "v"]), (["box", "inner", "hh"], ["box", "inner", "w"])]


def history_default_pairs():
    """[(original case, rewritten case, applied)]: the default target written '#m.<path>' vs every other spelling"""
    out = []
    cids = {("box", "high"): "hi", ("box", "inner", "v"): "vv"}
    for deep in (False, True):
        for src, p in HIST_DEFAULT_SITES:
            base = copy.deepcopy(HIST_DEFAULT_BASE)
            for hp in (["box", "hist"], ["box", "inner", "hh"]):
                _node_at(base, hp)["history"] = "deep" if deep else "shallow"
            _node_at(base, src)["target"] = "#m." + ".".join(p)
            cid = (p, cids[tuple(p)]) if tuple(p) in cids else None
            for kind, s in target_spellings(base, src, p, cid):
                if kind == "abs" or ref_resolve(base, src, s) != p:
                    continue
                new = copy.deepcopy(base)
                _node_at(new, src)["target"] = s
                ident = f"histdefault-{'deep' if deep else 'shallow'}-{'.'.join(src)}-{kind}-{s}"
                c = {"id": ident, "machine": base, "guards": {}, "events": ["GO", "BACK", "GO2", "BACK", "GO", "E", "BACK", "GO2", "BACK", "GO"]}
                c2 = dict(c)
                c2["machine"] = new
                out.append((c, c2, {"history-default-" + kind: 1}))
    return out


def _spell_worker(args):
    flavor, case = args[:2]
    timeout = args[2] if len(args) > 2 else 8
    c = case
    if case.get("int_delay_keys"):
        c = dict(case)
        c["machine"] = _int_delay_keys(case["machine"])
    try:
        return impl.run_guarded(flavor, c, timeout)
    except BaseException as e:
        return ("crash", f"HARNESS:{type(e).__name__}: {e}"[:300])


def _is_raw_crash(o):
    """a crash string of impl.run_guarded that is NOT a library error escaping create_machine/start/send"""
    from . import props
    return props._c18_is_raw(o)


def _first_obs_diff(a, b):
    n = min(len(a), len(b))
    for i in range(n):
        if a[i] != b[i]:
            keys = [k for k in a[i] if a[i][k] != b[i].get(k)]
            return {"step": i, "fields": keys, "original": {k: a[i][k] for k in keys}, "rewritten": {k: b[i].get(k) for k in keys}}
    if len(a) != len(b):
        return {"step": n, "fields": ["len"], "original": len(a), "rewritten": len(b)}
    return None


def spelling_cases(tier, seed):
    scale = 10 if tier == "thorough" else 1
    plan = [("core", 100), ("select", 80), ("history", 80), ("actions", 40), ("done", 30)]
    cases = [copy.deepcopy(b) for b in SPELL_BASES for _ in range(5 * scale)]
    for prof, n in plan:
        cases.extend(gen.gen_case(seed, prof, 12000 + i) for i in range(n * scale))
    return cases


def c18_spellings(tier, seed):
    rng = random.Random((seed << 8) ^ 0xC18)
    pairs = []                     # (orig case, rewritten case, applied)
    kind_hist = collections.Counter()
    no_site = 0
    for c in spelling_cases(tier, seed):
        kinds = None
        if rng.random() < 0.35:    # sometimes ONE kind of rewrite only, so that a failure is attributable
            kinds = [rng.choice(REWRITE_KINDS)]
        r = rewrite(c["machine"], rng, kinds) or (rewrite(c["machine"], rng, None) if kinds else None)
        if r is None:
            no_site += 1
            continue
        new, applied = r
        c2 = dict(c)
        c2["machine"] = new
        if any(isinstance(v, dict) and v for v in _all_after(new)) and rng.random() < 0.6:
            c2["int_delay_keys"] = True
            applied["delay-int-keys"] = applied.get("delay-int-keys", 0) + 1
        for k, v in applied.items():
            kind_hist[k] += 1
        pairs.append((c, c2, applied))
    for c, c2, applied in history_default_pairs():
        for k in applied:
            kind_hist[k] += 1
        pairs.append((c, c2, applied))
    jobs = []
    for c, c2, _a in pairs:
        for fl in (("sync",) if c.get("sync_only") else ("sync", "async")):
            jobs.append((fl, c))
            jobs.append((fl, c2))
    res = list(_pool_map(_spell_worker, jobs, per_item=9.0))
    # a hang on one side only must be repeatable to count: both runs of such a pair again, long watchdog
    again = sorted({i - (i % 2) for i, (st, _o) in enumerate(res) if st == "hang"})
    redo = [j for i in again for j in (i, i + 1)]
    for j, r in zip(redo, _pool_map(_spell_worker, [(jobs[j][0], jobs[j][1], 40) for j in redo], per_item=45.0)):
        res[j] = r
    fails, ties, samples = [], [], []
    evals = nontrivial = 0
    k = 0
    code_accepts = {}              # pair index -> (original accepted by create_machine, rewritten accepted)
    for pi, (c, c2, applied) in enumerate(pairs):
        for fl in (("sync",) if c.get("sync_only") else ("sync", "async")):
            (s1, o1), (s2, o2) = res[k], res[k + 1]
            k += 2
            evals += 1
            if fl == "sync":
                code_accepts[pi] = tuple(not (st == "crash" and not _is_raw_crash(o)) for st, o in ((s1, o1), (s2, o2)))
            case = {"id": c.get("id"), "machine": c["machine"], "rewritten": c2["machine"], "guards": c["guards"],
                    **({"ops": c["ops"]} if "ops" in c else {"events": c["events"]}),
                    "int_delay_keys": bool(c2.get("int_delay_keys")), "applied": applied, "flavor": fl}
            if s1 != s2 or (s1 == "crash" and str(o1) != str(o2)):
                fails.append({"kind": "spelling-changes-behaviour", "case": case,
                              "detail": f"[{fl}] original run: {s1} {str(o1)[:120] if s1 != 'ok' else ''}; rewritten run: {s2} {str(o2)[:120] if s2 != 'ok' else ''}; rewrites {applied}"})
                continue
            if s1 != "ok":
                continue
            d = _first_obs_diff(o1, o2)
            if d is not None:
                fails.append({"kind": "spelling-changes-behaviour", "case": case, "difference": d,
                              "detail": f"[{fl}] observation {d['step']} differs in {d['fields']} after rewrites {applied}"})
            else:
                if any(len(o["T"]) > 0 for o in o1[1:]):
                    nontrivial += 1
                if len(samples) < 2 and len(json.dumps(c["machine"])) < 1400:
                    samples.append({"original": c["machine"], "rewritten": c2["machine"], "applied": applied, "final": o1[-1]["C"]})
    # ---- model: both spellings parse (M), and parse to the same canonical machine (P of driver_c18)
    cfgs = []
    for c, c2, _a in pairs:
        cfgs.append(c["machine"])
        cfgs.append(c2["machine"])
    mv = model_verdicts(cfgs)
    canon = model_canon(cfgs)
    for i, (c, c2, applied) in enumerate(pairs):
        a, b = mv[2 * i], mv[2 * i + 1]
        evals += 1
        acc = code_accepts.get(i, (True, True))
        if (a[0] == "ok") != acc[0] or (b[0] == "ok") != acc[1] or a[0] != b[0]:
            ties.append({"query": "spelling-parse", "id": c.get("id"), "applied": applied, "model_original": a, "model_rewritten": b,
                         "impl_accepts": {"original": acc[0], "rewritten": acc[1]}, "rewritten": c2["machine"]})
            continue
        if a[0] != "ok":
            continue
        ca, cb = canon[2 * i], canon[2 * i + 1]
        if ca != cb:
            ties.append({"query": "spelling-canon", "id": c.get("id"), "applied": applied,
                         "detail": "the model parses the two spellings to different machines (modulo transition ids / target strings resolved) while the code behaves identically"
                                   if not any(f["case"].get("id") == c.get("id") for f in fails) else "model and code both distinguish the spellings",
                         "diff": _first_str_diff(ca, cb), "original": c["machine"], "rewritten": c2["machine"]})
    return {"evaluations": evals, "nontrivial": nontrivial, "ties": ties, "fails": fails, "samples": samples, "exhaustive": False,
            "what": (f"{len(pairs)} (machine, non-empty rewrite set) pairs, original vs rewritten on SyncInterpreter and Interpreter with the same events "
                     f"(all observation fields equal) and through the model's parser (accepted + same canonical machine); "
                     f"rewrites applied (cases): {dict(kind_hist.most_common())}; {no_site} machines without a rewrite site")}


def _all_after(cfg):
    if isinstance(cfg, dict):
        if isinstance(cfg.get("after"), dict):
            yield cfg["after"]
        for c in (cfg.get("states") or {}).values() if isinstance(cfg.get("states"), dict) else []:
            yield from _all_after(c)


def _first_str_diff(a, b):
    a, b = a or "", b or ""
    for i in range(min(len(a), len(b))):
        if a[i] != b[i]:
            return {"at": i, "original": a[max(0, i - 60):i + 80], "rewritten": b[max(0, i - 60):i + 80]}
    return {"at": min(len(a), len(b)), "original": a[-80:], "rewritten": b[-80:]}


def model_canon(cfgs):
    """canonical dump of the model's parse of each config (`P` on driver_c18): tree of states with resolved
    targets, no transition ids, no custom ids"""
    lines = ["P " + json.dumps(_model_json(c)) for c in cfgs]
    out = []
    for i in range(0, len(lines), 1000):
        for o in run_driver_c18(lines[i:i + 1000]):
            d = json.loads(o)
            out.append(d.get("canon") if d.get("ok") else "ERR " + d.get("err", ""))
    return out


# =================================================================================================
# (iii) target spellings, function level
# =================================================================================================

def _leafs(*keys):
    return {k: {} for k in keys}


TARGET_MACHINES = [
    # plain: unique keys, three levels, a custom id
    {"id": "m", "initial": "a", "states": {"a": {"initial": "a1", "states": {"a1": {}, "a2": {"id": "deep", "initial": "x", "states": {"x": {}, "y": {}}}}},
                                          "b": {"initial": "b1", "states": {"b1": {}, "b2": {}}}, "c": {}}},
    # shadowing: the same key at several levels
    {"id": "m", "initial": "a", "states": {"a": {"initial": "b", "states": {"b": {"initial": "a", "states": {"a": {}, "b": {}}}, "c": {}}},
                                          "b": {"initial": "c", "states": {"c": {}, "a": {}}}, "c": {}}},
    # a state keyed like the machine, a custom id equal to a key, a custom id equal to the machine id
    {"id": "m", "initial": "m", "states": {"m": {"initial": "x", "states": {"x": {"id": "y"}, "m": {}}}, "y": {"id": "m"}, "x": {}}},
    # dotted keys (accepted: no sibling shadows the first segment), a key starting with '#', a dotted custom id
    {"id": "top", "initial": "v1.0", "states": {"v1.0": {"initial": "k", "states": {"k": {"id": "c.d"}}}, "#h": {}, "w": {"initial": "v1", "states": {"v1": {"initial": "0", "states": {"0": {}}}}}}},
    # a dotted machine id
    {"id": "app.main", "initial": "a", "states": {"a": {"initial": "main", "states": {"main": {}}}, "main": {}, "app": {}}},
]

ODD_TARGETS = ["", ".", "..", "#", "#.", ".#", "a..b", "a.", ".a.", "nope", "#nope", ".nope", "#m.", "#m..a", "machine", "states", "key", "id",
               "#m.a.a1.a2", "m.a", "m", "top", "app", "#app", "#app.main", "app.main", "main", "#c", "#c.d", "#y", "#y.m", "#deep.x", "#deep.nope"]


def _all_paths(cfg, path=()):
    yield list(path)
    for k, c in (cfg.get("states") or {}).items():
        yield from _all_paths(c, path + (k,))


def _good_key(k):
    return k != "" and "." not in k and not k.startswith("#")


def _no_shadow(cfg, q, d, rel):
    for i in range(1, len(d) + 1):
        c = q + d[:i]
        if _node_at(cfg, c + rel) is not None:
            return False
        if len(rel) == 1 and rel[0] == c[-1]:
            return False
    return True


def expected_by_theorem(cfg, src, p):
    """the spellings `target_spellings_agree` (+ `own_or_ancestor_key_resolves`, `dot_is_parent`) speaks about for
    (src, p), i.e. whose hypotheses hold: [(kind, string)] — each MUST resolve to p"""
    mid = cfg["id"]
    out = []
    if "." in mid or mid == "" or not all(_good_key(k) for k in p):
        if p == src[:-1]:
            out.append(("dot-parent", "."))
        return out
    out.append(("abs", "#" + mid + "".join("." + k for k in p)))
    par = src[:-1]
    if p[:len(par)] == par and len(p) > len(par):
        out.append(("dot", "." + ".".join(p[len(par):])))
    if p == par:
        out.append(("dot-parent", "."))
    for i in range(len(src), -1, -1):
        q, d = src[:i], src[i:]
        if p[:len(q)] == q and len(p) > len(q):
            rel = p[len(q):]
            if _no_shadow(cfg, q, d, rel):
                out.append(("plain", ".".join(rel)))
        elif p == q and q:
            k = q[-1]
            if _no_shadow(cfg, q, d, [k]) and _node_at(cfg, q + [k]) is None:
                out.append(("key", k))
    cids = custom_ids(cfg)
    for name, anchor in cids.items():
        if anchor == p and name != mid and "." not in name and name != "":
            out.append(("custom", "#" + name))
    return out


def c18_targets(tier, seed):
    from xstate_statemachine import create_machine, SyncInterpreter, Interpreter
    from xstate_statemachine.models import TransitionDefinition
    from xstate_statemachine.resolver import resolve_target_state
    from xstate_statemachine.exceptions import StateNotFoundError, XStateMachineError
    rng = random.Random((seed << 4) ^ 0x7A6)
    machines = [copy.deepcopy(m) for m in TARGET_MACHINES]
    n_gen = 24 if tier == "quick" else 120
    for i in range(n_gen):
        c = gen.gen_case(seed, ["core", "history"][i % 2], 15000 + i)["machine"]
        # keep the tree only (the resolver sees nothing else) and make some keys collide
        def strip(n, depth=0):
            out = {}
            if "states" in n:
                kids = {}
                for k, ch in n["states"].items():
                    nk = k
                    if rng.random() < 0.25:
                        nk = rng.choice(["a", "b", "m", "dup"])
                    if nk in kids:
                        nk = k
                    kids[nk] = strip(ch, depth + 1)
                out["states"] = kids
                if n.get("type") == "parallel":
                    out["type"] = "parallel"
                else:
                    out["initial"] = next(iter(kids))
            elif n.get("type") in ("final", "history"):
                out["type"] = n["type"]
            if depth > 0 and rng.random() < 0.15:
                out["id"] = rng.choice(["cidA", "cidB", "a", "m", "dup"]) + str(rng.randrange(3))
            return out
        t = strip(c)
        t["id"] = "m"
        # custom ids must be unique
        seen = set()
        def uniq(n):
            if "id" in n and n is not t:
                if n["id"] in seen:
                    del n["id"]
                else:
                    seen.add(n["id"])
            for ch in (n.get("states") or {}).values():
                uniq(ch)
        uniq(t)
        if sum(1 for _ in _all_paths(t)) <= 14:
            machines.append(t)
    ties, fails, samples = [], [], []
    evals = nontrivial = n_thm = 0
    kinds = collections.Counter()
    for cfg in machines:
        log = []
        try:
            machine = create_machine(copy.deepcopy(cfg), logic=impl.mklogic(log, {}))
        except XStateMachineError as x:
            continue
        byp = {}

        def walk(n, p):
            byp[tuple(p)] = n
            for k, c in n.states.items():
                walk(c, p + [k])
        walk(machine, [])
        si = SyncInterpreter(machine)
        ai = Interpreter(machine)
        paths = list(_all_paths(cfg))
        queries = []       # (src, target string, expected p or None, kind)
        for src in paths:
            strs = {}
            for p in paths:
                must = expected_by_theorem(cfg, src, p)
                for kind, s in must:
                    queries.append((src, s, p, kind))
                for kind, s in target_spellings(cfg, src, p):
                    strs.setdefault(s, None)
            for s in ODD_TARGETS:
                strs.setdefault(s, None)
            for s in strs:
                queries.append((src, s, None, "any"))
        lines = ["M " + json.dumps(cfg)] + ["R " + json.dumps(src) + " " + s for (src, s, _p, _k) in queries]
        out = run_driver_c18(lines)
        if not json.loads(out[0]).get("ok"):
            ties.append({"query": "target-machine", "machine": cfg, "model": out[0], "impl": "accepted"})
            continue
        for (src, s, p, kind), o in zip(queries, out[1:]):
            mo = json.loads(o)
            node = byp[tuple(src)]

            def call(fn):
                try:
                    r = fn()
                    return r.id if r is not None else None
                except StateNotFoundError:
                    return None
                except XStateMachineError as x:
                    return "LIB:" + type(x).__name__
                except Exception as x:
                    return "RAW:" + type(x).__name__
            single = call(lambda: resolve_target_state(s, node))
            if s == "":
                rs = ra = None          # the engines never resolve an empty target (internal transition)
                mo["robust"] = None
            else:
                rs = call(lambda: si._resolve_target_state_robustly(TransitionDefinition("E", {"target": s}, node)))
                ra = call(lambda: ai._resolve_target_state_node(TransitionDefinition("E", {"target": s}, node)))
            evals += 1
            if single != mo.get("single") or rs != mo.get("robust") or ra != mo.get("robust"):
                ties.append({"query": "resolve", "machine": cfg, "source": src, "target": s,
                             "impl": {"resolve_target_state": single, "sync_robust": rs, "async_robust": ra}, "model": mo})
            if p is not None:
                n_thm += 1
                kinds[kind] += 1
                want = cfg["id"] + "".join("." + k for k in p)
                if single != want or rs != want or ra != want:
                    fails.append({"kind": "target-spelling-misresolved", "case": {"machine": cfg, "source": src, "target": s, "names": p, "spelling": kind},
                                  "detail": f"spelling {kind} {s!r} of {want} written on {src} resolves to {single} (plain) / {rs} (sync) / {ra} (async)"})
                elif single is not None:
                    nontrivial += 1
        if len(samples) < 2:
            samples.append({"machine": cfg, "queries": len(queries)})
    return {"evaluations": evals, "nontrivial": nontrivial, "ties": ties, "fails": fails, "samples": samples, "exhaustive": True,
            "what": (f"resolve_target_state + both engines' robust resolution vs the model's resolveTarget/resolveRobust on every (source, target string) of "
                     f"{len(machines)} machines (5 hand-written with shadowed keys / key = machine id / custom id = machine id / dotted keys, the rest generated with "
                     f"colliding keys): every spelling of every state + {len(ODD_TARGETS)} odd strings; {n_thm} (source, state, spelling) triples satisfy the "
                     f"hypotheses of target_spellings_agree and must resolve to the state: {dict(kinds)}")}
