"""C12 — snapshots are faithful, isolated resume points.

q_checks (shape of AGENT_GUIDE.md):
  c12_cut_points   every prefix length k of every generated run is a crash/resume point: snapshot, restore into a
                   fresh interpreter over a freshly built machine (+ start() to resume), continue; monitors on the REAL
                   code (O) and the same (case, k) through the Lean driver `driver_snap` (T).
  c12_rejects      corrupt snapshots must be rejected with a library error.
  c12_directed     nested/mutable context, machine output, completion: isolation and faithfulness (code only).

Open findings of C12 (none at present) are matched with the classifiers of props.CLASSIFIERS (check.py does this only for
stream oracles, so the q_checks do it for their own failures: a failure explained by an OPEN finding of C12 is counted,
not reported; everything else is a `fail`).
"""
from __future__ import annotations
import asyncio, copy, json, os, random, signal, subprocess

from . import core, gen, impl, modelio

DRIVER_SNAP = os.path.join(modelio.LEAN_DIR, ".lake", "build", "bin", "driver_snap")
PROFILES = ("history", "core", "done", "actions")
SLOW_BASE_S = 0.25


# ---------------------------------------------------------------------------------------------- engines
class _Sync:
    flavor = "sync"

    @staticmethod
    def cls():
        from xstate_statemachine import SyncInterpreter
        return SyncInterpreter

    @staticmethod
    async def start(it):
        it.start()

    @staticmethod
    async def send(it, ev):
        it.send(ev)

    @staticmethod
    async def stop(it):
        it.stop()

    @staticmethod
    def quiescent(it):
        return len(it._event_queue) == 0


class _Async:
    flavor = "async"

    @staticmethod
    def cls():
        from xstate_statemachine import Interpreter
        return Interpreter

    @staticmethod
    async def start(it):
        await it.start()
        await impl._drain(it)

    @staticmethod
    async def send(it, ev):
        await it.send(ev)
        await impl._drain(it)

    @staticmethod
    async def stop(it):
        await it.stop()

    @staticmethod
    def quiescent(it):
        return it._event_queue.empty() and not it._processing


ENGINES = {"sync": _Sync, "async": _Async}


class NestedActions(impl.RecorderActions):
    """the Recorder registry plus actions on nested / mutable context values (directed cases only)"""

    def get(self, k, d=None):
        if isinstance(k, str) and k.startswith("push:"):
            log = self.log

            def f(i, c, e, a, _k=k):
                log.append(f"{_k}@{impl.canon_ev(e.type)}")
                _, key, val = _k.split(":")[:3]
                c.setdefault(key, []).append(int(val))
                c.setdefault("deep", {}).setdefault("seen", []).append(key)
            return f
        return super().get(k, d)


def _build(case, log):
    from xstate_statemachine import create_machine
    lg = impl.mklogic(log, case.get("guards", {}))
    if case.get("logic") == "nested":
        lg.actions = NestedActions(log)
    return create_machine(copy.deepcopy(case["machine"]), logic=lg)


def _jsonable(v):
    try:
        return json.loads(json.dumps(v, default=str))
    except Exception:
        return repr(v)


def _observe(it, log, err="", nerr=0):
    o = impl.observe(it, log, err, nerr)
    o.pop("cuts", None)
    o["ctx"] = _jsonable(it.context)
    o["out"] = _jsonable(it.output)
    o["err"] = None if it.error is None else str(it.error)
    return o


MON_FIELDS = ("C", "S", "K", "T", "E", "X", "ctx", "out", "err")


def _hist_sets(h):
    return {k: sorted(v) for k, v in h.items()}


def _diff_fields(a, b, with_trace=True):
    """fields of two observations that differ (history compared as a map of SETS: its list order is reported
    separately)"""
    out = [f for f in MON_FIELDS if (with_trace or f not in ("T", "E", "X")) and a.get(f) != b.get(f)]
    if _hist_sets(a["H"]) != _hist_sets(b["H"]):
        out.append("H")
    return out


async def _cmd(eng, it, log, ev):
    log.clear()
    impl._COUNTER.reset()
    from xstate_statemachine.exceptions import XStateMachineError
    try:
        await eng.send(it, ev)
        return _observe(it, log, nerr=impl._COUNTER.n)
    except XStateMachineError as x:
        return _observe(it, log, type(x).__name__, nerr=impl._COUNTER.n)


async def _restore(eng, case, snap_str):
    """fresh machine, fresh interpreter, from_snapshot, plugin, start() to resume"""
    log = []
    it = eng.cls().from_snapshot(snap_str, _build(case, log))
    it.use(impl.RecorderPlugin(log))
    await eng.start(it)
    return it, log


def _depth_id_order(it):
    """put the restored history lists back into the order `_record_history` keeps them in (classification only)"""
    for k, nodes in list(it._history.items()):
        it._history[k] = sorted(nodes, key=lambda n: (n.depth, n.id))


async def _cut_run(eng, case):
    from xstate_statemachine.exceptions import XStateMachineError
    events = list(case["events"])
    res = {"status": "ok", "problems": [], "cuts": [], "base": [], "n_cuts": 0, "n_skipped": 0, "hist_order_cuts": 0}
    log = []
    base = eng.cls()(_build(case, log))
    base.use(impl.RecorderPlugin(log))
    impl._COUNTER.reset()
    pre_start_snap = base.get_snapshot()          # an interpreter that was never started
    try:
        await eng.start(base)
    except XStateMachineError as x:
        res["status"] = "start-rejected:" + type(x).__name__
        return res
    if base.status != "running" and eng.flavor == "async" and base.status == "stopped":
        res["status"] = "start-failed"
        return res
    obs = [_observe(base, log, nerr=impl._COUNTER.n)]
    cuts = []

    def problem(kind, k, detail, **kw):
        res["problems"].append({"kind": kind, "k": k, "detail": detail, **kw})

    async def take_cut(k):
        cut = {"k": k, "quiescent": eng.quiescent(base)}
        s = base.get_snapshot()
        cut["snap"] = s
        try:
            decoded = json.loads(s)
            if not isinstance(decoded, dict):
                raise ValueError("not an object")
        except Exception as e:  # noqa: BLE001
            problem("snapshot-not-json", k, f"get_snapshot() is not a JSON object: {e}")
            cut["quiescent"] = False
            return cut
        cut["live_dict"] = base.get_persisted_snapshot()          # kept live: must not change later
        cut["dict_copy"] = copy.deepcopy(cut["live_dict"])
        if _jsonable(cut["dict_copy"]) != decoded:
            problem("snapshot-forms-disagree", k, "get_snapshot() and get_persisted_snapshot() differ")
        if cut["quiescent"]:
            try:
                cut["it"], cut["log"] = await _restore(eng, case, s)
            except XStateMachineError as x:
                problem("own-snapshot-rejected", k, f"from_snapshot rejected the interpreter's own snapshot: {type(x).__name__}: {x}"[:300])
                cut["quiescent"] = False
        return cut

    import time as _time
    t_base = 0.0
    cuts.append(await take_cut(0))
    for i, ev in enumerate(events):
        t0 = _time.time()
        obs.append(await _cmd(eng, base, log, ev))
        t_base += _time.time() - t0
        cuts.append(await take_cut(i + 1))
    res["base"] = obs
    # a run with expensive macrosteps (bounded always/raise loops) is cut at three points instead of all
    slow = t_base > SLOW_BASE_S
    keep = {0, len(events) // 2, len(events)} if slow else None
    res["sampled"] = slow
    # ---- the base run is over: everything below happens AFTER the original interpreter moved on
    for cut in cuts:
        k = cut["k"]
        if "live_dict" in cut and cut["live_dict"] != cut["dict_copy"]:
            problem("snapshot-aliased", k, "a persisted snapshot dict changed while the interpreter it was taken from went on")
        if not cut["quiescent"] or "it" not in cut:
            res["n_skipped"] += 1
            res["cuts"].append({"k": k, "quiescent": False})
            continue
        if keep is not None and k not in keep:
            await eng.stop(cut["it"])
            res["cuts"].append({"k": k, "quiescent": False, "sampled_out": True})
            continue
        res["n_cuts"] += 1
        r, rlog = cut["it"], cut["log"]
        out = {"k": k, "quiescent": True, "snap": cut["snap"]}
        out["live_H"] = obs[k]["H"]
        # re-snapshot reproduces (and the restored interpreter was not touched by the original's later run)
        rs = r.get_snapshot()
        if rs != cut["snap"]:
            problem("resnapshot-differs", k, _first_json_diff(cut["snap"], rs))
        ro = _observe(r, [])
        out["restored"] = ro
        d0 = [f for f in _diff_fields(ro, obs[k], with_trace=False)]
        if d0:
            problem("restored-state-differs", k, f"fields {d0}: restored {dict((f, ro.get(f)) for f in d0)} original {dict((f, obs[k].get(f)) for f in d0)}"[:600], fields=d0)
        hist_order = ro["H"] != obs[k]["H"] and _hist_sets(ro["H"]) == _hist_sets(obs[k]["H"])
        if hist_order:
            res["hist_order_cuts"] += 1
        cont = []
        first = None
        for j, ev in enumerate(events[k:]):
            o = await _cmd(eng, r, rlog, ev)
            cont.append(o)
            d = _diff_fields(o, obs[k + 1 + j])
            if d and first is None:
                first = (j, d, o)
        out["cont"] = cont
        if first is not None:
            j, d, o = first
            b = obs[k + 1 + j]
            vanishes = False
            if hist_order:
                # classification: does the difference disappear when the restored history lists are put back
                # into the (depth, id) order of the live interpreter?
                r2, r2log = await _restore(eng, case, cut["snap"])
                _depth_id_order(r2)
                vanishes = True
                for jj, ev in enumerate(events[k:]):
                    o2 = await _cmd(eng, r2, r2log, ev)
                    if _diff_fields(o2, obs[k + 1 + jj]) or o2["H"] != obs[k + 1 + jj]["H"]:
                        vanishes = False
                        break
                await eng.stop(r2)
            det = f"cut after {k} events, continuation step {j} ({events[k + j]}): fields {d}"
            if "T" in d:
                ta, tb = o["T"], b["T"]
                q = next((i for i, (x, y) in enumerate(zip(ta, tb)) if x != y), min(len(ta), len(tb)))
                det += f"; log differs at {q}: restored {ta[q:q + 3]} vs uninterrupted {tb[q:q + 3]}; same multiset: {sorted(ta) == sorted(tb)}"
            for f in d:
                if f not in ("T", "H"):
                    det += f"; {f}: restored {o.get(f)!r} vs uninterrupted {b.get(f)!r}"
            problem("continuation-differs", k, det[:900], step=j, fields=d, hist_order_differs=hist_order,
                    vanishes_with_history_order_fix=vanishes)
        elif hist_order:
            problem("restored-history-order", k, f"restored remembered lists {ro['H']} vs live {obs[k]['H']}"[:500],
                    hist_order_differs=True, vanishes_with_history_order_fix=True)
        await eng.stop(r)
        res["cuts"].append(out)
    # ---- the snapshot of a never-started interpreter: restoring it and calling start() is a normal start
    if not slow:
        try:
            p_it, p_log = await _restore(eng, case, pre_start_snap)
            po = [_observe(p_it, p_log)]
            for ev in events:
                po.append(await _cmd(eng, p_it, p_log, ev))
            for i, (a, b) in enumerate(zip(po, obs)):
                d = _diff_fields(dict(a, X=b.get("X")) if i == 0 else a, b)
                if d or a["H"] != b["H"]:
                    problem("pre-start-snapshot-differs", -1, f"restored from a snapshot taken before start(): step {i} fields {d or ['H-order']}"[:300], fields=d)
                    break
            await eng.stop(p_it)
            res["pre_start"] = True
        except XStateMachineError as x:
            problem("own-snapshot-rejected", -1, f"from_snapshot/start rejected the snapshot of a never-started interpreter: {type(x).__name__}: {x}"[:300])
    # ---- repeated save/restore cycles: restore, one event, snapshot, restore, ...
    async def hop(fix):
        h, hlog = await _restore(eng, case, cuts[0]["snap"])
        bad = None
        for i, ev in enumerate(events):
            if fix:
                _depth_id_order(h)
            o = await _cmd(eng, h, hlog, ev)
            d = _diff_fields(o, obs[i + 1])
            if d:
                bad = (i, d)
                break
            if not eng.quiescent(h):
                break
            s = h.get_snapshot()
            await eng.stop(h)
            h, hlog = await _restore(eng, case, s)
        await eng.stop(h)
        return bad

    if cuts and cuts[0].get("quiescent") and "snap" in cuts[0] and not slow:
        bad = await hop(False)
        if bad is not None:
            i, d = bad
            vanishes = (await hop(True)) is None
            problem("cycles-differ", i, f"restore / one event / snapshot cycles: step {i} ({events[i]}) fields {d}"[:400], fields=d,
                    hist_order_differs=vanishes, vanishes_with_history_order_fix=vanishes)
        res["hops"] = len(events)
    await eng.stop(base)
    for c in cuts:
        c.pop("it", None)
        c.pop("log", None)
    return res


def _first_json_diff(a, b):
    try:
        ja, jb = json.loads(a), json.loads(b)
    except Exception:
        return "re-snapshot is not JSON"
    keys = [k for k in set(ja) | set(jb) if ja.get(k) != jb.get(k)]
    return f"re-snapshot of the restored interpreter differs in {keys}: {dict((k, ja.get(k)) for k in keys)} vs {dict((k, jb.get(k)) for k in keys)}"[:600]


def _run_in_loop(coro_fn, *a):
    loop = impl.VirtualLoop()
    loop.set_exception_handler(lambda _l, _c: None)
    asyncio.set_event_loop(loop)
    try:
        return loop.run_until_complete(coro_fn(*a))
    finally:
        try:
            for t in asyncio.all_tasks(loop):
                t.cancel()
            loop.run_until_complete(asyncio.sleep(0))
        except BaseException:
            pass
        loop.close()
        asyncio.set_event_loop(None)


def guarded(fn, timeout, *a):
    """run real code under a SIGALRM watchdog: ('ok', r) | ('hang', None) | ('crash', text)"""
    old = signal.signal(signal.SIGALRM, impl._alarm)
    impl._HUNG[0] = False
    signal.setitimer(signal.ITIMER_REAL, timeout, 0.2)
    try:
        r = fn(*a)
        signal.setitimer(signal.ITIMER_REAL, 0)
        if impl._HUNG[0]:
            return ("hang", None)
        return ("ok", r)
    except impl.Hang:
        return ("hang", None)
    except RecursionError:
        return ("crash", "RecursionError")
    except Exception as x:  # noqa: BLE001 — a raw exception escaping the public API
        if impl._HUNG[0]:
            return ("hang", None)
        return ("crash", f"RAW:{type(x).__name__}: {x}"[:300])
    finally:
        signal.setitimer(signal.ITIMER_REAL, 0)
        signal.signal(signal.SIGALRM, old)


def cut_run(flavor, case, timeout=20):
    return guarded(lambda: _run_in_loop(_cut_run, ENGINES[flavor], case), timeout)


def _cut_worker(args):
    flavor, case, timeout = args
    try:
        return cut_run(flavor, case, timeout)
    except BaseException as e:  # noqa: BLE001
        return ("crash", f"HARNESS:{type(e).__name__}: {e}"[:300])


def _pool_map(fn, args, per_item=8):
    budget = 90 + per_item * (len(args) / 4 + 1)
    import multiprocessing as mp
    try:
        return core.pool().map_async(fn, args, chunksize=2).get(budget)
    except mp.TimeoutError:
        core.close_pool()
        out = []
        for a in args:
            try:
                out.append(core.pool().apply_async(fn, (a,)).get(a[-1] * 3 + 10))
            except mp.TimeoutError:
                core.close_pool()
                out.append(("hang", None))
        return out


# ---------------------------------------------------------------------------------------------- model side
def run_driver_snap(lines, timeout=900):
    r = subprocess.run([DRIVER_SNAP], input="\n".join(lines) + "\n", capture_output=True, text=True, timeout=timeout)
    if r.returncode != 0:
        raise RuntimeError(f"driver_snap exit {r.returncode}: {r.stderr[:500]}")
    out = r.stdout.split("\n")
    return out[:-1] if r.stdout.endswith("\n") else out


def _compact(snap_str):
    return json.dumps(json.loads(snap_str), separators=(",", ":"))


def _model_lines(case, flavor, res):
    """one pass with SNAP at every cut, then RESTORE <impl snapshot> + the remaining events for every cut"""
    ev = case["events"]
    lines = ["M " + json.dumps(case["machine"]), "G " + " ".join(f"{k}={v}" for k, v in case.get("guards", {}).items()),
             f"F {flavor}", "START", "SNAP"]
    for e in ev:
        lines += ["SEND " + e, "SNAP"]
    plan = []
    for c in res["cuts"]:
        if not c.get("quiescent"):
            continue
        start = len(lines)
        lines.append("RESTORE " + _compact(c["snap"]))
        lines += ["SEND " + e for e in ev[c["k"]:]]
        plan.append((c["k"], start, len(ev) - c["k"]))
    return lines, plan


def _canon_snap(j, model):
    d = dict(j)
    ctx = d.get("context")
    if isinstance(ctx, dict):
        d["context"] = {k: v for k, v in ctx.items() if isinstance(v, int) and not isinstance(v, bool)}
    return d


def tie_cuts(items):
    """items: [(flavor, case, res)] with res from cut_run. returns (n_compared, ties)"""
    ties = []
    n = 0
    lines, spans = [], []
    for flavor, case, res in items:
        ls, plan = _model_lines(case, flavor, res)
        spans.append((len(lines), len(ls), plan))
        lines.extend(ls)
    if not lines:
        return 0, []
    out = run_driver_snap(lines)
    if len(out) != len(lines):
        raise core.CheckError(f"driver_snap answered {len(out)} lines for {len(lines)} commands")
    for (flavor, case, res), (a, ln, plan) in zip(items, spans):
        o = [json.loads(x) for x in out[a:a + ln]]
        if not o[0].get("ok"):
            ties.append({"what": "model-rejects-machine", "flavor": flavor, "case": case, "model": o[0]})
            continue
        nev = len(case["events"])
        msnaps = [o[4 + 2 * i].get("snap") for i in range(nev + 1)]
        for c in res["cuts"]:
            if not c.get("quiescent"):
                continue
            k = c["k"]
            n += 1
            # the hypotheses of the C12 theorems that are not discharged in Lean, evaluated by the driver on the
            # model state at this cut: quiescent (`Quiet`), sane (`SnapOK`); and `DISorted` (a theorem: cross-check)
            mo = o[4 + 2 * k]
            if mo.get("q") != 0 or mo.get("rd") != 0 or mo.get("sane") is not True or mo.get("disorted") is not True:
                ties.append({"what": "cut-state-hypotheses", "flavor": flavor, "k": k, "case": case,
                             "model": {kk: mo.get(kk) for kk in ("q", "rd", "sane", "disorted")}})
            isnap = _canon_snap(json.loads(c["snap"]), False)
            if msnaps[k] is None or _canon_snap(msnaps[k], True) != isnap:
                keys = [kk for kk in set(isnap) | set(msnaps[k] or {}) if isnap.get(kk) != (msnaps[k] or {}).get(kk)]
                ties.append({"what": "snapshot-content", "flavor": flavor, "k": k, "case": case, "keys": keys,
                             "impl": {kk: isnap.get(kk) for kk in keys}, "model": {kk: (msnaps[k] or {}).get(kk) for kk in keys}})
        for (k, start, m) in plan:
            c = next(x for x in res["cuts"] if x.get("quiescent") and x["k"] == k)
            ro = o[start]
            if "rerr" in ro:
                ties.append({"what": "model-rejects-snapshot", "flavor": flavor, "k": k, "case": case, "model": ro})
                continue
            a0 = modelio.canon_obs(dict(c["restored"], T=[]), flavor, "impl")
            b0 = modelio.canon_obs(dict(ro, T=[]), flavor, "model")
            a0.pop("E", None), b0.pop("E", None), a0.pop("X", None), b0.pop("X", None)
            if a0 != b0:
                keys = [kk for kk in a0 if a0[kk] != b0.get(kk)]
                ties.append({"what": "restored-state", "flavor": flavor, "k": k, "case": case, "fields": keys,
                             "impl": {kk: a0[kk] for kk in keys}, "model": {kk: b0.get(kk) for kk in keys}})
                continue
            d = modelio.diff_obs(c["cont"], o[start + 1:start + 1 + m], flavor)
            if d is not None:
                ties.append({"what": "continuation-after-restore", "flavor": flavor, "k": k, "case": case, "diff": d})
    return n, ties


# ---------------------------------------------------------------------------------------------- known findings
def _open_findings():
    return [f for f in core.load_findings().get("open", []) if f.get("property") == "C12"]


def _explained(prob, case, flavor, open_f):
    from . import props
    for f in open_f:
        fn = props.CLASSIFIERS.get(f.get("classifier"))
        if fn is None or f.get("flavor") not in (None, "any", flavor):
            continue
        try:
            if fn(prob, case, flavor):
                return f
        except Exception:
            continue
    return None


# ---------------------------------------------------------------------------------------------- c12_cut_points
def c12_cut_points(tier, seed, n=40):
    scale = 8 if tier == "thorough" else 1
    open_f = _open_findings()
    fails, ties, samples = [], [], []
    evals = nontrivial = ncuts = nskipped = known = hist_order = 0
    stats = {}
    for flavor in ("sync", "async"):
        for prof in PROFILES:
            cases = [gen.gen_case(seed, prof, 12000 + i) for i in range(n * scale)]
            rs = _pool_map(_cut_worker, [(flavor, c, 75) for c in cases], per_item=20)
            items = []
            for c, (st, res) in zip(cases, rs):
                evals += 1
                if st == "hang":
                    # termination is C13's business: only a hang that the uninterrupted run does not have is a
                    # difference between the restored and the original interpreter
                    st2, _o = core.impl_isolated((flavor, c, 30))
                    if st2 == "hang":
                        stats["base-run-hangs"] = stats.get("base-run-hangs", 0) + 1
                        continue
                    fails.append({"kind": "hang-after-restore", "flavor": flavor, "case": c,
                                  "detail": "the cut-point run did not finish within the watchdog although the uninterrupted run does"})
                    continue
                if st != "ok":
                    fails.append({"kind": "raw-exception", "flavor": flavor, "case": c,
                                  "detail": f"cut-point run ended with {st}: {res}"})
                    continue
                stats[res["status"]] = stats.get(res["status"], 0) + 1
                if res["status"] != "ok":
                    continue
                ncuts += res["n_cuts"]
                nskipped += res["n_skipped"]
                hist_order += res["hist_order_cuts"]
                if any(len(o["T"]) > 1 for o in res["base"][1:]):
                    nontrivial += 1
                for p in res["problems"]:
                    f = _explained(p, c, flavor, open_f)
                    if f is not None:
                        known += 1
                    else:
                        fails.append(dict(p, flavor=flavor, case=c))
                items.append((flavor, c, res))
                if len(samples) < 2 and res["n_cuts"] > 3 and len(json.dumps(c)) < 2200:
                    samples.append({"case": c, "flavor": flavor, "cuts": res["n_cuts"], "snapshot_at_last_cut": json.loads(res["cuts"][-1].get("snap", "{}")) if res["cuts"][-1].get("quiescent") else None})
            for i in range(0, len(items), 60):
                nn, tt = tie_cuts(items[i:i + 60])
                ties.extend(tt)
    what = (f"{evals} (engine, case) runs from profiles {list(PROFILES)}; {ncuts} quiescent cut points (every prefix length; {nskipped} "
            f"non-quiescent skipped: events left queued by a send() that raised): snapshot is JSON, from_snapshot into a fresh machine + start(), "
            f"re-snapshot identical, state and every later observation (configuration, status, context, ordered log, error, output) identical to the "
            f"uninterrupted run, snapshot dict unaffected by later execution, restore/event/snapshot cycles, snapshot of the never-started interpreter; same cuts through driver_snap "
            f"(SNAP content, RESTORE, continuation). {hist_order} cuts with re-ordered history lists, {known} failures explained by open findings")
    return {"evaluations": evals, "nontrivial": nontrivial, "ties": ties, "fails": fails, "samples": samples, "exhaustive": False,
            "what": what, "cut_points": ncuts, "known_finding_failures": known, "run_status": stats}


# ---------------------------------------------------------------------------------------------- c12_rejects
def _mutations(good, rng):
    """(class, label, text). Classes: `valid` (must be accepted and restore the state of the original), `tolerated` (must
    be accepted: input the code deliberately puts up with — unknown ids inside `history` are filtered, an actor record
    whose service is gone is parked, a systemId of an actor that is not there is skipped, any string is a status); every
    other class must be rejected with a library error"""
    cfgids = list(good.get("configuration") or [])
    some_id = cfgids[-1] if cfgids else "m"
    out = []
    full = json.dumps(good)
    for pos in sorted({1, len(full) // 2, len(full) - 1, rng.randrange(2, max(3, len(full) - 1))}):
        out.append(("not-json", f"truncated@{pos}", full[:pos]))
    out += [("not-json", "empty", ""), ("not-json", "garbage", "{nope"), ("not-json", "single-quotes", "{'status': 'running'}")]
    for v in ([1, 2], "x", 3, None, True):
        out.append(("not-object", f"top={json.dumps(v)}", json.dumps(v)))

    def mut(cls, label, **kw):
        g = copy.deepcopy(good)
        for k, v in kw.items():
            if v is _DEL:
                g.pop(k, None)
            else:
                g[k] = v
        out.append((cls, label, json.dumps(g)))

    rec = {"machine_id": "child", "src": None, "snapshot": {"status": "running", "context": {}, "state_ids": ["child.x"]}}
    mut("valid", "unchanged")
    out.append(("valid", "keys-reversed", json.dumps(dict(reversed(list(good.items()))))))
    mut("valid", "legacy-leaf-ids-only", configuration=_DEL)
    mut("valid", "no-optional-keys", output=_DEL, error=_DEL, history=_DEL, actors=_DEL, system=_DEL)
    # `null` / empty for an optional key is the same as leaving it out
    mut("valid", "optional-keys-null", output=None, error=None, history=None, actors=None, system=None)
    mut("valid", "configuration=null (leaf ids used)", configuration=None)
    mut("valid", "configuration=[] (leaf ids used)", configuration=[])
    mut("valid", "state_ids=null (configuration used)", state_ids=None)
    mut("valid", "no-state_ids (configuration used)", state_ids=_DEL)
    same = "valid" if not good.get("history") else "tolerated"      # `valid` = the state of the original comes back
    mut(same, "history={}", history={})
    mut(same, "history with an empty list", history={some_id: []})
    mut("tolerated", "history lists an unknown id", history={some_id: ["m.nope"]})
    mut("tolerated", "history owner is no state", history={"m.nope": [some_id]})
    mut("tolerated", "history: known and unknown ids", history={some_id: ["m.nope", some_id, ""]})
    mut("tolerated", "status is some other string", status="no-such-status")
    mut("tolerated", "status is the empty string", status="")
    mut("tolerated", "actor record without a service", actors={"m:child": rec})
    mut("tolerated", "actor record: only `snapshot`", actors={"a": {"snapshot": {}}})
    mut("tolerated", "actor record: unread keys of any type", actors={"a": {"snapshot": {"status": 5}, "src": "gone", "machine_id": [5]}})
    mut("tolerated", "systemId of an absent actor", system={"sys": "m:ghost"})
    mut("tolerated", "actors and system together", actors={"m:child": rec}, system={"sys": "m:child"})
    mut("unknown-state", "extra-unknown-id", configuration=cfgids + ["m.nope"])
    mut("unknown-state", "misspelt-id", configuration=cfgids[:-1] + [some_id + "__no_such_state__"])
    mut("unknown-state", "other-machine-prefix", configuration=["zz" + some_id[1:]])
    mut("unknown-state", "legacy-unknown-leaf", configuration=_DEL, state_ids=["m.nope"])
    mut("unknown-state", "empty-string-id", configuration=cfgids + [""])
    mut("unknown-state", "unknown id, tolerated history / actors / system", configuration=["m.nope"],
        history={"m.nope": ["m.nope"]}, actors={"a": {"snapshot": {}}}, system={"s": "a"})
    mut("missing-key", "no-status", status=_DEL)
    mut("missing-key", "no-context", context=_DEL)
    mut("missing-key", "no-configuration-no-state_ids", configuration=_DEL, state_ids=_DEL)
    mut("missing-key", "configuration=[] no-state_ids", configuration=[], state_ids=_DEL)
    mut("missing-key", "configuration=null state_ids=null", configuration=None, state_ids=None)
    mut("missing-key", "no-status-no-context", status=_DEL, context=_DEL)
    for v in (None, 5, [1], {"a": 1}, True):
        mut("wrong-type", f"status={json.dumps(v)}", status=v)
    for v in (None, 5, "zzz", [1], [], True):
        mut("wrong-type", f"context={json.dumps(v)}", context=v)
    for v in (5, 0, "", False, {}, True, [5], [None], [[some_id]], [some_id, 5], {some_id: 5}):
        mut("wrong-type", f"configuration={json.dumps(v)}", configuration=v)
    for v in (5, [5], {some_id: 5}, "", some_id):
        mut("wrong-type", f"state_ids={json.dumps(v)} (no configuration)", configuration=_DEL, state_ids=v)
    for v in (5, {}, [some_id, None]):
        mut("wrong-type", f"state_ids={json.dumps(v)} (configuration present)", state_ids=v)
    for v in (5, 0, "", "zzz", [], [1], True, False, {some_id: 5}, {some_id: None}, {some_id: [5]}, {some_id: some_id},
              {some_id: {}}, {some_id: [some_id], "m.nope": [[some_id]]}):
        mut("wrong-type", f"history={json.dumps(v)}", history=v)
    for v in (5, 0, "", [], [1], False, {"a": 1}, {"a": [1]}, {"a": None}, {"a": {}}, {"a": {"src": "k"}}, {"a": {"snapshot": None}},
              {"a": {"snapshot": [1]}}, {"a": {"snapshot": "{}"}}, {"a": {"snapshot": {}, "src": 5}}, {"a": {"snapshot": {}, "src": ["k"]}},
              {"a": {"snapshot": {}, "src": {}}}, {"m:child": rec, "b": 5}):
        mut("wrong-type", f"actors={json.dumps(v)}", actors=v)
    for v in (5, 0, "", [], [1], False, {"s": [1]}, {"s": 5}, {"s": None}, {"s": {}}, {"s": "a", "t": True}):
        mut("wrong-type", f"system={json.dumps(v)}", system=v)
    # several things wrong at once: the shape is validated before any id is looked up, keys in a fixed order
    mut("wrong-type", "unknown id and system=5", configuration=["m.nope"], system=5)
    mut("wrong-type", "unknown id and actors=[1]", configuration=["m.nope"], actors=[1])
    mut("wrong-type", "unknown id and history=5", configuration=["m.nope"], history=5)
    mut("wrong-type", "unknown id and no status", configuration=["m.nope"], status=_DEL)
    mut("wrong-type", "system=5 and actors=5 and history=5", system=5, actors=5, history=5)
    mut("wrong-type", "system=5 and state_ids=5", system=5, state_ids=5)
    mut("wrong-type", "context=5 and status=5", context=5, status=5)
    return out


_DEL = object()


def _reject_case(args):
    flavor, case, k, seed, timeout = args
    return guarded(lambda: _run_in_loop(_reject_run, ENGINES[flavor], case, k, seed), timeout)


async def _reject_run(eng, case, k, seed):
    from xstate_statemachine.exceptions import XStateMachineError
    log = []
    base = eng.cls()(_build(case, log))
    try:
        await eng.start(base)
    except XStateMachineError:
        return None
    for ev in case["events"][:k]:
        try:
            await eng.send(base, ev)
        except XStateMachineError:
            pass
    if not eng.quiescent(base):
        await eng.stop(base)
        return None
    good = json.loads(base.get_snapshot())
    ref = _observe(base, [])
    await eng.stop(base)
    rng = random.Random((seed << 8) ^ k)
    results = []
    for cls, label, text in _mutations(good, rng):
        r = {"class": cls, "label": label, "text": text}
        try:
            it = eng.cls().from_snapshot(text, _build(case, []))
            r["outcome"] = "accepted"
            try:
                o = impl.observe(it, [])
                r["obs"] = {"C": o["C"], "S": o["S"] if isinstance(o["S"], str) else repr(o["S"]), "K": o["K"], "H": o["H"]}
            except Exception as e:  # noqa: BLE001 — an accepted corrupt snapshot may not even be observable
                r["obs"] = None
                r["observe_error"] = type(e).__name__
        except XStateMachineError as x:
            r["outcome"] = "lib:" + type(x).__name__
            r["message"] = str(x)[:200]
        except Exception as x:  # noqa: BLE001 — exactly what the monitor looks for
            r["outcome"] = "raw:" + type(x).__name__
            r["message"] = str(x)[:120]
        results.append(r)
    return {"good": good, "ref": {"C": ref["C"], "S": ref["S"], "K": ref["K"], "H": ref["H"]}, "results": results}


def reject_problems(res):
    probs = []
    for r in res["results"]:
        cls, oc = r["class"], r["outcome"]
        base = {"mutation_class": cls, "mutation": r["label"], "snapshot": r["text"][:400]}
        if cls == "tolerated":
            if oc != "accepted":
                probs.append(dict(base, kind="tolerated-snapshot-rejected", detail=f"{r['label']}: {oc}: {r.get('message', '')}"[:400]))
        elif cls == "valid":
            if oc != "accepted":
                probs.append(dict(base, kind="valid-snapshot-rejected", detail=f"{r['label']}: {oc}"))
            elif r.get("obs") is not None and (sorted(r["obs"]["C"]) != sorted(res["ref"]["C"]) or r["obs"]["S"] != res["ref"]["S"] or r["obs"]["K"] != res["ref"]["K"]):
                probs.append(dict(base, kind="valid-snapshot-misread", detail=f"{r['label']}: restored {r['obs']} instead of {res['ref']}"[:500]))
        elif oc == "accepted":
            probs.append(dict(base, kind="corrupt-snapshot-accepted", detail=f"{cls} / {r['label']}: from_snapshot accepted it (state {r.get('obs')})"[:500]))
        elif oc.startswith("raw:"):
            probs.append(dict(base, kind="corrupt-snapshot-raw-exception", detail=f"{cls} / {r['label']}: {oc[4:]}: {r.get('message', '')}"))
    return probs


def tie_rejects(items):
    """model `restore` vs from_snapshot on the same texts (every class; only the empty text and texts with a newline
    cannot go through the line protocol of the driver)"""
    lines, spans = [], []
    for flavor, case, res in items:
        ls = ["M " + json.dumps(case["machine"]), f"F {flavor}"]
        idx = []
        for r in res["results"]:
            if "\n" in r["text"] or r["text"] == "":
                continue
            idx.append((r, len(ls)))
            ls.append("RESTORE " + r["text"])
        spans.append((len(lines), len(ls), idx))
        lines.extend(ls)
    if not lines:
        return 0, []
    out = run_driver_snap(lines)
    ties, n = [], 0
    for (flavor, case, res), (a, ln, idx) in zip(items, spans):
        if not json.loads(out[a]).get("ok"):
            continue
        for r, i in idx:
            mo = json.loads(out[a + i])
            cls, oc = r["class"], r["outcome"]
            mres = ("lib:" + mo["rerr"]) if "rerr" in mo else "accepted"
            n += 1
            # EXACT: the same texts are accepted, the same are rejected, with the same error class; a shape error names
            # the same key (the first offending one: model and code check the keys in the same order); an accepted
            # snapshot restores the same state
            bad = None
            if mres != oc:
                bad = "acceptance" if "accepted" in (mres, oc) else "error kind"
            elif "key" in mo and f"'{mo['key']}'" not in r.get("message", ""):
                bad = "offending key"
            elif mres == "accepted" and r.get("obs") is None:
                bad = "restored state not observable"
            elif mres == "accepted":
                # an owner id that names no state stays in the code's history dict as a dead key; it has no path in the model
                a0 = {"C": sorted(r["obs"]["C"]), "S": r["obs"]["S"], "K": r["obs"]["K"],
                      "H": {k: v for k, v in sorted(r["obs"]["H"].items()) if k in (mo.get("H") or {}) or cls == "valid"}}
                b0 = {"C": sorted(mo["C"]), "S": mo["S"], "K": mo.get("K") or {}, "H": dict(sorted((mo.get("H") or {}).items()))}
                if a0 != b0:
                    bad = "restored state"
            if bad:
                ties.append({"what": "reject/" + bad, "flavor": flavor, "class": cls, "label": r["label"], "text": r["text"][:300],
                             "impl": oc, "impl_message": r.get("message"), "model": mo if "rerr" in mo else {"C": mo.get("C"), "S": mo.get("S"), "H": mo.get("H")}, "case": case})
    return n, ties


def c12_rejects(tier, seed, n=10):
    scale = 5 if tier == "thorough" else 1
    open_f = _open_findings()
    fails, ties, samples = [], [], []
    evals = nontrivial = known = 0
    hist = {}
    for flavor in ("sync", "async"):
        args = []
        for prof in ("history", "core"):
            for i in range(n * scale):
                c = gen.gen_case(seed, prof, 13000 + i)
                args.append((flavor, c, (i * 3) % (len(c["events"]) + 1), seed, 25))
        rs = _pool_map(_reject_case, args)
        items = []
        for a, (st, res) in zip(args, rs):
            (fl, c, k, _s, _t) = a
            if st == "hang":
                # a watchdog cut on a loaded machine is not a verdict: once more, alone, generous watchdog
                st, res = _reject_case(a[:-1] + (90,))
            if st != "ok":
                fails.append({"kind": "hang" if st == "hang" else "raw-exception", "flavor": flavor, "case": c, "detail": f"reject run: {st} {res}"})
                continue
            if res is None:
                continue
            evals += len(res["results"])
            nontrivial += 1
            for r in res["results"]:
                key = f"{r['class']}:{r['outcome'].split(':')[0]}"
                hist[key] = hist.get(key, 0) + 1
            for p in reject_problems(res):
                if _explained(p, c, flavor, open_f) is not None:
                    known += 1
                else:
                    fails.append(dict(p, flavor=flavor, case=dict(c, c12_cut=k)))
            items.append((flavor, c, res))
            if len(samples) < 1:
                samples.append({"flavor": flavor, "machine_id": c["id"], "cut": k,
                                "outcomes": [[r["class"], r["label"], r["outcome"]] for r in res["results"]][:60]})
        nn, tt = tie_rejects(items)
        ties.extend(tt)
    what = (f"{evals} corrupted snapshots (not JSON, not an object, unknown state id, missing key, wrong type / null / empty per key incl. actors "
            f"and system, several defects at once; plus valid controls and tolerated input: unknown ids in history, parked actor records, any "
            f"status string) given to from_snapshot of both engines: outcome must be an XStateMachineError subclass (controls and tolerated: accepted; "
            f"controls: same state); compared EXACTLY with the model's `restore`: acceptance, error class, offending key of a shape error, restored "
            f"state. outcome histogram {hist}; {known} failures explained by open findings")
    return {"evaluations": evals, "nontrivial": nontrivial, "ties": ties, "fails": fails, "samples": samples, "exhaustive": False, "what": what,
            "known_finding_failures": known}


# ---------------------------------------------------------------------------------------------- c12_directed
def directed_cases():
    nested = {
        "id": "m", "initial": "a", "context": {"items": [], "n": 0, "deep": {"seen": ["init"]}},
        "states": {
            "a": {"entry": ["en:a", "push:items:1"], "on": {"GO": {"target": "b", "actions": ["tr:a:GO", "push:items:2", "inc:n"]},
                                                              "STAY": {"actions": ["push:log:7"]}}},
            "b": {"entry": ["en:b"], "on": {"GO": {"target": "a", "actions": ["push:items:3"]}, "END": "fin"}},
            "fin": {"type": "final", "output": {"result": [1, {"k": "v"}]}}},
    }
    outp = {
        "id": "m", "initial": "p", "context": {"n": 1},
        "states": {
            "p": {"type": "parallel", "onDone": {"target": "#m.fin", "actions": ["done:p"]},
                  "states": {"r1": {"initial": "x", "states": {"x": {"on": {"A": "y"}}, "y": {"type": "final"}}},
                             "r2": {"initial": "u", "states": {"u": {"on": {"B": "v"}}, "v": {"type": "final"}},
                                    "on": {"C": {"actions": ["inc:n"]}}},
                             "h": {"type": "history", "history": "deep"}},
                  "on": {"OUT": "#m.w"}},
            "w": {"on": {"BACK": "#m.p.h", "A": {"actions": ["inc:n"]}}},
            "fin": {"type": "final", "output": {"answer": 42}}},
    }
    # completion output of every JSON shape, falsy values included (0, false, "", [], {}), declared on the final
    # state or on the machine: the restored interpreter and the re-snapshot must carry exactly the same value
    outs = []
    for i, val in enumerate([0, False, "", [], {}, 1, True, "x", [0], {"k": None}, None]):
        for where in ("state", "machine"):
            mm = {"id": "m", "initial": "a", "context": {"n": 0},
                  "states": {"a": {"on": {"GO": "b", "END": "fin"}}, "b": {"on": {"GO": "a", "END": "fin"}},
                             "fin": {"type": "final"}}}
            if where == "state":
                mm["states"]["fin"]["output"] = val
            else:
                mm["output"] = val
            outs.append({"id": f"directed-output-value-{where}-{i}", "machine": mm, "guards": {}, "events": ["GO", "END", "GO"],
                         "expect_out": val})
    return outs + [
        {"id": "directed-nested-context", "machine": nested, "guards": {}, "logic": "nested",
         "events": ["STAY", "GO", "GO", "STAY", "GO", "END", "GO"]},
        {"id": "directed-output-history", "machine": outp, "guards": {},
         "events": ["A", "OUT", "A", "BACK", "C", "B", "A", "C"]},
        {"id": "directed-output-history-2", "machine": outp, "guards": {},
         "events": ["B", "OUT", "BACK", "OUT", "BACK", "A", "B"]},
    ]


def c12_directed(tier, seed):
    open_f = _open_findings()
    fails, samples = [], []
    evals = nontrivial = known = 0
    for flavor in ("sync", "async"):
        for c in directed_cases():
            st, res = cut_run(flavor, c, 30)
            if st == "hang":
                st, res = cut_run(flavor, c, 120)
            evals += 1
            if st != "ok" or res["status"] != "ok":
                fails.append({"kind": "raw-exception" if st == "crash" else st, "flavor": flavor, "case": c, "detail": f"{st}: {res if st != 'ok' else res['status']}"})
                continue
            nontrivial += 1
            final = res["base"][-1]
            if "expect_out" in c:
                if not (final["S"] == "done" and final["out"] == c["expect_out"] and type(final["out"]) is type(c["expect_out"])):
                    fails.append({"kind": "directed-case-broken", "flavor": flavor, "case": c,
                                  "detail": f"expected completion with output {c['expect_out']!r}, got {final['S']} {final['out']!r}"})
            elif c["id"] != "directed-nested-context" and not (final["S"] == "done" and final["out"] == {"answer": 42}):
                fails.append({"kind": "directed-case-broken", "flavor": flavor, "case": c, "detail": f"expected completion with output, got {final['S']} {final['out']}"})
            if c["id"] == "directed-nested-context" and not (final["S"] == "done" and final["out"] == {"result": [1, {"k": "v"}]}):
                fails.append({"kind": "directed-case-broken", "flavor": flavor, "case": c, "detail": f"expected completion with output, got {final['S']} {final['out']} ctx {final['ctx']}"})
            for p in res["problems"]:
                if _explained(p, c, flavor, open_f) is not None:
                    known += 1
                else:
                    fails.append(dict(p, flavor=flavor, case=c))
            if len(samples) < 1:
                samples.append({"case_id": c["id"], "flavor": flavor, "final": {k: final[k] for k in ("C", "S", "ctx", "out")}})
    return {"evaluations": evals, "nontrivial": nontrivial, "ties": [], "fails": fails, "samples": samples, "exhaustive": True,
            "known_finding_failures": known,
            "what": "directed machines with nested mutable context values, machine output on completion, parallel + deep history + onDone: every cut point as in c12_cut_points (code only: these values are outside the model)"}


# ---------------------------------------------------------------------------------------------- replay of findings
def c12_replay_monitor(case, obs, flavor):
    """monitor used to replay a C12 finding file: runs the cut-point (or corrupt-snapshot) check on the case"""
    fl = flavor if flavor in ("sync", "async") else "sync"
    out = []
    if "c12_corrupt" in case:
        cc = case["c12_corrupt"]

        def one():
            from xstate_statemachine.exceptions import XStateMachineError
            eng = ENGINES[fl]
            try:
                eng.cls().from_snapshot(cc["text"], _build(case, []))
                return "accepted"
            except XStateMachineError as x:
                return "lib:" + type(x).__name__
            except Exception as x:  # noqa: BLE001
                return "raw:" + type(x).__name__
        st, oc = guarded(one, 15)
        if st != "ok":
            return [{"kind": "hang", "step": -1, "at": None, "detail": f"from_snapshot: {st}"}]
        if oc == "accepted":
            out.append({"kind": "corrupt-snapshot-accepted", "mutation_class": cc["class"], "step": -1, "at": None, "detail": f"{cc['label']}: accepted"})
        elif oc.startswith("raw:"):
            out.append({"kind": "corrupt-snapshot-raw-exception", "mutation_class": cc["class"], "step": -1, "at": None, "detail": f"{cc['label']}: {oc[4:]}"})
        return out
    st, res = cut_run(fl, case, 30)
    if st != "ok":
        return [{"kind": "hang" if st == "hang" else "raw-exception", "step": -1, "at": None, "detail": str(res)}]
    return [dict(p, step=p.get("k", -1), at=None) for p in res["problems"]]
