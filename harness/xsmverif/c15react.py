"""C15 — REACTING machines: the life of a send id exercised THROUGH deliveries (q_check `c15_reacting`).

The op sequences of c15.py are issued from outside: no machine reacts to a message.  Here a case carries a table
`react: {kind: {"M<n>": [action,...]}}` (c15_impl.machine_config): the machine of that kind answers the message with
the action list - a child answers with `sendParent`, a parent with `sendTo` / `forwardTo`, an actor re-schedules itself
through its own systemId (or `raise`) - so that a delayed send is re-armed under the same id from INSIDE the delivery it
caused (directly, or after a reply round trip), re-armed under another id, cancelled from inside a delivery, cancelled
right after a re-arm / right before its due time / after it fired, superseded while pending, and the same id is used by
two actors, the sender or the recipient is stopped with sends pending, several ids are pending at once.  Both engines,
no real time: async on the virtual loop, sync under the virtual-thread shim (the timer thread of a delayed send is a
virtual thread; the delivery, the reply and the re-arm all run on it).

O  the monitor is c15_impl.post_op (the property's own terms, on the live objects): a delayed send is processed by its
   addressee exactly once unless - after it was issued and before its due time - its sender executed `cancel(id)`,
   issued another delayed send under the same id, or was stopped, in which case it is never processed; a cancel or a
   re-arm executed inside the delivery itself does not reach the send that has just been delivered; nothing else is
   touched (other ids, the same id of another sender); nothing is processed by a stopped actor; nothing twice.
T  the message-level model (`Xsm/Model/Actors.lean`, whose §4 theorems state the id lifecycle) has no reacting machines.
   It is driven with the SAME scenario by making every reaction an explicit command of the op sequence: the run of the
   real engine reports which actor reacted to which message when (`reacts`), and the model gets
       adv (up to that instant) ; cmd <actor> "R~<kind>~<msg>"      with  cmds["R~kind~msg"] = the reaction's action list
   (`forwardTo t` inside a reaction becomes `sendTo t <msg>`: at message level they are the same).  The command names
   "R~.." the model records are removed before the comparison; everything else (trees, statuses, received logs,
   registry, warnings) must be identical after every op of the case.  A message the engine delivers although the model
   has cancelled it (or the reverse) shows as a difference of the received logs.  The encoding is exact for the async
   engine (a macrostep is atomic, sends are queued) and, for the sync engine (a send is processed at once, nested inside
   the sending macrostep), whenever a send that triggers a reaction is the LAST action of its list; the generator marks
   the cases built that way `tie: true`, the others (and `raise`, which the model lacks) are monitor-only.  A run in
   which two delayed sends are due at the same instant is not compared either (the model fires a whole instant at once).
"""
from __future__ import annotations
import json, random

from . import c15

KINDS = c15.KINDS
RMSG = (1, 2, 3, 4)                  # messages a machine may react to (an immediate send inside a reaction goes UP in number)
DELAYS = (13, 17, 19, 23, 27, 29, 31, 37, 41, 43, 47, 53)
SENDIDS = ("x", "y")


# ------------------------------------------------------------------------------------------ directed family
def directed_cases():
    base = {"kinds": KINDS, "invoke": {"r": None, "k1": None, "k2": None}, "profile": "react-directed", "react_limit": 8}
    D = []

    def add(name, cmds, react, ops, tie=True, variants=(("blocking", True),), **kw):
        for vn, eager in variants:
            c = dict(base, id=f"c15-react-{name}" + ("" if len(variants) == 1 else "-" + vn), cmds=cmds, react=react, ops=ops, tie=tie, eager=eager, **kw)
            D.append(c)
    SP = ["spawnChild", "blocking_k1", "a", None]           # started in-line (no watcher thread)
    SPN = ["spawn", "k1", "a", None, False]                 # non-blocking spawn (sync: watcher thread)
    ping = ["sendTo", "a", 1, 30, "x"]
    # 1. the heartbeat: r -> a PING (delayed, id x); a replies PONG; r re-arms under the SAME id from inside the delivery
    #    (reply round trip); a cancel before the re-armed send is due must stop it.  (The seeded change is missed without this.)
    for nm, sp in (("blocking", SP), ("nonblocking", SPN)):
        add("rearm-same-id-roundtrip-" + nm, {"C0": [sp], "C1": [ping], "C2": [["cancel", "x"]]},
            {"k1": {"M1": [["sendParent", 2, None, None]]}, "r": {"M2": [ping]}},
            [["cmd", "r", "C0"], ["cmd", "r", "C1"], ["adv", 35], ["adv", 30], ["adv", 10], ["cmd", "r", "C2"], ["adv", 100]],
            variants=(("eager", True), ("lazy", False)))
    # 2. ... directly: the sender is its own addressee (through its systemId), the re-arm runs inside the delivery itself
    tick = ["sendTo", "S1", 1, 30, "x"]
    add("rearm-same-id-direct-sysid", {"C0": [["spawnChild", "blocking_k1", "a", "S1"]], "C1": [tick], "C2": [["cancel", "x"]]},
        {"k1": {"M1": [tick]}},
        [["cmd", "r", "C0"], ["cmd", "r:a", "C1"], ["adv", 35], ["adv", 30], ["adv", 10], ["cmd", "r:a", "C2"], ["adv", 100]])
    rz = ["raise", 1, 30, "x"]
    add("rearm-same-id-direct-raise", {"C0": [SP], "C1": [rz], "C2": [["cancel", "x"]]}, {"k1": {"M1": [rz]}, "r": {"M1": [rz]}},
        [["cmd", "r", "C0"], ["cmd", "r:a", "C1"], ["cmd", "r", "C1"], ["adv", 35], ["adv", 30], ["adv", 10], ["cmd", "r:a", "C2"], ["adv", 45],
         ["cmd", "r", "C2"], ["adv", 100]], tie=False)
    # 3. the reply is itself delayed and carries the same id string x: ids are per sender
    add("same-id-two-actors", {"C0": [SP], "C1": [ping], "C2": [["cancel", "x"]]},
        {"k1": {"M1": [["sendParent", 2, 17, "x"]]}, "r": {"M2": [ping]}},
        [["cmd", "r", "C0"], ["cmd", "r", "C1"], ["adv", 35], ["cmd", "r", "C2"], ["adv", 20], ["adv", 20], ["adv", 20], ["cmd", "r:a", "C2"], ["adv", 100]])
    add("same-id-two-actors-cancel-at-the-child", {"C0": [SP], "C1": [ping], "C2": [["cancel", "x"]]},
        {"k1": {"M1": [["sendParent", 2, 17, "x"]]}, "r": {"M2": [ping]}},
        [["cmd", "r", "C0"], ["cmd", "r", "C1"], ["adv", 35], ["cmd", "r:a", "C2"], ["adv", 20], ["cmd", "r", "C1"], ["adv", 40], ["cmd", "r:a", "C2"],
         ["adv", 10], ["cmd", "r", "C2"], ["adv", 100]])
    # 4. re-arm under a DIFFERENT id: cancel(x) reaches nothing (x has fired), cancel(y) stops the chain
    pingy = ["sendTo", "a", 1, 30, "y"]
    add("rearm-different-id", {"C0": [SP], "C1": [ping], "C2": [["cancel", "x"]], "C3": [["cancel", "y"]]},
        {"k1": {"M1": [["sendParent", 2, None, None]]}, "r": {"M2": [pingy]}},
        [["cmd", "r", "C0"], ["cmd", "r", "C1"], ["adv", 35], ["cmd", "r", "C2"], ["adv", 30], ["adv", 10], ["cmd", "r", "C3"], ["adv", 100]])
    # 5. cancel from INSIDE a delivery: of another pending id; of the id that has just fired (reaches nothing), then re-arm;
    #    re-arm and cancel at once
    add("cancel-other-id-inside-delivery", {"C0": [SP], "C1": [["sendTo", "a", 1, 26, "x"], ["sendTo", "a", 3, 47, "y"], ["sendTo", "a", 5, 58, None]]},
        {"k1": {"M1": [["sendParent", 2, None, None]]}, "r": {"M2": [["cancel", "y"]]}},
        [["cmd", "r", "C0"], ["cmd", "r", "C1"], ["adv", 30], ["adv", 30], ["adv", 30]])
    add("cancel-own-id-inside-delivery-then-rearm", {"C0": [SP], "C1": [ping], "C2": [["cancel", "x"]]},
        {"k1": {"M1": [["sendParent", 2, None, None]]}, "r": {"M2": [["cancel", "x"], ping]}},
        [["cmd", "r", "C0"], ["cmd", "r", "C1"], ["adv", 35], ["adv", 30], ["adv", 10], ["cmd", "r", "C2"], ["adv", 100]])
    add("rearm-then-cancel-inside-delivery", {"C0": [SP], "C1": [ping]},
        {"k1": {"M1": [["sendParent", 2, None, None]]}, "r": {"M2": [ping, ["cancel", "x"]]}},
        [["cmd", "r", "C0"], ["cmd", "r", "C1"], ["adv", 35], ["adv", 100]])
    add("child-cancels-its-own-reply-inside-delivery", {"C0": [SP], "C1": [["sendTo", "a", 1, 26, "x"], ["sendTo", "a", 3, 37, "y"]]},
        {"k1": {"M1": [["sendParent", 2, 40, "x"]], "M3": [["cancel", "x"]]}},
        [["cmd", "r", "C0"], ["cmd", "r", "C1"], ["adv", 30], ["adv", 30], ["adv", 60]])
    # 6. cancel right after the re-arm (same instant, next op) / right before the due time / after the fire
    add("cancel-right-after-rearm", {"C0": [SP], "C1": [ping], "C2": [["cancel", "x"]]},
        {"k1": {"M1": [["sendParent", 2, None, None]]}, "r": {"M2": [ping]}},
        [["cmd", "r", "C0"], ["cmd", "r", "C1"], ["adv", 30], ["cmd", "r", "C2"], ["adv", 100]])
    add("cancel-right-before-due", {"C0": [SP], "C1": [ping], "C2": [["cancel", "x"]]},
        {"k1": {"M1": [["sendParent", 2, None, None]]}, "r": {"M2": [ping]}},
        [["cmd", "r", "C0"], ["cmd", "r", "C1"], ["adv", 30], ["adv", 29], ["cmd", "r", "C2"], ["adv", 1], ["adv", 100]])
    add("cancel-after-the-fire-then-reuse", {"C0": [SP], "C1": [["sendTo", "a", 1, 30, "x"]], "C2": [["cancel", "x"]], "C3": [["sendTo", "a", 3, 20, "x"]]},
        {"k1": {"M1": [["sendParent", 2, None, None]]}, "r": {"M2": [["sendTo", "a", 5, 27, "y"]]}},
        [["cmd", "r", "C0"], ["cmd", "r", "C1"], ["adv", 35], ["cmd", "r", "C2"], ["cmd", "r", "C3"], ["adv", 30], ["adv", 50]])
    # 7. supersede while pending, from inside a delivery (of another chain)
    add("supersede-pending-inside-delivery", {"C0": [SP], "C1": [["sendTo", "a", 3, 57, "x"], ["sendTo", "a", 1, 26, "y"]]},
        {"k1": {"M1": [["sendParent", 2, None, None]]}, "r": {"M2": [["sendTo", "a", 5, 41, "x"]]}},
        [["cmd", "r", "C0"], ["cmd", "r", "C1"], ["adv", 30], ["adv", 30], ["adv", 30]])
    # 8. several pending sends with distinct ids while a heartbeat runs on one of them
    add("several-ids-pending", {"C0": [SP, ["spawnChild", "blocking_k2", "b", None]],
                                "C1": [ping, ["sendTo", "b", 3, 77, "y"], ["sendTo", "b", 5, 88, None], ["sendTo", "a", 6, 99, "z"]], "C2": [["cancel", "y"]], "C3": [["cancel", "x"]]},
        {"k1": {"M1": [["sendParent", 2, None, None]]}, "r": {"M2": [ping]}},
        [["cmd", "r", "C0"], ["cmd", "r", "C1"], ["adv", 35], ["cmd", "r", "C2"], ["adv", 30], ["cmd", "r", "C3"], ["adv", 60]])
    # 9. stop with sends pending: the recipient / the sender, from outside and from inside a delivery
    add("stop-recipient-with-heartbeat-pending", {"C0": [SP], "C1": [ping], "C2": [["stopChild", "a"]]},
        {"k1": {"M1": [["sendParent", 2, None, None]]}, "r": {"M2": [ping]}},
        [["cmd", "r", "C0"], ["cmd", "r", "C1"], ["adv", 35], ["cmd", "r", "C2"], ["adv", 100]])
    add("stop-sender-with-heartbeat-pending", {"C0": [SP], "C1": [["sendParent", 1, 30, "x"]], "C2": [["stopChild", "a"]]},
        {"r": {"M1": [["sendTo", "a", 2, None, None]]}, "k1": {"M2": [["sendParent", 1, 30, "x"]]}},
        [["cmd", "r", "C0"], ["cmd", "r:a", "C1"], ["adv", 35], ["adv", 30], ["cmd", "r", "C2"], ["adv", 100]])
    add("stop-the-sender-itself", {"C0": [SP], "C1": [["sendParent", 1, 30, "x"]]},
        {"r": {"M1": [["sendTo", "a", 2, None, None]]}, "k1": {"M2": [["sendParent", 1, 30, "x"]]}},
        [["cmd", "r", "C0"], ["cmd", "r:a", "C1"], ["adv", 35], ["stop", "r:a"], ["adv", 100]])
    add("stop-sender-inside-delivery", {"C0": [SP], "C1": [["sendParent", 1, 30, "x"], ["sendParent", 3, 55, "y"]]},
        {"r": {"M1": [["stopChild", "a"]]}},
        [["cmd", "r", "C0"], ["cmd", "r:a", "C1"], ["adv", 35], ["adv", 100]])
    add("stop-recipient-inside-delivery", {"C0": [SP], "C1": [["sendTo", "a", 1, 30, "x"], ["sendTo", "a", 3, 55, "y"]]},
        {"k1": {"M1": [["sendParent", 2, None, None]]}, "r": {"M2": [["stopChild", "a"]]}},
        [["cmd", "r", "C0"], ["cmd", "r", "C1"], ["adv", 35], ["adv", 100]])
    # 10. a parent relays the reply with forwardTo; the receiver of the forward keeps its own chain under the same id
    add("forward-reply-to-sibling", {"C0": [SP, ["spawnChild", "blocking_k2", "b", None]], "C1": [ping], "C2": [["cancel", "x"]]},
        {"k1": {"M1": [["sendParent", 2, None, None]]}, "r": {"M2": [ping, ["forwardTo", "b"]]}, "k2": {"M2": [["sendParent", 4, 21, "x"]]}},
        [["cmd", "r", "C0"], ["cmd", "r", "C1"], ["adv", 35], ["adv", 30], ["cmd", "r:b", "C2"], ["adv", 10], ["cmd", "r", "C2"], ["adv", 100]])
    # 11. three levels: the grandchild's heartbeat goes through the middle actor, both use id x
    add("three-levels", {"C0": [SP], "C1": [["spawnChild", "blocking_k2", "c", None]], "C2": [["sendTo", "c", 1, 30, "x"]], "C3": [["cancel", "x"]]},
        {"k2": {"M1": [["sendParent", 2, None, None]]}, "k1": {"M2": [["sendTo", "c", 1, 30, "x"], ["sendParent", 3, 19, "y"]]}},
        [["cmd", "r", "C0"], ["cmd", "r:a", "C1"], ["cmd", "r:a", "C2"], ["adv", 35], ["adv", 30], ["cmd", "r:a", "C3"], ["adv", 100]])
    return D


# ------------------------------------------------------------------------------------------ generator
def gen_case(seed, i):
    """a small tree (root, 1-2 children, sometimes a grandchild), reaction tables for the three kinds, then commands
    that start / cancel / supersede chains, advances of the clock and stops.  `tie` cases keep every reaction-triggering
    immediate send in the last position of its action list (see the module docstring)."""
    rng = random.Random(f"c15react/{seed}/{i}")
    tie = rng.random() < 0.7
    delays = list(DELAYS)
    rng.shuffle(delays)
    dl = [0]
    plain = [10]

    def delay():
        dl[0] += 1
        return delays[dl[0] % len(delays)] + (0 if dl[0] < len(delays) else 60)

    cmds = {}
    kids = []          # (id, kind, sysid)
    c0 = []
    for eid in rng.sample(["a", "b"], rng.choice([1, 1, 2])):
        kind = rng.choice(KINDS)
        sid = "S1" if (not any(k[2] for k in kids) and rng.random() < 0.45) else None
        how = rng.random()
        c0.append(["spawnChild", ("blocking_" if how < 0.4 else "") + kind, eid, sid] if how < 0.7 else ["spawn", kind, eid, sid, rng.random() < 0.5])
        kids.append(("r:" + eid, kind, sid))
    cmds["C0"] = c0
    ops = [["cmd", "r", "C0"]]
    grand = None
    if rng.random() < 0.3:
        p = rng.choice(kids)
        gk = rng.choice(KINDS)
        cmds["C1"] = [["spawnChild", "blocking_" + gk, "c", None]]
        ops.append(["cmd", p[0], "C1"])
        grand = (p[0] + ":c", gk, None, p)
    sysid = next((k[2] for k in kids if k[2]), None)
    child_kinds = {k[1] for k in kids} | ({grand[1]} if grand else set())

    def targets(kind):
        """addressing forms a machine of this kind may use for a child / itself / its parent"""
        if kind == "r":
            t = [k[0][2:] for k in kids] + [k[1] for k in kids] + [k[0] for k in kids]
        else:
            t = ["parent", "parent"] + (["c"] if grand and grand[3][1] == kind else [])
        if sysid:
            t.append(sysid)
        if rng.random() < 0.08:
            t.append("zz")
        return t

    def one(kind, level, allow_trigger):
        """one action of a list run by a machine of `kind` (level: the message being answered, 0 for a command)"""
        r = rng.random()
        sid = rng.choice(SENDIDS) if rng.random() < 0.8 else None
        if r < 0.42:
            m = rng.choice(RMSG)
            if kind != "r" and rng.random() < 0.5:
                return ["sendParent", m, delay(), sid]
            return ["sendTo", rng.choice(targets(kind)), m, delay(), sid]
        if r < 0.60:
            return ["cancel", rng.choice(SENDIDS)]
        if r < 0.72 or not allow_trigger:
            plain[0] += 1
            if kind != "r" and rng.random() < 0.5:
                return ["sendParent", plain[0], None, None]
            return ["sendTo", rng.choice(targets(kind)), plain[0], None, None]
        ups = [m for m in RMSG if m > level]
        if not ups:
            return ["cancel", rng.choice(SENDIDS)]
        m = rng.choice(ups)
        if kind != "r" and rng.random() < 0.6:
            return ["sendParent", m, None, None]
        return ["sendTo", rng.choice(targets(kind)), m, None, None]

    def is_trigger(a):
        return a[0] in ("sendTo", "sendParent") and not a[-2] and a[-3] in RMSG or a[0] == "forwardTo"

    def action_list(kind, level, n):
        acts = [one(kind, level, allow_trigger=not tie) for _ in range(n)]
        if tie:
            acts = [a for a in acts if not is_trigger(a)]
            if rng.random() < 0.55:
                a = one(kind, level, allow_trigger=True)
                acts.append(a)
            # a trigger may only stand last
            acts = [a for j, a in enumerate(acts) if not is_trigger(a) or j == len(acts) - 1]
        return acts or [["cancel", rng.choice(SENDIDS)]]

    react = {}
    fwd_used = set()
    for kind in ["r"] + sorted(child_kinds):
        tab = {}
        for m in RMSG:
            if rng.random() < 0.45:
                acts = action_list(kind, m, rng.choice([1, 1, 2, 3]))
                # forwardTo: one kind per message at most, never through a systemId (no cycles inside one instant)
                if m not in fwd_used and rng.random() < 0.12:
                    t = [x for x in targets(kind) if x not in (sysid, "zz")]
                    if t and not (tie and acts and is_trigger(acts[-1])):
                        acts.append(["forwardTo", rng.choice(t)])
                        fwd_used.add(m)
                tab[f"M{m}"] = acts
        react[kind] = tab

    # heartbeats woven into the tables: P --ping(delayed, id)--> C --pong--> P re-arms (same id / another id / through the
    # actor's own systemId), with the command that starts the chain and the one that cancels it
    starters, cancels = [], []
    pairs = [("r", k) for k in kids] + ([(grand[3][0], grand)] if grand else [])
    kind_of = {"r": "r", **{k[0]: k[1] for k in kids}, **({grand[0]: grand[1]} if grand else {})}

    def put(kind, msg, acts, front=True):
        """merge a template's actions into the table entry, keeping a trigger in the last position"""
        old = react.setdefault(kind, {}).get(f"M{msg}", [])
        trig = [x for x in old + acts if is_trigger(x)]
        rest_old = [x for x in old if not is_trigger(x)]
        rest_new = [x for x in acts if not is_trigger(x)]
        react[kind][f"M{msg}"] = (rest_new + rest_old if front else rest_old + rest_new) + (trig[-1:] if tie else trig)

    for _ in range(rng.choice([1, 1, 2])):
        shape = rng.random()
        sid = rng.choice(SENDIDS)
        if shape < 0.2 and sysid:
            # self-scheduling through the own systemId: the re-arm runs inside the delivery itself
            me = next(k for k in kids if k[2] == sysid)
            m = rng.choice(RMSG)
            d = delay()
            put(me[1], m, [["sendTo", sysid, m, d, sid]], front=rng.random() < 0.5)
            starters.append((me[0], [["sendTo", sysid, m, d, sid]]))
            cancels.append((me[0], sid))
            continue
        P, C = rng.choice(pairs)
        ping, pong = sorted(rng.sample(RMSG, 2))
        spec = rng.choice([C[0][len(P) + 1:], C[0][len(P) + 1:], C[0], C[1]])
        d = delay()
        arm = ["sendTo", spec, ping, d, sid]
        if shape < 0.75:
            reply = ["sendParent", pong, None, None]                     # immediate reply: the re-arm happens inside the delivery
        else:
            reply = ["sendParent", pong, delay(), rng.choice([sid, sid, None])]   # delayed reply under the same id string
        rearm = list(arm)
        if rng.random() < 0.25:
            rearm[4] = "y" if sid == "x" else "x"                        # re-arm under a different id
        extra = []
        if rng.random() < 0.3:
            extra = [["cancel", rng.choice(SENDIDS)]]
        put(C[1], ping, [reply])
        put(kind_of[P], pong, ([rearm] + extra) if rng.random() < 0.5 else (extra + [rearm]), front=rng.random() < 0.5)
        starters.append((P, [arm]))
        cancels.append((P, sid))
        if rearm[4] != sid:
            cancels.append((P, rearm[4]))
    react = {k: t for k, t in react.items() if t}

    alive = ["r"] + [k[0] for k in kids] + ([grand[0]] if grand else [])
    nops = rng.randint(6, 11)
    started = False
    for j in range(nops):
        r = rng.random()
        if started and r < 0.36:
            ops.append(["adv", rng.choice([10, 20, 30, 30, 50])])
            continue
        if starters and (not started or r < 0.46):
            p, acts = starters[rng.randrange(len(starters))]
            if p in alive:
                name = f"C{len(cmds) + 1}"
                cmds[name] = ([one(kind_of[p], 0, False)] if rng.random() < 0.3 else []) + list(acts)
                ops.append(["cmd", p, name])
                started = True
                continue
        if started and cancels and r < 0.62:
            p, sid = cancels[rng.randrange(len(cancels))]
            if p in alive:
                name = f"C{len(cmds) + 1}"
                cmds[name] = [["cancel", sid]] + ([one(kind_of[p], 0, False)] if rng.random() < 0.3 else [])
                ops.append(["cmd", p, name])
                continue
        p = "r" if rng.random() < 0.5 else (rng.choice(alive) if alive else "r")
        if j > 2 and r < 0.72 and len(alive) > 1:
            v = rng.choice([a for a in alive if a != "r"]) if rng.random() < 0.9 else "r"
            if rng.random() < 0.5 and v.count(":") == 1:
                name = f"C{len(cmds) + 1}"
                cmds[name] = [["stopChild", v[2:]]]
                ops.append(["cmd", "r", name])
            else:
                ops.append(["stop", v])
            alive = [a for a in alive if not (a == v or a.startswith(v + ":"))] if v != "r" else []
            if not alive:
                break
            continue
        name = f"C{len(cmds) + 1}"
        cmds[name] = action_list(kind_of[p], 0, rng.choice([1, 2, 2, 3]))
        ops.append(["cmd", p, name])
        started = True
    ops.append(["adv", 90])
    return {"id": f"c15-react-{seed}-{i}", "kinds": KINDS, "invoke": {"r": None, "k1": None, "k2": None}, "cmds": cmds, "react": react,
            "ops": ops, "eager": rng.random() < 0.75, "profile": "reacting", "tie": tie, "react_limit": rng.choice([4, 6, 8])}


# ------------------------------------------------------------------------------------------ tie: reactions as explicit commands
def _rname(kind, msg):
    return f"R~{kind}~{msg}"


def model_script(case, flavor, reacts):
    """(lines for driver_actors, groups): groups[i] = the indices of the answer lines that belong to op i of the case
    (group 0 = the CASE line)"""
    cmds = dict(case["cmds"])
    for kind, tab in (case.get("react") or {}).items():
        for msg, acts in tab.items():
            cmds[_rname(kind, msg)] = [(["sendTo", a[1], int(msg[1:]), None, None] if a[0] == "forwardTo" else a) for a in acts]
    head = {"flavor": flavor, "eager": bool(case.get("eager", True)), "invoke": case.get("invoke") or {}, "cmds": cmds,
            "f71fixed": c15.f71_fixed()}
    lines = ["CASE " + json.dumps(head)]
    groups = [[0]]
    now = 0
    by_op = {}
    for r in sorted(reacts, key=lambda r: r["seq"]):
        by_op.setdefault(r["op"], []).append(r)
    for i, op in enumerate(case["ops"], start=1):
        g = []
        rs = by_op.get(i, [])
        if op[0] == "adv":
            cur = now
            for r in rs:
                if r["time"] > cur:
                    lines.append("OP " + json.dumps(["adv", r["time"] - cur]))
                    g.append(len(lines) - 1)
                    cur = r["time"]
                lines.append("OP " + json.dumps(["cmd", r["actor"], _rname(r["kind"], r["msg"])]))
                g.append(len(lines) - 1)
            now += op[1]
            if now > cur or not g:
                lines.append("OP " + json.dumps(["adv", now - cur]))
                g.append(len(lines) - 1)
        else:
            lines.append("OP " + json.dumps(op))
            g.append(len(lines) - 1)
            for r in rs:
                lines.append("OP " + json.dumps(["cmd", r["actor"], _rname(r["kind"], r["msg"])]))
                g.append(len(lines) - 1)
        groups.append(g)
    return lines, groups


def _strip(log):
    return [e for e in log if not e.startswith("R~")]


def merge_groups(answers, groups):
    """one model observation per op of the case: the state after the last command of the group, the warnings of all"""
    out = []
    for g in groups:
        obs = [answers[j] for j in g]
        last = obs[-1]
        out.append({"tree": [[d, aid, st, _strip(log)] for d, aid, st, log in last["tree"]], "reg": last["reg"],
                    "det": [[aid, st, _strip(log)] for aid, st, log in last["det"]],
                    "warn": [w for o in obs for w in o["warn"]], "afterstop": last["afterstop"],
                    "oos": any(o.get("oos") for o in obs), "inv": all(o.get("inv", True) for o in obs)})
    return out


def run_model_scripts(scripts):
    """scripts: [(lines, groups)] -> merged observations per script, one driver process"""
    import subprocess
    lines, spans = [], []
    for ls, _g in scripts:
        spans.append((len(lines), len(ls)))
        lines.extend(ls)
    if not lines:
        return []
    r = subprocess.run([c15.DRIVER], input="\n".join(lines) + "\n", capture_output=True, text=True, timeout=600)
    if r.returncode != 0:
        raise RuntimeError(f"driver_actors exit {r.returncode}: {r.stderr[:400]}")
    out = r.stdout.split("\n")
    if out and out[-1] == "":
        out.pop()
    if len(out) != len(lines):
        raise RuntimeError(f"driver_actors answered {len(out)} lines for {len(lines)} commands")
    res = []
    for (a, n), (_ls, groups) in zip(spans, scripts):
        ans = [json.loads(x) for x in out[a:a + n]]
        bad = next((x for x in ans if "err" in x), None)
        if bad:
            raise RuntimeError(f"driver_actors: {bad}")
        res.append(merge_groups(ans, groups))
    return res


def tied(case, res):
    """is this run compared with the model? (None = yes, else the reason why not)"""
    if not case.get("tie", False):
        return "not-tail-shaped"
    if any(a[0] == "raise" for acts in list(case["cmds"].values()) + [x for t in (case.get("react") or {}).values() for x in t.values()] for a in acts):
        return "raise"
    if res.get("same_instant"):
        return "same-instant"
    return None


def tie_one(case, flavor, res):
    """first difference between the run of the real engine and the model driven with the same scenario, or None"""
    mobs = run_model_scripts([model_script(case, flavor, res["reacts"])])[0]
    return c15.diff(res["obs"], mobs), mobs


# ------------------------------------------------------------------------------------------ the check
def c15_reacting(tier, seed, n_quick=150, scale=10):
    n = n_quick * (scale if tier == "thorough" else 1)
    open_f = c15._open_findings()
    ties, fails, samples = [], [], []
    evals = nontrivial = 0
    known = {}
    feats = {"reactions": 0, "sends": 0, "cancels": 0, "tied": 0, "untied": {}, "fates": {}, "hang": 0}
    for flavor in ("sync", "async"):
        cases = directed_cases() + [gen_case(seed, i) for i in range(n)]
        ir = c15.run_impl_many(flavor, cases)
        ok = []
        for c, (st, res) in zip(cases, ir):
            evals += 1
            if st != "ok":
                try:
                    st, res = c15.core.pool().apply_async(c15._worker, ((flavor, c, 40),)).get(90)
                except Exception:
                    c15.core.close_pool()
            if st != "ok":
                feats["hang"] += 1
                fails.append({"kind": "hang" if st == "hang" else "raw-exception", "flavor": flavor, "case": c,
                              "detail": f"the real engine did not complete the op sequence: {st} {res}"})
                continue
            ok.append((c, res))
        scripts, who = [], []
        for c, res in ok:
            why = tied(c, res)
            if why is None:
                scripts.append(model_script(c, flavor, res["reacts"]))
                who.append((c, res))
            else:
                feats["untied"][why] = feats["untied"].get(why, 0) + 1
        mres = run_model_scripts(scripts)
        mobs_of = {id(c): m for (c, _r), m in zip(who, mres)}
        for c, res in ok:
            feats["reactions"] += len(res["reacts"])
            feats["sends"] += res["n_sends"]
            feats["cancels"] += res["n_cancels"]
            for k, v in res["fates"].items():
                feats["fates"][k] = feats["fates"].get(k, 0) + v
            mobs = mobs_of.get(id(c))
            oos_at = None
            if mobs is not None:
                feats["tied"] += 1
                d = c15.diff(res["obs"], mobs)
                if d is not None:
                    ties.append({"query": "actors-reacting", "flavor": flavor, "case": c, "first_difference": d})
                oos_at = next((i for i, o in enumerate(mobs) if o.get("oos")), None)
            if res["reacts"] and (res["fates"].get("rearmed-inside-own-delivery") or res["fates"].get("cancelled") or res["fates"].get("superseded")):
                nontrivial += 1
                if len(samples) < 2 and c["profile"] == "reacting" and len(json.dumps(c)) < 1800:
                    samples.append({"flavor": flavor, "case": c, "reactions": res["reacts"][:12], "fates": res["fates"], "final_tree": res["obs"][-1]["tree"]})
            for p in res["problems"]:
                if oos_at is not None and p["step"] >= oos_at:
                    continue
                fid = c15.classify(p, c, flavor, open_f)
                if fid:
                    known[fid] = known.get(fid, 0) + 1
                else:
                    fails.append({"kind": p["kind"], "flavor": flavor, "detail": p["detail"], "case": c, "problem": p})
    nd = len(directed_cases())
    return {"evaluations": evals, "nontrivial": nontrivial, "ties": ties, "fails": fails, "samples": samples, "exhaustive": False,
            "known_finding_hits": known, "features": feats,
            "what": f"REACTING machines (child->sendParent, parent->sendTo/forwardTo, self-scheduling): {nd} directed scenarios of the send-id "
                    f"lifecycle + {n} generated cases on both engines; {feats['reactions']} reactions, {feats['sends']} sends/stops, "
                    f"{feats['cancels']} cancels; fate of the delayed sends with an id {feats['fates']}; {feats['tied']} runs tied to the "
                    f"actor model (reactions as explicit commands), monitor-only {feats['untied']}; known-finding hits {known}"}
