"""Monitors that need more than one run of the implementation:
   C05 cross-engine agreement, C07 fault-free twin, C16 determinism across hash seeds / rebuilds."""
from __future__ import annotations
import copy, json, os, subprocess, sys, random
from . import core, gen, oracles


def _strip_hash(T):
    return [r for r in T if not r.startswith("#")]


# --------------------------------------------------------------------------------------------- C05
def c05_cross_engine(tier, seed, profiles=("core", "actions", "history", "done", "select", "parallways", "probe"), n=80):
    scale = 6 if tier == "thorough" else 1
    fails, samples = [], []
    evals = nontrivial = 0
    for prof in profiles:
        cs = [gen.gen_case(seed, prof, 5000 + i) for i in range(n * scale)]
        rs = core.run_impl_many("sync", cs)
        ra = core.run_impl_many("async", cs)
        for c, (s1, o1), (s2, o2) in zip(cs, rs, ra):
            evals += 1
            if s1 != "ok" or s2 != "ok":
                # a watchdog cut on a loaded machine is not a verdict: run both once more, alone, with a generous watchdog
                if "hang" in (s1, s2):
                    s1, o1 = core.impl_isolated(("sync", c, 40))
                    s2, o2 = core.impl_isolated(("async", c, 40))
                if s1 != "ok" or s2 != "ok":
                    if s1 != s2:
                        fails.append({"kind": "engines-disagree", "case": c, "detail": f"sync run: {s1}, async run: {s2}"})
                    continue
            pr = oracles.c05_engines_agree(c, {"sync": o1, "async": o2})
            if any(len(_strip_hash(o["T"])) for o in o1[1:]):
                nontrivial += 1
            if pr:
                fails.append({"kind": pr[0]["kind"], "case": c, "detail": pr[0]["detail"], "step": pr[0]["step"]})
            elif len(samples) < 2 and len(json.dumps(c)) < 2000:
                samples.append({"case": c, "final": o1[-1]["C"]})
    return {"evaluations": evals, "nontrivial": nontrivial, "ties": [], "fails": fails, "samples": samples, "exhaustive": False,
            "what": f"SyncInterpreter vs Interpreter on the same (machine, logic, events), compared at every drained point; profiles {list(profiles)}"}


# --------------------------------------------------------------------------------------------- C07
def _map_actions(machine, fn):
    """apply fn to every action list of the machine (entry, exit, transition actions, choose branches)"""
    m = copy.deepcopy(machine)

    def do_list(lst):
        if lst is None:
            return lst
        single = not isinstance(lst, list)
        items = [lst] if single else list(lst)
        for a in items:
            if isinstance(a, dict) and isinstance(a.get("params"), dict):
                for br in a["params"].get("conditions", []) or []:
                    if "actions" in br:
                        br["actions"] = do_list(br["actions"])
        out = fn(items)
        return out

    def do_trans(t):
        if isinstance(t, dict) and "actions" in t:
            t["actions"] = do_list(t["actions"])

    def walk(n):
        for k in ("entry", "exit"):
            if k in n:
                n[k] = do_list(n[k])
        for key in ("on", "after"):
            for ev, v in (n.get(key) or {}).items():
                for t in (v if isinstance(v, list) else [v]):
                    do_trans(t)
        for k in ("always", "onDone"):
            v = n.get(k)
            for t in (v if isinstance(v, list) else [v]):
                do_trans(t)
        for c in (n.get("states") or {}).values():
            walk(c)
    walk(m)
    return m


def fault_free_twin(machine):
    """every list is cut after its first failing action, and that action no longer fails"""
    def fn(items):
        out = []
        for a in items:
            if isinstance(a, str) and a.startswith("fail:"):
                out.append("fok:" + a[5:])
                break
            out.append(a)
        return out
    return _map_actions(machine, fn)


def _canon_faulty(T):
    out = []
    for r in T:
        if r.startswith("#aerr:fail:"):
            continue
        if r.startswith("fail:"):
            r = "fok:" + r[5:]
        out.append(r)
    return out


def c07_twin(tier, seed, n=500):
    scale = 6 if tier == "thorough" else 1
    fails, samples = [], []
    evals = nontrivial = 0
    for flavor in ("sync", "async"):
        cs = [gen.gen_case(seed, "faults", 7000 + i) for i in range(n * scale)]
        cs = [c for c in cs if "failing-action" in c["features"] and "missing-action" not in c["features"] and "async-action" not in c["features"]]
        twins = [dict(c, machine=fault_free_twin(c["machine"])) for c in cs]
        r1 = core.run_impl_many(flavor, cs)
        r2 = core.run_impl_many(flavor, twins)
        for c, tw, (s1, o1), (s2, o2) in zip(cs, twins, r1, r2):
            evals += 1
            if s1 != "ok" or s2 != "ok":
                if s1 != s2:
                    fails.append({"kind": "fault-changes-termination", "flavor": flavor, "case": c, "detail": f"faulty run: {s1}, fault-free twin: {s2}"})
                continue
            hit = False
            for step, (a, b) in enumerate(zip(o1, o2)):
                ta, tb = _canon_faulty(a["T"]), list(b["T"])
                nf = sum(1 for r in a["T"] if r.startswith("fail:"))
                na = sum(1 for r in a["T"] if r.startswith("#aerr:fail:"))
                hit = hit or nf > 0
                d = None
                if nf != na:
                    d = f"{nf} failing action(s) ran but on_action_error was notified {na} time(s)"
                elif sorted(a["C"]) != sorted(b["C"]) or a["S"] != b["S"] or a.get("K") != b.get("K") or a["E"] != b["E"]:
                    d = f"configuration/status/context differ from the fault-free run: {a['C']} {a['S']} vs {b['C']} {b['S']}"
                elif ta != tb:
                    k = next((i for i, (p, q) in enumerate(zip(ta, tb)) if p != q), min(len(ta), len(tb)))
                    d = f"actions differ from the fault-free run at {k}: faulty={ta[k:k+3]} fault-free={tb[k:k+3]}"
                if d:
                    fails.append({"kind": "failure-not-contained", "flavor": flavor, "case": c, "step": step, "detail": d})
                    break
            if hit:
                nontrivial += 1
                if len(samples) < 2 and len(json.dumps(c)) < 2500:
                    samples.append({"case": c, "flavor": flavor})
    return {"evaluations": evals, "nontrivial": nontrivial, "ties": [], "fails": fails, "samples": samples, "exhaustive": False,
            "what": "every run with raising actions vs its fault-free twin (each list cut after its first raising action, which no longer raises): configurations, status, context and all other actions must coincide; on_action_error once per failure"}


def c07_builtin_failure(case, obs, flavor):
    """a `choose` whose branch guard is not implemented fails inside the built-in: on_action_error must be
    notified with that action and the rest of the list skipped"""
    out = []
    for step, o in enumerate(obs):
        T = o["T"]
        for i, r in enumerate(T):
            if r.startswith("x:after-bad-choose"):
                out.append({"kind": "failure-not-contained", "step": step, "at": i, "detail": "the action after a failing built-in ran"})
        if any(r.startswith("tr:") and "badchoose" in r for r in T) and not any(r.startswith("#aerr:") for r in T):
            out.append({"kind": "action-error-not-notified", "step": step, "at": None, "detail": "a built-in action failed but on_action_error was not notified"})
    return out


def c07_builtin_cases(tier, seed):
    """directed cases: choose with an unimplemented guard / missing nested action, in every list position"""
    fails = []
    evals = 0
    cases = []
    bad = [{"type": "choose", "params": {"conditions": [{"guard": "gMissing", "actions": ["ch:0"]}]}},
           {"type": "xstate.choose", "params": {"conditions": [{"actions": ["missing:nested"]}]}},
           {"type": "choose", "params": {"conditions": [{"guard": {"type": "and", "children": ["g0", "gMissing"]}, "actions": ["ch:1"]}]}}]
    for bi, b in enumerate(bad):
        for where in ("transition", "entry", "exit"):
            acts = ["tr:a:GO:0:badchoose", b, "x:after-bad-choose"]
            m = {"id": "m", "initial": "a", "states": {"a": {"on": {"GO": {"target": "b", "actions": ["tr:a:GO:0:badchoose"]}}}, "b": {}}}
            if where == "transition":
                m["states"]["a"]["on"]["GO"]["actions"] = acts
            elif where == "entry":
                m["states"]["b"]["entry"] = acts[1:]
            else:
                m["states"]["a"]["exit"] = acts[1:]
            cases.append({"id": f"badchoose-{bi}-{where}", "machine": m, "guards": {"g0": "t"}, "events": ["GO"]})
    for flavor in ("sync", "async"):
        rs = core.run_impl_many(flavor, cases)
        for c, (st, obs) in zip(cases, rs):
            evals += 1
            if st != "ok":
                fails.append({"kind": "failure-not-contained", "flavor": flavor, "case": c, "detail": f"run ended with {st}"})
                continue
            pr = c07_builtin_failure(c, obs, flavor)
            if obs[-1]["C"] != ["m", "m.b"] or obs[-1]["S"] != "running" or obs[-1]["E"]:
                pr.append({"kind": "failure-not-contained", "detail": f"configuration {obs[-1]['C']} status {obs[-1]['S']} error {obs[-1]['E']}"})
            if pr:
                fails.append({"kind": pr[0]["kind"], "flavor": flavor, "case": c, "detail": pr[0]["detail"]})
    return {"evaluations": evals, "nontrivial": evals, "ties": [], "fails": fails, "samples": [{"case": cases[0]}], "exhaustive": True,
            "what": "a failing built-in (choose with unimplemented guard / missing nested action) in transition, entry and exit lists, both engines"}


# --------------------------------------------------------------------------------------------- C16
_CHILD = r"""
import sys, json
sys.path.insert(0, sys.argv[1])
from xsmverif import impl
cases = json.load(open(sys.argv[2]))
junk = [object() for _ in range(int(sys.argv[3]))]      # perturb the heap layout
out = []
for fl, c in cases:
    st, obs = impl.run_guarded(fl, c, 8)
    out.append([st, obs])
json.dump(out, open(sys.argv[4], "w"))
"""


def run_in_subprocess(cases, hashseed, junk, tag):
    os.makedirs(core.WORK, exist_ok=True)
    inp = os.path.join(core.WORK, f"det_in_{tag}.json")
    outp = os.path.join(core.WORK, f"det_out_{tag}.json")
    json.dump(cases, open(inp, "w"))
    env = dict(os.environ, PYTHONHASHSEED=str(hashseed))
    env["PYTHONPATH"] = os.path.join(core.VERIF, "harness") + ":" + os.environ.get("PYTHONPATH", "")
    p = subprocess.Popen([sys.executable, "-c", _CHILD, os.path.join(core.VERIF, "harness"), inp, str(junk), outp], env=env,
                         stdout=subprocess.DEVNULL, stderr=subprocess.DEVNULL)
    return p, outp


def c16_determinism(tier, seed, n=60):
    scale = 5 if tier == "thorough" else 1
    cases = []
    for prof in ("history", "core", "done", "actions"):
        for i in range(n * scale // 2):
            c = gen.gen_case(seed, prof, 9000 + i)
            for fl in ("sync", "async"):
                cases.append((fl, c))
    # corpus of shapes where ordering has mattered before
    fdir = os.path.join(core.VERIF, "findings")
    for f in sorted(os.listdir(fdir)):
        r = json.load(open(os.path.join(fdir, f)))
        if r["property"] == "C16":
            for k in range(6):
                cases.append((r["flavor"] if r["flavor"] in ("sync", "async") else "sync", r["case"]))
    seeds = [(0, 0), (1, 1000), (12345, 37), (987654321, 50000)] if tier == "quick" else [(0, 0), (1, 1000), (2, 7), (12345, 37), (99, 333), (987654321, 50000), (4242, 123457)]
    procs = [run_in_subprocess(cases, hs, junk, f"{hs}_{junk}") for hs, junk in seeds]
    outs = []
    for p, path in procs:
        p.wait(timeout=1500)
        outs.append(json.load(open(path)) if os.path.exists(path) else None)
        try:
            os.remove(path)
        except OSError:
            pass
    fails, samples = [], []
    nontrivial = 0
    base = outs[0]
    if any(o is None for o in outs):
        raise core.CheckError("a determinism subprocess produced no output")
    for i, (fl, c) in enumerate(cases):
        a = base[i]
        if a[0] == "ok" and any(len(o["T"]) > 3 for o in a[1]):
            nontrivial += 1
        for k in range(1, len(outs)):
            b = outs[k][i]
            if a != b:
                d = "termination differs" if a[0] != b[0] else "?"
                if a[0] == "ok" and b[0] == "ok":
                    for step, (x, y) in enumerate(zip(a[1], b[1])):
                        if x != y:
                            keys = [kk for kk in x if x[kk] != y.get(kk)]
                            d = f"step {step}: {keys} differ between PYTHONHASHSEED={seeds[0][0]} and {seeds[k][0]}"
                            if "T" in keys:
                                j = next((jj for jj, (p, q) in enumerate(zip(x["T"], y["T"])) if p != q), 0)
                                d += f"; first differing record {x['T'][j:j+2]} vs {y['T'][j:j+2]}"
                            break
                fails.append({"kind": "nondeterministic", "flavor": fl, "case": c, "detail": d})
                break
        if len(samples) < 2 and len(json.dumps(c)) < 2000:
            samples.append({"case": c, "flavor": fl})
    return {"evaluations": len(cases) * len(seeds), "nontrivial": nontrivial, "ties": [], "fails": fails, "samples": samples, "exhaustive": False,
            "what": f"{len(cases)} (engine, case) pairs, each run in {len(seeds)} fresh processes with different PYTHONHASHSEED and heap layout; all observations must be byte-identical"}


# --------------------------------------------------------------------------------------------- C07 (re-arm)
def c07_rearm(tier, seed):
    """an aborted transition leaves the configuration as it was WITH the exited states' timers re-armed:
    abort in exit / transition / entry lists (missing implementation), owner timer and sibling-region timer;
    async engine on virtual time, sync engine with short real delays"""
    import asyncio, time
    from xstate_statemachine import create_machine, SyncInterpreter, Interpreter, MachineLogic
    from xstate_statemachine.exceptions import XStateMachineError
    from . import impl
    fails = []
    cases = []
    for where in ("exit", "transition", "entry"):
        for shape in ("owner", "sibling"):
            if shape == "owner":
                m = {"id": "m", "initial": "p", "states": {
                    "p": {"initial": "c", "after": {"40": {"target": ".d"}} if False else {"40": "#m.p.d"},
                          "states": {"c": {"on": {"GO": {"target": "#m.q"}}}, "d": {}}},
                    "q": {}}}
                m["states"]["p"] = {"initial": "c", "after": {"40": "#m.p.d"}, "states": {"c": {"on": {"GO": {"target": "#m.q"}}}, "d": {}}}
                tr = m["states"]["p"]["states"]["c"]["on"]["GO"]
                if where == "exit":
                    m["states"]["p"]["exit"] = ["nosuch"]
                elif where == "transition":
                    tr["actions"] = ["nosuch"]
                else:
                    m["states"]["q"]["entry"] = ["nosuch"]
                expect_after = ["m", "m.p", "m.p.d"]
            else:
                m = {"id": "m", "initial": "P", "states": {
                    "P": {"type": "parallel", "states": {
                        "r1": {"initial": "x", "states": {"x": {"after": {"40": "y"}}, "y": {}}},
                        "r2": {"initial": "u", "states": {"u": {"on": {"GO": {"target": "#m.q"}}}}}}},
                    "q": {}}}
                tr = m["states"]["P"]["states"]["r2"]["states"]["u"]["on"]["GO"]
                if where == "exit":
                    m["states"]["P"]["states"]["r2"]["states"]["u"]["exit"] = ["nosuch"]
                elif where == "transition":
                    tr["actions"] = ["nosuch"]
                else:
                    m["states"]["q"]["entry"] = ["nosuch"]
                expect_after = ["m", "m.P", "m.P.r1", "m.P.r1.y", "m.P.r2", "m.P.r2.u"]
            cases.append((f"{shape}-{where}", m, expect_after))
    evals = 0
    for name, m, expect_after in cases:
        # async, virtual time
        async def go():
            it = Interpreter(create_machine(json.loads(json.dumps(m)), logic=MachineLogic()))
            await it.start()
            await asyncio.sleep(0.010)
            await it.send("GO")
            await impl._drain(it)
            before = sorted(x.id for x in it._active_state_nodes)
            await asyncio.sleep(0.200)
            await impl._drain(it)
            after = sorted(x.id for x in it._active_state_nodes)
            st = it.status
            await it.stop()
            return before, after, st
        loop = impl.VirtualLoop()
        loop.set_exception_handler(lambda _l, _c: None)
        asyncio.set_event_loop(loop)
        try:
            before, after, st = loop.run_until_complete(go())
        except Exception as e:
            before, after, st = None, ["EXC:" + type(e).__name__], "?"
        finally:
            loop.close()
            asyncio.set_event_loop(None)
        evals += 1
        if after != expect_after or st != "running":
            fails.append({"kind": "abort-not-rearmed", "flavor": "async", "case": {"id": "rearm-" + name, "machine": m, "guards": {}, "events": ["GO"]},
                          "detail": f"{name}: after the aborted GO the rolled-back state's timer must still fire: expected {expect_after}, got {after} (status {st}; configuration right after the abort {before})"})
        # sync, real short delays
        it = SyncInterpreter(create_machine(json.loads(json.dumps(m)), logic=MachineLogic())).start()
        time.sleep(0.005)
        err = None
        try:
            it.send("GO")
        except XStateMachineError as e:
            err = type(e).__name__
        before = sorted(x.id for x in it._active_state_nodes)
        deadline = time.time() + 0.6
        after = before
        while time.time() < deadline:
            time.sleep(0.02)
            after = sorted(x.id for x in it._active_state_nodes)
            if after == expect_after:
                break
        st = it.status
        it.stop()
        evals += 1
        if after != expect_after or st != "running" or err is None:
            fails.append({"kind": "abort-not-rearmed", "flavor": "sync", "case": {"id": "rearm-" + name, "machine": m, "guards": {}, "events": ["GO"]},
                          "detail": f"{name}: expected the error to be raised from send() and the rolled-back timer to fire: expected {expect_after}, got {after} (status {st}, raised {err}; right after the abort {before})"})
    return {"evaluations": evals, "nontrivial": evals, "ties": [], "fails": fails, "samples": [{"machine": cases[0][1]}], "exhaustive": True,
            "what": "abort (missing action) in exit / transition / entry lists x timer owned by the rolled-back state / by a sibling region, both engines: configuration restored, error reported, timer still fires"}


# --------------------------------------------------------------------------------------------- C05 (pure API)
def _machine_fingerprint(machine):
    """deep structural fingerprint of a parsed machine definition (to check the pure API leaves it alone)"""
    out = []

    def tr(t):
        return (t.event, t.target_str, repr(getattr(t, "guard", None)), tuple(a.type for a in t.actions), bool(t.reenter))

    def walk(n):
        out.append((n.id, n.type, n.initial, tuple(sorted((k, tuple(tr(t) for t in v)) for k, v in n.on.items())),
                    tuple(a.type for a in n.entry), tuple(a.type for a in n.exit)))
        for c in n.states.values():
            walk(c)
    walk(machine)
    return tuple(out)


def _pure_run(case):
    import copy
    from xstate_statemachine import create_machine
    from xstate_statemachine.helpers import initial_transition, transition
    from . import impl
    log = []
    machine = create_machine(copy.deepcopy(case["machine"]), logic=impl.mklogic(log, case["guards"]))
    fp0 = _machine_fingerprint(machine)
    out = []
    snap, acts = initial_transition(machine)
    def hist_of(sn):
        h = getattr(sn, "history", None)
        return None if h is None else {k: list(v) for k, v in h.items()}
    out.append({"C": sorted(snap.configuration), "S": snap.status, "K": {k: v for k, v in snap.context.items() if isinstance(v, int)},
                "A": [a.type for a in acts], "ran": list(log), "H": hist_of(snap)})
    for ev in case["events"]:
        before = (sorted(snap.configuration), dict(snap.context), snap.status, hist_of(snap))
        log.clear()
        nxt, acts = transition(machine, snap, ev)
        after_in = (sorted(snap.configuration), dict(snap.context), snap.status, hist_of(snap))
        out.append({"C": sorted(nxt.configuration), "S": nxt.status, "K": {k: v for k, v in nxt.context.items() if isinstance(v, int)},
                    "A": [a.type for a in acts], "ran": list(log), "input_mutated": before != after_in, "H": hist_of(nxt)})
        snap = nxt
    return out, fp0 != _machine_fingerprint(machine)


def _pure_worker(case, watchdog=8):
    import signal
    from . import impl
    old = signal.signal(signal.SIGALRM, impl._alarm)
    signal.setitimer(signal.ITIMER_REAL, watchdog, 0.2)
    try:
        return ("ok", _pure_run(case))
    except impl.Hang:
        return ("hang", None)
    except Exception as e:
        return ("crash", f"{type(e).__name__}: {e}"[:200])
    finally:
        signal.setitimer(signal.ITIMER_REAL, 0)
        signal.signal(signal.SIGALRM, old)


def pure_compare(c, o1, pr):
    """problems (at most one) of the pure API run `pr` against the SyncInterpreter observations `o1`"""
    from .actions_names import BUILTINS
    pure, machine_mutated = pr
    if machine_mutated:
        return [{"kind": "pure-api-mutates-definition", "detail": "the machine definition changed during pure evaluation"}]
    for step, (a, b) in enumerate(zip(o1, pure)):
        if a.get("E"):
            break
        if b.get("ran"):
            return [{"kind": "pure-api-runs-user-code", "step": step, "detail": f"user actions ran inside the pure API: {b['ran'][:3]}"}]
        if b.get("input_mutated"):
            return [{"kind": "pure-api-mutates-snapshot", "step": step, "detail": "the snapshot passed to transition() was modified"}]
        st = {"active": "running"}.get(b["S"], b["S"])
        exp_actions = [r.rsplit("@", 1)[0] for r in a["T"] if not r.startswith("#")]
        got_actions = [x for x in b["A"] if x not in BUILTINS]
        diffs = []
        if sorted(a["C"]) != b["C"]:
            diffs.append("configuration")
        if a["S"] != st:
            diffs.append("status")
        if a.get("K") != b.get("K"):
            diffs.append("context")
        if exp_actions != got_actions:
            diffs.append("actions")
        # the remembered history (exposed by the snapshot since the repair of F4), owner -> ids in recorded order
        if b.get("H") is not None and b["H"] != {k: list(v) for k, v in a["H"].items()}:
            diffs.append("history")
        if diffs:
            # no tagging of the machine's features any more: while F4 / F5 / F32 were open the failure carried
            # `uses_history` / `after_done` / `has_builtin_followups` so that ANY disagreement on a machine with a history
            # state, after completion, or with a raise/choose action was classified as one of them
            return [{"kind": "pure-api-disagrees", "step": step,
                     "detail": f"pure API vs SyncInterpreter differ in {diffs}: sync C={a['C']} S={a['S']} pure C={b['C']} S={b['S']}; sync actions {exp_actions[:4]} pure {got_actions[:4]}"}]
    return []


def c05_pure(tier, seed, n=120):
    """pure functions vs SyncInterpreter on the same machine / events (monitor on the real code)"""
    scale = 6 if tier == "thorough" else 1
    fails, samples = [], []
    evals = nontrivial = 0
    cases = []
    for prof in ("core", "select", "done", "history", "actions", "loops"):
        for i in range(n * scale // 2):
            c = gen.gen_case(seed, prof, 12000 + i)
            if prof == "actions":
                # context may change only through `assign` for the comparison to be meaningful
                if any(f in c["features"] for f in ("ctx-action", "failing-action")):
                    continue
            cases.append(c)
    rs = core.run_impl_many("sync", cases)
    rp = core.pool().map(_pure_worker, cases, chunksize=4)
    for c, (s1, o1), (s2, pr) in zip(cases, rs, rp):
        evals += 1
        if s1 != "ok":
            continue
        if s2 == "hang":
            s2, pr = _pure_worker(c, 40)         # once more, alone, generous watchdog (a loaded machine)
        if s2 != "ok":
            fails.append({"kind": "pure-api-crash", "case": c, "detail": f"pure API: {s2} {pr}"})
            continue
        probs = pure_compare(c, o1, pr)
        if probs:
            fails.append(dict(probs[0], case=c))
        else:
            if any(len(o["T"]) for o in o1[1:]):
                nontrivial += 1
            if len(samples) < 2 and len(json.dumps(c)) < 1800:
                samples.append({"case": c})
    return {"evaluations": evals, "nontrivial": nontrivial, "ties": [], "fails": fails, "samples": samples, "exhaustive": False,
            "what": "initial_transition/transition chained over the event list vs SyncInterpreter: configuration, status, context, reported vs executed actions per step; no user code runs; definition and input snapshot unchanged"}


# ---------------------------------------------------------------------------------------------- C13: delayed self-sends
def _delay_some_raises(machine, rng, p=0.35):
    """give a share of the `raise` actions a long delay (they then sit in a timer and are never part of the chain the
    machine is running now); returns how many were delayed"""
    n = [0]

    def one(a):
        if isinstance(a, dict) and str(a.get("type", "")).endswith("raise") and isinstance(a.get("params"), dict) \
                and "delay" not in a["params"] and rng.random() < p:
            n[0] += 1
            q = copy.deepcopy(a)
            q["params"]["delay"] = rng.choice([60000, 120000, 3600000])
            if rng.random() < 0.4:
                q["params"]["id"] = f"d{n[0]}"
            return q
        return a

    def fn(items):          # _map_actions hands over whole action lists
        return [one(a) for a in items]
    return _map_actions(machine, fn), n[0]


def c13_delayed_self_sends(tier, seed, n=160):
    """C13 on machines whose `raise` actions are partly DELAYED (monitor on the real code, both engines; the engine
    model has no timers, so there is no tie here): a delayed self-send only sits in a timer - it must not count towards
    the chain breaker, must not keep the chain 'open', and the bound must still cut only chains longer than
    maxIterations.  Virtual time never advances between the events of a case, so a delayed event is never delivered;
    the monitors are `c13_short_chain_not_cut` and the legality monitor, and every run is under the watchdog (a hang
    is a violation)."""
    scale = 6 if tier == "thorough" else 1
    fails, samples = [], []
    evals = nontrivial = 0
    for flavor in ("async", "sync"):
        cases = []
        for i in range(n * scale):
            c = gen.gen_case(seed, "loopfaults" if i % 2 else "loops", 41000 + i)
            rng = random.Random((seed << 12) ^ i)
            m, k = _delay_some_raises(c["machine"], rng)
            if not k:
                continue
            c = dict(c, machine=m, id=c["id"] + "-delayed")
            # many short external bursts: every event of the list twice over
            c["events"] = (c["events"] * 3)[:24]
            cases.append(c)
        rs = core.run_impl_many(flavor, cases)
        for c, (st, obs) in zip(cases, rs):
            evals += 1
            if st == "hang":
                st2, obs2 = core.impl_isolated((flavor, c, 40))
                if st2 == "hang":
                    fails.append({"kind": "hang", "flavor": flavor, "case": c, "detail": "the engine did not come back (watchdog)"})
                    continue
                st, obs = st2, obs2
            if st != "ok":
                continue            # a raw exception escaping the API is C18's / C07's business
            probs = oracles.c13_short_chain_not_cut(c, obs, flavor) + oracles.c01_legal(c, obs, flavor)
            if probs:
                fails.append(dict(probs[0], flavor=flavor, case=c))
            elif any(o.get("self_sends") for o in obs):
                nontrivial += 1
                if len(samples) < 2 and len(json.dumps(c)) < 2000:
                    samples.append({"case": c, "flavor": flavor})
    return {"evaluations": evals, "nontrivial": nontrivial, "ties": [], "fails": fails, "samples": samples, "exhaustive": False,
            "what": "machines with delayed `raise` actions (long delays, some with ids), 24 events each, both engines: the chain breaker fires "
                    "only in steps with more than maxIterations self-sends, configurations stay legal, nothing hangs"}
