"""C10, supplement: the DATA of done events and the recorded machine output (monitor on the real code, both engines).

The engine model has no outputs; the property says: "... with the done event carrying the final state's output.
Entering a final child of the root sets the status to done exactly once and records the machine output
(machine-level output taking precedence)".  Small machines are generated: a compound state and a parallel state,
each with `onDone`, whose final children declare `output` values of every JSON shape (falsy ones included) or none;
the machine declares a top-level `output` or not; the root has a final child with its own output.  An action on every
`onDone` records `event.type` and `event.data`.  Expected, independently of the code:
  * done.state.<compound> carries the output of the final child that was entered;
  * done.state.<parallel> carries the output of the final state whose entry completed the LAST region;
  * each done event is raised exactly once per completion;
  * at top-level completion status is `done`, `interpreter.output` is the machine-level output when declared, else the
    output of the top-level final state.
"""
from __future__ import annotations
import asyncio
import copy
import json
import random

from . import core, impl

VALUES = [None, 0, False, "", [], {}, 1, "x", [0, 1], {"k": 2}, {"from": "state"}]
MISSING = object()


def _machine(rng):
    def fin(v):
        d = {"type": "final"}
        if v is not MISSING:
            d["output"] = v
        return d
    vals = {k: rng.choice(VALUES + [MISSING]) for k in ("ok", "alt", "f1", "f2", "top")}
    m = {"id": "m", "initial": "job",
         "states": {
             "job": {"initial": "run", "onDone": {"target": "both", "actions": ["saw"]},
                     "states": {"run": {"on": {"OK": "ok", "ALT": "alt"}}, "ok": fin(vals["ok"]), "alt": fin(vals["alt"])}},
             "both": {"type": "parallel", "onDone": {"target": "end", "actions": ["saw"]},
                      "states": {"r1": {"initial": "a", "states": {"a": {"on": {"A": "f1"}}, "f1": fin(vals["f1"])}},
                                 "r2": {"initial": "b", "states": {"b": {"on": {"B": "f2"}}, "f2": fin(vals["f2"])}}}},
             "end": fin(vals["top"])}}
    mo = rng.choice([MISSING, MISSING, {"from": "machine"}, 0, "m", []])
    if mo is not MISSING:
        m["output"] = mo
    first = rng.choice(["OK", "ALT"])
    order = rng.choice([["A", "B"], ["B", "A"]])
    events = [first] + order
    exp = {"job": vals["ok" if first == "OK" else "alt"], "both": vals["f2" if order[-1] == "B" else "f1"]}
    exp = {k: (None if v is MISSING else v) for k, v in exp.items()}
    exp_out = mo if mo is not MISSING else (None if vals["top"] is MISSING else vals["top"])
    return m, events, exp, exp_out


def _run(args):
    flavor, machine, events = args

    def runner(_case):
        from xstate_statemachine import Interpreter, MachineLogic, SyncInterpreter, create_machine
        seen = []

        def saw(i, c, e, a):
            seen.append([getattr(e, "type", None), copy.deepcopy(getattr(e, "data", None))])
        logic = MachineLogic(actions={"saw": saw})
        mm = create_machine(copy.deepcopy(machine), logic=logic)
        if flavor == "sync":
            it = SyncInterpreter(mm).start()
            for e in events:
                it.send(e)
            res = {"seen": seen, "status": it.status, "output": copy.deepcopy(it.output), "C": sorted(it.current_state_ids)}
            it.stop()
            return res

        async def go():
            it = Interpreter(mm)
            await it.start()
            for e in events:
                await it.send(e)
                await impl._drain(it)
            res = {"seen": seen, "status": it.status, "output": copy.deepcopy(it.output), "C": sorted(it.current_state_ids)}
            await it.stop()
            return res
        loop = impl.VirtualLoop()
        loop.set_exception_handler(lambda _l, _c: None)
        asyncio.set_event_loop(loop)
        try:
            return loop.run_until_complete(go())
        finally:
            loop.close()
            asyncio.set_event_loop(None)
    impl.RUNNERS["c10data"] = runner
    try:
        return impl.run_guarded("c10data", None, 20)
    finally:
        impl.RUNNERS.pop("c10data", None)


def _same(a, b):
    return a == b and type(a) is type(b)


def c10_done_data(tier, seed):
    rng = random.Random(seed * 9173 + 11)
    n = 120 if tier == "quick" else 1200
    cases = []
    for _ in range(n):
        m, events, exp, exp_out = _machine(rng)
        for flavor in ("sync", "async"):
            cases.append((flavor, m, events, exp, exp_out))
    res = core.pool().map(_run, [(c[0], c[1], c[2]) for c in cases], chunksize=8)
    fails, samples = [], []
    nontrivial = 0
    for (flavor, m, events, exp, exp_out), (st, r) in zip(cases, res):
        key = {"machine": m, "events": events}
        if st == "hang":
            st, r = _run((flavor, m, events))
        if st != "ok":
            fails.append({"kind": "hang" if st == "hang" else "raw-exception", "flavor": flavor, "case": key, "detail": f"{st}: {r}"})
            continue

        def bad(kind, detail):
            fails.append({"kind": kind, "flavor": flavor, "case": key, "detail": detail})
        by = {}
        for t, d in r["seen"]:
            by.setdefault(t, []).append(d)
        for sid in ("job", "both"):
            got = by.get("done.state.m." + sid, [])
            if len(got) != 1:
                bad("done-event-count", f"done.state.m.{sid} seen {len(got)} time(s) by its onDone action")
            elif not _same(got[0], exp[sid]):
                bad("done-data", f"done.state.m.{sid} carried {got[0]!r}; the final state that completed it declares output {exp[sid]!r}")
        if r["status"] != "done":
            bad("not-completed", f"status {r['status']} after the top-level final state was entered (configuration {r['C']})")
        elif not _same(r["output"], exp_out):
            bad("machine-output", f"interpreter.output is {r['output']!r}, expected {exp_out!r} (machine-level output takes precedence)")
        if any(v not in (None,) for v in exp.values()):
            nontrivial += 1
        if len(samples) < 2 and not fails:
            samples.append({"events": events, "seen": r["seen"], "output": r["output"]})
    return {"evaluations": len(cases), "nontrivial": nontrivial, "ties": [], "fails": fails, "samples": samples, "exhaustive": False,
            "what": "done data and recorded output on generated machines (compound + parallel with onDone, final children with outputs of every JSON "
                    "shape or none, machine-level output present or not), both engines: done.state.<id> carries the output of the final state that "
                    "completed it, once; interpreter.output at completion"}
