"""Classifiers of the open C15 findings (problems of the actor monitor, c15_impl.post_op)."""
from __future__ import annotations


# ---- C15: problems of the actor monitor (c15_impl.post_op); `att` = the send/stop observed when it was issued
def _c15_att_flags(prob):
    out = []
    if prob.get("att"):
        out.append(prob["att"])
    out.extend(prob.get("attempts") or [])
    return out


def _c15_registry_keeps_stopped(prob, case, flavor):
    return prob.get("kind") == "registry-keeps-stopped-actor" and not prob.get("direct_stopchild_target")


def _c15_received_after_stop(prob, case, flavor):
    return prob.get("kind") == "received-after-stop" and flavor == "async"


def _c15_respawned_id(prob, case, flavor):
    # an unlisted running actor whose id was spawned twice - unless the actor was stopped (by a stopChild, or by the
    # respawn that replaced it) before its watcher thread had started it: that is F52, whatever the id history
    return (prob.get("kind") in ("orphan", "spawned-child-not-in-children-map", "running-under-stopped-ancestor")
            and prob.get("id_reused") is True and not _c15_sync_unstarted(prob, case, flavor))


def _respawned_before_start(prob, case):
    """sync engine, watcher threads scheduled late (`eager` false): the actor's explicit id is spawned twice,
    non-blocking, inside ONE action list, so the first child was still unstarted when the second spawn stopped and
    replaced it (`stop()` of an unstarted interpreter is a no-op); its thread starts it afterwards"""
    if case.get("eager", True) or not prob.get("id_reused"):
        return False
    last = str(prob.get("actor", "")).rsplit(":", 1)[-1]
    for acts in (case.get("cmds") or {}).values():
        sp = [(a[2], (a[0] == "spawn" and not a[4]) or (a[0] == "spawnChild" and not str(a[1]).startswith("blocking_")))
              for a in acts if a[0] in ("spawn", "spawnChild")]
        for i, (eid, lazy) in enumerate(sp):
            if lazy and eid and eid == last and any(e2 == last for e2, _l in sp[i + 1:]):
                return True
    return False


def _c15_sync_unstarted(prob, case, flavor):
    if flavor != "sync":
        return False
    k = prob.get("kind")
    if k in ("orphan", "running-under-stopped-ancestor", "spawned-child-not-in-children-map") and _respawned_before_start(prob, case):
        return True
    if k == "stop-missed-unstarted-child":
        return True
    if k == "lost" and prob.get("recipient_status_at_send") == "uninitialized":
        return True
    if k in ("orphan", "running-under-stopped-ancestor", "spawned-child-not-in-children-map", "spawn-not-registered") and prob.get("stopped_before_start"):
        return True
    if k == "warnings" and any(a.get("target_status") == "uninitialized" for a in _c15_att_flags(prob)):
        return True
    return False


def _c15_source_key(prob, case, flavor):
    k = prob.get("kind")
    if k in ("delivered-but-should-not", "warnings", "subtree-not-stopped", "misdelivered", "duplicated"):
        return any((a.get("flags") or {}).get("stage") == "source" for a in _c15_att_flags(prob))
    if k in ("orphan", "spawned-child-not-in-children-map", "running-under-stopped-ancestor", "spawn-not-registered", "spawn-not-started"):
        # a stopChild by a service key shared by several explicit-id children stopped "the first" instead of nobody
        return any((a.get("flags") or {}).get("stage") == "source" and a.get("expect") != "actor" for a in prob.get("stops_in_op") or [])
    return False


def _c15_parent_segment(prob, case, flavor):
    k = prob.get("kind")
    if k in ("lost", "misdelivered", "delivered-but-should-not", "subtree-not-stopped", "warnings", "duplicated"):
        return any((a.get("flags") or {}).get("spec_is_own_segment") for a in _c15_att_flags(prob))
    if k in ("orphan", "spawned-child-not-in-children-map", "running-under-stopped-ancestor", "spawn-not-registered", "spawn-not-started"):
        # a stopChild whose key equals one of the caller's own id segments hit a child nobody addressed
        return any((a.get("flags") or {}).get("spec_is_own_segment") and a.get("expect") != "actor" for a in prob.get("stops_in_op") or [])
    return False


def _c15_completed_invoked_child(prob, case, flavor):
    """F71 (async engine): a running actor below an INVOKED machine that finished by itself (status done / error) and was
    dropped from its parent's children map un-stopped - seen at once (`running-under-dropped-finished-ancestor`) or when
    an actor further up is stopped later and the stop does not reach it (`running-under-stopped-ancestor`).  Only when the
    finished, never-stopped actor above it is one the case INVOKES (`invoke` of its parent's kind) and only for cases
    that complete actors at all; every other orphan / zombie is still a violation"""
    if flavor != "async" or not case.get("completion"):
        return False
    if prob.get("kind") not in ("running-under-dropped-finished-ancestor", "running-under-stopped-ancestor"):
        return False
    fa = prob.get("finished_unstopped_ancestor")
    if not fa or prob.get("id_reused"):
        return False
    # an invoked child of the async engine is named <parent id>:<src>:u<n>, <src> being what the parent's kind invokes
    segs = str(fa).split(":")
    if len(segs) < 3 or not (segs[-1].startswith("u") and segs[-1][1:].isdigit()):
        return False
    return segs[-2] in [v for v in (case.get("invoke") or {}).values() if v]


CLASSIFIERS = {
    "c15-registry-keeps-stopped-actor": _c15_registry_keeps_stopped,
    "c15-async-stopped-actor-processes-queued-event": _c15_received_after_stop,
    "c15-respawned-id-orphans-previous-actor": _c15_respawned_id,
    "c15-sync-child-not-started-when-spawn-returns": _c15_sync_unstarted,
    "c15-source-key-fallback-not-ambiguity-checked": _c15_source_key,
    "c15-segment-match-includes-parents-own-segments": _c15_parent_segment,
    "c15-async-completed-invoked-child-dropped-unstopped": _c15_completed_invoked_child,
}
